package rules

import (
	"go/ast"
	"go/types"
	"sort"
	"strings"

	"verif/mlbcheck/chk"
)

const bgpc = "(*speaker.bgpController)."

func init() {
	register(&Prop{
		ID: "C05",
		Explanation: "Decided (on all paths): (*bgpController).SetBalancer builds, for every address and every BGP advertisement of the pool that selects this node " +
			"(and only those), one advertisement whose prefix is the address masked with AggregationLength (IPv4) / AggregationLengthV6 (IPv6) of that same " +
			"advertisement and whose local preference, peers and communities come from it; nothing else can skip a pair (AD-BUILD); communities taken from a Go map " +
			"are sorted before the advertisement is stored (MAPORDER); publishAds gives every live session exactly adsForPeer(its own peer name, all " +
			"advertisements of all services) and records the same list; adsForPeer keeps an advertisement exactly when MatchesPeer, which is true exactly " +
			"for an empty peer list or a listed name (PUBLISH, MATCH-PEER); every change of svcAds or of the set of live sessions reaches updateAds, and " +
			"updateAds hands the published lists to notifyAdsChanged (REPUBLISH); a session is created only for a peer whose node selectors match (or that has " +
			"none) and closed when they stop matching (SYNC-SELECT); every field of config.Peer is consumed and flows into its SessionParameters field " +
			"(COVER-PEER); activeAds is replaced wholesale, only by notifyAdsChanged, from the lists actually published (ACTIVE-ADS).",
		NotDecided: "Equality of the offered route set with the specification for every configuration as values; withdraw timing inside the sessions (C17); " +
			"behaviour of the three Session.Set implementations for duplicates (C14-C17).",
		Run: runC05,
		Mutants: []Mutant{
			{Name: "setconfig-returns-before-syncing-peers", File: "speaker/bgp_controller.go",
				Old: "\treturn c.syncPeers(l)\n}\n\nfunc (c *bgpController) SetEventCallback", New: "\tif len(newPeers) == 0 {\n\t\treturn nil\n\t}\n\treturn c.syncPeers(l)\n}\n\nfunc (c *bgpController) SetEventCallback", Expect: "CONFIG-SYNCED"},
			{Name: "pool-count-carried-across-pools", File: "speaker/main.go",
				Old: "\tfor pname, p := range pools.ByName {\n\t\tcnt := 0\n", New: "\tcnt := 0\n\tfor pname, p := range pools.ByName {\n", Expect: "POOL-OF-ADDRESSES"},
			{Name: "empty-peer-node-selector-dropped", File: "internal/config/config.go",
				Old: "\t\t\treturn nil, errors.Join(err, fmt.Errorf(\"failed to convert peer %s node selector\", p.Name))\n\t\t}\n", New: "\t\t\treturn nil, errors.Join(err, fmt.Errorf(\"failed to convert peer %s node selector\", p.Name))\n\t\t}\n\t\tif labelSelector.Empty() {\n\t\t\tcontinue\n\t\t}\n", Expect: "PEER-SELECTORS"},
			{Name: "last-node-selector-wins", File: "internal/config/config.go",
				Old: "\t\tfor _, s := range labelSelectors {\n\t\t\tnodeLabels := labels.Set(node.Labels)\n\t\t\tif s.Matches(nodeLabels) {\n\t\t\t\tres[node.Name] = true\n\t\t\t\tcontinue OUTER\n\t\t\t}\n\t\t}\n\t}\n\treturn res, nil",
				New: "\t\tselected := false\n\t\tfor _, s := range labelSelectors {\n\t\t\tnodeLabels := labels.Set(node.Labels)\n\t\t\tselected = s.Matches(nodeLabels)\n\t\t}\n\t\tif selected {\n\t\t\tres[node.Name] = true\n\t\t\tcontinue OUTER\n\t\t}\n\t}\n\treturn res, nil", Expect: "every-matching-node"},
			{Name: "setconfig-success-when-pools-unchanged", File: "speaker/main.go",
				Old: "\tc.config = cfg\n\n\treturn controllers.SyncStateReprocessAll",
				New: "\tsame := c.config != nil && c.config.Pools == cfg.Pools\n\tc.config = cfg\n\tif same {\n\t\treturn controllers.SyncStateSuccess\n\t}\n\n\treturn controllers.SyncStateReprocessAll", Expect: "RESYNC"},
			{Name: "report-index-read-without-mask-length", File: "speaker/bgp_controller.go",
				Old: "\t\t\tadSvcs := pfxToSvc[ad.Prefix.String()]\n", New: "\t\t\tadSvcs := pfxToSvc[ad.Prefix.IP.String()]\n", Expect: "REPORT-KEY"},
			{Name: "label-change-judged-by-conflicts", File: "speaker/bgp_controller.go",
				Old: "\tif c.nodeLabels != nil && labels.Equals(c.nodeLabels, ns) {", New: "\tif c.nodeLabels != nil && !labels.Conflicts(c.nodeLabels, ns) {", Expect: "LABEL-RESYNC"},
			{Name: "node-filter-dropped", File: "speaker/bgp_controller.go",
				Old: "\t\t\tif !adCfg.Nodes[c.myNode] {\n\t\t\t\tcontinue\n\t\t\t}\n", New: "", Expect: "AD-BUILD"},
			{Name: "v4-length-for-v6", File: "speaker/bgp_controller.go",
				Old: "m = net.CIDRMask(adCfg.AggregationLengthV6, 128)", New: "m = net.CIDRMask(adCfg.AggregationLength, 128)", Expect: "AD-BUILD"},
			{Name: "set-unfiltered", File: "speaker/bgp_controller.go",
				Old: "\t\tads := adsForPeer(peer.cfg.Name, allAds)\n", New: "\t\tads := allAds\n", Expect: "PUBLISH"},
			{Name: "delete-without-update", File: "speaker/bgp_controller.go",
				Old: "\tdelete(c.svcAds, name)\n\treturn c.updateAds()", New: "\tdelete(c.svcAds, name)\n\treturn nil", Expect: "REPUBLISH"},
			{Name: "close-without-refresh", File: "speaker/bgp_controller.go",
				Old: "\t\t\tp.session = nil\n\t\t\t// The set of live sessions changed, the peers each service is\n\t\t\t// advertised to must be recomputed.\n\t\t\tneedUpdateAds = true\n", New: "\t\t\tp.session = nil\n", Expect: "REPUBLISH"},
			{Name: "error-return-before-republish", File: "speaker/bgp_controller.go",
				Old: "\tif needUpdateAds {\n\t\t// Some new sessions came up, resync advertisement state.\n\t\tif err := c.updateAds(); err != nil {\n\t\t\tlevel.Error(l).Log(\"op\", \"updateAds\", \"error\", err, \"msg\", \"failed to update BGP advertisements\")\n\t\t\treturn err\n\t\t}\n\t}\n\tif errs > 0 {\n\t\treturn fmt.Errorf(\"%d BGP sessions failed to start\", errs)\n\t}\n",
				New: "\tif errs > 0 {\n\t\treturn fmt.Errorf(\"%d BGP sessions failed to start\", errs)\n\t}\n\tif needUpdateAds {\n\t\t// Some new sessions came up, resync advertisement state.\n\t\tif err := c.updateAds(); err != nil {\n\t\t\tlevel.Error(l).Log(\"op\", \"updateAds\", \"error\", err, \"msg\", \"failed to update BGP advertisements\")\n\t\t\treturn err\n\t\t}\n\t}\n", Expect: "REPUBLISH"},
			{Name: "per-service-prefix-dedupe", File: "speaker/bgp_controller.go",
				Old: "\t\t\tm := net.CIDRMask(adCfg.AggregationLength, 32)\n", New: "\t\t\tif len(c.svcAds[name]) > 0 && adCfg.LocalPref == 0 {\n\t\t\t\tcontinue\n\t\t\t}\n\t\t\tm := net.CIDRMask(adCfg.AggregationLength, 32)\n", Expect: "AD-BUILD"},
			{Name: "multihop-not-forwarded", File: "speaker/bgp_controller.go",
				Old: "\t\t\t\tEBGPMultiHop:    p.cfg.EBGPMultiHop,\n", New: "", Expect: "COVER-PEER"},
			{Name: "session-for-unselected-node", File: "speaker/bgp_controller.go",
				Old: "\t\t\tif ns.Matches(c.nodeLabels) {\n\t\t\t\tshouldRun = true", New: "\t\t\tif ns.Matches(c.nodeLabels) || ns.Empty() {\n\t\t\t\tshouldRun = true", Expect: "SYNC-SELECT"},
			{Name: "communities-unsorted", File: "speaker/bgp_controller.go",
				Old: "\t\t\tsort.Slice(ad.Communities, func(i, j int) bool { return ad.Communities[i].LessThan(ad.Communities[j]) })\n", New: "\t\t\tsort.Slice(ad.Peers, func(i, j int) bool { return ad.Peers[i] < ad.Peers[j] })\n", Expect: "MAPORDER"},
			{Name: "matchespeer-prefix-match", File: "internal/bgp/bgp.go",
				Old: "\t\tif peer == peerName {", New: "\t\tif peer == peerName || peer == \"\" {", Expect: "MATCH-PEER"},
			{Name: "activeads-mutated-in-place", File: "speaker/bgp_controller.go",
				Old: "\tc.activeAds = newActiveAds\n}", New: "\tfor k := range c.activeAds {\n\t\tdelete(c.activeAds, k)\n\t}\n\tfor k, v := range newActiveAds {\n\t\tc.activeAds[k] = v\n\t}\n}", Expect: "ACTIVE-ADS"},
			{Name: "localpref-from-first-adv", File: "speaker/bgp_controller.go",
				Old: "\t\t\t\tLocalPref: adCfg.LocalPref,", New: "\t\t\t\tLocalPref: pool.BGPAdvertisements[0].LocalPref,", Expect: "AD-BUILD"},
		},
	})
}

func runC05(p *chk.Prog, r *chk.Report) {
	// the per-peer lists share their advertisement objects: no session writes through them (SET-READONLY, shared with C17)
	setReadonlyRule(p, r)
	c05AliasFirst(p, r)
	// a known peer is carried over or closed, never lost with its session open (PEERS-CONSERVED, shared with C09)
	peersConservedRule(p, r)
	// the advertisements applied are those of the pool that owns the addresses now (POOL-CURRENT, shared with C09)
	c09PoolCurrent(p, r)
	c05PoolOfAddresses(p, r)
	c05PeerSelectors(p, r)
	// what is offered for a pool is what was attached to it (ATTACH, shared with C08)
	c08Attach(p, r)
	scratchRule(p, r, "speaker", "internal/bgp")
	ka := r.Rule("KEYED-ACCUMULATOR", "B path", "in package speaker a fresh set / slice / map is stored under m[k] inside a loop only when the key is absent (comma-ok false, nil, or empty), for every map whose entries are accumulated into (notifyAdsChanged: prefix -> services, service -> peers)", 2)
	keyedAccumulatorRule(ka, p, "speaker")
	c05Build(p, r)
	c05Publish(p, r)
	c05Republish(p, r)
	c05Select(p, r)
	c05ConfigSynced(p, r)
	c05Cover(p, r)
	c05Active(p, r)
	c05ReportKey(p, r)
	// the node labels the selectors are evaluated against follow the node (LABEL-RESYNC, shared with C09)
	c09NodeLabels(p, r)
	// a configuration change that closes sessions is followed by a full pass over the services, which is what
	// recomputes the reported peers (RESYNC, shared with C09)
	c09Resync(p, r)
	// the nodes an advertisement is announced from are the nodes that any one of its selectors matches (SELECT, shared
	// with C08): SetBalancer skips an advertisement whose Nodes leaves this node out
	c08Select(p, r)
}

func c05Build(p *chk.Prog, r *chk.Report) {
	x := r.Rule("AD-BUILD", "B path + E sibling", "in (*bgpController).SetBalancer, for lbIP ranging over lbIPs and adCfg over pool.BGPAdvertisements: the only way to skip a pair is the false edge of adCfg.Nodes[c.myNode]; the stored advertisement has Prefix{IP: lbIP.Mask(m), Mask: m}, m = CIDRMask(adCfg.AggregationLength, 32) replaced exactly under lbIP.To4() == nil by CIDRMask(adCfg.AggregationLengthV6, 128); LocalPref = adCfg.LocalPref; Peers are a copy of adCfg.Peers; Communities are the keys of adCfg.Communities", 7)
	f := need(x, p, "speaker", "bgpController", "SetBalancer")
	if f == nil {
		return
	}
	g := f.Graph()
	name := isParam(f, "name")
	ipLoops := f.RangeLoops(isParam(f, "lbIPs"))
	var adLoop, ipLoop *ast.RangeStmt
	for _, l := range ipLoops {
		ipLoop = l
	}
	for _, l := range f.RangeLoops(func(e ast.Expr) bool {
		return f.MatchWith("P.BGPAdvertisements", e, chk.H("P", isParam(f, "pool"))) != nil
	}) {
		if ipLoop != nil && chk.InBody(ipLoop, l) {
			adLoop = l
		}
	}
	// or over the advertisements that select this node, collected once into a list beforehand
	preSelected := false
	if ipLoop != nil && adLoop == nil {
		isAdvs := func(e ast.Expr) bool {
			return f.MatchWith("P.BGPAdvertisements", e, chk.H("P", isParam(f, "pool"))) != nil
		}
		selectsMe := func(el func(ast.Expr) bool, pos bool) chk.Guard {
			return g.GPat(pos, "A.Nodes[RECV.myNode]", chk.H("A", el))
		}
		for _, l := range f.RangeLoops(func(e ast.Expr) bool { return filteredList(f, g, e, isAdvs, selectsMe) }) {
			if chk.InBody(ipLoop, l) {
				adLoop, preSelected = l, true
			}
		}
	}
	if ipLoop == nil || adLoop == nil {
		x.Fail("SetBalancer:loops", f.Pos(), "no nested loops over lbIPs and pool.BGPAdvertisements")
		return
	}
	ip, adc := rangeVal(f, ipLoop), rangeVal(f, adLoop)
	stores, _ := bgpAdAppends(f, g, name, ipLoop)
	if len(stores) != 1 || !chk.InBody(adLoop, stores[0].Node) {
		x.Fail("SetBalancer:store-site", f.Pos(), "expected one append to c.svcAds[name] inside the advertisement loop")
		return
	}
	st := stores[0]
	adVar := st.Node.(*ast.AssignStmt).Rhs[0].(*ast.CallExpr).Args[1]
	selects := g.GPat(true, "A.Nodes[RECV.myNode]", chk.H("A", adc))
	x.Check("SetBalancer:ad:node-selected", st.Pos(), preSelected || g.Dominated(st, selects), "", "an advertisement that does not select this node produces a route")
	notSel := g.GPat(false, "A.Nodes[RECV.myNode]", chk.H("A", adc))
	if preSelected {
		notSel = chk.NoGuard // every element of the list selects the node: none may be skipped
	}
	skip := loopSkipsWithout(g, adLoop, func(n ast.Node) bool { return n == st.Top }, notSel)
	x.Check("SetBalancer:ad:every-selected-pair", adLoop.Pos(), !skip && !loopHasBreak(g, adLoop), "", "an (address, advertisement) pair that selects this node can be skipped")
	x.Check("SetBalancer:ad:every-address", ipLoop.Pos(), !loopHasBreak(g, ipLoop) && !loopSkipsWithout(g, ipLoop, func(n ast.Node) bool { return n == ast.Node(adLoop.X) }, chk.NoGuard), "", "an address of the service can be skipped")
	// the literal
	lit := ast.Expr(nil)
	if id, ok := ast.Unparen(adVar).(*ast.Ident); ok {
		lit, _ = g.DefOf(id, st)
	}
	var maskObj types.Object
	litOK := false
	if lit != nil {
		if b := f.MatchWith("&bgp.Advertisement{Prefix: &net.IPNet{IP: ADDR.Mask(M), Mask: M}, LocalPref: A.LocalPref}", lit, chk.H("ADDR", ip), chk.H("A", adc)); b != nil {
			litOK = true
			maskObj = f.ObjOf(b["M"])
		}
	}
	x.Check("SetBalancer:ad:prefix-and-localpref", st.Pos(), litOK, "", "the advertisement is not {Prefix: lbIP masked with m / m, LocalPref: adCfg.LocalPref} of the advertisement being processed")
	// mask definitions
	if maskObj != nil {
		defs := assignsTo(f, maskObj)
		okMask := len(defs) == 2
		n4, n6 := 0, 0
		for _, d := range defs {
			as := d.(*ast.AssignStmt)
			site := g.Find(func(n ast.Node) bool { return n == ast.Node(as) })
			switch {
			case f.MatchWith("net.CIDRMask(A.AggregationLength, 32)", as.Rhs[0], chk.H("A", adc)) != nil:
				n4++
			case f.MatchWith("net.CIDRMask(A.AggregationLengthV6, 128)", as.Rhs[0], chk.H("A", adc)) != nil && len(site) == 1 && g.Dominated(site[0], g.GPat(true, "IP.To4() == nil", chk.H("IP", ip))):
				n6++
				// exactly under To4() == nil: the v6 branch always assigns
				for _, e := range g.EdgesImplying(g.GPat(true, "IP.To4() == nil", chk.H("IP", ip))) {
					if g.BranchAlways(e, func(n ast.Node) bool { return n == ast.Node(as) }).Found {
						okMask = false
					}
				}
			default:
				okMask = false
			}
		}
		if !(okMask && n4 == 1 && n6 == 1) {
			// by value: the mask used in the literal, in the executions with an IPv4 (IPv6) address, is CIDRMask of that
			// family's aggregation length and address size - whichever way the two arguments were selected
			okMask, n4, n6 = c05MaskByValue(f, g, lit, maskObj, ip, adc), 1, 1
		}
		x.Check("SetBalancer:ad:aggregation-length-per-family", st.Pos(), okMask && n4 == 1 && n6 == 1, "", "the mask is not CIDRMask(AggregationLength, 32) for IPv4 and CIDRMask(AggregationLengthV6, 128) exactly for IPv6 addresses")
	}
	// peers
	peers := g.Find(func(n ast.Node) bool {
		as, ok := n.(*ast.AssignStmt)
		if !ok || len(as.Lhs) != 1 || len(as.Rhs) != 1 || f.MatchWith("AD.Peers", as.Lhs[0], chk.H("AD", func(e ast.Expr) bool { return f.SameExpr(e, adVar) })) == nil {
			return false
		}
		// all of adCfg.Peers appended to the advertisement's own (still empty) list or to a fresh one, or a clone
		base := func(e ast.Expr) bool {
			e = ast.Unparen(e)
			return f.IsNilLit(e) || f.MatchWith("AD.Peers", e, chk.H("AD", func(x ast.Expr) bool { return f.SameExpr(x, adVar) })) != nil ||
				f.MatchWith("make([]string, 0, ETC)", e) != nil || f.MatchWith("make([]string, 0)", e) != nil || f.MatchWith("[]string{}", e) != nil
		}
		if c, isCall := ast.Unparen(as.Rhs[0]).(*ast.CallExpr); isCall && c.Ellipsis.IsValid() && len(c.Args) == 2 {
			if id, isId := c.Fun.(*ast.Ident); isId && id.Name == "append" && base(c.Args[0]) && f.MatchWith("A.Peers", c.Args[1], chk.H("A", adc)) != nil {
				return true
			}
		}
		return f.MatchWith("slices.Clone(A.Peers)", as.Rhs[0], chk.H("A", adc)) != nil
	})
	isVariadicCopy := len(peers) == 1
	if isVariadicCopy {
		// reached whenever len(adCfg.Peers) > 0
		for _, e := range g.EdgesImplying(g.GPat(true, "len(A.Peers) > 0", chk.H("A", adc))) {
			if g.BranchAlways(e, func(n ast.Node) bool { return n == peers[0].Top }).Found {
				isVariadicCopy = false
			}
		}
		if !g.EdgeImpliesAny(g.GPat(true, "len(A.Peers) > 0", chk.H("A", adc))) {
			// unconditional copy is fine too
			w := g.MustPass(chk.Site{G: g, B: bodyStart(g, adLoop).B, I: -1}, func(n ast.Node) bool { return n == st.Top }, false, func(n ast.Node) bool { return n == peers[0].Top })
			isVariadicCopy = !w.Found
		}
	}
	x.Check("SetBalancer:ad:peers", st.Pos(), isVariadicCopy, "", "the advertisement's peer list is not the peer list of the BGP advertisement being processed")
	// communities
	commOK := false
	for _, rs := range f.RangeLoops(func(e ast.Expr) bool { return f.MatchWith("A.Communities", e, chk.H("A", adc)) != nil }) {
		app := func(n ast.Node) bool {
			return f.IsAssignPat("AD.Communities", "append(AD.Communities, K)", chk.H("K", rangeKey(f, rs)))(n)
		}
		commOK = !loopCanSkip(g, rs, app) && !loopHasBreak(g, rs)
		if !commOK {
			// the keys collected into a local list that becomes the advertisement's list (maps.Keys + slices.Collect)
			for _, as := range g.Find(f.IsAssignPat("AD.Communities", "L")) {
				lid, ok := ast.Unparen(f.Resolve(as.Node.(*ast.AssignStmt).Rhs[0])).(*ast.Ident)
				if !ok || !g.AfterLoop(as, rs) {
					continue
				}
				l := f.ObjOf(lid)
				appL := func(n ast.Node) bool {
					return f.IsAssignPat("L", "append(L, K)", chk.H("L", f.IsObj(l)), chk.H("K", rangeKey(f, rs)))(n)
				}
				if l != nil && !loopCanSkip(g, rs, appL) && !loopHasBreak(g, rs) && startsEmptyBefore(f, g, l, rs) {
					commOK = true
				}
			}
		}
	}
	x.Check("SetBalancer:ad:communities", st.Pos(), commOK, "", "the advertisement does not carry every community of the BGP advertisement being processed")

	y := r.Rule("MAPORDER", "A map order", "the communities appended while ranging over the map adCfg.Communities are sorted (sort.Slice on ad.Communities with a comparator indexing only that slice) on every path before the advertisement is stored", 1)
	var sc *chk.SortCall
	for _, c := range p.SortCalls() {
		if c.Fn == f && f.MatchNew("AD.Communities", c.Slice) != nil {
			c := c
			sc = &c
		}
	}
	okSort := sc != nil
	if okSort {
		idx, _ := sc.IndexesOnlySorted()
		ss := g.Find(func(n ast.Node) bool { return n == ast.Node(sc.Call) })
		okSort = idx && len(ss) == 1
		if okSort {
			// from the last community append (loop) to the store, the sort is passed
			w := g.MustPass(chk.Site{G: g, B: bodyStart(g, adLoop).B, I: -1}, func(n ast.Node) bool { return n == st.Top }, false, func(n ast.Node) bool { return n == ss[0].Top })
			okSort = !w.Found
			// and the sort comes after the community loop
			for _, rs := range f.RangeLoops(func(e ast.Expr) bool { return f.MatchWith("A.Communities", e, chk.H("A", adc)) != nil }) {
				okSort = okSort && g.AfterLoop(ss[0], rs)
			}
		}
	}
	y.Check("SetBalancer:communities-sorted-before-store", st.Pos(), okSort, "", "the community list of a stored advertisement is in Go map iteration order (two evaluations of the same input differ; the sessions see spurious changes)")
}

// publishHost / publishRecord: where PUBLISH found the publishing loop when publishAds is folded into its caller, and
// the per-peer record it fills (read by REPUBLISH in the same run).
var (
	publishHost              *chk.Fn
	publishRecord            types.Object
	publishRecordIsPrefixSet bool // the record holds the prefixes (A.Prefix.String()) of the published lists
)

func c05Publish(p *chk.Prog, r *chk.Report) {
	publishHost, publishRecord, publishRecordIsPrefixSet = nil, nil, false

	x := r.Rule("PUBLISH", "B path + E sibling", "in (*bgpController).publishAds: allAds receives every advertisement of every service; every peer with a live session (the only skip is peer.session == nil) gets peer.session.Set(adsForPeer(peer.cfg.Name, allAds)...) and adsSet[peer.cfg.Name] records the same list; a Set error is returned", 5)
	f := p.LookupFunc("speaker", "bgpController", "publishAds")
	if f == nil {
		// folded into its caller: the method of bgpController that hands the lists to the sessions is judged in its place
		var hosts []*chk.Fn
		for _, cf := range p.FuncsIn("speaker") {
			if rv := cf.Recv(); rv == nil || cf.Decl == nil || !strings.HasSuffix(rv.Type().String(), "speaker.bgpController") {
				continue
			}
			if len(cf.Graph().FindPat("P.session.Set(ADS...)")) > 0 {
				hosts = append(hosts, cf)
			}
		}
		if len(hosts) == 1 {
			f = hosts[0]
			publishHost = f
		} else {
			f = need(x, p, "speaker", "bgpController", "publishAds")
		}
	}
	adsInPlace := false
	if f != nil {
		g := f.Graph()
		var all types.Object
		okAll := false
		for _, rs := range f.RangeLoops(recvFieldOrPassed(p, f, "bgpController", "svcAds")) {
			apps := g.Find(func(n ast.Node) bool {
				return chk.InBody(rs, n) && f.IsAssignPat("ALL", "append(ALL, ADS...)", chk.H("ADS", rangeVal(f, rs)))(n)
			})
			if len(apps) == 1 {
				all = f.ObjOf(apps[0].Node.(*ast.AssignStmt).Lhs[0])
				okAll = !loopCanSkip(g, rs, func(n ast.Node) bool { return n == apps[0].Top }) && !loopHasBreak(g, rs)
			}
		}
		x.Check("publishAds:all-services", f.Pos(), okAll, "", "the advertisements of some service can be left out of what is published")
		for _, rs := range f.RangeLoops(recvFieldOrPassed(p, f, "bgpController", "peers")) {
			peer := rangeVal(f, rs)
			viaHelper := definedBy(g, "adsForPeer(P.cfg.Name, ALL)", chk.H("P", peer), chk.H("ALL", f.IsObj(all)))
			inPlaceFilter := false
			ads := func(e ast.Expr) bool {
				if viaHelper(e) {
					return true
				}
				// the same selection written in place: the advertisements a of allAds with a.MatchesPeer(peer.cfg.Name)
				isFiltered := func(x ast.Expr) bool {
					return filteredList(f, g, x, f.IsObj(all), func(a func(ast.Expr) bool, pos bool) chk.Guard {
						return g.GPat(pos, "A.MatchesPeer(P.cfg.Name)", chk.H("A", a), chk.H("P", peer))
					})
				}
				if isFiltered(e) {
					inPlaceFilter = true
					return true
				}
				// ... or that list, with nil standing for it when it is empty (`if len(res) == 0 { return nil }; return res`)
				if id, isId := ast.Unparen(e).(*ast.Ident); isId {
					if vals, okV := g.ReachingValues(id, g.FactSite(id)); okV && len(vals) >= 1 {
						var list ast.Expr
						good := true
						for _, v := range vals {
							if v.Rhs != nil && !f.IsNilLit(v.Rhs) {
								if list != nil && !f.SameExpr(list, v.Rhs) {
									good = false
								}
								list = v.Rhs
							}
						}
						if good && list != nil && isFiltered(list) {
							for _, v := range vals {
								if v.Rhs == nil {
									good = false
								} else if f.IsNilLit(v.Rhs) && !g.Dominated(v.Def, g.GPat(true, "len(L) == 0", chk.H("L", func(y ast.Expr) bool { return f.SameExpr(y, list) }))) {
									good = false
								}
							}
							if good {
								inPlaceFilter = true
								return true
							}
						}
					}
				}
				return false
			}
			sets := g.FindPat("P.session.Set(ADS...)", chk.H("P", peer))
			okSet := len(sets) == 1 && ads(sets[0].Node.(*ast.CallExpr).Args[0])
			x.Check("publishAds:set-gets-ads-for-that-peer", rs.Pos(), okSet, "", "a session is given something other than adsForPeer(its own peer name, all advertisements)")
			if len(sets) == 1 {
				skip := loopSkipsWithout(g, rs, func(n ast.Node) bool { return chk.Encloses(n, sets[0].Node) }, g.GPat(true, "P.session == nil", chk.H("P", peer)))
				x.Check("publishAds:every-live-session", rs.Pos(), !skip && !loopHasBreak(g, rs), "", "a peer with a live session can be skipped")
				for _, e := range g.EdgesImplying(g.GErrNil(false, "P.session.Set(ETC)", chk.H("P", peer))) {
					w := g.BranchAlways(e, func(n ast.Node) bool {
						rt, ok := n.(*ast.ReturnStmt)
						return ok && len(rt.Results) >= 1 && !f.IsNilLit(rt.Results[len(rt.Results)-1])
					})
					x.Check("publishAds:set-error-returned", posOf(w, f), !w.Found, "", "an error of Session.Set is swallowed")
				}
			}
			rec := g.Find(f.IsAssignPat("M[P.cfg.Name]", "ADS", chk.H("P", peer), chk.H("ADS", ads)))
			if len(rec) == 0 && len(sets) == 1 {
				// what is recorded is derived from the list handed to the session: the set of its prefixes, one Insert of
				// A.Prefix.String() for every element A of that list (no skip), into a set made in this iteration
				for _, st := range g.Find(f.IsAssignPat("M[P.cfg.Name]", "V", chk.H("P", peer))) {
					vid, isId := ast.Unparen(st.Node.(*ast.AssignStmt).Rhs[0]).(*ast.Ident)
					if !isId {
						continue
					}
					vdef, _ := g.DefOf(vid, st)
					if vdef == nil || !isFreshContainer(f, vdef) || !chk.InBody(rs, g.FactSite(vdef).Top) {
						continue
					}
					isV := f.IsObj(f.ObjOf(vid))
					ins := g.FindPat("V.Insert(E)", chk.H("V", isV))
					okIns := len(ins) == 1
					for _, in := range ins {
						lp, isLp := f.LoopOf(in.Node).(*ast.RangeStmt)
						okIns = okIns && isLp && ads(lp.X) && f.MatchWith("A.Prefix.String()", in.Node.(*ast.CallExpr).Args[0], chk.H("A", rangeVal(f, lp))) != nil &&
							!loopCanSkip(g, lp, func(n ast.Node) bool { return n == in.Top }) && !loopHasBreak(g, lp)
					}
					if okIns {
						rec = append(rec, st)
						publishRecordIsPrefixSet = true
					}
				}
			}
			x.Check("publishAds:record-matches-published", rs.Pos(), len(rec) == 1, "", "the recorded per-peer list is not the list handed to the session")
			if len(rec) == 1 {
				publishRecord = f.RootObj(rec[0].Node.(*ast.AssignStmt).Lhs[0])
			}
			if inPlaceFilter {
				adsInPlace = true
			}
		}
	}
	y := r.Rule("MATCH-PEER", "B path", "speaker.adsForPeer appends an advertisement exactly when a.MatchesPeer(peerName) (no other skip); bgp.(*Advertisement).MatchesPeer returns true only behind len(a.Peers) == 0 or peer == peerName for a listed peer, and false after the whole list was scanned", 4)
	af := p.LookupFunc("speaker", "", "adsForPeer")
	if af == nil && adsInPlace {
		y.OK("adsForPeer:exactly-matching", 0, "the selection is made in place in publishAds (decided there)")
	} else if af == nil {
		af = need(y, p, "speaker", "", "adsForPeer")
	}
	if af != nil {
		g := af.Graph()
		ok := false
		for _, rs := range af.RangeLoops(isParamIdx(af, 1)) {
			a := rangeVal(af, rs)
			m := g.GPat(true, "A.MatchesPeer(N)", chk.H("A", a), chk.H("N", isParamIdx(af, 0)))
			apps := g.Find(func(n ast.Node) bool {
				return chk.InBody(rs, n) && af.IsAssignPat("R", "append(R, A)", chk.H("A", a))(n)
			})
			if len(apps) == 1 {
				ok = g.Dominated(apps[0], m) && !loopHasBreak(g, rs) &&
					!loopSkipsWithout(g, rs, func(n ast.Node) bool { return n == apps[0].Top }, g.GPat(false, "A.MatchesPeer(N)", chk.H("A", a), chk.H("N", isParamIdx(af, 0))))
				// result is that list (or nil when empty)
				res := af.ObjOf(apps[0].Node.(*ast.AssignStmt).Lhs[0])
				for _, rt := range g.Returns() {
					rr := retResults(rt)
					if len(rr) != 1 || !(af.ObjOf(rr[0]) == res || (af.IsNilLit(rr[0]) && g.Dominated(rt, g.GPat(true, "len(R) == 0", chk.H("R", af.IsObj(res)))))) {
						ok = false
					}
				}
			}
		}
		y.Check("adsForPeer:exactly-matching", af.Pos(), ok, "", "adsForPeer does not return exactly the advertisements that match the peer")
	}
	mp := need(y, p, "internal/bgp", "Advertisement", "MatchesPeer")
	if mp != nil {
		g := mp.Graph()
		recv := chk.H("RECV", isRecv(mp))
		// an element of a.Peers: the value of a range over it, or a.Peers[k]
		listed := func(e ast.Expr) bool {
			for _, rs := range mp.RangeLoops(func(x ast.Expr) bool { return mp.MatchWith("RECV.Peers", x, recv) != nil }) {
				if rangeVal(mp, rs)(e) {
					return true
				}
			}
			if ix, ok := ast.Unparen(mp.Resolve(e)).(*ast.IndexExpr); ok {
				return mp.MatchWith("RECV.Peers", ix.X, recv) != nil
			}
			return false
		}
		just := chk.GOr(g.GPat(true, "len(RECV.Peers) == 0", recv), g.GPat(true, "P == N", chk.H("P", listed), chk.H("N", isParamIdx(mp, 0))))
		nret := 0
		for _, rt := range g.Returns() {
			rr := retResults(rt)
			if len(rr) != 1 {
				continue
			}
			nret++
			switch {
			case mp.IsConstBool(rr[0], true):
				y.Check("MatchesPeer:true@"+itoa(nret), rt.Pos(), g.Dominated(rt, just), "", "MatchesPeer can be true for a peer the advertisement does not name")
			case mp.IsConstBool(rr[0], false):
				okk := false
				for _, rs := range mp.RangeLoops(func(e ast.Expr) bool { return mp.MatchWith("RECV.Peers", e, recv) != nil }) {
					okk = g.AfterLoop(rt, rs) && !loopHasBreak(g, rs)
				}
				y.Check("MatchesPeer:false-after-scan", rt.Pos(), okk && g.Dominated(rt, g.GPat(false, "len(RECV.Peers) == 0", recv)), "", "MatchesPeer can be false for an empty peer list or without scanning the whole list")
			default:
				// a result variable / expression: true only with the justification. (That it is false only after the
				// whole list was compared is decided for the early-return form only.)
				okk := g.DominatedAssuming(rt, rr[0], true, just)
				if id, isId := ast.Unparen(rr[0]).(*ast.Ident); isId && !okk {
					if v, isVar := mp.ObjOf(id).(*types.Var); isVar {
						okk, _ = flagTrueOnlyIf(mp, g, v, just)
					}
				}
				y.Check("MatchesPeer:result-true-only-when-listed", rt.Pos(), okk, "", "MatchesPeer can be true for a peer the advertisement does not name")
			}
		}
		y.Check("MatchesPeer:compares-the-list", mp.Pos(), g.EdgeImpliesAny(g.GPat(true, "P == N", chk.H("P", listed), chk.H("N", isParamIdx(mp, 0)))) ||
			len(g.FindPat("P == N", chk.H("P", listed), chk.H("N", isParamIdx(mp, 0)))) > 0, "", "MatchesPeer never compares a listed peer with the name")
		y.Check("MatchesPeer:empty-list-means-all", mp.Pos(), len(g.FindPat("len(RECV.Peers) == 0", recv)) > 0, "", "MatchesPeer has no rule for the empty peer list")
	}
}

func c05Republish(p *chk.Prog, r *chk.Report) {
	x := r.Rule("REPUBLISH", "B path", "every change of c.svcAds or of the set of live sessions reaches c.updateAds(): SetBalancer and DeleteBalancer before their success return; in syncPeers every write to p.session is followed, before the next peer is examined, by needUpdateAds = true, and after the peer loop every path on which the flag may be set calls updateAds before any return; updateAds passes the result of publishAds to notifyAdsChanged", 7)
	sb := need(x, p, "speaker", "bgpController", "SetBalancer")
	if sb != nil {
		g := sb.Graph()
		w := g.MustPass(chk.Site{}, func(n ast.Node) bool {
			rs, ok := n.(*ast.ReturnStmt)
			return ok && len(rs.Results) == 1 && sb.IsNilLit(rs.Results[0])
		}, false, sb.ContainsPat("RECV.updateAds()"))
		x.Check("SetBalancer:republish", posOf(w, sb), !w.Found, "", "SetBalancer can succeed without publishing the rebuilt advertisements")
	}
	db := need(x, p, "speaker", "bgpController", "DeleteBalancer")
	if db != nil {
		g := db.Graph()
		for _, s := range g.FindPat("delete(RECV.svcAds, N)") {
			w := g.MustPass(s, nil, true, db.ContainsPat("RECV.updateAds()"))
			if w.Found {
				// decided again with the values set on the way (the removal inside an expanded helper that answers whether
				// there was anything to remove: `r = true; ..; if !r { return nil }`): every return is reached either without
				// the deletion or with the republication behind it
				isDel := func(n ast.Node) bool { return n == s.Top }
				isUpd := db.ContainsPat("RECV.updateAds()")
				okAll := true
				for _, rt := range g.Returns() {
					if isUpd(rt.Node) {
						continue
					}
					if !g.Dominated(rt, chk.GOr(chk.GNot(chk.GEvent(isDel)), chk.GEvent(isUpd))) {
						okAll = false
					}
				}
				if okAll && len(g.Returns()) > 0 {
					w.Found = false
				}
			}
			x.Check("DeleteBalancer:republish", posOf(w, db), !w.Found, "", "a service's advertisements are deleted without republishing (the routes stay announced)")
		}
	}
	sp := need(x, p, "speaker", "bgpController", "syncPeers")
	if sp != nil {
		g := sp.Graph()
		var loop *ast.RangeStmt
		for _, rs := range sp.RangeLoops(func(e ast.Expr) bool { return sp.MatchNew("RECV.peers", e) != nil }) {
			loop = rs
		}
		if loop == nil {
			x.Fail("syncPeers:peer-loop", sp.Pos(), "no loop over c.peers")
			return
		}
		peer := rangeVal(sp, loop)
		writes := g.Find(func(n ast.Node) bool {
			as, ok := n.(*ast.AssignStmt)
			return ok && len(as.Lhs) == 1 && sp.MatchWith("P.session", as.Lhs[0], chk.H("P", peer)) != nil
		})
		var flag types.Object
		for _, s := range g.Find(sp.IsAssignPat("F", "true")) {
			as := s.Node.(*ast.AssignStmt)
			if o := sp.ObjOf(as.Lhs[0]); o != nil && g.EdgeImpliesAny(chk.GBool(true, sp.IsObj(o))) {
				// the flag that guards updateAds
				for _, e := range g.EdgesImplying(chk.GBool(true, sp.IsObj(o))) {
					if !g.BranchAlways(e, sp.ContainsPat("RECV.updateAds()")).Found {
						flag = o
					}
				}
			}
		}
		x.Check("syncPeers:flag-guards-updateAds", sp.Pos(), flag != nil, "", "no flag whose true branch always calls updateAds")
		x.Check("syncPeers:session-writes", sp.Pos(), len(writes) >= 2, "", "expected the close (nil) and the create (non-nil) write of p.session")
		loopB, _, doneB := g.RangeBlocks(loop)
		for _, wsite := range writes {
			kind := "set"
			if sp.IsNilLit(wsite.Node.(*ast.AssignStmt).Rhs[0]) {
				kind = "nil"
			}
			// from the write, reaching the loop head or leaving the loop without setting the flag
			setFlag := sp.IsAssignPat("F", "true", chk.H("F", sp.IsObj(flag)))
			found := false
			seen := map[*cfgBlock]bool{}
			var dfs func(b *cfgBlock, from int) bool
			dfs = func(b *cfgBlock, from int) bool {
				for i := from; i < len(b.Nodes); i++ {
					if setFlag(b.Nodes[i]) {
						return false
					}
				}
				for _, s := range b.Succs {
					if s == loopB || s == doneB {
						return true
					}
					if !seen[s] {
						seen[s] = true
						if dfs(s, 0) {
							return true
						}
					}
				}
				return len(b.Succs) == 0
			}
			found = dfs(wsite.B, wsite.I+1)
			x.Check("syncPeers:session-write("+kind+")-requests-republish", wsite.Pos(), flag != nil && !found, "", "the set of live sessions changes without requesting a republish (PeersForService and the other sessions' routes go stale)")
		}
		// after the loop
		if flag != nil && doneB != nil {
			w := (&chk.Walk{G: g, From: chk.Site{G: g, B: doneB, I: 0}, Inclusive: true, HitExit: true,
				Stop: sp.ContainsPat("RECV.updateAds()"),
				Cut:  func(b *cfgBlock, k int) bool { return g.EdgeImplies(b, k, chk.GBool(false, sp.IsObj(flag))) }}).Run()
			x.Check("syncPeers:republish-before-any-return", posOf(w, sp), !w.Found, "", "after the peer loop a return is reachable with the republish flag set and updateAds not called (e.g. the error return for failed sessions placed first)")
		}
	}
	ua := need(x, p, "speaker", "bgpController", "updateAds")
	if ua != nil {
		g := ua.Graph()
		pub := definedBy(g, "RECV.publishAds(ETC)")
		ns := g.FindPat("RECV.notifyAdsChanged(A)", chk.H("A", pub))
		ok := len(ns) == 1 && g.Dominated(ns[0], g.GErrNil(true, "RECV.publishAds(ETC)"))
		if !ok && publishHost == ua && publishRecord != nil {
			// the publishing loop is part of updateAds itself: what is handed on is the record it filled, after the loop over
			// the peers ended (a failed Set has left the function by then: PUBLISH set-error-returned)
			ns = g.FindPat("RECV.notifyAdsChanged(A)", chk.H("A", ua.IsObj(publishRecord)))
			ok = len(ns) == 1
			for _, rs := range ua.RangeLoops(recvFieldOrPassed(p, ua, "bgpController", "peers")) {
				ok = ok && len(ns) == 1 && g.AfterLoop(ns[0], rs)
			}
		}
		if ok {
			w := g.MustPass(chk.Site{}, func(n ast.Node) bool {
				rs, okk := n.(*ast.ReturnStmt)
				return okk && len(rs.Results) == 1 && ua.IsNilLit(rs.Results[0])
			}, false, func(n ast.Node) bool { return n == ns[0].Top })
			ok = !w.Found
		}
		x.Check("updateAds:publish-then-notify", ua.Pos(), ok, "", "updateAds does not hand the lists actually published to notifyAdsChanged")
	}
}

// c05ConfigSynced: a configuration is in force only when the sessions were reconciled with it - peers it adds get a
// session, peers whose node selectors (or whose node's labels, learnt while the old configuration was in force) now
// select this node get one, the others lose theirs. Every way SetConfig reports success passes through syncPeers.
func c05ConfigSynced(p *chk.Prog, r *chk.Report) {
	x := r.Rule("CONFIG-SYNCED", "B path", "(*bgpController).SetConfig returns nil only behind a call of syncPeers (it returns the result of syncPeers, or an error): no shortcut accepts a configuration without reconciling the sessions with it", 1)
	f := need(x, p, "speaker", "bgpController", "SetConfig")
	if f == nil {
		return
	}
	g := f.Graph()
	isSync := func(n ast.Node) bool { return f.ContainsPat("RECV.syncPeers(ETC)", chk.H("RECV", isRecv(f)))(n) }
	synced := chk.GEvent(isSync)
	ok, pos, n := true, f.Pos(), 0
	for _, rt := range g.Returns() {
		rs := rt.Node.(*ast.ReturnStmt)
		if len(rs.Results) != 1 {
			continue
		}
		res := rs.Results[0]
		n++
		switch {
		case f.KnownNonNil(res):
			continue
		case f.MatchWith("RECV.syncPeers(ETC)", res, chk.H("RECV", isRecv(f))) != nil:
			continue
		case f.IsNilLit(res):
			if !g.Dominated(rt, synced) {
				ok, pos = false, rs.Pos()
			}
		default:
			r0 := res
			if !g.Dominated(rt, chk.GOr(synced, g.GExprNil(false, func(e ast.Expr) bool { return f.SameExpr(e, r0) }))) {
				ok, pos = false, rs.Pos()
			}
		}
	}
	x.Check("SetConfig:success-only-after-syncPeers", pos, ok && n > 0, "", "SetConfig can report success without having called syncPeers: sessions the new configuration (or the node's current labels) calls for are not opened, sessions it no longer selects stay up, until some other event happens to run the reconciliation")
}

func c05Select(p *chk.Prog, r *chk.Report) {
	x := r.Rule("SYNC-SELECT", "B path", "in (*bgpController).syncPeers NewSession is dominated by p.session == nil and shouldRun; shouldRun becomes true only behind len(p.cfg.NodeSelectors) == 0 or ns.Matches(c.nodeLabels) for a selector of that peer; the branch `session running but should not` always closes the session and sets p.session = nil", 4)
	f := need(x, p, "speaker", "bgpController", "syncPeers")
	if f == nil {
		return
	}
	g := f.Graph()
	var loop *ast.RangeStmt
	for _, rs := range f.RangeLoops(func(e ast.Expr) bool { return f.MatchNew("RECV.peers", e) != nil }) {
		loop = rs
	}
	if loop == nil {
		return
	}
	peer := rangeVal(f, loop)
	// the peer is selected: no node selectors, or one of its selectors matches the node's labels
	// the peer's selector list: the configured one, or a local holding it in which an empty list was replaced by the one
	// selector that matches everything (labels.Everything(): the identity of "some selector matches")
	peerSelectors := func(x ast.Expr) bool {
		if f.MatchWith("P.cfg.NodeSelectors", x, chk.H("P", peer)) != nil {
			return true
		}
		id, isId := ast.Unparen(x).(*ast.Ident)
		if !isId || f.ObjOf(id) == nil {
			return false
		}
		o := f.ObjOf(id)
		isL := f.IsObj(o)
		nCfg := 0
		for _, d := range assignsTo(f, o) {
			as, isAs := d.(*ast.AssignStmt)
			if !isAs || len(as.Lhs) != len(as.Rhs) {
				return false
			}
			for i, l := range as.Lhs {
				if f.ObjOf(l) != o {
					continue
				}
				rhs := ast.Unparen(as.Rhs[i])
				if sel, isSel := rhs.(*ast.SelectorExpr); isSel && f.MatchWith("P.cfg.NodeSelectors", sel, chk.H("P", peer)) != nil {
					nCfg++
					continue
				}
				every := f.MatchNew("[]labels.Selector{labels.Everything()}", rhs) != nil || f.MatchWith("append(L, labels.Everything())", rhs, chk.H("L", isL)) != nil
				sites := g.Find(func(n ast.Node) bool { return n == ast.Node(as) })
				if !every || len(sites) != 1 || !g.Dominated(sites[0], chk.GAnyOf(g.GPat(true, "len(L) == 0", chk.H("L", isL)), g.GPat(true, "len(P.cfg.NodeSelectors) == 0", chk.H("P", peer)))) {
					return false
				}
			}
		}
		return nCfg == 1
	}
	selector := func(e ast.Expr) bool {
		for _, rs := range f.RangeLoops(peerSelectors) {
			if rangeVal(f, rs)(e) {
				return true
			}
		}
		return false
	}
	selected := chk.GOr(g.GPat(true, "len(P.cfg.NodeSelectors) == 0", chk.H("P", peer)), g.GPat(true, "NS.Matches(RECV.nodeLabels)", chk.H("NS", selector)))
	// the per-peer boolean that is true only for a selected peer
	var should types.Object
	seenV := map[types.Object]bool{}
	ast.Inspect(loop.Body, func(n ast.Node) bool {
		id, ok := n.(*ast.Ident)
		if !ok || should != nil {
			return true
		}
		v, ok := f.Info().Defs[id].(*types.Var)
		if !ok || seenV[v] {
			return true
		}
		seenV[v] = true
		if b, isB := v.Type().Underlying().(*types.Basic); !isB || b.Info()&types.IsBoolean == 0 {
			return true
		}
		if j, _ := flagTrueOnlyIf(f, g, v, selected); j {
			should = v
		}
		return true
	})
	news := g.FindPat("RECV.sessionManager.NewSession(ETC)")
	x.Check("syncPeers:NewSession-call", loop.Pos(), len(news) == 1, "", "expected one NewSession call")
	for _, c := range news {
		okSel := g.Dominated(c, selected) || (should != nil && g.Dominated(c, chk.GBool(true, f.IsObj(should))))
		x.Check("syncPeers:create-only-when-selected", c.Pos(), okSel && g.Dominated(c, g.GPat(true, "P.session == nil", chk.H("P", peer))), "",
			"a session can be created for a peer that does not select this node (no empty selector list and no selector matching the node's labels on some path), or for a peer that already has one")
	}
	x.Check("syncPeers:selection-is-per-peer", loop.Pos(), should != nil || len(news) == 0, "", "no per-peer selection result")
	if should == nil {
		return
	}
	es := g.EdgesImplying(g.GPat(true, "P.session != nil && !S", chk.H("P", peer), chk.H("S", f.IsObj(should))))
	x.Check("syncPeers:close-branch", loop.Pos(), len(es) == 1, "", "no branch for a running session whose peer stopped selecting this node")
	for _, e := range es {
		w1 := g.BranchAlways(e, f.ContainsPat("P.session.Close()", chk.H("P", peer)))
		w2 := g.BranchAlways(e, f.IsAssignPat("P.session", "nil", chk.H("P", peer)))
		x.Check("syncPeers:unselected-session-closed", posOf(w1, f), !w1.Found && !w2.Found, "", "a session whose peer stopped selecting this node is not closed and forgotten")
	}
}

func c05Cover(p *chk.Prog, r *chk.Report) {
	x := r.Rule("COVER-PEER", "E sibling (field coverage)", "every field of config.Peer is read in syncPeers or passwordForSession, and the bgp.SessionParameters literal in syncPeers sets every field from the frozen source table (PeerAddress<-Addr, PeerPort<-Port, PeerInterface<-Iface, SourceAddress<-SrcAddr, MyASN<-MyASN, RouterID<-RouterID, PeerASN<-ASN, DynamicASN<-DynamicASN, HoldTime<-HoldTime, KeepAliveTime<-KeepaliveTime, ConnectTime<-ConnectTime, CurrentNode<-c.myNode, BFDProfile<-BFDProfile, GracefulRestart<-EnableGracefulRestart, EBGPMultiHop<-EBGPMultiHop, SessionName<-Name, VRFName<-VRF, DisableMP<-DisableMP; Password/PasswordRef<-passwordForSession)", 30)
	f := need(x, p, "speaker", "bgpController", "syncPeers")
	pf := need(x, p, "speaker", "", "passwordForSession")
	if f == nil || pf == nil {
		return
	}
	peerT := p.LookupType("internal/config", "Peer")
	spT := p.LookupType("internal/bgp", "SessionParameters")
	if peerT == nil || spT == nil {
		x.Undecided("anchor:types", "UNDECIDED anchor missing: config.Peer / bgp.SessionParameters")
		return
	}
	ps := peerT.Underlying().(*types.Struct)
	for i := 0; i < ps.NumFields(); i++ {
		fld := ps.Field(i)
		read := f.MentionsField(f.Body, fld) || pf.MentionsField(pf.Body, fld)
		x.Check("config.Peer."+fld.Name()+":consumed", f.Pos(), read, "", "field config.Peer."+fld.Name()+" is never read when a session is set up (the setting is silently ignored)")
	}
	table := map[string]string{"PeerAddress": "Addr", "PeerPort": "Port", "PeerInterface": "Iface", "SourceAddress": "SrcAddr", "MyASN": "MyASN",
		"RouterID": "RouterID", "PeerASN": "ASN", "DynamicASN": "DynamicASN", "HoldTime": "HoldTime", "KeepAliveTime": "KeepaliveTime",
		"ConnectTime": "ConnectTime", "BFDProfile": "BFDProfile", "GracefulRestart": "EnableGracefulRestart", "EBGPMultiHop": "EBGPMultiHop",
		"SessionName": "Name", "VRFName": "VRF", "DisableMP": "DisableMP"}
	var lit *ast.CompositeLit
	ast.Inspect(f.Body, func(n ast.Node) bool {
		if cl, ok := n.(*ast.CompositeLit); ok {
			if t := f.Info().TypeOf(cl); t != nil && types.Identical(t, spT) {
				lit = cl
			}
		}
		return true
	})
	if lit == nil {
		x.Fail("syncPeers:session-parameters-literal", f.Pos(), "no bgp.SessionParameters literal")
		return
	}
	g := f.Graph()
	kv := map[string]ast.Expr{}
	for _, e := range lit.Elts {
		if k, ok := e.(*ast.KeyValueExpr); ok {
			kv[k.Key.(*ast.Ident).Name] = k.Value
		}
	}
	ss := spT.Underlying().(*types.Struct)
	var names []string
	for i := 0; i < ss.NumFields(); i++ {
		names = append(names, ss.Field(i).Name())
	}
	sort.Strings(names)
	for _, n := range names {
		v := kv[n]
		switch {
		case n == "Password" || n == "PasswordRef":
			ok := len(g.Find(func(nd ast.Node) bool {
				as, okk := nd.(*ast.AssignStmt)
				return okk && len(as.Lhs) == 2 && len(as.Rhs) == 1 && f.MatchNew("SP.Password", as.Lhs[0]) != nil && f.MatchNew("SP.PasswordRef", as.Lhs[1]) != nil &&
					f.MatchNew("passwordForSession(P.cfg, RECV.bgpType, RECV.secretHandling)", as.Rhs[0]) != nil
			})) == 1
			if !ok && v != nil {
				// the pair taken first and handed to the literal: `pw, ref := passwordForSession(..)` ... Password: pw, PasswordRef: ref
				idx := 0
				if n == "PasswordRef" {
					idx = 1
				}
				ok = definedByIdx(g, f, "passwordForSession(P.cfg, RECV.bgpType, RECV.secretHandling)", idx)(v)
			}
			x.Check("SessionParameters."+n, lit.Pos(), ok, "", "SessionParameters."+n+" is not taken from passwordForSession(p.cfg, …)")
		case n == "CurrentNode":
			x.Check("SessionParameters."+n, lit.Pos(), v != nil && f.MatchNew("RECV.myNode", v) != nil, "", "SessionParameters.CurrentNode is not c.myNode")
		default:
			src := table[n]
			srcFld := p.LookupField("internal/config", "Peer", src)
			ok := v != nil && src != "" && srcFld != nil
			if ok {
				ok = f.MentionsField(v, srcFld)
				if !ok {
					// through a local derived from the field (routerID, peerAddr)
					if id, isID := ast.Unparen(v).(*ast.Ident); isID {
						for _, d := range assignsTo(f, f.ObjOf(id)) {
							if f.MentionsField(d, srcFld) {
								ok = true
							}
						}
					}
				}
			}
			x.Check("SessionParameters."+n, lit.Pos(), ok, "", "SessionParameters."+n+" is not set from config.Peer."+src)
		}
	}
}

func c05Active(p *chk.Prog, r *chk.Report) {
	x := r.Rule("ACTIVE-ADS", "D ownership", "bgpController.activeAds is written only by notifyAdsChanged, as a whole-value replacement by a map built in that call (published sets are never mutated in place, so PeersForService may hand them out); notifyAdsChanged is called only from updateAds", 3)
	fld := p.LookupField("speaker", "bgpController", "activeAds")
	if fld == nil {
		x.Undecided("anchor:activeAds", "UNDECIDED anchor missing: bgpController.activeAds")
		return
	}
	for _, a := range p.FieldAccesses(fld) {
		switch {
		case a.Kind == "assign":
			x.Check("activeAds:assign@"+a.Fn.Name(), a.Sel.Pos(), a.Fn.Name() == bgpc+"notifyAdsChanged", "", "activeAds is replaced outside notifyAdsChanged")
		case a.IsWrite() || (len(a.Kind) > 7 && a.Kind[:7] == "method:" && mutatingMethod(a.Kind[7:])):
			x.Fail("activeAds:in-place-"+a.Kind+"@"+a.Fn.Name(), a.Sel.Pos(), "activeAds (or a published peer set) is mutated in place; readers hold references obtained through PeersForService")
		}
	}
	// element sets obtained from the field must not be mutated either
	for _, fn := range p.FuncsIn("speaker") {
		if fn.Body == nil {
			continue
		}
		ast.Inspect(fn.Body, func(n ast.Node) bool {
			call, ok := n.(*ast.CallExpr)
			if !ok {
				return true
			}
			sel, ok := call.Fun.(*ast.SelectorExpr)
			if !ok || !mutatingMethod(sel.Sel.Name) {
				return true
			}
			if ix, ok := ast.Unparen(sel.X).(*ast.IndexExpr); ok && fn.IsField(ix.X, fld) {
				x.Fail("activeAds:element-mutated@"+fn.Name(), call.Pos(), "a published peer set is mutated in place")
			}
			if id, ok := ast.Unparen(sel.X).(*ast.Ident); ok {
				g := fn.Graph()
				if rhs, _ := g.DefOf(id, g.FactSite(id)); rhs != nil {
					if ix, ok := ast.Unparen(rhs).(*ast.IndexExpr); ok && fn.IsField(ix.X, fld) {
						x.Fail("activeAds:element-mutated@"+fn.Name(), call.Pos(), "a published peer set is mutated in place")
					}
				}
				// range value over the field
				if o := fn.ObjOf(id); o != nil {
					for _, rs := range fn.RangeLoops(func(e ast.Expr) bool {
						if fn.IsField(e, fld) {
							return true
						}
						if rid, ok := ast.Unparen(e).(*ast.Ident); ok {
							if rr, _ := g.DefOf(rid, g.FactSite(rid)); rr != nil && fn.IsField(rr, fld) {
								return true
							}
						}
						return false
					}) {
						if rv, ok := rs.Value.(*ast.Ident); ok && fn.ObjOf(rv) == o {
							x.Fail("activeAds:element-mutated@"+fn.Name(), call.Pos(), "a published peer set is mutated in place")
						}
					}
				}
			}
			return true
		})
	}
	callersRule(x, p, bgpc+"notifyAdsChanged", bgpc+"updateAds")
	pf := need(x, p, "speaker", "bgpController", "PeersForService")
	if pf != nil {
		ok := false
		for _, rt := range pf.Graph().Returns() {
			rr := retResults(rt)
			ok = len(rr) == 1 && pf.MatchWith("RECV.activeAds[K]", rr[0], chk.H("K", isParamIdx(pf, 0))) != nil
		}
		x.Check("PeersForService:reads-activeAds", pf.Pos(), ok, "", "PeersForService does not report activeAds[key]")
	}
}

func mutatingMethod(name string) bool {
	switch name {
	case "Insert", "Delete", "Clear", "PopAny":
		return true
	}
	return false
}

// bgpAdAppends finds where (*bgpController).SetBalancer adds an advertisement to the service's list: the append to
// c.svcAds[name] itself, or - when the list is built in a local first - the append to a local list that starts empty
// before the address loop and is stored with `c.svcAds[name] = L` after it (local = true: that store replaces the
// previous list, no reset is needed).
func bgpAdAppends(f *chk.Fn, g *chk.Graph, name func(ast.Expr) bool, ipLoop *ast.RangeStmt) (sites []chk.Site, local bool) {
	sites = g.Find(f.IsAssignPat("RECV.svcAds[N]", "append(RECV.svcAds[N], AD)", chk.H("N", name)))
	if len(sites) > 0 || ipLoop == nil {
		return sites, false
	}
	for _, st := range g.Find(f.IsAssignPat("RECV.svcAds[N]", "L", chk.H("N", name))) {
		lid, ok := ast.Unparen(st.Node.(*ast.AssignStmt).Rhs[0]).(*ast.Ident)
		if !ok {
			continue
		}
		l := f.ObjOf(lid)
		if l == nil || !g.AfterLoop(st, ipLoop) || !startsEmptyBefore(f, g, l, ipLoop) {
			continue
		}
		apps := g.Find(f.IsAssignPat("L", "append(L, AD)", chk.H("L", f.IsObj(l))))
		okAll := len(apps) > 0
		for _, a := range apps {
			if !chk.InBody(ipLoop, a.Node) {
				okAll = false
			}
		}
		// nothing else writes the local list
		if okAll && len(assignsTo(f, l)) == len(apps)+countEmptyInits(f, l) {
			return apps, true
		}
	}
	return nil, false
}

func countEmptyInits(f *chk.Fn, l types.Object) int {
	n := 0
	for _, a := range assignsTo(f, l) {
		as, ok := a.(*ast.AssignStmt)
		if !ok || len(as.Lhs) != len(as.Rhs) {
			continue
		}
		for i, lh := range as.Lhs {
			if id, isId := lh.(*ast.Ident); isId && f.ObjOf(id) == l {
				r := ast.Unparen(as.Rhs[i])
				if cl, isLit := r.(*ast.CompositeLit); f.IsNilLit(r) || (isLit && len(cl.Elts) == 0) {
					n++
				}
			}
		}
	}
	return n
}

// c05ReportKey: the peers reported for a service are found by mapping every advertisement set on a peer back to the
// services that produce that prefix. The index is keyed by the whole prefix (address and length) on both sides.
func c05ReportKey(p *chk.Prog, r *chk.Report) {
	x := r.Rule("REPORT-KEY", "B path", "in notifyAdsChanged the prefix -> services index is built and read with the key ad.Prefix.String() of the advertisement at hand (address and mask length): two prefixes with the same network address and different lengths are different routes with different peer sets", 2)
	f := need(x, p, "speaker", "bgpController", "notifyAdsChanged")
	if f == nil {
		return
	}
	g := f.Graph()
	// the index: a local map written while ranging over c.svcAds
	var idx types.Object
	for _, rs := range f.RangeLoops(func(e ast.Expr) bool { return f.MatchWith("RECV.svcAds", e, chk.H("RECV", isRecv(f))) != nil }) {
		ast.Inspect(rs.Body, func(n ast.Node) bool {
			as, ok := n.(*ast.AssignStmt)
			if !ok || len(as.Lhs) != 1 {
				return true
			}
			if ix, isIx := ast.Unparen(as.Lhs[0]).(*ast.IndexExpr); isIx {
				if id, isId := ast.Unparen(ix.X).(*ast.Ident); isId {
					if _, isMap := f.Info().TypeOf(id).Underlying().(*types.Map); isMap && idx == nil {
						idx = f.ObjOf(id)
					}
				}
			}
			return true
		})
	}
	if idx == nil {
		// the get-or-create spelling: s := idx[k]; ... idx[k] = s handled above; a helper call insert(idx, k, v)
		for _, c := range g.FindPat("F(M, K, V)") {
			call := c.Node.(*ast.CallExpr)
			if id, isId := ast.Unparen(call.Args[0]).(*ast.Ident); isId && f.LoopOf(c.Node) != nil {
				if _, isMap := f.Info().TypeOf(id).Underlying().(*types.Map); isMap && idx == nil {
					idx = f.ObjOf(id)
				}
			}
		}
	}
	if idx == nil {
		x.Fail("notifyAdsChanged:index", f.Pos(), "no prefix -> services index built from c.svcAds")
		return
	}
	n, ok := 0, true
	bad := f.Pos()
	ast.Inspect(f.Body, func(nd ast.Node) bool {
		ix, isIx := nd.(*ast.IndexExpr)
		if !isIx || f.ObjOf(ast.Unparen(ix.X)) != idx {
			return true
		}
		n++
		key := f.Resolve(ix.Index)
		b := f.MatchNew("A.Prefix.String()", key)
		good := false
		if b != nil {
			// A is the advertisement of an enclosing loop
			for lp := f.LoopOf(nd); lp != nil; lp = f.LoopOf(lp) {
				if rs, isR := lp.(*ast.RangeStmt); isR && rangeVal(f, rs)(b["A"]) {
					good = true
				}
			}
		}
		if !good && publishRecordIsPrefixSet {
			// the published lists arrive as sets of their prefixes (PUBLISH decided that each element is
			// A.Prefix.String()): the key is an element of one of those sets
			if kid, isId := ast.Unparen(ix.Index).(*ast.Ident); isId {
				for lp := f.LoopOf(nd); lp != nil; lp = f.LoopOf(lp) {
					inner, isR := lp.(*ast.RangeStmt)
					if !isR || !rangeKey(f, inner)(kid) {
						continue
					}
					for _, outer := range f.RangeLoops(isParamIdx(f, 0)) {
						if chk.InBody(outer, inner) && rangeVal(f, outer)(inner.X) {
							good = true
						}
					}
				}
			}
		}
		if !good {
			ok = false
			bad = ix.Pos()
		}
		return true
	})
	x.Check("notifyAdsChanged:index-keyed-by-whole-prefix", bad, ok && n >= 2, "", "the prefix -> services index is not keyed by the advertisement's whole prefix (address/length) where it is built or read: services are reported as advertised to peers that are offered none of their prefixes")
}

// c05MaskByValue: every value the mask variable can hold where the advertisement is built is net.CIDRMask(L, B) with
// (L, B) = (adCfg.AggregationLength, 32) in the executions where lbIP.To4() != nil and (adCfg.AggregationLengthV6, 128)
// in those where it is nil.
func c05MaskByValue(f *chk.Fn, g *chk.Graph, lit ast.Node, mask types.Object, ip, adc func(ast.Expr) bool) bool {
	var use *ast.Ident
	ast.Inspect(lit, func(n ast.Node) bool {
		if id, ok := n.(*ast.Ident); ok && use == nil && f.ObjOf(id) == mask {
			use = id
		}
		return true
	})
	if use == nil {
		return false
	}
	at := g.FactSite(use)
	for _, fam := range []struct {
		v4    bool
		field string
		bits  int64
	}{{true, "A.AggregationLength", 32}, {false, "A.AggregationLengthV6", 128}} {
		against := g.GPat(fam.v4, "IP.To4() == nil", chk.H("IP", ip)) // the edges that contradict the family
		cut := func(b *cfgBlock, k int) bool { return g.EdgeImplies(b, k, against) }
		vals, ok := g.ValuesUnder(use, at, cut)
		if !ok || len(vals) == 0 {
			return false
		}
		for _, v := range vals {
			b := f.MatchNew("net.CIDRMask(L, B)", v)
			if b == nil {
				return false
			}
			for hole, want := range map[string]func(ast.Expr) bool{
				"L": func(e ast.Expr) bool { return f.MatchWith(fam.field, e, chk.H("A", adc)) != nil },
				"B": func(e ast.Expr) bool { return f.IsConstInt(e, fam.bits) },
			} {
				arg := b[hole]
				id, isId := ast.Unparen(arg).(*ast.Ident)
				if !isId || f.ConstVal(arg) != nil {
					if !want(arg) {
						return false
					}
					continue
				}
				vs, ok := g.ValuesUnder(id, g.FactSite(id), cut)
				if !ok || len(vs) == 0 {
					return false
				}
				for _, e := range vs {
					if !want(e) {
						return false
					}
				}
			}
		}
	}
	return true
}

// c05PoolOfAddresses: the pool handed to the protocol handlers is one that contains every address of the Service - the
// count of contained addresses is per pool.
func c05PoolOfAddresses(p *chk.Prog, r *chk.Report) {
	x := r.Rule("POOL-OF-ADDRESSES", "B path", "in speaker.poolFor the counter of contained addresses that is compared with len(ips) starts at zero for every pool (declared inside the loop over pools.ByName, or reset there before the address loop)", 1)
	f := need(x, p, "speaker", "", "poolFor")
	if f == nil {
		return
	}
	g := f.Graph()
	pools := f.RangeLoops(func(e ast.Expr) bool { return f.MatchWith("P.ByName", e, chk.H("P", isParamIdx(f, 0))) != nil })
	if len(pools) != 1 {
		x.Fail("poolFor:pool-loop", f.Pos(), "no loop over pools.ByName")
		return
	}
	n := 0
	for _, s := range g.Find(func(nd ast.Node) bool { _, ok := nd.(*ast.IncDecStmt); return ok && chk.InBody(pools[0], nd) }) {
		id, isId := ast.Unparen(s.Node.(*ast.IncDecStmt).X).(*ast.Ident)
		if !isId {
			continue
		}
		o := f.ObjOf(id)
		// only counters that decide the answer
		if len(g.FindPat("C == len(IPS)", chk.H("C", f.IsObj(o)))) == 0 && len(g.FindPat("C != len(IPS)", chk.H("C", f.IsObj(o)))) == 0 && len(g.FindPat("C < len(IPS)", chk.H("C", f.IsObj(o)))) == 0 {
			continue
		}
		n++
		fresh := o.Pos() > pools[0].Body.Pos() && o.Pos() < pools[0].Body.End()
		if !fresh {
			// reset at the top of every pool's iteration
			for _, as := range g.Find(f.IsAssignPat("C", "Z", chk.H("C", f.IsObj(o)), chk.H("Z", f.IsInt(0)))) {
				if chk.InBody(pools[0], as.Node) && f.LoopOf(as.Node) == ast.Stmt(pools[0]) && !loopCanSkip(g, pools[0], func(nd ast.Node) bool { return nd == as.Top }) {
					fresh = true
				}
			}
		}
		x.Check("poolFor:count-is-per-pool", s.Pos(), fresh, "", "the count of contained addresses is carried from one pool to the next: a Service whose addresses lie in two pools is attributed to whichever pool completes the count (in map order) and its routes are built from that pool's advertisements")
	}
	if n == 0 {
		x.OK("poolFor:count-is-per-pool", f.Pos(), "no counter compared with len(ips): containment is decided without counting")
	}
}

// c05PeerSelectors: a peer's node selectors are alternatives; every one of them reaches the peer's configuration.
func c05PeerSelectors(p *chk.Prog, r *chk.Report) {
	x := r.Rule("PEER-SELECTORS", "B path", "in config.peerFromCR every element of p.Spec.NodeSelectors is converted and appended to the peer's NodeSelectors (the only way out of an iteration without the append is the error return); labels.Everything() is used only when the list is empty", 1)
	f := need(x, p, "internal/config", "", "peerFromCR")
	if f == nil {
		return
	}
	g := f.Graph()
	n := 0
	for _, rs := range f.RangeLoops(func(e ast.Expr) bool {
		return f.MatchWith("P.Spec.NodeSelectors", e, chk.H("P", isParamIdx(f, 0))) != nil
	}) {
		el := rangeVal(f, rs)
		apps := g.Find(func(nd ast.Node) bool {
			return chk.InBody(rs, nd) && f.IsAssignPat("L", "append(L, S)", chk.H("S", definedBy(g, "metav1.LabelSelectorAsSelector(&E)", chk.H("E", el))))(nd)
		})
		if len(apps) == 0 {
			continue
		}
		n++
		ok := len(apps) == 1 && !loopSkipsWithout(g, rs, func(nd ast.Node) bool { return nd == apps[0].Top }, chk.NoGuard) && !loopHasBreak(g, rs)
		x.Check("peerFromCR:every-node-selector-kept", rs.Pos(), ok, "", "a node selector of the peer can be dropped (an empty selector, say): the remaining selectors no longer match the nodes the dropped one selected, the session is not started there and the peer is offered none of that node's routes")
	}
	x.Check("peerFromCR:selector-loop", f.Pos(), n == 1, "", "no loop converting p.Spec.NodeSelectors")
}

// c05AliasFirst: a name that a Community resource defines is that alias, whatever it looks like. The communities an
// advertisement lists are resolved through the alias table first; only a name the table does not know is parsed as a
// value. (An alias named like a value - "64512:666" for 65535:666 - would otherwise put the name on the routes.)
func c05AliasFirst(p *chk.Prog, r *chk.Report) {
	x := r.Rule("ALIAS-FIRST", "B path", "config.getCommunityValue returns the parsed form of the string (community.New) only behind a miss in the alias table handed to it; a hit returns the table's value", 2)
	f := need(x, p, cfgPkg, "", "getCommunityValue")
	if f == nil {
		return
	}
	g := f.Graph()
	name, table := isParamIdx(f, 0), isParamIdx(f, 1)
	parsed := definedBy(g, "community.New(S)", chk.H("S", name))
	hit := chk.GBool(true, definedByIdx(g, f, "T[S]", 1, chk.H("T", table), chk.H("S", name)))
	miss := chk.GBool(false, definedByIdx(g, f, "T[S]", 1, chk.H("T", table), chk.H("S", name)))
	nParsed, nHit := 0, 0
	for _, rt := range g.Returns() {
		res := retResults(rt)
		if len(res) != 2 || !f.IsNilLit(res[1]) {
			continue
		}
		switch {
		case parsed(res[0]):
			nParsed++
			x.Check("getCommunityValue:parsed-only-after-alias-miss", rt.Pos(), g.Dominated(rt, miss), "", "the string is parsed as a community value without (or before) looking it up among the aliases: an alias whose name has the shape of a value is never resolved, and the routes carry the name instead of the alias's community")
		case definedByIdx(g, f, "T[S]", 0, chk.H("T", table), chk.H("S", name))(res[0]):
			nHit++
			x.Check("getCommunityValue:alias-value-on-hit", rt.Pos(), g.Dominated(rt, hit), "", "the table's entry is returned without a hit")
		default:
			x.Fail("getCommunityValue:success-shape", rt.Pos(), "a community is returned that is neither the alias's value nor the parsed string")
		}
	}
	x.Check("getCommunityValue:both-sources", f.Pos(), nParsed >= 1 && nHit >= 1, "", "expected a return of the alias's value and a return of the parsed string")
}
