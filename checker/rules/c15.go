package rules

import (
	"go/ast"
	"go/token"
	"go/types"
	"sort"

	"verif/mlbcheck/chk"
)

const fk8Pkg = "internal/bgp/frrk8s"

func init() {
	register(&Prop{
		ID: "C15",
		Explanation: "Decided (on all paths, for every session set at once): nothing in Go map-iteration order reaches the FRRConfiguration handed to " +
			"configChangedCallback - routers, neighbours and prefixes go through sortMap, community / local-preference associations are sorted by key with their " +
			"prefix lists sorted and de-duplicated, BFD profiles (stored in map order by SyncBFDProfiles) are sorted by name before the callback (MAPORDER); each " +
			"neighbour's allowed prefixes are the de-duplicated, sorted prefixes of exactly its own session's advertisements, every advertisement contributes " +
			"its prefix to the router's prefixes, its communities (large ones prefixed) and - only when non-zero - its local preference (DEDUP-SORT); the " +
			"neighbour literal is built behind the refusal of password + secret reference, and the speaker hands over a secret reference only in frr-k8s " +
			"pass-through mode (PASSWORD-XOR); the resource targets only this node: its single node-selector label is kubernetes.io/hostname = " +
			"nodeToConfigure and is not written elsewhere (NODE-TARGET); every session parameter is consumed and lands in its Neighbor field (COVER-PARAMS); " +
			"the frr and frrk8s Set implementations validate with the same bound and both roll back (BACKEND-AGREE); the reconciler stores the desired " +
			"configuration under its lock before signalling and reads it under the same lock (LOCK-GUARDED).",
		NotDecided: "Semantic equivalence with the FRR-mode output (needs an interpretation of both); behaviour of frr-k8s itself.",
		Run:        runC15,
		Mutants: []Mutant{
			{Name: "duplicate-registration-refused-quietly", File: "internal/bgp/frrk8s/frrk8s.go",
				Old: "\tsessionName := sessionName(*s)\n\tsm.sessions[sessionName] = s\n", New: "\tsessionName := sessionName(*s)\n\tif _, dup := sm.sessions[sessionName]; dup {\n\t\treturn fmt.Errorf(\"duplicate session %s\", sessionName)\n\t}\n\tsm.sessions[sessionName] = s\n", Expect: "REGISTERED"},
			{Name: "routers-keyed-by-source-address", File: "internal/bgp/frrk8s/frrk8s.go",
				Old: "\t\trouterName := frr.RouterName(s.RouterID.String(), s.MyASN, s.VRFName)", New: "\t\trouterName := frr.RouterName(s.SourceAddress.String(), s.MyASN, s.VRFName)", Expect: "ROUTER-KEY"},
			{Name: "hand-over-outside-the-manager-lock", File: "internal/bgp/frrk8s/frrk8s.go",
				Old: "\tsm.configChangedCallback(newConfig)\n",
				New: "\tcallback := sm.configChangedCallback\n\tsm.Unlock()\n\tcallback(newConfig)\n\tsm.Lock()\n", Expect: "handed-over-under-the-lock"},
			{Name: "reconcile-compares-bgp-section-only", File: "internal/k8s/controllers/frrk8s_config_controller.go",
				Old: "\tif reflect.DeepEqual(current.Spec, r.desiredConfiguration.Spec) {",
				New: "\tif reflect.DeepEqual(current.Spec.BGP, r.desiredConfiguration.Spec.BGP) {", Expect: "K8S-DELIVER"},
			{Name: "community-group-rebuilt-from-other-key", File: "internal/bgp/frrk8s/frrk8s.go",
				Old: "\t\t\t\tprefixesForCommunity[comm] = append(prefixesForCommunity[comm], prefix)\n", New: "\t\t\t\tprefixesForCommunity[comm] = append(prefixesForCommunity[c.String()], prefix)\n", Expect: "ACCUMULATE"},
			{Name: "dump-retracts-in-callers-object", File: "internal/bgp/frrk8s/frrk8s.go",
				Old: "\ttoDump := config.DeepCopy()\n", New: "\ttoDump := &config\n", Expect: "DUMP-COPY"},
			{Name: "allowed-prefixes-unsorted", File: "internal/bgp/frrk8s/frrk8s.go",
				Old: "\t\tsort.Strings(neighbor.ToAdvertise.Allowed.Prefixes)\n", New: "", Expect: "DEDUP-SORT"},
			{Name: "password-and-secret-both-emitted", File: "internal/bgp/frrk8s/frrk8s.go",
				Old: "\t\t\tif !reflect.DeepEqual(s.PasswordRef, corev1.SecretReference{}) && s.Password != \"\" {", New: "\t\t\tif !reflect.DeepEqual(s.PasswordRef, corev1.SecretReference{}) && s.Password != \"\" && s.BFDProfile != \"\" {", Expect: "PASSWORD-XOR"},
			{Name: "disablemp-dropped", File: "internal/bgp/frrk8s/frrk8s.go",
				Old: "\t\t\t\tDisableMP: s.DisableMP,\n", New: "", Expect: "COVER-PARAMS"},
			{Name: "bfd-profiles-unsorted", File: "internal/bgp/frrk8s/frrk8s.go",
				Old: "\tsort.Slice(newConfig.Spec.BGP.BFDProfiles, func(i, j int) bool {\n\t\treturn newConfig.Spec.BGP.BFDProfiles[i].Name < newConfig.Spec.BGP.BFDProfiles[j].Name\n\t})\n", New: "", Expect: "MAPORDER"},
			{Name: "dedup-assumes-sorted-input", File: "internal/bgp/frrk8s/frrk8s.go",
				Old: "\tfor _, value := range input {\n\t\tif _, ok := seen[value]; !ok {\n\t\t\tseen[value] = struct{}{}\n\t\t\tresult = append(result, value)\n\t\t}\n\t}",
				New: "\tfor i, value := range input {\n\t\tif i == 0 || input[i-1] != value {\n\t\t\tseen[value] = struct{}{}\n\t\t\tresult = append(result, value)\n\t\t}\n\t}", Expect: "DEDUP-SORT"},
			{Name: "zero-localpref-recorded", File: "internal/bgp/frrk8s/frrk8s.go",
				Old: "\t\t\tif adv.LocalPref != 0 {\n\t\t\t\tprefixesForLocalPref", New: "\t\t\tif adv.LocalPref != 0 || len(adv.Communities) == 0 {\n\t\t\t\tprefixesForLocalPref", Expect: "DEDUP-SORT"},
			{Name: "node-selector-extra-label", File: "internal/bgp/frrk8s/frrk8s.go",
				Old: "\t\t\t\t\t\"kubernetes.io/hostname\": sm.nodeToConfigure,\n", New: "\t\t\t\t\t\"kubernetes.io/os\": \"linux\",\n", Expect: "NODE-TARGET"},
			{Name: "frrk8s-bound-differs", File: "internal/bgp/frrk8s/frrk8s.go",
				Old: "\tif len(adv.Communities) > 63 {", New: "\tif len(adv.Communities) > 127 {", Expect: "BACKEND-AGREE"},
			{Name: "speaker-passes-secret-and-password", File: "speaker/bgp_controller.go",
				Old: "\t\tif secret == SecretPassThrough {\n\t\t\treturn cfg.Password, cfg.PasswordRef\n\t\t}\n\t\treturn plainTextPassword, v1.SecretReference{}", New: "\t\tif secret == SecretPassThrough {\n\t\t\treturn cfg.Password, cfg.PasswordRef\n\t\t}\n\t\treturn plainTextPassword, cfg.PasswordRef", Expect: "PASSWORD-XOR"},
			{Name: "desired-config-read-unlocked", File: "internal/k8s/controllers/frrk8s_config_controller.go",
				Old: "\tr.Lock()\n\tdefer r.Unlock()\n\tif r.desiredConfiguration == nil {", New: "\tif r.desiredConfiguration == nil {", Expect: "LOCK-GUARDED"},
			{Name: "community-prefixes-unsorted", File: "internal/bgp/frrk8s/frrk8s.go",
				Old: "\tsort.Slice(res, func(i, j int) bool {\n\t\treturn res[i].Community < res[j].Community\n\t})\n", New: "", Expect: "MAPORDER"},
		},
	})
}

func runC15(p *chk.Prog, r *chk.Report) {
	registeredRule(p, r, fk8Pkg)
	routerKeyRule(p, r, fk8Pkg, "updateConfig")
	sessionKeyRule(p, r, fk8Pkg)
	scratchRule(p, r, "internal/bgp/frrk8s")
	c15Dump(p, r)
	c15MapOrder(p, r)
	c15DedupSort(p, r)
	c15Accumulate(p, r)
	c15Password(p, r)
	c15Node(p, r)
	c15Params(p, r)
	// what reaches the API object is the handed-over specification (K8S-DELIVER, shared with C19)
	c19K8s(p, r)
	y := r.Rule("BACKEND-AGREE", "E sibling", "the frr and frrk8s back ends apply the same validation bound (63 communities) in Set, store only the complete validated list, and both restore the previous advertisements when regeneration fails (the per-package obligations are listed under VALIDATE)", 1)
	_ = y
	c14Validate(p, r, frrPkg)
	c14Validate(p, r, fk8Pkg)
	// rename the shared VALIDATE obligations under BACKEND-AGREE in the explanation only; additionally compare the bounds
	bounds := map[string]int{}
	for _, pk := range []string{frrPkg, fk8Pkg, natPkg} {
		if vf := p.LookupFunc(pk, "", "validate"); vf != nil {
			vg := vf.Graph()
			for _, e := range vg.EdgesImplying(vg.GPat(true, "len(A.Communities) > C")) {
				cond := e.B.Nodes[len(e.B.Nodes)-1].(ast.Expr)
				if c, ok := constInt(vf, vf.MatchNew("len(A.Communities) > C", cond)["C"]); ok {
					bounds[pk] = c
				}
			}
		}
	}
	y.Check("validate:same-bound-in-all-back-ends", 0, len(bounds) == 3 && bounds[frrPkg] == bounds[fk8Pkg] && bounds[frrPkg] == bounds[natPkg], "", "the BGP back ends accept different numbers of communities: a configuration valid in one mode is refused or truncated in another")
	x := r.Rule("LOCK-GUARDED", "C locks (must-hold lockset dataflow)", "frrk8s.sessionManager.{sessions,bfdProfiles,configChangedCallback} and frrk8s.session.advertised are accessed only under the session manager's mutex; FRRK8sReconciler.desiredConfiguration only under the reconciler's mutex (UpdateConfig stores a deep copy before signalling, Reconcile reads under the same lock)", 12)
	guardedRule(x, p, append(append([]guardRow{}, c14Table...), c19Table[2]))
	uc := need(x, p, ctrlPkg, "FRRK8sReconciler", "UpdateConfig")
	if uc != nil {
		g := uc.Graph()
		st := g.Find(uc.IsAssignPat("RECV.desiredConfiguration", "V", chk.H("V", definedBy(g, "D.DeepCopy()"))))
		ok := len(st) == 1
		if ok {
			// the store precedes the signal
			w := g.MustPass(chk.Site{}, func(n ast.Node) bool { _, isSend := n.(*ast.SendStmt); return isSend }, false, func(n ast.Node) bool { return n == st[0].Top })
			ok = !w.Found
		}
		// building the configuration and handing it over is one step under the session manager's lock: the last
		// configuration handed over is then the one of the current session set (a hand-over outside the lock can be overtaken
		// by a newer one and arrive last)
		if uf := need(x, p, fk8Pkg, "sessionManager", "updateConfig"); uf != nil {
			la := locksOf(p)
			lock := p.LockField(fk8Pkg, "sessionManager", "")
			g := uf.Graph()
			isCB := func(e ast.Expr) bool {
				return uf.MatchNew("RECV.configChangedCallback", e) != nil || definedBy(g, "RECV.configChangedCallback")(e)
			}
			okH, nCalls := lock != nil, 0
			ast.Inspect(uf.Body, func(n ast.Node) bool {
				c, ok := n.(*ast.CallExpr)
				if !ok {
					return true
				}
				if lk, _ := uf.LockOp(c); lk != nil && lk == lock {
					okH = false // releases (or re-takes) its callers' lock
				}
				if isCB(c.Fun) {
					nCalls++
					if _, held := la.HeldAt(uf, c)[lock]; !held {
						okH = false
					}
				}
				return true
			})
			x.Check("updateConfig:handed-over-under-the-lock", uf.Pos(), okH && nCalls == 1, "", "the configuration is handed to the reconciler outside the session manager's lock (or updateConfig releases its callers' lock): two updates can be delivered out of order and the stale one stays the last configuration handed over")
		}
		x.Check("UpdateConfig:store-copy-before-signal", uc.Pos(), ok, "", "the reconciler is signalled before (or without) the new configuration being stored as a private copy")
	}
}

func c15MapOrder(p *chk.Prog, r *chk.Report) {
	x := r.Rule("MAPORDER", "A map-order taint (field-sensitive)", "in the call-graph closure of (*sessionManager).updateConfig and SyncBFDProfiles: every slice that receives elements in map order is sorted before it is stored in, or passed on with, the FRRConfiguration; sm.bfdProfiles is left in map order by SyncBFDProfiles (field taint) and the list derived from it in updateConfig is sorted by Name before configChangedCallback; comparator-based sorts compare a unique key of the element (Name, Community, LocalPref)", 5)
	f := need(x, p, fk8Pkg, "sessionManager", "updateConfig")
	sb := need(x, p, fk8Pkg, "sessionManager", "SyncBFDProfiles")
	if f == nil || sb == nil {
		return
	}
	a := p.AnalyseMapOrder(f, sb)
	r.Saw(a.Funcs...)
	for _, s := range a.Sanitised {
		x.OK("sorted-before-escape:"+s, 0, "")
	}
	for _, fd := range a.Findings {
		x.Fail(fd.Key(), fd.Pos, fd.Detail+" (map range at "+p.Rel(fd.Loop)+"): the FRRConfiguration is not a deterministic function of the session set - frr-k8s sees spurious changes")
	}
	var tf []string
	for v := range a.TaintedFields {
		tf = append(tf, v.Name())
	}
	sort.Strings(tf)
	r.Extra["maporder_tainted_fields"] = tf
	for _, u := range a.SortSanitisers {
		var sc *chk.SortCall
		for _, c := range p.SortCalls() {
			if c.Call == u.Call {
				c := c
				sc = &c
			}
		}
		ok := false
		key := u.Fn.Name() + ":" + types.ExprString(u.Call.Args[0])
		if sc != nil && sc.Less != nil {
			if rets := sc.ReturnsOfLess(); len(rets) == 1 {
				if kc := sc.AsKeyCompare(rets[0]); kc != nil {
					ff := u.Fn
					ok = ff.MatchNew("X[I].Name", kc.Left) != nil || ff.MatchNew("X[I].Community", kc.Left) != nil || ff.MatchNew("X[I].LocalPref", kc.Left) != nil
					idx, _ := sc.IndexesOnlySorted()
					ok = ok && idx
				}
			}
		}
		x.Check("total-order:"+key, u.Call.Pos(), ok, "", "a map-ordered list is sorted by a comparator that is not a unique key of its elements (ties stay in map order), or that indexes another slice")
	}
	x.Check("coverage", 0, a.Loops >= 5 && len(a.SortSanitisers) >= 3, "", "fewer map-range loops / comparator sorts analysed than on the confirmed tree")
}

func c15Accumulate(p *chk.Prog, r *chk.Report) {
	x := r.Rule("ACCUMULATE", "B path", "in package frrk8s every accumulation m[k] = append(m[k'], v) reads the entry it writes (k and k' are the same expression): the per-community and per-local-preference prefix groups are built this way", 2)
	appendSameKeyRule(x, p, fk8Pkg)
}

func c15DedupSort(p *chk.Prog, r *chk.Report) {
	x := r.Rule("DEDUP-SORT", "B path", "in updateConfig, per session: Allowed.Prefixes receives adv.Prefix.String() for every advertisement of that session (no skip), is then replaced by removeDuplicates of itself and sorted before the neighbour is stored; the same prefix is added to the router's prefixes; the per-community and per-local-preference scratch maps are created inside the session loop (one neighbour's associations never leak into another's); a local preference is recorded only when non-zero; large communities are keyed `large:<c>`; toAdvertiseWithCommunity / toAdvertiseWithLocalPref sort and de-duplicate each prefix list; removeDuplicates keeps the first occurrence of every value using a seen-set (independent of input order)", 10)
	f := need(x, p, fk8Pkg, "sessionManager", "updateConfig")
	if f == nil {
		return
	}
	g := f.Graph()
	var sessLoop *ast.RangeStmt
	for _, rs := range f.RangeLoops(func(e ast.Expr) bool { return f.MatchNew("RECV.sessions", e) != nil }) {
		sessLoop = rs
	}
	if sessLoop == nil {
		x.Fail("updateConfig:session-loop", f.Pos(), "no loop over sm.sessions")
		return
	}
	sess := rangeVal(f, sessLoop)
	var advLoop *ast.RangeStmt
	for _, rs := range f.RangeLoops(func(e ast.Expr) bool { return f.MatchWith("S.advertised", e, chk.H("S", sess)) != nil }) {
		advLoop = rs
	}
	if advLoop == nil {
		x.Fail("updateConfig:advertisement-loop", sessLoop.Pos(), "no loop over the session's own advertisements")
		return
	}
	adv := rangeVal(f, advLoop)
	pfx := definedBy(g, "A.Prefix.String()", chk.H("A", adv))
	appAllowed := f.IsAssignPat("N.ToAdvertise.Allowed.Prefixes", "append(N.ToAdvertise.Allowed.Prefixes, P)", chk.H("P", pfx))
	valuePfx := f.IsAssignPat("R.prefixes[P]", "P", chk.H("P", pfx))
	setIns := isSetInsert(f)
	// the router's prefixes kept as a map prefix -> prefix, or as a set of prefixes
	routerPfx := func(n ast.Node) bool {
		if valuePfx(n) {
			return true
		}
		if as, ok := n.(*ast.AssignStmt); ok && setIns(n) {
			return f.MatchWith("R.prefixes[P]", as.Lhs[0], chk.H("P", pfx)) != nil
		}
		return false
	}
	okAllowed := !loopSkipsWithout(g, advLoop, appAllowed, chk.NoGuard) && !loopHasBreak(g, advLoop)
	// a prefix passed over only because it is in the list already: a set seeded with the neighbour's allowed prefixes,
	// asked before the append and told right with it - the list is then free of duplicates by construction
	seenSet := definedBy(g, "sets.New(N.ToAdvertise.Allowed.Prefixes...)")
	dedupByConstruction := false
	if !okAllowed && !loopHasBreak(g, advLoop) {
		already := g.GPat(true, "SEEN.Has(P)", chk.H("SEEN", seenSet), chk.H("P", pfx))
		apps := g.Find(func(n ast.Node) bool { return chk.InBody(advLoop, n) && appAllowed(n) })
		ins := f.ContainsPat("SEEN.Insert(P)", chk.H("SEEN", seenSet), chk.H("P", pfx))
		if len(apps) == 1 && !loopSkipsWithout(g, advLoop, appAllowed, already) && g.Dominated(apps[0], chk.GNot(already)) && !loopSkipsWithout(g, advLoop, ins, already) {
			okAllowed, dedupByConstruction = true, true
		}
	}
	okOrig := !loopSkipsWithout(g, advLoop, routerPfx, chk.NoGuard)
	// the prefixes collected into a list first (one per advertisement, by a helper), then handed on as a whole
	isAdvs := func(e ast.Expr) bool { return f.MatchWith("S.advertised", e, chk.H("S", sess)) != nil }
	prefixOf := func(a func(ast.Expr) bool) func(ast.Expr) bool {
		return func(e ast.Expr) bool {
			return definedBy(g, "A.Prefix.String()", chk.H("A", a))(e) || f.MatchWith("A.Prefix.String()", e, chk.H("A", a)) != nil
		}
	}
	allPrefixes := func(e ast.Expr) bool { return mappedList(f, g, e, isAdvs, prefixOf) }
	if !okAllowed {
		for _, s := range g.Find(func(n ast.Node) bool {
			as, ok := n.(*ast.AssignStmt)
			if !ok || len(as.Lhs) != 1 || len(as.Rhs) != 1 || !chk.InBody(sessLoop, n) || f.MatchNew("N.ToAdvertise.Allowed.Prefixes", as.Lhs[0]) == nil {
				return false
			}
			call, ok := ast.Unparen(as.Rhs[0]).(*ast.CallExpr)
			if !ok || len(call.Args) != 2 || !call.Ellipsis.IsValid() || !f.SameExpr(call.Args[0], as.Lhs[0]) {
				return false
			}
			id, isId := call.Fun.(*ast.Ident)
			return isId && id.Name == "append" && allPrefixes(call.Args[1])
		}) {
			// once per session, on every path to the neighbour's store
			okAllowed = f.LoopOf(s.Node) == ast.Node(sessLoop)
			for _, st := range g.Find(f.IsAssignPat("R.neighbors[K]", "N")) {
				from := chk.Site{G: g, B: bodyStart(g, sessLoop).B, I: -1}
				if g.MustPass(from, func(n ast.Node) bool { return n == st.Top }, false, func(n ast.Node) bool { return n == s.Top }).Found {
					okAllowed = false
				}
			}
		}
	}
	if !okOrig {
		for _, rs := range f.RangeLoops(allPrefixes) {
			if !chk.InBody(sessLoop, rs) {
				continue
			}
			pv := rangeVal(f, rs)
			okOrig = !loopSkipsWithout(g, rs, f.IsAssignPat("R.prefixes[P]", "P", chk.H("P", pv)), chk.NoGuard) && !loopHasBreak(g, rs)
		}
	}
	x.Check("updateConfig:every-advertisement-allowed", advLoop.Pos(), okAllowed, "", "an advertisement of the session can be left out of the neighbour's allowed prefixes")
	x.Check("updateConfig:every-advertisement-originated", advLoop.Pos(), okOrig, "", "an advertised prefix is not added to the router's prefixes (it would be allowed but never originated)")
	// dedup + sort before store
	stores := g.Find(f.IsAssignPat("R.neighbors[K]", "N"))
	x.Check("updateConfig:neighbour-store", sessLoop.Pos(), len(stores) == 1, "", "expected one rout.neighbors[name] = neighbor")
	for _, s := range stores {
		nb := s.Node.(*ast.AssignStmt).Rhs[0]
		same := func(e ast.Expr) bool { return f.SameExpr(e, nb) }
		dedup := f.IsAssignPat("N.ToAdvertise.Allowed.Prefixes", "removeDuplicates(N.ToAdvertise.Allowed.Prefixes)", chk.H("N", same))
		srt := f.ContainsPat("sort.Strings(N.ToAdvertise.Allowed.Prefixes)", chk.H("N", same))
		from := chk.Site{G: g, B: bodyStart(g, sessLoop).B, I: -1}
		w1 := g.MustPass(from, func(n ast.Node) bool { return n == s.Top }, false, dedup)
		w2 := g.MustPass(from, func(n ast.Node) bool { return n == s.Top }, false, srt)
		okOrder := true
		for _, d := range g.Find(dedup) {
			if g.AfterLoop(d, advLoop) == false {
				okOrder = false
			}
		}
		okDedup := !w1.Found && !w2.Found && okOrder
		if dedupByConstruction && !w2.Found {
			okDedup = true
			for _, ss := range g.Find(srt) {
				if !g.AfterLoop(ss, advLoop) {
					okDedup = false
				}
			}
		}
		if !okDedup && !w2.Found {
			// sort first, then drop adjacent duplicates (slices.Compact of a sorted list de-duplicates it)
			compact := f.IsAssignPat("N.ToAdvertise.Allowed.Prefixes", "slices.Compact(N.ToAdvertise.Allowed.Prefixes)", chk.H("N", same))
			cs := g.Find(compact)
			if len(cs) == 1 && g.AfterLoop(cs[0], advLoop) {
				w3 := g.MustPass(from, func(n ast.Node) bool { return n == s.Top }, false, compact)
				w4 := g.MustPass(from, func(n ast.Node) bool { return n == cs[0].Top }, false, srt)
				// nothing is added between the sort and the compaction
				okDedup = !w3.Found && !w4.Found
				for _, ss := range g.Find(srt) {
					if !g.AfterLoop(ss, advLoop) {
						okDedup = false
					}
				}
			}
		}
		if _, isPtr := f.Info().TypeOf(nb).Underlying().(*types.Pointer); isPtr && !okDedup && okOrder {
			// the map holds pointers: what is stored is the record itself, and whatever the rest of the iteration does
			// to it is seen through the map - every iteration must end with the list de-duplicated and sorted
			ends := g.LoopIteration(sessLoop, chk.GAnd(chk.GEvent(dedup), chk.GEvent(srt)))
			okDedup = len(ends) > 0
			for _, e := range ends {
				if !e.OK {
					okDedup = false
				}
			}
			for _, ss := range g.Find(srt) {
				if !g.AfterLoop(ss, advLoop) {
					okDedup = false
				}
			}
		}
		x.Check("updateConfig:allowed-deduplicated-and-sorted", s.Pos(), okDedup, "", "a neighbour can be stored with allowed prefixes that are not de-duplicated and sorted (after all advertisements were added)")
		// keyed by the session's own name
		key := s.Node.(*ast.AssignStmt).Lhs[0].(*ast.IndexExpr).Index
		x.Check("updateConfig:neighbour-keyed-by-session", s.Pos(), definedBy(g, "sessionName(*S)", chk.H("S", sess))(key), "", "neighbours are not keyed by their session")
		// associations assigned from the scratch maps
		for _, c := range []struct{ field, fn string }{{"PrefixesWithCommunity", "toAdvertiseWithCommunity"}, {"PrefixesWithLocalPref", "toAdvertiseWithLocalPref"}} {
			as := g.Find(f.IsAssignPat("N.ToAdvertise."+c.field, c.fn+"(M)", chk.H("N", same)))
			ok := len(as) == 1
			if ok {
				m := as[0].Node.(*ast.AssignStmt).Rhs[0].(*ast.CallExpr).Args[0]
				mo := f.ObjOf(m)
				// declared inside the session loop, fresh per session
				ok = mo != nil && mo.Pos() > sessLoop.Body.Pos() && mo.Pos() < sessLoop.Body.End() && g.AfterLoop(as[0], advLoop)
			}
			x.Check("updateConfig:"+c.field+":per-session-scratch", sessLoop.Pos(), ok, "", "the "+c.field+" of a neighbour are computed from a map that is not created afresh for every session: associations of other sessions leak into this neighbour (in map order)")
		}
	}
	// local pref non-zero, large communities prefixed
	for _, s := range g.Find(func(n ast.Node) bool {
		return chk.InBody(advLoop, n) && f.IsAssignPat("M[A.LocalPref]", "append(M[A.LocalPref], P)", chk.H("A", adv), chk.H("P", pfx))(n)
	}) {
		cond := g.GPat(true, "A.LocalPref != 0", chk.H("A", adv))
		ok := g.Dominated(s, cond)
		// and nothing else decides: an advertisement with a local preference that is processed to the end is associated
		st := s
		for _, e := range g.LoopIteration(advLoop, chk.GOr(chk.GNot(cond), chk.GEvent(func(n ast.Node) bool { return n == st.Top }))) {
			if !e.OK && !e.Break {
				ok = false
			}
		}
		x.Check("updateConfig:local-pref-only-non-zero", s.Pos(), ok, "", "a local preference of 0 (unset) is associated with prefixes, or the association is subject to another condition")
	}
	okLarge := false
	for _, s := range g.Find(f.IsAssignPat("C", `fmt.Sprintf("large:%s", X.String())`)) {
		okLarge = g.Dominated(s, g.GPat(true, "community.IsLarge(X)"))
	}
	if !okLarge {
		// the same key spelt as a concatenation, of the community's string or of the local that holds it
		for _, s := range g.Find(f.IsAssignPat("C", `"large:" + V`)) {
			v := s.Node.(*ast.AssignStmt).Rhs[0].(*ast.BinaryExpr).Y
			var comm ast.Expr
			if b := f.MatchNew("X.String()", v); b != nil {
				comm = b["X"]
			} else if id, isId := ast.Unparen(v).(*ast.Ident); isId {
				defs, entry := g.ReachingDefsAvoiding(id, s, nil)
				for _, d := range defs {
					as, isAs := d.(*ast.AssignStmt)
					if !isAs || len(as.Rhs) != 1 || len(as.Lhs) != 1 || f.MatchNew("X.String()", as.Rhs[0]) == nil {
						entry = true
						break
					}
					x2 := f.MatchNew("X.String()", as.Rhs[0])["X"]
					if comm != nil && !f.SameExpr(comm, x2) {
						entry = true
					}
					comm = x2
				}
				if entry {
					comm = nil
				}
			}
			if comm != nil {
				c0 := comm
				okLarge = g.Dominated(s, g.GPat(true, "community.IsLarge(X)", chk.H("X", func(e ast.Expr) bool { return f.SameExpr(e, c0) })))
			}
		}
	}
	x.Check("updateConfig:large-community-key", f.Pos(), okLarge, "", "large communities are not keyed `large:<community>`")
	for _, name := range []string{"toAdvertiseWithCommunity", "toAdvertiseWithLocalPref"} {
		tf := need(x, p, fk8Pkg, "", name)
		if tf == nil {
			continue
		}
		tg := tf.Graph()
		ok := false
		for _, rs := range tf.RangeLoops(isParamIdx(tf, 0)) {
			k, v := rangeKey(tf, rs), rangeVal(tf, rs)
			srt := tf.ContainsPat("sort.Strings(V)", chk.H("V", v))
			app := func(n ast.Node) bool {
				as, isAs := n.(*ast.AssignStmt)
				if !isAs || len(as.Rhs) != 1 {
					return false
				}
				c, isCall := ast.Unparen(as.Rhs[0]).(*ast.CallExpr)
				if !isCall || len(c.Args) != 2 {
					return false
				}
				cl, isLit := ast.Unparen(c.Args[1]).(*ast.CompositeLit)
				if !isLit {
					return false
				}
				hasKey, hasDedup := false, false
				for _, el := range cl.Elts {
					if kv, isKV := el.(*ast.KeyValueExpr); isKV {
						if k(kv.Value) {
							hasKey = true
						}
						if tf.MatchWith("removeDuplicates(V)", kv.Value, chk.H("V", v)) != nil {
							hasDedup = true
						}
					}
				}
				return hasKey && hasDedup
			}
			ok = !loopSkipsWithout(tg, rs, app, chk.NoGuard) && !loopSkipsWithout(tg, rs, srt, chk.NoGuard)
			// sort precedes the dedup in the body
			for _, s := range tg.Find(app) {
				w := tg.MustPass(bodyStart(tg, rs), func(n ast.Node) bool { return n == s.Top }, false, srt)
				if w.Found {
					ok = false
				}
			}
		}
		x.Check(name+":sorted-deduplicated-prefix-lists", tf.Pos(), ok, "", "the prefixes associated with a community / local preference are not sorted and de-duplicated")
	}
	rd := need(x, p, fk8Pkg, "", "removeDuplicates")
	if rd != nil {
		rg := rd.Graph()
		ok := false
		for _, rs := range rd.RangeLoops(isParamIdx(rd, 0)) {
			v := rangeVal(rd, rs)
			fresh := rg.GPat(false, "OK", chk.H("OK", definedBy(rg, "SEEN[V]", chk.H("V", v))))
			apps := rg.Find(rd.IsAssignPat("R", "append(R, V)", chk.H("V", v)))
			marks := rg.Find(rd.IsAssignPat("SEEN[V]", "struct{}{}", chk.H("V", v)))
			ok = len(apps) == 1 && len(marks) == 1 && rg.Dominated(apps[0], fresh) && rg.Dominated(marks[0], fresh) &&
				!loopSkipsWithout(rg, rs, func(n ast.Node) bool { return n == apps[0].Top }, rg.GPat(true, "OK", chk.H("OK", definedBy(rg, "SEEN[V]", chk.H("V", v))))) && !loopHasBreak(rg, rs)
			if ok {
				// seen is a map keyed by the values themselves
				seen := marks[0].Node.(*ast.AssignStmt).Lhs[0].(*ast.IndexExpr).X
				_, isMap := rd.Info().TypeOf(seen).Underlying().(*types.Map)
				ok = isMap
			}
		}
		x.Check("removeDuplicates:seen-set", rd.Pos(), ok, "", "removeDuplicates does not keep exactly the first occurrence of every value using a set of values already seen (e.g. it compares only with the previous element and therefore assumes sorted input, which its caller in updateConfig does not provide)")
	}
}

func c15Password(p *chk.Prog, r *chk.Report) {
	x := r.Rule("PASSWORD-XOR", "B path", "in updateConfig the Neighbor literal is dominated by the false edge of `PasswordRef != {} && Password != \"\"` (both set is refused with an error); speaker.passwordForSession returns a non-empty secret reference only in the bgpFrrK8s arm under SecretPassThrough, together with cfg.Password (which validation keeps empty when a reference is set), and an empty reference on every other return", 4)
	f := need(x, p, fk8Pkg, "sessionManager", "updateConfig")
	if f != nil {
		g := f.Graph()
		nT := p.LookupObj("github.com/metallb/frr-k8s/api/v1beta1", "Neighbor")
		var lit chk.Site
		found := false
		for _, s := range g.Find(func(n ast.Node) bool {
			cl, ok := n.(*ast.CompositeLit)
			if !ok || nT == nil {
				return false
			}
			t := f.Info().TypeOf(cl)
			return t != nil && types.Identical(t, nT.Type())
		}) {
			lit, found = s, true
		}
		if !found {
			x.Fail("updateConfig:neighbor-literal", f.Pos(), "no frrv1beta1.Neighbor literal")
		} else {
			// "a reference is set" and "a password is set", however the two tests are spelt and ordered
			refEmpty := chk.GSame(g.GPat(true, "reflect.DeepEqual(S.PasswordRef, corev1.SecretReference{})"), g.GPat(true, "reflect.DeepEqual(corev1.SecretReference{}, S.PasswordRef)"),
				g.GPat(true, "S.PasswordRef == corev1.SecretReference{}"), g.GPat(true, "corev1.SecretReference{} == S.PasswordRef"))
			pwEmpty := chk.GSame(g.GPat(true, `S.Password == ""`), g.GPat(true, `len(S.Password) == 0`))
			both := chk.GAnd(chk.GNot(refEmpty), chk.GNot(pwEmpty))
			ok := g.Dominated(lit, chk.GOr(refEmpty, pwEmpty))
			es := g.EdgesImplying(both)
			if len(es) == 0 {
				ok = false
			}
			for _, e := range es {
				if !branchRefuses(f, g, e, 0) {
					ok = false
				}
			}
			x.Check("updateConfig:both-set-refused", lit.Pos(), ok, "", "a session carrying both a password and a secret reference is not refused: the FRRConfiguration would contain both")
		}
	}
	pf := need(x, p, "speaker", "", "passwordForSession")
	if pf != nil {
		g := pf.Graph()
		cfg := isParamIdx(pf, 0)
		n := 0
		for _, rt := range g.Returns() {
			rr := retResults(rt)
			if len(rr) != 2 {
				continue
			}
			n++
			emptyRef := pf.MatchNew("v1.SecretReference{}", rr[1]) != nil || zeroValueVar(pf, rr[1])
			if emptyRef {
				// without a reference the password is the effective plain-text one: the secret's content when the
				// peer has one, else spec.password (or nothing for an unknown back end)
				okPw := pf.IsConstString(rr[0], "")
				if okPw {
					// no password at all only for a back end that is none of the three known ones
					bt := isParamIdx(pf, 1)
					for _, k := range []string{"bgpNative", "bgpFrr", "bgpFrrK8s"} {
						if !g.Dominated(rt, chk.GSame(g.GPat(false, "T == "+k, chk.H("T", bt)), g.GPat(false, k+" == T", chk.H("T", bt)))) {
							okPw = false
						}
					}
				}
				// the two sources returned directly, each under the test that makes it the effective one
				if !okPw && pf.MatchWith("C.SecretPassword", rr[0], chk.H("C", cfg)) != nil {
					okPw = g.Dominated(rt, g.GPat(false, `C.SecretPassword == ""`, chk.H("C", cfg)))
				}
				if !okPw && pf.MatchWith("C.Password", rr[0], chk.H("C", cfg)) != nil {
					okPw = g.Dominated(rt, g.GPat(true, `C.SecretPassword == ""`, chk.H("C", cfg)))
				}
				if id, isId := ast.Unparen(rr[0]).(*ast.Ident); isId && !okPw {
					o := pf.ObjOf(id)
					nPlain, nSecret, other := 0, 0, 0
					for _, a := range assignsTo(pf, o) {
						as, isAs := a.(*ast.AssignStmt)
						if !isAs || len(as.Rhs) != 1 {
							other++
							continue
						}
						sites := g.Find(func(m ast.Node) bool { return m == ast.Node(as) })
						switch {
						case pf.MatchWith("C.Password", as.Rhs[0], chk.H("C", cfg)) != nil:
							nPlain++
						case pf.MatchWith("C.SecretPassword", as.Rhs[0], chk.H("C", cfg)) != nil && len(sites) == 1 &&
							g.Dominated(sites[0], g.GPat(true, `C.SecretPassword != ""`, chk.H("C", cfg))):
							nSecret++
						default:
							other++
						}
					}
					okPw = nPlain == 1 && nSecret == 1 && other == 0
					if !okPw {
						// the other way round: the secret's content first, spec.password when that is empty
						nS, nP, oth := 0, 0, 0
						isV := pf.IsObj(o)
						for _, a := range assignsTo(pf, o) {
							as, isAs := a.(*ast.AssignStmt)
							if !isAs || len(as.Rhs) != 1 {
								oth++
								continue
							}
							sites := g.Find(func(m ast.Node) bool { return m == ast.Node(as) })
							switch {
							case pf.MatchWith("C.SecretPassword", as.Rhs[0], chk.H("C", cfg)) != nil:
								nS++
							case pf.MatchWith("C.Password", as.Rhs[0], chk.H("C", cfg)) != nil && len(sites) == 1 &&
								g.Dominated(sites[0], chk.GSame(g.GPat(true, `V == ""`, chk.H("V", isV)), g.GPat(true, `C.SecretPassword == ""`, chk.H("C", cfg)))):
								nP++
							default:
								oth++
							}
						}
						okPw = nS == 1 && nP == 1 && oth == 0
					}
				}
				x.Check("passwordForSession:return#"+itoa(n)+":no-secret-ref", rt.Pos(), okPw, "", "a back end that gets no secret reference is not given the effective plain-text password (spec.password, or the secret's content when the peer uses a secret): the session is configured without / with the wrong password")
				continue
			}
			ok := pf.MatchWith("C.PasswordRef", rr[1], chk.H("C", cfg)) != nil && pf.MatchWith("C.Password", rr[0], chk.H("C", cfg)) != nil &&
				g.Dominated(rt, g.GPat(true, "S == SecretPassThrough", chk.H("S", isParamIdx(pf, 2)))) &&
				g.Dominated(rt, g.GPat(true, "T == bgpFrrK8s", chk.H("T", isParamIdx(pf, 1))))
			x.Check("passwordForSession:return#"+itoa(n)+":secret-ref-only-in-passthrough", rt.Pos(), ok, "", "a secret reference is handed to a BGP back end outside frr-k8s pass-through mode, or together with the converted plain-text password")
		}
		x.Check("passwordForSession:returns", pf.Pos(), n >= 2, "", "passwordForSession has no result both with and without a secret reference")
	}
}

func c15Node(p *chk.Prog, r *chk.Report) {
	x := r.Rule("NODE-TARGET", "E sibling", "the FRRConfiguration literal of updateConfig has Spec.NodeSelector.MatchLabels = {\"kubernetes.io/hostname\": sm.nodeToConfigure} with exactly that one key, is named ConfigName(sm.nodeToConfigure) in sm.targetNamespace, and NodeSelector is not written anywhere else in the package", 2)
	f := need(x, p, fk8Pkg, "sessionManager", "updateConfig")
	if f == nil {
		return
	}
	g := f.Graph()
	ok := false
	for _, s := range g.Find(func(n ast.Node) bool {
		e, isE := n.(ast.Expr)
		return isE && f.MatchNew(`metav1.LabelSelector{MatchLabels: map[string]string{"kubernetes.io/hostname": RECV.nodeToConfigure}}`, e) != nil
	}) {
		cl := s.Node.(*ast.CompositeLit)
		// exactly one label and no MatchExpressions
		one := len(cl.Elts) == 1
		if kv, isKV := cl.Elts[0].(*ast.KeyValueExpr); isKV {
			if ml, isLit := kv.Value.(*ast.CompositeLit); isLit {
				one = one && len(ml.Elts) == 1
			}
		}
		ok = one
	}
	x.Check("updateConfig:node-selector", f.Pos(), ok, "", "the FRRConfiguration does not select exactly this node by its hostname label")
	meta := len(g.Find(func(n ast.Node) bool {
		e, isE := n.(ast.Expr)
		return isE && f.MatchNew("metav1.ObjectMeta{Name: ConfigName(RECV.nodeToConfigure), Namespace: RECV.targetNamespace}", e) != nil
	})) == 1
	writes := 0
	for _, ff := range p.FuncsIn(fk8Pkg) {
		ast.Inspect(ff.Body, func(n ast.Node) bool {
			as, isAs := n.(*ast.AssignStmt)
			if !isAs {
				return true
			}
			for _, l := range as.Lhs {
				found := false
				ast.Inspect(l, func(m ast.Node) bool {
					if sel, isSel := m.(*ast.SelectorExpr); isSel && (sel.Sel.Name == "NodeSelector" || sel.Sel.Name == "MatchLabels") {
						found = true
					}
					return true
				})
				if found {
					writes++
				}
			}
			return true
		})
	}
	x.Check("updateConfig:name-namespace-and-no-other-selector-write", f.Pos(), meta && writes == 0, "", "the resource is not named per node in the target namespace, or its node selector is modified after construction")
}

func c15Params(p *chk.Prog, r *chk.Report) {
	x := r.Rule("COVER-PARAMS", "E sibling (field coverage)", "every field of bgp.SessionParameters is read in updateConfig or sessionName (reviewed exemptions: SourceAddress - the frr-k8s API has no such field -, CurrentNode, SessionName); the Neighbor literal takes Address<-PeerAddress, Interface<-PeerInterface, ASN<-PeerASN, DynamicASN, Port<-PeerPort, the three timers, BFDProfile, EnableGracefulRestart<-GracefulRestart, EBGPMultiHop, Password, PasswordSecret<-PasswordRef, DisableMP", 25)
	f := need(x, p, fk8Pkg, "sessionManager", "updateConfig")
	sn := need(x, p, fk8Pkg, "", "sessionName")
	spT := p.LookupType("internal/bgp", "SessionParameters")
	if f == nil || sn == nil || spT == nil {
		return
	}
	exempt := map[string]bool{"CurrentNode": true, "SessionName": true}
	st := spT.Underlying().(*types.Struct)
	for i := 0; i < st.NumFields(); i++ {
		fld := st.Field(i)
		if exempt[fld.Name()] {
			continue
		}
		used := f.MentionsField(f.Body, fld)
		if fld.Name() == "SourceAddress" {
			used = used || sn.MentionsField(sn.Body, fld) // only part of the session key: no field in the frr-k8s API
		}
		x.Check("SessionParameters."+fld.Name()+":consumed", f.Pos(), used, "", "session parameter "+fld.Name()+" is never read when the FRRConfiguration is generated")
	}
	nT := p.LookupObj("github.com/metallb/frr-k8s/api/v1beta1", "Neighbor")
	var lit *ast.CompositeLit
	ast.Inspect(f.Body, func(n ast.Node) bool {
		if cl, ok := n.(*ast.CompositeLit); ok && nT != nil {
			if t := f.Info().TypeOf(cl); t != nil && types.Identical(t, nT.Type()) {
				lit = cl
			}
		}
		return true
	})
	if lit == nil {
		x.Fail("updateConfig:neighbor-literal", f.Pos(), "no Neighbor literal")
		return
	}
	table := map[string]string{"Address": "PeerAddress", "Interface": "PeerInterface", "ASN": "PeerASN", "DynamicASN": "DynamicASN", "Port": "PeerPort",
		"HoldTime": "HoldTime", "KeepaliveTime": "KeepAliveTime", "ConnectTime": "ConnectTime", "BFDProfile": "BFDProfile",
		"EnableGracefulRestart": "GracefulRestart", "EBGPMultiHop": "EBGPMultiHop", "Password": "Password", "PasswordSecret": "PasswordRef", "DisableMP": "DisableMP"}
	kv := map[string]ast.Expr{}
	for _, e := range lit.Elts {
		if k, ok := e.(*ast.KeyValueExpr); ok {
			kv[k.Key.(*ast.Ident).Name] = k.Value
		}
	}
	var keys []string
	for k := range table {
		keys = append(keys, k)
	}
	sort.Strings(keys)
	for _, k := range keys {
		src := p.LookupField("internal/bgp", "SessionParameters", table[k])
		v := kv[k]
		ok := v != nil && src != nil
		if ok {
			ok = f.MentionsField(v, src)
			if !ok {
				if id, isID := ast.Unparen(v).(*ast.Ident); isID {
					ast.Inspect(f.Body, func(n ast.Node) bool {
						if ifs, isIf := n.(*ast.IfStmt); isIf && f.MentionsField(ifs.Cond, src) && f.Mentions(ifs.Body, f.ObjOf(id)) {
							ok = true
						}
						return true
					})
				}
			}
		}
		x.Check("Neighbor."+k, lit.Pos(), ok, "", "Neighbor."+k+" is not filled from SessionParameters."+table[k])
	}
	// an optional parameter (a pointer: hold, keepalive, connect time) is translated whenever it is given - on its own,
	// whatever the others are: from the start of the function the literal is reached, with the parameter known to be
	// non-nil or untested, only through the statement that copies it
	g := f.Graph()
	for _, k := range []string{"HoldTime", "KeepaliveTime", "ConnectTime"} {
		src := p.LookupField("internal/bgp", "SessionParameters", table[k])
		id, isID := ast.Unparen(kv[k]).(*ast.Ident)
		if src == nil || !isID || f.ObjOf(id) == nil {
			continue
		}
		o := f.ObjOf(id)
		copies := func(n ast.Node) bool {
			as, ok := n.(*ast.AssignStmt)
			if !ok || len(as.Lhs) != len(as.Rhs) {
				return false
			}
			for i, l := range as.Lhs {
				if f.ObjOf(l) == o && f.MentionsField(as.Rhs[i], src) {
					return true
				}
			}
			return false
		}
		if len(g.Find(copies)) == 0 {
			continue
		}
		isNil := chk.GFunc(func(ft chk.Fact) bool {
			xx, yy, eq, ok := chk.EqParts(ft)
			if !ok || !eq {
				return false
			}
			other := xx
			if f.IsNilLit(xx) {
				other = yy
			} else if !f.IsNilLit(yy) {
				return false
			}
			return f.MentionsField(other, src)
		})
		litSite := g.FactSite(lit)
		w := (&chk.Walk{G: g, Stop: copies, Hit: func(n ast.Node) bool { return litSite.B != nil && n == litSite.Top },
			Cut: func(b *cfgBlock, kk int) bool { return g.EdgeImplies(b, kk, isNil) }}).Run()
		x.Check("Neighbor."+k+":translated-whenever-given", lit.Pos(), !w.Found, "", "SessionParameters."+table[k]+" can be non-nil and still not reach the neighbour (its translation is conditioned on something else as well, the other timer say): the FRRConfiguration leaves out a parameter the session was given")
	}
}

// c15Dump: ConfigToDump blanks the passwords for logging. The FRRConfiguration it receives by value shares its
// routers / neighbours slices with the caller (the object handed to the callback, the reconciler's desired state), so
// every element it writes must belong to a deep copy.
func c15Dump(p *chk.Prog, r *chk.Report) {
	x := r.Rule("DUMP-COPY", "D ownership (escape)", "in frrk8s.ConfigToDump every write into an element (x[i].f = …, through range variables and locals) is rooted in a local defined by config.DeepCopy(): the caller's FRRConfiguration, whose slices are shared with a by-value copy, is never written", 1)
	f := need(x, p, fk8Pkg, "", "ConfigToDump")
	if f == nil {
		return
	}
	g := f.Graph()
	cfg := isParamIdx(f, 0)
	// root of an expression: through selectors, indexing, dereferences, range variables and plain locals
	var root func(e ast.Expr, depth int) ast.Expr
	root = func(e ast.Expr, depth int) ast.Expr {
		for depth < 12 {
			depth++
			switch v := ast.Unparen(e).(type) {
			case *ast.SelectorExpr:
				e = v.X
			case *ast.IndexExpr:
				e = v.X
			case *ast.StarExpr:
				e = v.X
			case *ast.Ident:
				for _, rs := range f.RangeLoops(chk.Any) {
					if id, ok := rs.Value.(*ast.Ident); ok && f.ObjOf(id) == f.ObjOf(v) {
						return root(rs.X, depth)
					}
				}
				return v
			default:
				return e
			}
		}
		return e
	}
	n := 0
	for _, s := range g.Find(func(nd ast.Node) bool {
		as, ok := nd.(*ast.AssignStmt)
		if !ok || as.Tok != token.ASSIGN {
			return false
		}
		for _, l := range as.Lhs {
			if _, isId := ast.Unparen(l).(*ast.Ident); !isId {
				return true
			}
		}
		return false
	}) {
		as := s.Node.(*ast.AssignStmt)
		for _, l := range as.Lhs {
			if _, isId := ast.Unparen(l).(*ast.Ident); isId {
				continue
			}
			if !c15Indirect(f, l) {
				continue // a field of a local struct value: nothing shared is written
			}
			n++
			rt := root(l, 0)
			ok := definedBy(g, "C.DeepCopy()", chk.H("C", cfg))(rt)
			x.Check("ConfigToDump:write@"+types.ExprString(l), s.Pos(), ok, "", "ConfigToDump writes through "+types.ExprString(rt)+", which is not a deep copy of the configuration: the caller's object (shared slices) is modified - the password handed to the back end becomes \"<retracted>\"")
		}
	}
	x.Check("ConfigToDump:retracts", f.Pos(), n > 0, "", "ConfigToDump no longer retracts anything")
}

// c15Indirect: the written location is reached through an element, a dereference, a pointer-typed base or a range
// variable (memory that may be shared), not a field of a local struct value.
func c15Indirect(f *chk.Fn, e ast.Expr) bool {
	for {
		switch v := ast.Unparen(e).(type) {
		case *ast.SelectorExpr:
			if t := f.Info().TypeOf(v.X); t != nil {
				if _, ok := t.Underlying().(*types.Pointer); ok {
					return true
				}
			}
			e = v.X
		case *ast.IndexExpr, *ast.StarExpr:
			return true
		default:
			return false
		}
	}
}

// registeredRule (C15, shared with C14): the handle NewSession gives back is the session the manager renders. Every
// return that hands a session out (a non-nil first result) is reached only after `sm.sessions[<its name>] = <that
// session>`: a registration that can be refused quietly (a "duplicate" guard whose error nobody looks at) leaves the
// caller with a handle whose Set succeeds and changes nothing, while the configuration keeps the old session's routes.
func registeredRule(p *chk.Prog, r *chk.Report, pkgs ...string) {
	x := r.Rule("REGISTERED", "B path", "in the frr and frr-k8s session managers every return of NewSession that hands out a session is dominated by the store of that session into sessionManager.sessions under its own key", 2)
	for _, pkg := range pkgs {
		f := need(x, p, pkg, "sessionManager", "NewSession")
		if f == nil {
			continue
		}
		g := f.Graph()
		n := 0
		for _, rt := range g.Returns() {
			res := retResults(rt)
			if len(res) != 2 || f.IsNilLit(res[0]) {
				continue
			}
			n++
			s0 := res[0]
			same := func(e ast.Expr) bool { return f.SameExpr(e, s0) }
			stored := chk.GEvent(func(nd ast.Node) bool {
				as, ok := nd.(*ast.AssignStmt)
				return ok && len(as.Lhs) == 1 && len(as.Rhs) == 1 && f.MatchNew("SM.sessions[K]", as.Lhs[0]) != nil && same(as.Rhs[0])
			})
			x.Check(pkg+":NewSession:handed-out-session-is-registered", rt.Pos(), g.Dominated(rt, stored), "", "NewSession can hand out a session that it did not store in the manager's session map (a refused or skipped registration whose error is not looked at): Set on that handle succeeds and the generated configuration never shows it")
		}
		x.Check(pkg+":NewSession:success-return", f.Pos(), n >= 1, "", "no return that hands out a session")
	}
}
