package rules

import (
	"go/ast"
	"go/token"
	"go/types"

	"verif/mlbcheck/chk"
)

func init() {
	register(&Prop{
		ID: "C02",
		Explanation: "Decided (filters dominate every producer of an address, on all paths): getIPFromCIDR returns an address only behind the buggy-address " +
			"filter and a successful checkSharing; poolFor counts an address as member only behind the same filter and Contains; Allocate tries the " +
			"pinned pools first and builds the fallback list only from auto-assign pools without service allocations; pinnedPoolsForService filters by " +
			"AutoAssign and isPoolCompatibleWithService and sorts; isPoolCompatibleWithService returns true only behind the namespace and selector " +
			"tests; sortPools orders by ascending priority with 0 last and indexes the slice it sorts; the explicit-request branches of allocateIPs " +
			"cannot fall through to automatic allocation and return exactly the requested addresses / an address of the requested pool; the pool " +
			"annotation is written from Allocator.Pool(key) behind the empty-pool refusal; a changed pool or address request clears the state; " +
			"selectIPsForFamilyAndPolicy returns only addresses of the receiver, of the family asked for, pairs only when both exist; " +
			"getFreeIPsFromPool stores an address under the family of the CIDR it came from.",
		NotDecided: "The family-policy arithmetic as values (which v4/v6 combination is chosen for every input), order among equal priorities, " +
			"correctness of net.IPNet.Contains and ipaddr cursors, ipfamily.ForService.",
		Run: runC02,
		Mutants: []Mutant{
			{Name: "pinned-groups-sorted-apart", File: "internal/allocator/allocator.go",
				Old: "\tfor _, svcPoolName := range a.pools.ByServiceSelector {\n\t\tif svcPool, ok := a.pools.ByName[svcPoolName]; ok {\n\t\t\tif !svcPool.AutoAssign || !a.isPoolCompatibleWithService(svcPool, svc) {\n\t\t\t\tcontinue\n\t\t\t}\n\t\t\tpools = append(pools, svcPool)\n\t\t}\n\t}\n\tsortPools(pools)\n\treturn pools", New: "\tvar late []*config.Pool\n\tfor _, svcPoolName := range a.pools.ByServiceSelector {\n\t\tif svcPool, ok := a.pools.ByName[svcPoolName]; ok {\n\t\t\tif !svcPool.AutoAssign || !a.isPoolCompatibleWithService(svcPool, svc) {\n\t\t\t\tcontinue\n\t\t\t}\n\t\t\tlate = append(late, svcPool)\n\t\t}\n\t}\n\tsortPools(pools)\n\tsortPools(late)\n\treturn append(pools, late...)", Expect: "returns-the-sorted-list"},
			{Name: "write-decided-on-status-alone", File: "controller/main.go",
				Old: "\tif !reflect.DeepEqual(svcRo.Annotations, svc.Annotations) {\n\t\ttoWrite.Annotations = svc.Annotations\n\t}\n", New: "", Expect: "changed-annotations-is-written"},
			{Name: "unlabelled-service-never-compatible", File: "internal/allocator/allocator.go",
				Old: "\tif p.ServiceAllocations != nil && len(p.ServiceAllocations.ServiceSelectors) > 0 {\n\t\tsvcLabels := labels.Set(svc.Labels)\n",
				New: "\tif p.ServiceAllocations != nil && len(p.ServiceAllocations.ServiceSelectors) > 0 {\n\t\tif len(svc.Labels) == 0 {\n\t\t\treturn false\n\t\t}\n\t\tsvcLabels := labels.Set(svc.Labels)\n", Expect: "return-false:justified"},
			{Name: "pinned-enumeration-stops-at-unusable-pool", File: "internal/allocator/allocator.go",
				Old: "\t\t\tif !nsPool.AutoAssign || !a.isPoolCompatibleWithService(nsPool, svc) {\n\t\t\t\tcontinue\n",
				New: "\t\t\tif !nsPool.AutoAssign || !a.isPoolCompatibleWithService(nsPool, svc) {\n\t\t\t\tbreak\n", Expect: "every-pinned-pool-examined"},
			{Name: "overlap-test-skipped-for-other-notation", File: "internal/config/config.go",
				Old: "\t\t\tfor _, m := range allCIDRs {\n",
				New: "\t\t\tfor _, m := range allCIDRs {\n\t\t\t\tif len(m.IP) != len(cidr.IP) {\n\t\t\t\t\tcontinue\n\t\t\t\t}\n", Expect: "VALIDATED-ACCUMULATOR"},
			{Name: "pool-annotation-only-when-absent", File: "controller/service.go",
				Old: "\tsvc.Annotations[AnnotationIPAllocateFromPool] = pool\n\n\treturn nil",
				New: "\tif _, ok := svc.Annotations[AnnotationIPAllocateFromPool]; !ok {\n\t\tsvc.Annotations[AnnotationIPAllocateFromPool] = pool\n\t}\n\n\treturn nil", Expect: "annotation-refreshed"},
			{Name: "family-of-cidr-by-mask-length", File: "internal/ipfamily/ipfamily.go",
				Old: "\tif cidr.IP.To4() == nil {",
				New: "\tif len(cidr.Mask) == net.IPv6len {", Expect: "FAMILY-OF"},
			{Name: "single-family-falls-through-to-policy-switch", File: "internal/allocator/allocation.go",
				Old: "\tif serviceIPFamily == ipfamily.IPv4 {\n\t\treturn []net.IP{ipv4}, nil", New: "\tif serviceIPFamily == ipfamily.IPv4 && ipv4 != nil {\n\t\treturn []net.IP{ipv4}, nil", Expect: "FAMILY-SELECT"},
			{Name: "same-ips-ignores-extra-requested", File: "controller/service.go",
				Old: "\treturn reflect.DeepEqual(ipsA, ipsB)\n", New: "\tfor i := range ipsA {\n\t\tif i >= len(ipsB) || !reflect.DeepEqual(ipsA[i], ipsB[i]) {\n\t\t\treturn false\n\t\t}\n\t}\n\treturn true\n", Expect: "SAME-IPS"},
			{Name: "namespace-scan-stops-at-first-member", File: "internal/config/config.go",
				Old: "\t\tfor _, ns := range namespaces {\n\t\t\tnsLabels := labels.Set(ns.Labels)\n", New: "\t\tfor _, ns := range namespaces {\n\t\t\tif serviceAllocations.Namespaces.Has(ns.Name) {\n\t\t\t\tbreak\n\t\t\t}\n\t\t\tnsLabels := labels.Set(ns.Labels)\n", Expect: "ALLOCATE-TO"},
			{Name: "prefer-dual-stack-accepts-any-family", File: "controller/service.go",
				Old: "\tif clusterIPsIPFamily == ipfamily.DualStack && familyPolicy == v1.IPFamilyPolicyPreferDualStack {\n\t\treturn false", New: "\tif familyPolicy == v1.IPFamilyPolicyPreferDualStack {\n\t\treturn false", Expect: "FAMILY-KEPT"},
			{Name: "same-length-prefixes-never-contained", File: "internal/config/config.go",
				Old: "\tif ol == il && outer.IP.Equal(inner.IP) {\n\t\treturn true\n\t}\n", New: "", Expect: "CIDR-CONTAINS"},
			{Name: "later-pool-replaces-candidate", File: "internal/allocator/allocator.go",
				Old: "\t\tif primaryIP != nil && primaryAllocationCandidate == nil {", New: "\t\tif primaryIP != nil {", Expect: "FIRST-POOL-WINS"},
			{Name: "getIPFromCIDR-drops-buggy-filter", File: "internal/allocator/allocator.go",
				Old: "\t\tif avoidBuggyIPs && ipConfusesBuggyFirmwares(pos.IP) {\n\t\t\tcontinue\n\t\t}\n\t\tif a.checkSharing(svc, pos.IP.String(), ports, sk) != nil {",
				New: "\t\tif a.checkSharing(svc, pos.IP.String(), ports, sk) != nil {", Expect: "FREE-IP"},
			{Name: "fallback-includes-non-autoassign", File: "internal/allocator/allocator.go",
				Old: "if !pool.AutoAssign || pool.ServiceAllocations != nil {", New: "if pool.ServiceAllocations != nil {", Expect: "FALLBACK-FILTER"},
			{Name: "requested-ip-falls-through", File: "controller/service.go",
				Old:    "\t\tif err := c.ips.Assign(key, svc, desiredLbIPs, k8salloc.Ports(svc), SharingKey(svc), k8salloc.BackendKey(svc)); err != nil {\n\t\t\treturn nil, err\n\t\t}\n\n\t\t// Verify",
				New:    "\t\tif err := c.ips.Assign(key, svc, desiredLbIPs, k8salloc.Ports(svc), SharingKey(svc), k8salloc.BackendKey(svc)); err != nil {\n\t\t\treturn c.ips.Allocate(key, svc, serviceIPFamily, k8salloc.Ports(svc), SharingKey(svc), k8salloc.BackendKey(svc))\n\t\t}\n\n\t\t// Verify",
				Expect: "REQUEST-IPS"},
			{Name: "annotation-from-request", File: "controller/service.go",
				Old: "svc.Annotations[AnnotationIPAllocateFromPool] = pool", New: "svc.Annotations[AnnotationIPAllocateFromPool] = valueForAnnotation(svc.Annotations, AnnotationAddressPool, DeprecatedAnnotationAddressPool)", Expect: "POOL-ANNOTATION"},
			{Name: "sortpools-descending", File: "internal/allocator/allocator.go",
				Old: "\t\t\treturn pools[i].ServiceAllocations.Priority <\n\t\t\t\tpools[j].ServiceAllocations.Priority", New: "\t\t\treturn pools[i].ServiceAllocations.Priority >\n\t\t\t\tpools[j].ServiceAllocations.Priority", Expect: "SORT-DIR"},
			{Name: "pinned-not-sorted", File: "internal/allocator/allocator.go",
				Old: "\tsortPools(pools)\n\treturn pools", New: "\treturn pools", Expect: "PINNED"},
			{Name: "namespace-refusal-only-with-selectors", File: "internal/allocator/allocator.go",
				Old: "\tif p.ServiceAllocations != nil && p.ServiceAllocations.Namespaces.Len() > 0 &&\n\t\t!p.ServiceAllocations.Namespaces.Has(svc.Namespace) {",
				New: "\tif p.ServiceAllocations != nil && p.ServiceAllocations.Namespaces.Len() > 0 && len(p.ServiceAllocations.ServiceSelectors) > 0 &&\n\t\t!p.ServiceAllocations.Namespaces.Has(svc.Namespace) {", Expect: "POOL-COMPAT"},
			{Name: "poolFor-ignores-buggy", File: "internal/allocator/allocator.go",
				Old: "\t\t\tif p.AvoidBuggyIPs && ipConfusesBuggyFirmwares(ip) {\n\t\t\t\tcontinue\n\t\t\t}\n\t\t\tfor _, cidr := range p.CIDR {", New: "\t\t\tfor _, cidr := range p.CIDR {", Expect: "MEMBER"},
			{Name: "different-pool-request-not-cleared", File: "controller/service.go",
				Old: "\t\t\tlevel.Info(l).Log(\"event\", \"clearAssignment\", \"reason\", \"differentPoolRequested\", \"msg\", \"user requested a different pool than the one currently assigned\")\n\t\t\tc.clearServiceState(key, svc)\n",
				New: "\t\t\tlevel.Info(l).Log(\"event\", \"clearAssignment\", \"reason\", \"differentPoolRequested\", \"msg\", \"user requested a different pool than the one currently assigned\")\n", Expect: "REQUEST-CHANGE"},
			{Name: "select-ipv6-returns-ipv4", File: "internal/allocator/allocation.go",
				Old: "\tif serviceIPFamily == ipfamily.IPv6 {\n\t\treturn []net.IP{ipv6}, nil", New: "\tif serviceIPFamily == ipfamily.IPv6 {\n\t\treturn []net.IP{ipv4}, nil", Expect: "FAMILY-SELECT"},
			{Name: "requiredual-accepts-single", File: "internal/allocator/allocation.go",
				Old: "\tcase v1.IPFamilyPolicyRequireDualStack:\n\t\tif ipv4 != nil && ipv6 != nil {", New: "\tcase v1.IPFamilyPolicyRequireDualStack:\n\t\tif ipv4 != nil || ipv6 != nil {", Expect: "FAMILY-SELECT"},
			{Name: "freeips-wrong-family-slot", File: "internal/allocator/allocator.go",
				Old: "allocation.setIPForFamily(cidrIPFamily, ip)", New: "allocation.setIPForFamily(ipfamily.IPv4, ip)", Expect: "FAMILY-SLOT"},
			{Name: "request-family-check-dropped", File: "controller/service.go",
				Old: "\t\tif serviceIPFamily != desiredLbIPFamily {", New: "\t\tif serviceIPFamily != desiredLbIPFamily && len(desiredLbIPs) > 2 {", Expect: "REQUEST-IPS"},
		},
	})
}

const allocA = "(*internal/allocator.Allocator)."

func runC02(p *chk.Prog, r *chk.Report) {
	// every address reaches the books through Assign, which asks whether the pool admits the Service (OWN-ALLOC, shared with C01)
	c01OwnAlloc(p, r)
	// a pool update re-validates every holder: SetPools always asks for the full pass (SETPOOLS-REPROCESS, shared with C07)
	c07Release(p, r)
	// a held address is re-validated against the current pools and Service on every sync (READOPT-EXIT, shared with C03)
	readoptBeforeExitRule(p, r)
	familyPairRule(p, r)
	c02FamilyChanged(p, r)
	c02FreeIP(p, r)
	c02Member(p, r)
	c02Allocate(p, r)
	c02Pinned(p, r)
	c02PoolCompat(p, r)
	c02SortPools(p, r)
	c02Requests(p, r)
	c02SameIPs(p, r)
	c02AllocateTo(p, r)
	c02Annotation(p, r)
	c02FamilySelect(p, r)
	// the recorded pool annotation reaches the API object: a changed annotation alone is a reason to write
	// (WRITE-ON-CHANGE, shared with C03)
	c03Write(p, r)
	c02FirstPoolWins(p, r)
	cidrContainmentRule(p, r)
	familyOfRule(p, r)
	// the pools are pairwise disjoint: every network is compared with every network accepted before it, of whatever
	// notation (VALIDATED-ACCUMULATOR, shared with C08) - an address owned by two pools is judged against an arbitrary one
	c08Accumulator(p, r)
}

// c02FirstPoolWins: the pools are tried in priority order; a partial candidate (an allocation that serves only one
// family) remembered for later must be the first such pool: it is stored only while its own slot is still empty.
func c02FirstPoolWins(p *chk.Prog, r *chk.Report) {
	x := r.Rule("FIRST-POOL-WINS", "B path", "in (*Allocator).findBestPoolForService every candidate variable that survives the loop over the (priority-sorted) pools is assigned the pool's allocation only while that same variable is still nil", 2)
	f := need(x, p, allocPkg, "Allocator", "findBestPoolForService")
	if f == nil {
		return
	}
	g := f.Graph()
	for _, rs := range f.RangeLoops(isParamIdx(f, 0)) {
		for _, s := range g.Find(func(n ast.Node) bool {
			as, ok := n.(*ast.AssignStmt)
			if !ok || len(as.Lhs) != 1 || len(as.Rhs) != 1 || as.Tok != token.ASSIGN || !chk.InBody(rs, n) {
				return false
			}
			id, ok := as.Lhs[0].(*ast.Ident)
			if !ok {
				return false
			}
			o := f.ObjOf(id)
			// declared outside the loop, of pointer type: a candidate that outlives the iteration
			if o == nil || (o.Pos() >= rs.Pos() && o.Pos() <= rs.End()) {
				return false
			}
			_, isPtr := o.Type().Underlying().(*types.Pointer)
			return isPtr
		}) {
			as := s.Node.(*ast.AssignStmt)
			o := f.ObjOf(as.Lhs[0])
			x.Check("findBestPoolForService:"+o.Name()+":kept-from-first-pool", s.Pos(), g.Dominated(s, g.GExprNil(true, f.IsObj(o))), "",
				"the candidate "+o.Name()+" can be overwritten by a later (lower-priority) pool although an earlier pool already provided one")
		}
	}
}

func c02FreeIP(p *chk.Prog, r *chk.Report) {
	x := r.Rule("FREE-IP", "B path", "in (*Allocator).getIPFromCIDR every returned address is dominated by the false edge of `avoidBuggyIPs && ipConfusesBuggyFirmwares(pos.IP)` and by checkSharing(svc, pos.IP.String(), ports, sk) == nil for that same cursor position, sk built from the caller's sharing and backend keys", 2)
	f := need(x, p, allocPkg, "Allocator", "getIPFromCIDR")
	if f == nil {
		return
	}
	g := f.Graph()
	n := 0
	for _, rt := range returnsOf(g) {
		res := retResults(rt)
		// the address is the first result (a found-flag may accompany it: every non-nil address is checked whatever
		// the flag says)
		if len(res) < 1 || len(res) > 2 || f.IsNilLit(res[0]) {
			continue
		}
		n++
		b := f.MatchNew("POS.IP", res[0])
		if b == nil {
			x.Fail("getIPFromCIDR:return-shape", rt.Pos(), "a non-nil return that is not the cursor position's address")
			continue
		}
		pos := func(e ast.Expr) bool { return f.SameExpr(e, b["POS"]) }
		x.Check("getIPFromCIDR:return:buggy-filter", rt.Pos(),
			g.Dominated(rt, g.GPat(false, "AV && ipConfusesBuggyFirmwares(POS.IP)", chk.H("AV", isParam(f, "avoidBuggyIPs")), chk.H("POS", pos))),
			"", "an address can be returned without the .0/.255 filter of an avoid-buggy pool")
		x.Check("getIPFromCIDR:return:checkSharing", rt.Pos(),
			g.Dominated(rt, g.GErrNil(true, checkSharingCallPat(p, "SVC", "PORTS", "SK"), chk.H("IP", func(e ast.Expr) bool { b := f.MatchNew("POS.IP", e); return b != nil && pos(b["POS"]) }), chk.H("SVC", crossParam(p, f, "svc", "svcKey")),
				chk.H("PORTS", crossParam(p, f, "ports")), chk.H("SK", sharingKeyOf(p, f)))),
			"", "an address can be returned without a successful checkSharing for the requesting service")
	}
	x.Check("getIPFromCIDR:has-address-return", f.Pos(), n > 0, "", "no address return found")
}

func c02Member(p *chk.Prog, r *chk.Report) {
	x := r.Rule("MEMBER", "B path", "allocator.poolFor returns a pool p (a non-nil result) only if for every element ip of ips: not (p.AvoidBuggyIPs && ipConfusesBuggyFirmwares(ip)), and cidr.Contains(ip) for a CIDR of p - established through one of the for-all idioms (early exit, flag, counter == len(ips))", 2)
	f := need(x, p, allocPkg, "", "poolFor")
	if f == nil {
		return
	}
	g := f.Graph()
	ipLoops := f.RangeLoops(isParamIdx(f, 1))
	poolLoops := f.RangeLoops(isParamIdx(f, 0))
	if len(ipLoops) != 1 || len(poolLoops) != 1 {
		x.Fail("poolFor:loops", f.Pos(), "expected one loop over the pools and one over the addresses")
		return
	}
	ipVar, poolVar := rangeVal(f, ipLoops[0]), rangeVal(f, poolLoops[0])
	cidrOfPool := func(e ast.Expr) bool {
		for _, rs := range f.RangeLoops(func(x ast.Expr) bool { return f.MatchWith("P.CIDR", x, chk.H("P", poolVar)) != nil }) {
			if rangeVal(f, rs)(e) {
				return true
			}
		}
		return false
	}
	notBuggy := g.GPat(false, "P.AvoidBuggyIPs && ipConfusesBuggyFirmwares(IP)", chk.H("P", poolVar), chk.H("IP", ipVar))
	contains := g.GPat(true, "C.Contains(IP)", chk.H("C", cidrOfPool), chk.H("IP", ipVar))
	n := 0
	for _, rt := range returnsOf(g) {
		res := retResults(rt)
		if len(res) != 1 || f.IsNilLit(res[0]) {
			continue
		}
		n++
		x.Check("poolFor:return-pool:is-the-examined-pool", rt.Pos(), poolVar(res[0]), "", "poolFor returns a pool other than the one whose CIDRs were examined")
		why := forallBefore(f, g, ipLoops[0], notBuggy, rt)
		x.Check("poolFor:return-pool:no-buggy-address", rt.Pos(), why == "", "", "a pool that avoids buggy addresses can be returned for a .0/.255 address: "+why)
		why = forallBefore(f, g, ipLoops[0], contains, rt)
		x.Check("poolFor:return-pool:all-members", rt.Pos(), why == "", "", "a pool can be returned although not every address lies in one of its CIDRs: "+why)
	}
	x.Check("poolFor:returns-a-pool", f.Pos(), n > 0, "", "poolFor never returns a pool")
}

func c02Allocate(p *chk.Prog, r *chk.Report) {
	x := r.Rule("FALLBACK-FILTER", "B path", "in (*Allocator).Allocate the pools pinned to the service are tried first (allocateFromPools(pinnedPoolsForService(svc), …)), the fallback attempt is reachable only after that attempt failed, and the fallback list receives a pool only behind pool.AutoAssign && pool.ServiceAllocations == nil", 4)
	f := need(x, p, allocPkg, "Allocator", "Allocate")
	if f == nil {
		return
	}
	g := f.Graph()
	calls := g.FindPat("RECV.allocateFromPools(POOLS, ETC)")
	if len(calls) != 2 {
		x.Fail("Allocate:two-attempts", f.Pos(), "expected a pinned attempt and a fallback attempt")
		return
	}
	var pinned, fallback *chk.Site
	for i := range calls {
		arg := calls[i].Node.(*ast.CallExpr).Args[0]
		if definedBy(g, "RECV.pinnedPoolsForService(S)", chk.H("S", isParam(f, "svc")))(arg) {
			pinned = &calls[i]
		} else {
			fallback = &calls[i]
		}
	}
	if pinned == nil || fallback == nil {
		x.Fail("Allocate:pinned-first", f.Pos(), "no attempt on pinnedPoolsForService(svc)")
		return
	}
	// fallback reachable only after the pinned attempt failed
	x.Check("Allocate:fallback-after-pinned-failed", fallback.Pos(),
		g.Dominated(*fallback, g.GErrNil(false, "RECV.allocateFromPools(POOLS, ETC)", chk.H("POOLS", definedBy(g, "RECV.pinnedPoolsForService(_)")))),
		"", "the fallback pools are tried without a failed attempt on the pinned pools first")
	fbList := f.ObjOf(fallback.Node.(*ast.CallExpr).Args[0])
	apps := g.Find(f.IsAssignPat("L", "append(L, P)", chk.H("L", f.IsObj(fbList))))
	x.Check("Allocate:fallback-list-built", f.Pos(), len(apps) >= 1, "", "the fallback list is not built by appending pools")
	for _, a := range apps {
		pool := a.Node.(*ast.AssignStmt).Rhs[0].(*ast.CallExpr).Args[1]
		same := func(e ast.Expr) bool { return f.SameExpr(e, pool) }
		x.Check("Allocate:fallback-append:AutoAssign", a.Pos(), g.Dominated(a, g.GPat(true, "P.AutoAssign", chk.H("P", same))), "", "a pool with auto-assignment disabled can enter the fallback list")
		x.Check("Allocate:fallback-append:unpinned", a.Pos(), g.Dominated(a, g.GPat(true, "P.ServiceAllocations == nil", chk.H("P", same))), "", "a pool pinned to other services can enter the fallback list")
	}
	// results: only what allocateFromPools returned, or an error
	for _, rt := range returnsOf(g) {
		res := retResults(rt)
		if len(res) != 2 || !f.IsNilLit(res[1]) {
			continue
		}
		okSrc := definedBy(g, "RECV.allocateFromPools(ETC)")(res[0]) || f.MatchNew("AL.ips", res[0]) != nil
		x.Check("Allocate:success-source#"+types.ExprString(res[0]), rt.Pos(), okSrc, "", "Allocate returns addresses that did not come from allocateFromPools or the existing allocation")
	}
}

func c02Pinned(p *chk.Prog, r *chk.Report) {
	x := r.Rule("PINNED", "B path", "in (*Allocator).pinnedPoolsForService every appended pool is dominated by pool.AutoAssign and isPoolCompatibleWithService(pool, svc), and every return for a non-nil service passes sortPools on the returned list", 5)
	f := need(x, p, allocPkg, "Allocator", "pinnedPoolsForService")
	if f == nil {
		return
	}
	g := f.Graph()
	apps := g.Find(f.IsAssignPat("L", "append(L, P)"))
	var list types.Object
	for _, a := range apps {
		as := a.Node.(*ast.AssignStmt)
		list = f.ObjOf(as.Lhs[0])
		pool := as.Rhs[0].(*ast.CallExpr).Args[1]
		same := func(e ast.Expr) bool { return f.SameExpr(e, pool) }
		tag := types.ExprString(pool)
		_ = tag
		src := "namespace"
		if lp := f.LoopOf(a.Node); lp != nil {
			if rs, ok := lp.(*ast.RangeStmt); ok && f.MatchNew("RECV.pools.ByServiceSelector", rs.X) != nil {
				src = "selector"
			}
		}
		x.Check("pinned:append("+src+"):AutoAssign", a.Pos(), g.Dominated(a, g.GPat(true, "P.AutoAssign", chk.H("P", same))), "", "a pool with auto-assignment disabled can be pinned")
		x.Check("pinned:append("+src+"):compatible", a.Pos(), g.Dominated(a, g.GPat(true, "RECV.isPoolCompatibleWithService(P, S)", chk.H("P", same), chk.H("S", isParam(f, "svc")))), "", "a pool whose selectors do not admit the service can be pinned")
	}
	// both sources are consulted: the pools pinned to the Service's namespace and the pools with service selectors - by
	// one loop each, or by one loop over the two lists joined
	haveNS, haveSel := false, false
	for _, a := range apps {
		rs, isRs := f.LoopOf(a.Node).(*ast.RangeStmt)
		if !isRs {
			continue
		}
		srcs := []ast.Expr{throughLocals(g, rs.X)}
		if c, isCall := ast.Unparen(srcs[0]).(*ast.CallExpr); isCall {
			if fo, isF := f.Callee(c).(*types.Func); isF && fo.FullName() == "slices.Concat" {
				srcs = c.Args
			}
		}
		for _, e := range srcs {
			e = throughLocals(g, e)
			if f.MatchWith("RECV.pools.ByNamespace[S.Namespace]", e, chk.H("S", isParam(f, "svc"))) != nil {
				haveNS = true
			}
			if f.MatchNew("RECV.pools.ByServiceSelector", e) != nil {
				haveSel = true
			}
		}
	}
	x.Check("pinned:two-sources", f.Pos(), haveNS && haveSel && len(apps) >= 1 && len(apps) <= 2, "", "expected the namespace-pinned and selector-pinned sources")
	// every pinned pool is looked at: a pool this Service cannot use is passed over, it does not end the enumeration
	for _, a := range apps {
		if rs, isRs := f.LoopOf(a.Node).(*ast.RangeStmt); isRs {
			x.Check("pinned:every-pinned-pool-examined@"+f.Src(rs.X), rs.Pos(), !loopLeavesEarly(f, g, rs), "", "the enumeration of the pinned pools can stop before the last one (break / return in the loop): pools that sort after an unusable one are never offered, and they are not fallback pools either")
		}
	}
	if list != nil {
		// one ordering over everything pinned: what is returned is the very list that sortPools was given, and every list
		// the pools were gathered in is that list or was joined into it (two lists sorted on their own and concatenated
		// put a priority-1 selector pool behind a priority-5 namespace pool)
		lists := map[types.Object]bool{}
		for _, a := range apps {
			lists[f.ObjOf(a.Node.(*ast.AssignStmt).Lhs[0])] = true
		}
		notNil := g.GPat(false, "S == nil", chk.H("S", isParam(f, "svc")))
		for _, rt := range returnsOf(g) {
			res := retResults(rt)
			if len(res) != 1 || f.IsNilLit(res[0]) {
				continue
			}
			ro := f.ObjOf(res[0])
			if ro == nil {
				if g.Dominated(rt, notNil) {
					x.Fail("pinned:returns-the-sorted-list", rt.Pos(), "what is returned is not the list that was sorted (lists sorted one by one and joined afterwards are not in priority order)")
				}
				continue
			}
			if !g.Dominated(rt, notNil) && !g.EdgeImpliesAny(notNil) {
				continue
			}
			sortedHere := g.Dominated(rt, chk.GEvent(f.ContainsPat("sortPools(L)", chk.H("L", f.IsObj(ro)))))
			if !g.Dominated(rt, notNil) {
				continue // the nil-service return: nothing gathered
			}
			joined := map[types.Object]bool{ro: true}
			for _, a := range assignsTo(f, ro) {
				if as, isAs := a.(*ast.AssignStmt); isAs {
					for _, rhs := range as.Rhs {
						ast.Inspect(rhs, func(n ast.Node) bool {
							if id, isId := n.(*ast.Ident); isId && f.ObjOf(id) != nil {
								joined[f.ObjOf(id)] = true
							}
							return true
						})
					}
				}
			}
			all := true
			for l := range lists {
				if !joined[l] {
					all = false
				}
			}
			x.Check("pinned:returns-the-sorted-list", rt.Pos(), sortedHere && all, "", "what is returned is not one list holding every pinned pool that sortPools was given (lists sorted one by one and joined afterwards are not in priority order)")
		}
		w := (&chk.Walk{G: g, Stop: f.ContainsPat("sortPools(L)", chk.H("L", f.IsObj(list))),
			Hit: func(n ast.Node) bool { _, ok := n.(*ast.ReturnStmt); return ok },
			Cut: func(b *cfgBlock, k int) bool {
				return g.EdgeImplies(b, k, g.GPat(true, "S == nil", chk.H("S", isParam(f, "svc"))))
			}}).Run()
		x.Check("pinned:sorted-before-return", posOf(w, f), !w.Found, "", "the pinned pools can be returned without sortPools (priority order lost)")
	}
}

func c02PoolCompat(p *chk.Prog, r *chk.Report) {
	x := r.Rule("POOL-COMPAT", "B path", "in (*Allocator).isPoolCompatibleWithService every `return true` is dominated by the false edge of the namespace refusal (ServiceAllocations != nil && Namespaces.Len() > 0 && !Namespaces.Has(svc.Namespace)) and either by svcSelector.Matches(labels of svc) for a selector of the pool or by the absence of service selectors", 4)
	f := need(x, p, allocPkg, "Allocator", "isPoolCompatibleWithService")
	if f == nil {
		return
	}
	g := f.Graph()
	pool, svc := isParamIdx(f, 0), isParamIdx(f, 1)
	nsOK := g.GPat(false, "P.ServiceAllocations != nil && P.ServiceAllocations.Namespaces.Len() > 0 && !P.ServiceAllocations.Namespaces.Has(S.Namespace)", chk.H("P", pool), chk.H("S", svc))
	noSel := g.GPat(false, "P.ServiceAllocations != nil && len(P.ServiceAllocations.ServiceSelectors) > 0", chk.H("P", pool))
	n := 0
	for i, rt := range returnsOf(g) {
		res := retResults(rt)
		if len(res) != 1 || !f.IsConstBool(res[0], true) {
			if len(res) == 1 && !f.IsConstBool(res[0], false) {
				x.Fail("compat:return-shape", rt.Pos(), "a return that is not a boolean constant")
			}
			continue
		}
		n++
		tag := "final"
		if f.LoopOf(rt.Node) != nil {
			tag = "in-selector-loop"
		}
		_ = i
		x.Check("compat:return-true("+tag+"):namespace", rt.Pos(), g.Dominated(rt, nsOK), "", "a pool restricted to other namespaces can be reported compatible")
		matches := false
		if rs, ok := f.LoopOf(rt.Node).(*ast.RangeStmt); ok && f.MatchWith("P.ServiceAllocations.ServiceSelectors", rs.X, chk.H("P", pool)) != nil {
			matches = g.Dominated(rt, g.GPat(true, "SEL.Matches(L)", chk.H("SEL", rangeVal(f, rs)),
				chk.H("L", definedBy(g, "labels.Set(S.Labels)", chk.H("S", svc)))))
		}
		x.Check("compat:return-true("+tag+"):selectors", rt.Pos(), matches || g.Dominated(rt, noSel), "", "a pool with service selectors can be reported compatible without a matching selector")
	}
	x.Check("compat:has-true", f.Pos(), n >= 2, "", "expected the selector-match and the default `return true`")
	// and it says no only for one of the two reasons: the namespace refusal, or selectors none of which matched (after the
	// loop over all of them) - a Service that a selector matches (an empty label set matches labels.Everything() and every
	// negative selector) must not be turned away by anything else
	nsRefused := g.GPat(true, "P.ServiceAllocations != nil && P.ServiceAllocations.Namespaces.Len() > 0 && !P.ServiceAllocations.Namespaces.Has(S.Namespace)", chk.H("P", pool), chk.H("S", svc))
	for _, rt := range returnsOf(g) {
		res := retResults(rt)
		if len(res) != 1 || !f.IsConstBool(res[0], false) {
			continue
		}
		okF := g.Dominated(rt, nsRefused)
		if !okF {
			for _, rs := range f.RangeLoops(func(e ast.Expr) bool {
				return f.MatchWith("P.ServiceAllocations.ServiceSelectors", throughLocals(g, e), chk.H("P", pool)) != nil || f.MatchWith("SA.ServiceSelectors", e) != nil
			}) {
				if g.AfterLoop(rt, rs) && !loopHasBreak(g, rs) {
					okF = true
				}
				// the conjunctive spelling is judged by the true-returns above
				if chk.InBody(rs, rt.Node) {
					okF = true
				}
			}
		}
		x.Check("compat:return-false:justified", rt.Pos(), okF, "", "the pool is reported incompatible for a reason other than its namespaces or its selectors (after all of them failed to match): a Service that may use the pool is refused its recorded address, cleared and moved")
	}
}

func c02SortPools(p *chk.Prog, r *chk.Report) {
	x := r.Rule("SORT-DIR", "A' comparator", "allocator.sortPools sorts the slice it is given, its comparator indexes only that slice (SORT-IDX), returns P[i].prio < P[j].prio (ascending) under the both-positive guard and false for (zero, positive) (0 = lowest priority, last)", 3)
	f := need(x, p, allocPkg, "", "sortPools")
	if f == nil {
		return
	}
	var sc *chk.SortCall
	for _, c := range p.SortCalls() {
		if c.Fn == f {
			c := c
			sc = &c
		}
	}
	if sc == nil || sc.Less == nil {
		x.Fail("sortPools:sort-call", f.Pos(), "no sort.Slice with a literal comparator")
		return
	}
	x.Check("sortPools:sorts-its-argument", sc.Call.Pos(), isParamIdx(f, 0)(sc.Slice), "", "sortPools does not sort the slice it was given")
	ok, bad := sc.IndexesOnlySorted()
	pos := sc.Call.Pos()
	if bad != nil {
		pos = bad.Pos()
	}
	x.Check("sortPools:SORT-IDX", pos, ok, "", "the comparator indexes something other than the slice being sorted")
	lf := f.LitFn(sc.Less)
	lg := lf.Graph()
	// the priority of element idx: P[idx].ServiceAllocations.Priority, or a local defined from it
	prioOf := func(idx types.Object) func(ast.Expr) bool {
		direct := func(e ast.Expr) bool {
			b := lf.MatchNew("P[I].ServiceAllocations.Priority", e)
			return b != nil && lf.ObjOf(b["I"]) == idx && lf.SameExpr(b["P"], sc.Slice)
		}
		return func(e ast.Expr) bool {
			if direct(e) {
				return true
			}
			if id, ok := ast.Unparen(e).(*ast.Ident); ok {
				rhs, _ := lg.DefOf(id, lg.FactSite(id))
				return rhs != nil && direct(rhs)
			}
			return false
		}
	}
	pi, pj := prioOf(sc.I), prioOf(sc.J)
	positive := func(s chk.Site, pr func(ast.Expr) bool) bool {
		return lg.Dominated(s, chk.GAnyOf(lg.GPat(true, "X > 0", chk.H("X", pr)), lg.GPat(true, "X != 0", chk.H("X", pr))))
	}
	isZero := func(s chk.Site, pr func(ast.Expr) bool) bool {
		return lg.Dominated(s, chk.GAnyOf(lg.GPat(true, "X == 0", chk.H("X", pr)), lg.GPat(false, "X > 0", chk.H("X", pr))))
	}
	asc, zeroLast := false, false
	for _, rt := range lg.Returns() {
		ret := rt.Node.(*ast.ReturnStmt)
		if len(ret.Results) != 1 {
			continue
		}
		e := ret.Results[0]
		if lf.MatchWith("A < B", e, chk.H("A", pi), chk.H("B", pj)) != nil {
			// ascending comparison of priorities: only meaningful when both are set
			if positive(rt, pi) && positive(rt, pj) {
				asc = true
			} else {
				x.Fail("sortPools:ascending-priority", ret.Pos(), "priorities are compared with `<` without both being known positive: a pool without priority (0) would sort first")
				return
			}
			continue
		}
		if lf.MatchWith("A > B", e, chk.H("A", pi), chk.H("B", pj)) != nil {
			x.Fail("sortPools:ascending-priority", ret.Pos(), "positive priorities are not ordered ascending (lower number = higher priority)")
			return
		}
		if lf.IsConstBool(e, false) && isZero(rt, pi) {
			zeroLast = true
		}
		if lf.IsConstBool(e, true) && isZero(rt, pi) && positive(rt, pj) {
			x.Fail("sortPools:zero-last", ret.Pos(), "a pool without priority is ordered before a pool with a positive priority")
			return
		}
	}
	x.Check("sortPools:ascending-priority", sc.Less.Pos(), asc, "", "no `return P[i].prio < P[j].prio` under the both-positive guard")
	x.Check("sortPools:zero-last", sc.Less.Pos(), zeroLast, "", "a pool without priority (0) is not ordered after a pool with a positive priority")
}

func c02Requests(p *chk.Prog, r *chk.Report) {
	x := r.Rule("REQUEST-IPS", "B path", "in controller.allocateIPs, on the branch len(desiredLbIPs) > 0 no automatic allocation call is reachable, and the success return yields desiredLbIPs itself behind the family check, a successful Assign(key, svc, desiredLbIPs, …) and the pool-annotation compatibility test (mismatch -> Unassign + error); on the branch desiredPool != \"\" only AllocateFromPool(…, desiredPool, …) is reachable", 5)
	f := need(x, p, "controller", "controller", "allocateIPs")
	if f == nil {
		return
	}
	g := f.Graph()
	svc := isParam(f, "svc")
	desired := definedBy(g, "getDesiredLbIPs(S)", chk.H("S", svc))
	dpool := definedBy(g, "valueForAnnotation(S.Annotations, A, B)", chk.H("S", svc), chk.H("A", constStr(f, "metallb.io/address-pool")), chk.H("B", constStr(f, "metallb.universe.tf/address-pool")))
	reqIPs := g.GPat(true, "len(D) > 0", chk.H("D", desired))
	edges := g.EdgesImplying(reqIPs)
	if len(edges) != 1 {
		x.Fail("allocateIPs:request-branch", f.Pos(), "no `if len(desiredLbIPs) > 0` branch on the result of getDesiredLbIPs(svc)")
		return
	}
	e := edges[0]
	start := chk.Site{G: g, B: e.B.Succs[e.K], I: 0}
	auto := f.ContainsCallTo(allocA+"Allocate", allocA+"AllocateFromPool", allocA+"AllocateFromPoolForAdditionalFamily")
	w := (&chk.Walk{G: g, From: start, Inclusive: true, Hit: auto}).Run()
	x.Check("allocateIPs:requested-ips:no-automatic-allocation", posOf(w, f), !w.Found, "", "with explicitly requested addresses an automatic allocation call is reachable: "+describe(f, w))
	// success returns on that branch
	famOK := g.GPat(false, "FAM != DF", chk.H("FAM", definedBy(g, "ipfamily.ForService(S)", chk.H("S", svc))), chk.H("DF", desired))
	assignOK := g.GErrNil(true, "RECV.ips.Assign(K, S, D, ETC)", chk.H("K", isParam(f, "key")), chk.H("S", svc), chk.H("D", desired))
	poolOK := g.GPat(false, `DP != "" && RECV.ips.Pool(K) != DP`, chk.H("DP", dpool), chk.H("K", isParam(f, "key")))
	nret := 0
	w2 := (&chk.Walk{G: g, From: start, Inclusive: true, Hit: func(n ast.Node) bool {
		rs, ok := n.(*ast.ReturnStmt)
		if !ok || len(rs.Results) != 2 {
			return ok
		}
		if !f.IsNilLit(rs.Results[1]) {
			return false // error return
		}
		nret++
		site := g.FactSite(rs.Results[0])
		site.Node = rs
		good := desired(rs.Results[0]) && g.Dominated(site, famOK) && g.Dominated(site, assignOK) && g.Dominated(site, poolOK)
		return !good
	}}).Run()
	x.Check("allocateIPs:requested-ips:success-is-exactly-the-request", posOf(w2, f), !w2.Found && nret > 0, "", "a success return on the requested-addresses branch is not `desiredLbIPs` behind the family check, a successful Assign of those addresses and the pool-annotation test")
	// mismatch => Unassign before the error
	for _, me := range g.EdgesImplying(g.GPat(true, `DP != "" && RECV.ips.Pool(K) != DP`, chk.H("DP", dpool), chk.H("K", isParam(f, "key")))) {
		wb := g.BranchAlways(me, f.ContainsPat("RECV.ips.Unassign(K)", chk.H("K", isParam(f, "key"))))
		x.Check("allocateIPs:requested-ips:pool-mismatch-releases", posOf(wb, f), !wb.Found, "", "requested addresses that contradict the requested pool stay assigned (leak)")
	}
	// requested pool: with desiredPool != "" (and no requested addresses) only AllocateFromPool(…, desiredPool, …) produces the address
	hasPool := g.GPat(true, `DP != ""`, chk.H("DP", dpool))
	noPool := g.GPat(false, `DP != ""`, chk.H("DP", dpool))
	if !g.EdgeImpliesAny(hasPool) {
		x.Fail("allocateIPs:requested-pool:branch", f.Pos(), "no test of desiredPool != \"\"")
	}
	okPool := true
	for _, c := range g.FindCalls(allocA+"Allocate", allocA+"AllocateFromPoolForAdditionalFamily") {
		if !g.Dominated(c, noPool) {
			okPool = false
		}
	}
	nFrom := 0
	for _, c := range g.FindCalls(allocA + "AllocateFromPool") {
		nFrom++
		call := c.Node.(*ast.CallExpr)
		if len(call.Args) < 4 || !dpool(call.Args[3]) || !g.Dominated(c, hasPool) {
			okPool = false
		}
	}
	for _, rt := range returnsOf(g) {
		res := retResults(rt)
		if len(res) != 2 || !f.IsNilLit(res[1]) {
			continue
		}
		if g.Dominated(rt, hasPool) && g.Dominated(rt, chk.GNot(reqIPs)) {
			if !definedBy(g, "RECV.ips.AllocateFromPool(K, S, FAM, DP, ETC)", chk.H("DP", dpool))(res[0]) {
				okPool = false
			}
		}
	}
	x.Check("allocateIPs:requested-pool:only-that-pool", f.Pos(), okPool && nFrom > 0, "", "with a requested pool something other than AllocateFromPool(…, desiredPool, …) can produce the address")
	// AllocateFromPool itself draws only from the named pool
	af := need(x, p, allocPkg, "Allocator", "AllocateFromPool")
	if af != nil {
		ag := af.Graph()
		for _, c := range ag.FindPat("RECV.getFreeIPsFromPool(P, ETC)") {
			pool := c.Node.(*ast.CallExpr).Args[0]
			x.Check("AllocateFromPool:draws-from-named-pool", c.Pos(), definedByOrNil(ag, "RECV.pools.ByName[N]", chk.H("N", isParam(af, "poolName")))(pool), "", "AllocateFromPool searches a pool other than the one named")
		}
	}
}

func c02Annotation(p *chk.Prog, r *chk.Report) {
	x := r.Rule("POOL-ANNOTATION", "B path", "in controller.convergeBalancer the ip-allocated-from-pool annotation is written from c.ips.Pool(key) behind the refusal of an empty / unknown pool", 2)
	f := need(x, p, "controller", "controller", "convergeBalancer")
	if f == nil {
		return
	}
	g := f.Graph()
	svc, key := isParam(f, "svc"), isParam(f, "key")
	ws := g.Find(f.IsAssignPat("S.Annotations[K]", "V", chk.H("S", svc), chk.H("K", constStr(f, "metallb.io/ip-allocated-from-pool"))))
	if len(ws) != 1 {
		x.Fail("converge:annotation-write", f.Pos(), "expected one write of the ip-allocated-from-pool annotation")
	} else {
		v := ws[0].Node.(*ast.AssignStmt).Rhs[0]
		isPool := definedBy(g, "RECV.ips.Pool(K)", chk.H("K", key))
		x.Check("converge:annotation-source", ws[0].Pos(), isPool(v), "", "the recorded pool annotation does not come from Allocator.Pool(key)")
		x.Check("converge:annotation-nonempty", ws[0].Pos(), g.Dominated(ws[0], g.GPat(false, `P == ""`, chk.H("P", isPool))), "", "the pool annotation can be written for a service without an owning pool")
		// refreshed on every successful convergence: the owning pool can change name under an address that stays
		refreshed := false
		if vid, isId := ast.Unparen(v).(*ast.Ident); isId && isPool(v) {
			if rhs, _ := g.DefOf(vid, ws[0]); rhs != nil {
				w := g.MustPass(g.FactSite(rhs), func(n ast.Node) bool {
					rs, isRet := n.(*ast.ReturnStmt)
					return isRet && len(rs.Results) == 1 && f.IsNilLit(rs.Results[0])
				}, false, func(n ast.Node) bool { return n == ws[0].Top })
				refreshed = !w.Found
			}
		} else if isPool(v) {
			// c.ips.Pool(key) written in place: from the emptiness test of the same reading
			for _, ps := range g.FindPat("RECV.ips.Pool(K)", chk.H("K", key)) {
				if ps.Top == ws[0].Top || !g.Dominated(ws[0], g.GPat(false, `P == ""`, chk.H("P", func(e ast.Expr) bool { return e == ps.Node.(ast.Expr) }))) {
					continue
				}
				w := g.MustPass(ps, func(n ast.Node) bool {
					rs, isRet := n.(*ast.ReturnStmt)
					return isRet && len(rs.Results) == 1 && f.IsNilLit(rs.Results[0])
				}, false, func(n ast.Node) bool { return n == ws[0].Top })
				refreshed = !w.Found
			}
		}
		x.Check("converge:annotation-refreshed-on-every-success", ws[0].Pos(), refreshed, "", "a convergence can succeed without rewriting the pool annotation (only when it is absent, say): it goes stale when the pool owning the kept address changes")
	}
	y := r.Rule("REQUEST-CHANGE", "B path", "in controller.convergeBalancer a requested pool that differs from the owning pool, and requested addresses that differ from the held ones, always reach clearServiceState(key, svc) and reset the held addresses before allocation", 2)
	clr := func(n ast.Node) bool {
		return f.ContainsPat("RECV.clearServiceState(K, S)", chk.H("K", key), chk.H("S", svc))(n)
	}
	dpool := definedBy(g, "valueForAnnotation(S.Annotations, A, B)", chk.H("S", svc), chk.H("A", constStr(f, "metallb.io/address-pool")), chk.H("B", constStr(f, "metallb.universe.tf/address-pool")))
	var lbIPs types.Object
	for _, s := range g.FindPat("RECV.ips.Assign(K, S, IPS, ETC)", chk.H("K", key)) {
		lbIPs = f.ObjOf(s.Node.(*ast.CallExpr).Args[2])
	}
	// emptied: the empty literal, nil, an empty make or a zero-length reslice (all of length 0, which is all that is read)
	resets := []func(ast.Node) bool{}
	for _, form := range []string{"[]net.IP{}", "nil", "make([]net.IP, 0)", "L[:0]", "[]net.IP(nil)"} {
		resets = append(resets, f.IsAssignPat("L", form, chk.H("L", f.IsObj(lbIPs))))
	}
	reset := func(n ast.Node) bool {
		for _, rf := range resets {
			if rf(n) {
				return true
			}
		}
		return false
	}
	check := func(name string, guard chk.Guard) {
		es := g.EdgesImplying(guard)
		if len(es) == 0 {
			y.Fail("converge:"+name+":branch", f.Pos(), "the test for a changed request is missing")
			return
		}
		for _, e := range es {
			w1 := g.BranchAlways(e, clr)
			w2 := g.BranchAlways(e, reset)
			y.Check("converge:"+name+":clears", posOf(w1, f), !w1.Found && !w2.Found, "", "a changed request does not clear the service state and the held addresses")
			// ... and nothing narrower decides: every way past the test that does not enter the clearing branch establishes
			// that the request did not change (a test such as `len(requested) > 1 && ...` lets a single changed address pass)
			t := e.B.Succs[e.K]
			ifs, isIf := t.Stmt.(*ast.IfStmt)
			if !isIf {
				continue
			}
			narrower := false
			for _, b := range g.Blocks {
				inCond := false
				for _, nd := range b.Nodes {
					if chk.Encloses(ifs.Cond, nd) {
						inCond = true
					}
				}
				if !inCond {
					continue
				}
				for k, sb := range b.Succs {
					if sb == t {
						continue
					}
					// still inside the condition (the next operand of && / ||)?
					stays := false
					for _, nd := range sb.Nodes {
						if chk.Encloses(ifs.Cond, nd) {
							stays = true
						}
					}
					if stays {
						continue
					}
					if !g.EdgeImplies(b, k, chk.GNot(guard)) {
						narrower = true
					}
				}
			}
			y.Check("converge:"+name+":exactly-when-the-request-changed", ifs.Pos(), !narrower, "", "the test that clears the state on a changed request can be false although the request changed (a narrower condition): the Service keeps addresses it no longer asks for")
		}
	}
	check("pool-request-differs", g.GPat(true, `len(L) != 0 && DP != "" && RECV.ips.Pool(K) != DP`, chk.H("DP", dpool), chk.H("K", key)))
	check("ip-request-differs", g.GPat(true, "len(D) > 0 && !isEqualIPs(L, D)", chk.H("D", definedBy(g, "getDesiredLbIPs(S)", chk.H("S", svc))), chk.H("L", f.IsObj(lbIPs))))
}

func c02FamilySelect(p *chk.Prog, r *chk.Report) {
	x := r.Rule("FAMILY-SELECT", "B path", "in (*Allocation).selectIPsForFamilyAndPolicy every returned address comes from getIPForFamily of the receiver; the single-family returns yield the address of the family asked for; a pair is returned only when both addresses exist and is the only success under RequireDualStack; get/setIPForFamily map IPv4<->IPV4 and IPv6<->IPV6", 8)
	f := need(x, p, allocPkg, "Allocation", "selectIPsForFamilyAndPolicy")
	if f != nil {
		g := f.Graph()
		fam := isParamIdx(f, 0)
		// the address of a family: a.getIPForFamily(ipfamily.X), or the field that getIPForFamily yields for X
		fromFam := func(name string) func(ast.Expr) bool {
			viaGet := definedBy(g, "RECV.getIPForFamily(F)", chk.H("RECV", isRecv(f)), chk.H("F", isObjNamed(f, "internal/ipfamily."+name)))
			fld := map[string]string{"IPv4": "IPV4", "IPv6": "IPV6"}[name]
			return func(e ast.Expr) bool {
				if viaGet(e) {
					return true
				}
				sel, ok := ast.Unparen(f.Resolve(e)).(*ast.SelectorExpr)
				return ok && sel.Sel.Name == fld && isRecv(f)(sel.X)
			}
		}
		viaGetAny := definedBy(g, "RECV.getIPForFamily(F)", chk.H("RECV", isRecv(f)))
		fromAny := func(e ast.Expr) bool { return viaGetAny(e) || fromFam("IPv4")(e) || fromFam("IPv6")(e) }
		req := g.GPat(true, "POL == R", chk.H("POL", isParamIdx(f, 1)), chk.H("R", constStr(f, "RequireDualStack")))
		n := 0
		for _, rt := range returnsOf(g) {
			res := retResults(rt)
			if len(res) != 2 || !f.IsNilLit(res[1]) {
				continue
			}
			for _, form := range resultForms(g, f, rt, 0) {
				var lit *ast.CompositeLit
				if form.E != nil {
					lit, _ = ast.Unparen(form.E).(*ast.CompositeLit)
				}
				if lit == nil {
					x.Fail("select:return-shape", rt.Pos(), "a success return that is not a literal list of addresses")
					continue
				}
				at := form.At
				n++
				tag := ""
				for _, e := range lit.Elts {
					tag += types.ExprString(e) + ","
				}
				good := true
				for _, e := range lit.Elts {
					if !fromAny(e) {
						good = false
					}
				}
				x.Check("select:return["+tag+"]:source", at.Pos(), good, "", "a returned address does not come from getIPForFamily of the receiver")
				switch {
				case g.Dominated(at, g.GPat(true, "F == V", chk.H("F", fam), chk.H("V", isObjNamed(f, "internal/ipfamily.IPv4")))):
					x.Check("select:return["+tag+"]:ipv4-service-gets-ipv4", at.Pos(), len(lit.Elts) == 1 && fromFam("IPv4")(lit.Elts[0]), "", "an IPv4 service is given something other than the IPv4 address")
				case g.Dominated(at, g.GPat(true, "F == V", chk.H("F", fam), chk.H("V", isObjNamed(f, "internal/ipfamily.IPv6")))):
					x.Check("select:return["+tag+"]:ipv6-service-gets-ipv6", at.Pos(), len(lit.Elts) == 1 && fromFam("IPv6")(lit.Elts[0]), "", "an IPv6 service is given something other than the IPv6 address")
				default:
					// a return that is not tied to one family is out of reach for a single-family Service: otherwise an
					// IPv4-only Service can be handed the pool's IPv6 address (and the other way round)
					out4 := g.Dominated(at, g.GPat(false, "F == V", chk.H("F", fam), chk.H("V", isObjNamed(f, "internal/ipfamily.IPv4"))))
					out6 := g.Dominated(at, g.GPat(false, "F == V", chk.H("F", fam), chk.H("V", isObjNamed(f, "internal/ipfamily.IPv6"))))
					x.Check("select:return["+tag+"]:not-for-single-family-services", at.Pos(), out4 && out6, "", "a return meant for dual-stack Services is reachable for a Service with one cluster-IP family: it can be given an address of the other family")
					nonNil := true
					for _, e := range lit.Elts {
						el := e
						if !g.Dominated(at, g.GPat(true, "E != nil", chk.H("E", func(y ast.Expr) bool { return f.SameExpr(y, el) }))) {
							nonNil = false
						}
					}
					x.Check("select:return["+tag+"]:non-nil", at.Pos(), nonNil, "", "a dual-stack selection can contain a missing (nil) address")
					if len(lit.Elts) == 2 {
						x.Check("select:return["+tag+"]:pair-is-v4-v6", at.Pos(), fromFam("IPv4")(lit.Elts[0]) && fromFam("IPv6")(lit.Elts[1]), "", "a pair is not (IPv4, IPv6)")
					}
					if g.EdgeImpliesAny(req) && g.Dominated(at, req) {
						x.Check("select:return["+tag+"]:require-dual-is-pair", at.Pos(), len(lit.Elts) == 2, "", "RequireDualStack can succeed with a single address")
					}
					// ... also when its arm is shared with another policy: a single address is out of reach under RequireDualStack
					if len(lit.Elts) == 1 {
						x.Check("select:return["+tag+"]:single-address-not-under-require", at.Pos(), g.Dominated(at, chk.GNot(req)), "", "a single address can be returned to a RequireDualStack Service (the policy's arm is shared with PreferDualStack's fallbacks): it must get both families from one pool or stay pending")
					}
				}
			}
		}
		x.Check("select:returns", f.Pos(), n >= 5, "", "fewer success returns than on the confirmed tree")
		// PreferDualStack is satisfied by whichever family the pool still has: under that policy the "no available IPs"
		// answer is given only when neither family has an address (a dropped IPv6-only arm starves a Service next to
		// free IPv6 addresses)
		prefer := g.GPat(true, "POL == R", chk.H("POL", isParamIdx(f, 1)), chk.H("R", constStr(f, "PreferDualStack")))
		if g.EdgeImpliesAny(prefer) {
			none := chk.GAnd(g.GExprNil(true, fromFam("IPv4")), g.GExprNil(true, fromFam("IPv6")))
			for _, rt := range returnsOf(g) {
				res := retResults(rt)
				if len(res) != 2 || f.IsNilLit(res[1]) {
					continue
				}
				x.Check("select:error:prefer-fails-only-without-any-address", rt.Pos(), g.Dominated(rt, chk.GOr(chk.GNot(prefer), none)), "", "under PreferDualStack the selection can fail although the pool has an address of one family: the Service stays pending next to free addresses")
			}
		}
	}
	// the slot form: a pointer variable that is assigned &RECV.IPV4 / &RECV.IPV6 (or nil) and read / written through
	// afterwards - every such assignment must sit under the test for the field's own family
	slotDefs := func(fn *chk.Fn, g *chk.Graph, e ast.Expr) (sites []chk.Site, flds []string, ok bool) {
		st, isStar := ast.Unparen(e).(*ast.StarExpr)
		if !isStar {
			return nil, nil, false
		}
		id, isId := ast.Unparen(st.X).(*ast.Ident)
		if !isId || fn.ObjOf(id) == nil {
			return nil, nil, false
		}
		o := fn.ObjOf(id)
		ok = true
		for _, s := range g.Find(func(n ast.Node) bool {
			as, isAs := n.(*ast.AssignStmt)
			if !isAs || len(as.Lhs) != len(as.Rhs) {
				return false
			}
			for _, l := range as.Lhs {
				if li, isI := l.(*ast.Ident); isI && fn.ObjOf(li) == o {
					return true
				}
			}
			return false
		}) {
			as := s.Node.(*ast.AssignStmt)
			for i, l := range as.Lhs {
				if li, isI := l.(*ast.Ident); !isI || fn.ObjOf(li) != o {
					continue
				}
				rhs := ast.Unparen(as.Rhs[i])
				if fn.IsNilLit(rhs) {
					continue
				}
				u, isU := rhs.(*ast.UnaryExpr)
				if !isU || u.Op != token.AND {
					ok = false
					continue
				}
				sel, isSel := ast.Unparen(u.X).(*ast.SelectorExpr)
				if !isSel || !isRecv(fn)(sel.X) {
					ok = false
					continue
				}
				sites = append(sites, s)
				flds = append(flds, sel.Sel.Name)
			}
		}
		return sites, flds, ok && len(sites) > 0
	}
	famOf := map[string]string{"IPV4": "internal/ipfamily.IPv4", "IPV6": "internal/ipfamily.IPv6"}
	gf := need(x, p, allocPkg, "Allocation", "getIPForFamily")
	if gf != nil {
		g := gf.Graph()
		for _, rt := range returnsOf(g) {
			res := retResults(rt)
			if len(res) != 1 || gf.IsNilLit(res[0]) {
				continue
			}
			if sites, flds, isSlot := slotDefs(gf, g, res[0]); isSlot {
				for i, s := range sites {
					want := famOf[flds[i]]
					x.Check("getIPForFamily:"+flds[i], s.Pos(), want != "" && g.Dominated(s, g.GPat(true, "F == V", chk.H("F", isParamIdx(gf, 0)), chk.H("V", isObjNamed(gf, want)))), "", "getIPForFamily returns field "+flds[i]+" for the wrong family")
				}
				continue
			}
			var fld string
			if sel, ok := ast.Unparen(res[0]).(*ast.SelectorExpr); ok && isRecv(gf)(sel.X) {
				fld = sel.Sel.Name
			}
			want := famOf[fld]
			x.Check("getIPForFamily:"+fld, rt.Pos(), want != "" && g.Dominated(rt, g.GPat(true, "F == V", chk.H("F", isParamIdx(gf, 0)), chk.H("V", isObjNamed(gf, want)))), "", "getIPForFamily returns field "+fld+" for the wrong family")
		}
	}
	sf := need(x, p, allocPkg, "Allocation", "setIPForFamily")
	if sf != nil {
		g := sf.Graph()
		nw := 0
		for _, fld := range []string{"IPV4", "IPV6"} {
			ws := g.Find(func(n ast.Node) bool {
				as, ok := n.(*ast.AssignStmt)
				if !ok || len(as.Lhs) != 1 {
					return false
				}
				sel, ok := as.Lhs[0].(*ast.SelectorExpr)
				return ok && sel.Sel.Name == fld && isRecv(sf)(sel.X)
			})
			want := famOf[fld]
			for _, w := range ws {
				nw++
				ok := g.Dominated(w, g.GPat(true, "F == V", chk.H("F", isParamIdx(sf, 0)), chk.H("V", isObjNamed(sf, want)))) &&
					isParamIdx(sf, 1)(w.Node.(*ast.AssignStmt).Rhs[0])
				x.Check("setIPForFamily:"+fld, w.Pos(), ok, "", "setIPForFamily stores into "+fld+" for the wrong family")
			}
		}
		// stores through a slot pointer
		for _, w := range g.Find(func(n ast.Node) bool {
			as, ok := n.(*ast.AssignStmt)
			if !ok || len(as.Lhs) != 1 || len(as.Rhs) != 1 {
				return false
			}
			_, isStar := ast.Unparen(as.Lhs[0]).(*ast.StarExpr)
			return isStar
		}) {
			as := w.Node.(*ast.AssignStmt)
			sites, flds, isSlot := slotDefs(sf, g, as.Lhs[0])
			if !isSlot {
				x.Fail("setIPForFamily:store-through-pointer", w.Pos(), "setIPForFamily stores through a pointer that is not the address of one of the receiver's address fields")
				continue
			}
			for i, s := range sites {
				nw++
				want := famOf[flds[i]]
				ok := want != "" && g.Dominated(s, g.GPat(true, "F == V", chk.H("F", isParamIdx(sf, 0)), chk.H("V", isObjNamed(sf, want)))) && isParamIdx(sf, 1)(as.Rhs[0])
				x.Check("setIPForFamily:"+flds[i], s.Pos(), ok, "", "setIPForFamily stores into "+flds[i]+" for the wrong family")
			}
		}
		x.Check("setIPForFamily:stores", sf.Pos(), nw >= 2, "", "setIPForFamily does not store into both address fields")
	}
	y := r.Rule("FAMILY-SLOT", "E sibling", "in (*Allocator).getFreeIPsFromPool the address found in a CIDR (getIPFromCIDR(cidr, pool.AvoidBuggyIPs, …)) is stored under ipfamily.ForCIDR of that same CIDR, the allocation carries pool.Name, and only CIDRs of that one pool are visited", 3)
	ff := need(y, p, allocPkg, "Allocator", "getFreeIPsFromPool")
	if ff != nil {
		g := ff.Graph()
		pool := isParam(ff, "pool")
		for _, rs := range ff.RangeLoops(func(e ast.Expr) bool { return ff.MatchWith("P.CIDR", e, chk.H("P", pool)) != nil }) {
			cidr := rangeVal(ff, rs)
			sets := g.FindPat("AL.setIPForFamily(F, IP)")
			for _, s := range sets {
				call := s.Node.(*ast.CallExpr)
				ok := definedBy(g, "ipfamily.ForCIDR(C)", chk.H("C", cidr))(call.Args[0]) &&
					definedBy(g, "RECV.getIPFromCIDR(C, P.AvoidBuggyIPs, ETC)", chk.H("C", cidr), chk.H("P", pool))(call.Args[1])
				y.Check("getFreeIPsFromPool:slot-matches-cidr-family", s.Pos(), ok, "", "an address is stored under a family other than that of the CIDR it was taken from, or taken without the pool's buggy-address flag")
			}
			y.Check("getFreeIPsFromPool:stores", rs.Pos(), len(sets) == 1, "", "expected one setIPForFamily call")
		}
		lits := g.FindPat("&Allocation{PoolName: P.Name}", chk.H("P", pool))
		y.Check("getFreeIPsFromPool:pool-name", ff.Pos(), len(lits) == 1, "", "the allocation does not carry the name of the pool searched")
	}
}

// c02FamilyChanged: the addresses a Service holds keep matching its cluster-IP families: serviceFamilyChanged accepts a
// held set exactly when its family equals the cluster-IP family, or - only for PreferDualStack with dual-stack cluster
// IPs - whatever it is; an undeterminable family is always a change.
func c02FamilyChanged(p *chk.Prog, r *chk.Report) {
	x := r.Rule("FAMILY-KEPT", "B path (truth table)", "controller.serviceFamilyChanged(lb, cluster, policy) is false exactly when lb != Unknown and (lb == cluster or (cluster == DualStack and policy == PreferDualStack)); convergeBalancer clears the held addresses when it is true", 2)
	f := need(x, p, "controller", "", "serviceFamilyChanged")
	if f == nil {
		return
	}
	g := f.Graph()
	lb, cl, pol := isParamIdx(f, 0), isParamIdx(f, 1), isParamIdx(f, 2)
	unknown := g.GPat(true, "L == U", chk.H("L", lb), chk.H("U", isObjNamed(f, "internal/ipfamily.Unknown")))
	same := g.GPat(true, "L == C", chk.H("L", lb), chk.H("C", cl))
	dual := g.GPat(true, "C == D", chk.H("C", cl), chk.H("D", isObjNamed(f, "internal/ipfamily.DualStack")))
	prefer := g.GPat(true, "P == PD", chk.H("P", pol), chk.H("PD", constStr(f, "PreferDualStack")))
	changed := chk.GOr(unknown, chk.GAnd(chk.GNot(same), chk.GNot(chk.GAnd(dual, prefer))))
	why := g.BoolResultIs(changed)
	x.Check("serviceFamilyChanged:truth-table", f.Pos(), why == "", "", "a held address set whose family does not match the Service's cluster IPs can be kept (or a matching one dropped): "+why)
	cb := need(x, p, "controller", "controller", "convergeBalancer")
	if cb != nil {
		cg := cb.Graph()
		svc, key := isParam(cb, "svc"), isParam(cb, "key")
		ok := false
		for _, e := range cg.DirectEdgesImplying(cg.GPat(true, "serviceFamilyChanged(A, B, P)")) {
			ok = !cg.FeasibleEscape(e, cb.ContainsPat("RECV.clearServiceState(K, S)", chk.H("K", key), chk.H("S", svc)), nil, nil)
		}
		x.Check("converge:family-change-clears", cb.Pos(), ok, "", "a family change does not clear the held addresses")
	}
}

// sharingKeyOf: the expression is the (sharing, backend) key of the request being served: &key{sharing: sharingKey,
// backend: backendKey} built from the function's own parameters, or a *key parameter for which every caller passes such
// a key built from its own sharingKey / backendKey parameters (the key hoisted out of the per-CIDR helper).
func sharingKeyOf(p *chk.Prog, f *chk.Fn) func(ast.Expr) bool {
	own := func(fn *chk.Fn) func(ast.Expr) bool {
		g := fn.Graph()
		return func(e ast.Expr) bool {
			if fn.ParamNamed("sharingKey") == nil || fn.ParamNamed("backendKey") == nil {
				return false
			}
			return definedBy(g, "&key{sharing: A, backend: B}", chk.H("A", isParam(fn, "sharingKey")), chk.H("B", isParam(fn, "backendKey")))(e)
		}
	}
	return func(e ast.Expr) bool {
		if own(f)(e) {
			return true
		}
		if orig := paramOrigins(p, f, e); len(orig) > 0 {
			all := true
			for _, o := range orig {
				if !own(o.Fn)(o.Arg) {
					all = false
				}
			}
			if all {
				return true
			}
		}
		// the key inside a request object that was built by the callers: every place it comes from is a key literal
		// made of that function's own sharingKey / backendKey parameters
		leaves := crossLeaves(p, f, e, nil, 0)
		if len(leaves) == 0 {
			return false
		}
		for _, l := range leaves {
			if l.E == nil || l.Fn.ParamNamed("sharingKey") == nil || l.Fn.ParamNamed("backendKey") == nil {
				return false
			}
			if l.Fn.MatchWith("key{sharing: A, backend: B}", l.E, chk.H("A", isParam(l.Fn, "sharingKey")), chk.H("B", isParam(l.Fn, "backendKey"))) == nil &&
				l.Fn.MatchWith("&key{sharing: A, backend: B}", l.E, chk.H("A", isParam(l.Fn, "sharingKey")), chk.H("B", isParam(l.Fn, "backendKey"))) == nil {
				return false
			}
		}
		return true
	}
}

// c02SameIPs: "the addresses held are the addresses requested" is decided by controller.isEqualIPs; the request-change
// rules rest on it being set equality. Necessary, in any spelling: it answers true only when the two lists have the
// same length (a whole-list comparison, or an explicit length test), and both lists are brought into one order first.
func c02SameIPs(p *chk.Prog, r *chk.Report) {
	x := r.Rule("SAME-IPS", "B path", "controller.isEqualIPs(a, b) is true only behind a comparison of the whole lists (reflect.DeepEqual / slices.Equal / slices.EqualFunc of a and b) or behind len(a) == len(b), and both lists are sorted by the same key first: a requested set that merely contains (or is contained in) the held set is a changed request", 2)
	f := need(x, p, "controller", "", "isEqualIPs")
	if f == nil {
		return
	}
	g := f.Graph()
	a, b := isParamIdx(f, 0), isParamIdx(f, 1)
	orCopy := func(q func(ast.Expr) bool) func(ast.Expr) bool {
		return func(e ast.Expr) bool {
			return q(e) || q(f.Resolve(e)) || definedBy(g, "slices.Clone(X)", chk.H("X", q))(e)
		}
	}
	la, lb := orCopy(a), orCopy(b)
	whole := chk.GSame(
		g.GPat(true, "reflect.DeepEqual(A, B)", chk.H("A", la), chk.H("B", lb)), g.GPat(true, "reflect.DeepEqual(B, A)", chk.H("A", la), chk.H("B", lb)),
		g.GPat(true, "slices.Equal(A, B)", chk.H("A", la), chk.H("B", lb)), g.GPat(true, "slices.EqualFunc(A, B, F)", chk.H("A", la), chk.H("B", lb)),
		g.GPat(true, "slices.EqualFunc(B, A, F)", chk.H("A", la), chk.H("B", lb)))
	sameLen := chk.GSame(g.GPat(true, "len(A) == len(B)", chk.H("A", la), chk.H("B", lb)), g.GPat(true, "len(B) == len(A)", chk.H("A", la), chk.H("B", lb)))
	need1 := chk.GOr(whole, sameLen)
	ok, n := true, 0
	for _, rt := range g.Returns() {
		rr := retResults(rt)
		if len(rr) != 1 {
			ok = false
			continue
		}
		n++
		switch {
		case f.IsConstBool(rr[0], false):
		case f.IsConstBool(rr[0], true):
			if !g.Dominated(rt, need1) {
				ok = false
			}
		default:
			if !g.DominatedAssuming(rt, rr[0], true, need1) {
				ok = false
			}
		}
	}
	x.Check("isEqualIPs:true-needs-equal-length", f.Pos(), ok && n > 0, "", "isEqualIPs can answer true for lists of different lengths (a subset or superset of the held addresses passes for the same request: an explicit request is then not honoured, or a stale address kept)")
	// both lists sorted by the same key
	nSorted := 0
	for _, sc := range p.SortCalls() {
		if sc.Fn != f || sc.Less == nil {
			continue
		}
		if !(la(sc.Slice) || lb(sc.Slice)) {
			continue
		}
		if rets := sc.ReturnsOfLess(); len(rets) == 1 {
			if kc := sc.AsKeyCompare(rets[0]); kc != nil && f.MatchNew("X[I].String()", kc.Left) != nil {
				if idx, _ := sc.IndexesOnlySorted(); idx {
					nSorted++
				}
			}
		}
	}
	x.Check("isEqualIPs:both-sorted", f.Pos(), nSorted == 2, "", "the two address lists are not both sorted by their text form before they are compared position by position")
}

// c02AllocateTo: the pool's allocateTo policy as the allocator sees it is complete: every namespace that one of the pool's
// namespace selectors matches is in ServiceAllocation.Namespaces, and every service selector is in ServiceSelectors.
func c02AllocateTo(p *chk.Prog, r *chk.Report) {
	x := r.Rule("ALLOCATE-TO", "B path (for-all loops)", "in config.addressPoolServiceAllocationsFromCR every namespace selector of the pool is applied to every namespace of the cluster (no break, no skipped selector), a namespace is left out only when the selector does not match its labels (or it is already in the set), and every service selector is appended: the pinning index and the admission test are computed from these two sets", 3)
	f := need(x, p, cfgPkg, "", "addressPoolServiceAllocationsFromCR")
	if f == nil {
		return
	}
	g := f.Graph()
	pool, nss := isParamIdx(f, 0), isParamIdx(f, 1)
	var selLoop, nsLoop *ast.RangeStmt
	for _, rs := range f.RangeLoops(func(e ast.Expr) bool {
		return f.MatchWith("P.Spec.AllocateTo.NamespaceSelectors", e, chk.H("P", pool)) != nil
	}) {
		selLoop = rs
	}
	for _, rs := range f.RangeLoops(nss) {
		if selLoop != nil && chk.InBody(selLoop, rs) {
			nsLoop = rs
		}
	}
	if selLoop != nil && nsLoop == nil {
		// the loops the other way round: every selector is converted into a list first, then every namespace is tried
		// against the whole list (and taken at its first match)
		var list types.Object
		for _, a := range g.Find(func(n ast.Node) bool { return chk.InBody(selLoop, n) && f.IsAssignPat("L", "append(L, V)")(n) }) {
			list = f.ObjOf(a.Node.(*ast.AssignStmt).Lhs[0])
		}
		var outer, inner *ast.RangeStmt
		if list != nil {
			for _, rs := range f.RangeLoops(nss) {
				for _, in := range f.RangeLoops(f.IsObj(list)) {
					if chk.InBody(rs, in) {
						outer, inner = rs, in
					}
				}
			}
		}
		if outer != nil {
			ns := rangeVal(f, outer)
			insert := f.ContainsPat("S.Namespaces.Insert(NS.Name)", chk.H("NS", ns))
			lbl := func(e ast.Expr) bool {
				return f.MatchWith("labels.Set(NS.Labels)", e, chk.H("NS", ns)) != nil || definedBy(g, "labels.Set(NS.Labels)", chk.H("NS", ns))(e)
			}
			noMatch := g.GPat(false, "L.Matches(V)", chk.H("L", rangeVal(f, inner)), chk.H("V", lbl))
			have := chk.GOr(g.GPat(true, "S.Namespaces.Has(NS.Name)", chk.H("NS", ns)), g.GPat(true, "X.Has(NS.Name)", chk.H("NS", ns)))
			okIn := true
			ends := g.LoopIteration(inner, chk.GOr(noMatch, have, chk.GEvent(insert)))
			for _, e := range ends {
				if !e.OK {
					okIn = false
				}
			}
			app := func(n ast.Node) bool {
				as, isAs := n.(*ast.AssignStmt)
				return isAs && len(as.Lhs) == 1 && f.ObjOf(as.Lhs[0]) == list && f.IsAssignPat("L", "append(L, V)")(n)
			}
			x.Check("allocateTo:every-matching-namespace", outer.Pos(), okIn && len(ends) > 0 && !loopHasBreak(g, outer) && !loopSkipsWithout(g, outer, func(n ast.Node) bool { return n == ast.Node(inner.X) }, chk.NoGuard), "", "a namespace that a namespace selector of the pool matches can be left out of the pool's namespaces (services of that namespace are then neither pinned to the pool nor admitted by it)")
			x.Check("allocateTo:every-namespace-selector", selLoop.Pos(), !loopSkipsWithout(g, selLoop, app, chk.NoGuard) && !loopHasBreak(g, selLoop) && g.AfterLoop(g.FactSite(inner.X), selLoop), "", "a namespace selector of the pool can be skipped")
			okSvc := false
			for _, rs := range f.RangeLoops(func(e ast.Expr) bool {
				return f.MatchWith("P.Spec.AllocateTo.ServiceSelectors", e, chk.H("P", pool)) != nil
			}) {
				app := f.IsAssignPat("S.ServiceSelectors", "append(S.ServiceSelectors, L)")
				okSvc = !loopSkipsWithout(g, rs, app, chk.NoGuard) && !loopHasBreak(g, rs)
			}
			x.Check("allocateTo:every-service-selector", f.Pos(), okSvc, "", "a service selector of the pool can be left out")
			return
		}
	}
	if selLoop == nil || nsLoop == nil {
		x.Fail("allocateTo:namespace-loops", f.Pos(), "no loop over the pool's namespace selectors containing a loop over the cluster's namespaces")
		return
	}
	ns := rangeVal(f, nsLoop)
	insert := f.ContainsPat("S.Namespaces.Insert(NS.Name)", chk.H("NS", ns))
	lbl := func(e ast.Expr) bool {
		return f.MatchWith("labels.Set(NS.Labels)", e, chk.H("NS", ns)) != nil || definedBy(g, "labels.Set(NS.Labels)", chk.H("NS", ns))(e)
	}
	except := chk.GOr(g.GPat(false, "L.Matches(V)", chk.H("V", lbl)), g.GPat(true, "S.Namespaces.Has(NS.Name)", chk.H("NS", ns)), g.GPat(true, "X.Has(NS.Name)", chk.H("NS", ns)))
	x.Check("allocateTo:every-matching-namespace", nsLoop.Pos(), !loopSkipsWithout(g, nsLoop, insert, except) && !loopHasBreak(g, nsLoop), "", "a namespace that a namespace selector of the pool matches can be left out of the pool's namespaces (services of that namespace are then neither pinned to the pool nor admitted by it)")
	x.Check("allocateTo:every-namespace-selector", selLoop.Pos(), !loopSkipsWithout(g, selLoop, func(n ast.Node) bool { return n == ast.Node(nsLoop.X) }, chk.NoGuard) && !loopHasBreak(g, selLoop), "", "a namespace selector of the pool can be skipped")
	okSvc := false
	for _, rs := range f.RangeLoops(func(e ast.Expr) bool {
		return f.MatchWith("P.Spec.AllocateTo.ServiceSelectors", e, chk.H("P", pool)) != nil
	}) {
		app := f.IsAssignPat("S.ServiceSelectors", "append(S.ServiceSelectors, L)")
		okSvc = !loopSkipsWithout(g, rs, app, chk.NoGuard) && !loopHasBreak(g, rs)
	}
	x.Check("allocateTo:every-service-selector", f.Pos(), okSvc, "", "a service selector of the pool can be left out")
}
