package rules

import (
	"go/ast"
	"go/token"
	"go/types"
	"regexp"
	"sort"
	"strings"
	"text/template/parse"

	"verif/mlbcheck/chk"
)

const frrPkg = "internal/bgp/frr"

func init() {
	register(&Prop{
		ID: "C14",
		Explanation: "Decided (template/struct agreement and structure, for every input at once): the embedded FRR templates parse and type-check against the Go types " +
			"starting from *frrConfig - every field, method, function and template referenced exists with a compatible arity, and every call site of a template " +
			"passes the same record type (TPL-TYPES; the package's own tests need Docker and do not run in the baseline); every exported field of the data structs " +
			"is rendered by a template, a FuncMap function or a method the templates call (TPL-COVER); per-neighbour statements are built from the template's own " +
			"neighbour argument and templates are invoked with the element of `range .Neighbors` (TPL-SCOPE); every prefix-list referenced by a route-map is defined " +
			"with the same naming function and the same address family keyword (TPL-NAMES); the outbound route-map never permits without a match, set-clauses " +
			"continue with `on-match next`, the inbound route-map denies, and the deny-any entries are guarded by the no-advertisement flags (TPL-DENY); the data " +
			"handed to the templates is deterministic: nothing in map-iteration order escapes createConfig unsorted (MAPORDER); every session parameter is read in " +
			"createConfig and lands in its neighborConfig field (COVER-PARAMS); community / local-preference sets and the per-family prefix maps are filled by the " +
			"family of the advertised prefix (FAMILY-SETS); Set stores only validated advertisements and rolls back when the configuration cannot be generated " +
			"(VALIDATE); advertisements for one prefix are merged only for equal prefix, family and local preference, otherwise inserted in prefix order (MERGE-GUARD); every name the FuncMap builds for a " +
			"neighbour contains its whole identity - address or interface and VRF - its family and the function's other parameters (NAME-SCOPE).",
		NotDecided: "FRR's own semantics of the generated text; that the union of communities is the requested one for every input (values); two sessions that map to " +
			"the same neighbour name are resolved first-come in map order (information only).",
		Run: runC14,
		Mutants: []Mutant{
			{Name: "merged-advertisement-without-localpref", File: "internal/bgp/frr/frr.go",
				Old: "\tres.LocalPref = adv1.LocalPref\n", New: "", Expect: "carries-LocalPref"},
			{Name: "v6-communities-minus-v4", File: "internal/bgp/frr/frr.go",
				Old: "n.CommunitiesV6 = sets.List(properties.CommunitiesV6)", New: "n.CommunitiesV6 = sets.List(properties.CommunitiesV6.Difference(properties.CommunitiesV4))", Expect: "whole-set-rendered"},
			{Name: "ipv6-networks-nested-under-ipv4", File: "internal/bgp/frr/templates/frr.tmpl",
				Old: "  exit-address-family\n{{end }}\n\n{{- if gt (len .IPV6Prefixes) 0}}", New: "  exit-address-family\n{{ if gt (len .IPV6Prefixes) 0}}", Expect: "TPL"},
			{Name: "session-key-without-interface", File: "internal/bgp/frr/frr.go",
				Old: "\tpeer := s.PeerAddress\n\tif s.PeerInterface != \"\" {\n\t\tpeer = s.PeerInterface\n\t}\n", New: "\tpeer := s.PeerAddress\n", Expect: "SESSION-KEY"},
			{Name: "routers-keyed-by-source-address", File: "internal/bgp/frr/frr.go",
				Old: "\t\trouterName := RouterName(s.RouterID.String(), s.MyASN, s.VRFName)", New: "\t\trouterName := RouterName(s.SourceAddress.String(), s.MyASN, s.VRFName)", Expect: "ROUTER-KEY"},
			{Name: "neighbour-properties-recreated-for-every-session", File: "internal/bgp/frr/frr.go",
				Old: "\t\tproperties := rout.neighborsProperties[neighborName]\n",
				New: "\t\trout.neighborsProperties[neighborName] = &neighborProperties{CommunitiesV4: sets.New[string](), CommunitiesV6: sets.New[string](), LargeCommunitiesV4: sets.New[string](), LargeCommunitiesV6: sets.New[string](), LocalPrefsV4: sets.New[uint32](), LocalPrefsV6: sets.New[uint32]()}\n\t\tproperties := rout.neighborsProperties[neighborName]\n", Expect: "entry-created-only-when-absent"},
			{Name: "timers-declared-outside-the-session-loop", File: "internal/bgp/frr/frr.go",
				Old: "\tfor _, s := range sm.sessions {\n\t\tvar neighbor *neighborConfig\n\t\tvar exist bool\n\t\tvar rout *router\n\n\t\trouterName := RouterName(s.RouterID.String(), s.MyASN, s.VRFName)\n\t\tif rout, exist = routers[routerName]; !exist {\n\t\t\trout = &router{\n\t\t\t\tmyASN:               s.MyASN,\n\t\t\t\tneighbors:           make(map[string]*neighborConfig),\n\t\t\t\tneighborsProperties: make(map[string]*neighborProperties),\n\t\t\t\tipV4Prefixes:        make(map[string]string),\n\t\t\t\tipV6Prefixes:        make(map[string]string),\n\t\t\t\tvrf:                 s.VRFName,\n\t\t\t}\n\t\t\tif s.RouterID != nil {\n\t\t\t\trout.routerID = s.RouterID.String()\n\t\t\t}\n\t\t\trouters[routerName] = rout\n\t\t}\n\n\t\tneighborName := NeighborName(s.PeerAddress, s.PeerInterface, s.PeerASN, s.DynamicASN, s.VRFName)\n\t\tif neighbor, exist = rout.neighbors[neighborName]; !exist {\n\t\t\tfamily := ipfamily.ForAddress(net.ParseIP(s.PeerAddress))\n\n\t\t\tif s.PeerInterface != \"\" {\n\t\t\t\tfamily = ipfamily.DualStack\n\t\t\t}\n\n\t\t\tvar connectTime int64\n\t\t\tif s.ConnectTime != nil {\n\t\t\t\tconnectTime = int64(*s.ConnectTime / time.Second)\n\t\t\t}\n\n\t\t\tvar holdTime *int64\n\t\t\tvar keepaliveTime *int64\n",
				New: "\tvar connectTime int64\n\tvar holdTime *int64\n\tvar keepaliveTime *int64\n\tfor _, s := range sm.sessions {\n\t\tvar neighbor *neighborConfig\n\t\tvar exist bool\n\t\tvar rout *router\n\n\t\trouterName := RouterName(s.RouterID.String(), s.MyASN, s.VRFName)\n\t\tif rout, exist = routers[routerName]; !exist {\n\t\t\trout = &router{\n\t\t\t\tmyASN:               s.MyASN,\n\t\t\t\tneighbors:           make(map[string]*neighborConfig),\n\t\t\t\tneighborsProperties: make(map[string]*neighborProperties),\n\t\t\t\tipV4Prefixes:        make(map[string]string),\n\t\t\t\tipV6Prefixes:        make(map[string]string),\n\t\t\t\tvrf:                 s.VRFName,\n\t\t\t}\n\t\t\tif s.RouterID != nil {\n\t\t\t\trout.routerID = s.RouterID.String()\n\t\t\t}\n\t\t\trouters[routerName] = rout\n\t\t}\n\n\t\tneighborName := NeighborName(s.PeerAddress, s.PeerInterface, s.PeerASN, s.DynamicASN, s.VRFName)\n\t\tif neighbor, exist = rout.neighbors[neighborName]; !exist {\n\t\t\tfamily := ipfamily.ForAddress(net.ParseIP(s.PeerAddress))\n\n\t\t\tif s.PeerInterface != \"\" {\n\t\t\t\tfamily = ipfamily.DualStack\n\t\t\t}\n\n\t\t\tif s.ConnectTime != nil {\n\t\t\t\tconnectTime = int64(*s.ConnectTime / time.Second)\n\t\t\t}\n\n", Expect: "built-from-its-own-session"},
			{Name: "large-community-list-named-without-vrf", File: "internal/bgp/frr/config.go",
				Old: "\t\t\t\treturn fmt.Sprintf(\"%s-large:%s-%s-community-prefixes\", neighbor.ID(), community, neighbor.IPFamily)",
				New: "\t\t\t\treturn fmt.Sprintf(\"%s-large:%s-%s-community-prefixes\", neighbor.Addr, community, neighbor.IPFamily)", Expect: "NAME-SCOPE"},
			{Name: "password-attached-to-address-not-peer", File: "internal/bgp/frr/templates/neighborsession.tmpl",
				Old: "  neighbor {{$peer}} password {{.neighbor.Password}}", New: "  neighbor {{.neighbor.Addr}} password {{.neighbor.Password}}", Expect: "TPL-SCOPE"},
			{Name: "insert-loses-the-element-at-the-position", File: "internal/bgp/frr/frr.go",
				Old: "\tcopy(res[i+1:], current[i:])", New: "\tcopy(res[i+1:], current[i+1:])", Expect: "MERGE-GUARD"},
			{Name: "unnumbered-neighbor-key-without-interface", File: "internal/bgp/frr/config.go",
				Old: "\t\treturn fmt.Sprintf(\"%s@%s@%s\", asn, iface, vrfName)\n", New: "\t\treturn fmt.Sprintf(\"%s@%s@%s\", asn, peerAddr, vrfName)\n", Expect: "KEY-COMPLETE"},
			{Name: "v6-large-community-falls-through", File: "internal/bgp/frr/frr.go",
				Old: "\t\t\t\t\tproperties.LargeCommunitiesV6.Insert(c.String())\n\t\t\t\t\tcontinue\n", New: "\t\t\t\t\tproperties.LargeCommunitiesV6.Insert(c.String())\n", Expect: "FAMILY-SETS"},
			{Name: "template-field-misspelt", File: "internal/bgp/frr/templates/neighborsession.tmpl",
				Old: "{{- if .neighbor.EBGPMultiHop }}", New: "{{- if .neighbor.EBGPMultihop }}", Expect: "TPL-TYPES"},
			{Name: "multihop-not-forwarded", File: "internal/bgp/frr/frr.go",
				Old: "\t\t\t\tEBGPMultiHop:    s.EBGPMultiHop,\n", New: "", Expect: "COVER-PARAMS"},
			{Name: "prefix-list-name-from-router", File: "internal/bgp/frr/templates/filters.tmpl",
				Old: "  match ip address prefix-list {{allowedPrefixList $.neighbor}}\nroute-map", New: "  match ip address prefix-list {{$.router.VRF}}-pl-ipv4\nroute-map", Expect: "TPL-DENY:out-entry"},
			{Name: "permit-without-match", File: "internal/bgp/frr/templates/filters.tmpl",
				Old: "route-map {{$.neighbor.ID}}-out permit {{counter $.neighbor.ID}}\n  match ipv6 address prefix-list {{allowedPrefixList $.neighbor}}\n", New: "route-map {{$.neighbor.ID}}-out permit {{counter $.neighbor.ID}}\n", Expect: "TPL-DENY"},
			{Name: "routers-in-map-order", File: "internal/bgp/frr/frr.go",
				Old: "\tfor _, r := range sortMap(routers) {", New: "\tfor _, r := range routers {", Expect: "MAPORDER"},
			{Name: "localpref-set-by-neighbor-family", File: "internal/bgp/frr/frr.go",
				Old: "\t\t\tif adv.LocalPref != 0 {\n\t\t\t\tif family == ipfamily.IPv4 {", New: "\t\t\tif adv.LocalPref != 0 {\n\t\t\t\tif neighbor.IPFamily == ipfamily.IPv4 {", Expect: "FAMILY-SETS"},
			{Name: "on-match-next-dropped", File: "internal/bgp/frr/templates/filters.tmpl",
				Old: "  match ipv6 address prefix-list {{communityPrefixList $.neighbor .}}\n  set community {{.}} additive\n  on-match next\n", New: "  match ipv6 address prefix-list {{communityPrefixList $.neighbor .}}\n  set community {{.}} additive\n", Expect: "TPL-DENY"},
			{Name: "neighbor-statement-for-wrong-peer", File: "internal/bgp/frr/templates/neighborsession.tmpl",
				Old: "  neighbor {{$peer}} password {{.neighbor.Password}}", New: "  neighbor {{.routerASN}} password {{.neighbor.Password}}", Expect: "TPL-SCOPE"},
			{Name: "set-without-rollback", File: "internal/bgp/frr/frr.go",
				Old: "\tif err != nil {\n\t\ts.advertised = oldAdvs\n\t\treturn err\n\t}", New: "\tif err != nil {\n\t\t_ = oldAdvs\n\t\treturn err\n\t}", Expect: "VALIDATE"},
			{Name: "merge-ignores-localpref", File: "internal/bgp/frr/frr.go",
				Old: "\tif adv1.LocalPref != adv2.LocalPref {\n\t\treturn nil, fmt.Errorf(\"cannot merge advertisements with different local preferences: %d != %d\", adv1.LocalPref, adv2.LocalPref)\n\t}\n", New: "", Expect: "MERGE-GUARD"},
			{Name: "field-never-rendered", File: "internal/bgp/frr/templates/neighborsession.tmpl",
				Old: "  {{- if .neighbor.GracefulRestart }}\n  neighbor {{$peer}} graceful-restart\n  {{- end }}\n", New: "", Expect: "TPL-COVER"},
			{Name: "family-keyword-mismatch", File: "internal/bgp/frr/templates/filters.tmpl",
				Old: "  match ipv6 address prefix-list {{largeCommunityPrefixList $.neighbor .}}", New: "  match ip address prefix-list {{largeCommunityPrefixList $.neighbor .}}", Expect: "TPL-NAMES"},
			{Name: "has-v6-flag-in-v4-case", File: "internal/bgp/frr/frr.go",
				Old: "\t\t\t\trout.ipV6Prefixes[prefix] = prefix\n\t\t\t\tneighbor.HasV6Advertisements = true", New: "\t\t\t\trout.ipV6Prefixes[prefix] = prefix\n\t\t\t\tneighbor.HasV4Advertisements = true", Expect: "FAMILY-SETS"},
			{Name: "template-called-with-other-record", File: "internal/bgp/frr/templates/frr.tmpl",
				Old: "{{- template \"neighborsession\" dict \"neighbor\" . \"routerASN\" $r.MyASN -}}", New: "{{- template \"neighborsession\" dict \"neighbor\" . \"routerASN\" $r.VRF -}}", Expect: "TPL-TYPES"},
		},
	})
}

func runC14(p *chk.Prog, r *chk.Report) {
	// the file follows the last configuration asked for: the debouncer stores every request and arms the reload (DEBOUNCE-*, shared with C19)
	c19Debouncer(p, r)
	registeredRule(p, r, frrPkg)
	routerKeyRule(p, r, frrPkg, "createConfig")
	sessionKeyRule(p, r, frrPkg)
	scratchRule(p, r, frrPkg)
	ts := c14Templates(p, r)
	if ts != nil {
		c14Cover(p, r, ts)
		c14Structure(p, r, ts)
		c14NameScope(p, r, ts)
	}
	c14MapOrder(p, r)
	c14Params(p, r)
	c14Families(p, r)
	c14Validate(p, r, frrPkg)
	c14Merge(p, r)
	c14Keys(p, r)
	x := r.Rule("LOCK-GUARDED", "C locks (must-hold lockset dataflow)", "frr.sessionManager.{sessions,bfdProfiles,extraConfig} and frr.session.advertised are accessed only with the session manager's mutex held (createConfig and the session (un)registration through their callers)", 12)
	guardedRule(x, p, c19Table[:2])
}

func c14Templates(p *chk.Prog, r *chk.Report) *chk.TemplateSet {
	x := r.Rule("TPL-TYPES", "G template type checker", "the templates under internal/bgp/frr/templates parse (with the FuncMap names of templateConfig) and type-check from frr.tmpl with data *frrConfig: every field chain resolves to an exported field or method, every function is in the FuncMap with a compatible arity and argument types, every {{template}} is defined and all its call sites pass the same record type", 3)
	fm := need(x, p, frrPkg, "", "templateConfig")
	if fm == nil {
		return nil
	}
	ts, err := p.LoadTemplates("internal/bgp/frr/templates/*", fm)
	if err != nil {
		x.Fail("templates:parse", fm.Pos(), "the templates do not parse: "+err.Error())
		return nil
	}
	cfg := p.LookupType(frrPkg, "frrConfig")
	if cfg == nil {
		x.Undecided("anchor:frrConfig", "UNDECIDED anchor missing: frr.frrConfig")
		return nil
	}
	ts.Check("frr.tmpl", types.NewPointer(cfg))
	x.Check("templates:parse", fm.Pos(), true, "", "")
	seen := map[string]bool{}
	for _, is := range ts.Issues {
		key := "issue:" + is.Template + ":" + is.Msg
		if seen[key] {
			continue
		}
		seen[key] = true
		x.Fail(key, 0, is.File+":"+itoaN(is.Line)+": "+is.Msg+" (the suite cannot see this: the frr package tests need Docker)")
	}
	// the root template is the one executed, with the *frrConfig the debouncer passes
	okRoot := len(fm.Graph().FindPat(`template.New("frr.tmpl")`)) == 1
	if !okRoot {
		// the set parsed once by another function of the package (and cloned per render): one template.New in the
		// package, and it names frr.tmpl
		nNew, nRoot := 0, 0
		for _, o := range p.FuncsIn(frrPkg) {
			if o.Body == nil {
				continue
			}
			nNew += len(o.Graph().FindPat(`template.New(_)`))
			nRoot += len(o.Graph().FindPat(`template.New("frr.tmpl")`))
		}
		okRoot = nNew == 1 && nRoot == 1
	}
	x.Check("templates:root-is-frr.tmpl", fm.Pos(), okRoot, "", "templateConfig does not execute frr.tmpl")
	ncalls := 0
	for _, cs := range ts.CallSites {
		ncalls += len(cs)
	}
	x.Check("templates:coverage", fm.Pos(), len(ts.Trees) >= 11 && ts.Nodes >= 800 && ncalls >= 7 && len(ts.Funcs) >= 9, "", "fewer templates / nodes / call sites / functions analysed than on the confirmed tree (12 trees, 961 nodes, 7 call sites, 9 functions)")
	r.Extra["template_trees"] = len(ts.Trees)
	r.Extra["template_nodes"] = ts.Nodes
	r.Extra["template_call_sites"] = ncalls
	r.Extra["template_funcs"] = len(ts.Funcs)
	return ts
}

func itoaN(i int) string {
	if i == 0 {
		return "0"
	}
	s := ""
	for i > 0 {
		s = string(rune('0'+i%10)) + s
		i /= 10
	}
	return s
}

func c14Cover(p *chk.Prog, r *chk.Report, ts *chk.TemplateSet) {
	x := r.Rule("TPL-COVER", "G + E field coverage", "every exported field of frrConfig, routerConfig, neighborConfig, advertisementConfig and BFDProfile is referenced by a template, by a FuncMap function, or by a method the templates call (reviewed exemption: neighborConfig.Name is a map key only)", 40)
	exempt := map[string]string{"neighborConfig.Name": "key of the neighbours map, used only for sorting"}
	fm := ts.FuncFn
	for _, tn := range []string{"frrConfig", "routerConfig", "neighborConfig", "advertisementConfig", "BFDProfile"} {
		nt := p.LookupType(frrPkg, tn)
		if nt == nil {
			x.Undecided("anchor:"+tn, "UNDECIDED anchor missing: frr."+tn)
			continue
		}
		st := nt.Underlying().(*types.Struct)
		for i := 0; i < st.NumFields(); i++ {
			fld := st.Field(i)
			if !fld.Exported() {
				continue
			}
			if _, ok := exempt[tn+"."+fld.Name()]; ok {
				continue
			}
			used := ts.UsedFields[fld]
			if !used {
				for _, lit := range ts.FuncLits {
					if fm.MentionsField(lit, fld) {
						used = true
					}
				}
				for m := range ts.UsedMethods {
					if mf := p.FnOf(m); mf != nil && mf.MentionsField(mf.Body, fld) {
						used = true
					}
				}
			}
			x.Check(tn+"."+fld.Name(), fld.Pos(), used, "", "field "+tn+"."+fld.Name()+" is filled by createConfig but never rendered: the requested setting silently does not reach FRR")
		}
	}
}

var (
	reRouteMapOut = regexp.MustCompile(`^route-map \{\{(\$?\.neighbor\.ID)\}\}-out permit \{\{counter \$?\.neighbor\.ID\}\}$`)
	reRouteMapIn  = regexp.MustCompile(`^route-map \{\{(\$?\.neighbor\.ID)\}\}-in deny \d+$`)
	reMatch       = regexp.MustCompile(`^\s+match (ip|ipv6) address prefix-list \{\{(\w+) \$?\.neighbor( \.)?\}\}$`)
	reSet         = regexp.MustCompile(`^\s+set `)
	reOnMatch     = regexp.MustCompile(`^\s+on-match next$`)
	rePfxDef      = regexp.MustCompile(`^(ip|ipv6|\{\{frrIPFamily \$?\.?\w*\.IPFamily\}\}) prefix-list \{\{([^}]+)\}\} seq \{\{counter ([^}]+)\}\} (permit|deny) (.+)$`)
)

// c14NameScope: every object that the templates create per neighbour (prefix-lists, route-maps) is named after the
// neighbour's whole identity - address or interface AND VRF - so that the same peer address in two VRFs does not share
// a list. Sibling agreement: each naming function of the FuncMap that takes the neighbour uses neighbor.ID() (or reads
// the three fields itself), its other parameters and the neighbour's family.
func c14NameScope(p *chk.Prog, r *chk.Report, ts *chk.TemplateSet) {
	x := r.Rule("NAME-SCOPE", "E sibling", "every FuncMap function of templateConfig that takes a *neighborConfig and returns a string derives it from neighbor.ID() (or from Addr, Iface and VRFName), from neighbor.IPFamily and from each of its other parameters; (*neighborConfig).ID() reads Addr, Iface and VRFName", 5)
	ncT := p.LookupType(frrPkg, "neighborConfig")
	f := ts.FuncFn
	if ncT == nil || f == nil {
		x.Undecided("anchor:neighborConfig", "UNDECIDED anchor missing: frr.neighborConfig")
		return
	}
	var names []string
	for n := range ts.FuncLits {
		names = append(names, n)
	}
	sort.Strings(names)
	for _, name := range names {
		lit := ts.FuncLits[name]
		sig := ts.Funcs[name]
		if sig.Results().Len() != 1 || !types.Identical(sig.Results().At(0).Type(), types.Typ[types.String]) {
			continue
		}
		var nb *types.Var
		nbIdx := -1
		for i := 0; i < sig.Params().Len(); i++ {
			if pt, isP := sig.Params().At(i).Type().(*types.Pointer); isP && types.Identical(pt.Elem(), ncT) {
				nb = sig.Params().At(i)
				nbIdx = i
			}
		}
		if nb == nil {
			continue
		}
		// the parameter objects of the literal
		objs := map[string]types.Object{}
		var nbObj types.Object
		k := 0
		for _, fl := range lit.Type.Params.List {
			if len(fl.Names) == 0 {
				k++
			}
			for _, nm := range fl.Names {
				objs[nm.Name] = f.ObjOf(nm)
				if k == nbIdx {
					nbObj = f.ObjOf(nm) // by position: a method expression's receiver can be nameless in the signature
				}
				k++
			}
		}
		viaID := false
		fields := map[string]bool{}
		used := map[types.Object]bool{}
		ast.Inspect(lit.Body, func(n ast.Node) bool {
			switch e := n.(type) {
			case *ast.Ident:
				if o := f.ObjOf(e); o != nil {
					used[o] = true
				}
			case *ast.SelectorExpr:
				if id, isId := ast.Unparen(e.X).(*ast.Ident); isId && f.ObjOf(id) == nbObj && nbObj != nil {
					switch o := f.ObjOf(e.Sel).(type) {
					case *types.Func:
						if o.Name() == "ID" {
							viaID = true
						}
					case *types.Var:
						fields[o.Name()] = true
					}
				}
			}
			return true
		})
		whole := viaID || (fields["Addr"] && fields["Iface"] && fields["VRFName"])
		x.Check(name+":named-after-the-whole-neighbour", lit.Pos(), whole, "", "the name does not include the neighbour's whole identity (ID(): address or interface, and VRF): the same peer address in two VRFs shares one list, and what is requested for one neighbour is applied to the other")
		others := true
		for n, o := range objs {
			if n != "_" && o != nil && !used[o] {
				others = false
			}
		}
		x.Check(name+":uses-every-parameter", lit.Pos(), others && fields["IPFamily"], "", "the name does not depend on one of its parameters or on the neighbour's family: lists that must be distinct share a name")
	}
	if idf := need(x, p, frrPkg, "neighborConfig", "ID"); idf != nil {
		okID := true
		for _, fn := range []string{"Addr", "Iface", "VRFName"} {
			if fld := p.LookupField(frrPkg, "neighborConfig", fn); fld == nil || !idf.MentionsField(idf.Body, fld) {
				// through a method of the neighbour (the interface-or-address choice)
				okID = okID && fld != nil && mentionsViaMethod(p, idf, fld)
			}
		}
		x.Check("neighborConfig.ID:address-interface-and-vrf", idf.Pos(), okID, "", "the neighbour's identity leaves out its address, its interface or its VRF")
	}
}

// mentionsViaMethod: a method of the same package called in f's body reads the field.
func mentionsViaMethod(p *chk.Prog, f *chk.Fn, fld *types.Var) bool {
	found := false
	ast.Inspect(f.Body, func(n ast.Node) bool {
		if c, ok := n.(*ast.CallExpr); ok {
			if fo, isF := f.Callee(c).(*types.Func); isF {
				if cf := p.FnOf(fo); cf != nil && cf.Body != nil && cf.MentionsField(cf.Body, fld) {
					found = true
				}
			}
		}
		return !found
	})
	return found
}

func c14Structure(p *chk.Prog, r *chk.Report, ts *chk.TemplateSet) {
	// the structure rules are written against the record convention ({{template "neighborfilters" dict "neighbor" n ..}},
	// .neighbor.X inside): a template that is handed the neighbour itself is read in that form (same output)
	for _, tn := range []string{"neighborfilters", "neighborsession"} {
		if ts.ArgIsGo(tn, "neighborConfig") {
			ts.DotAsField(tn, "neighbor")
		}
	}
	// a piece of a template moved into a template of its own and called with a record built in place is read where it is
	// called; the templates of the confirmed tree keep their names for the rules
	ts.InlineRecordCalls(map[string]bool{"bfdprofile": true, "communityfilter": true, "largecommunityfilter": true, "localpreffilter": true,
		"neighborenableipfamily": true, "neighborfilters": true, "neighborsession": true})
	// the router's `network` statements: each family's block depends on that family's prefixes only
	fam := r.Rule("TPL-NETWORK", "G template structure", "in frr.tmpl every line inside {{range .IPV4Prefixes}} / {{range .IPV6Prefixes}} (the router's network statements) lies under no {{if}} that tests the other family's prefix list", 2)
	nNet := 0
	for _, l := range ts.Lines("frr.tmpl") {
		for _, pair := range [][2]string{{".IPV4Prefixes", "IPV6Prefixes"}, {".IPV6Prefixes", "IPV4Prefixes"}} {
			if !l.InRangeOver(pair[0]) {
				continue
			}
			nNet++
			okCtx := true
			for _, c := range l.Ctx {
				if ifn, isIf := c.(*parse.IfNode); isIf && strings.Contains(ifn.Pipe.String(), pair[1]) {
					okCtx = false
				}
			}
			fam.Check("frr.tmpl:network"+pair[0]+":"+strings.TrimSpace(l.String()), 0, okCtx, "", "the network statements of one address family are rendered only when the router also has prefixes of the other family: a router (VRF) with IPv6 prefixes only originates nothing")
		}
	}
	fam.Check("frr.tmpl:network-lines", 0, nNet >= 2, "", "no network statements under range .IPV4Prefixes / .IPV6Prefixes")
	deny := r.Rule("TPL-DENY", "G template structure", "in template neighborfilters: there is a `route-map {{ID}}-in deny` entry; every `route-map {{ID}}-out permit` line is immediately followed by a `match ip|ipv6 address prefix-list` line (no unconditional permit); an entry that has a `set` line ends with `on-match next`, an entry without `set` does not; the `deny any` prefix-list lines are inside `if not .neighbor.HasV4Advertisements` / `HasV6Advertisements`", 10)
	names := r.Rule("TPL-NAMES", "G template structure", "every prefix-list referenced by a `match` line is named by one of the naming functions applied to the template's neighbour, and a definition line `<family> prefix-list {{same function …}} …` exists (directly or through a variable assigned from that function) in neighborfilters or the filter templates it calls; the `match ip` / `match ipv6` keyword of a set-entry agrees with the V4 / V6 list it ranges over, and definitions use the family of the advertisement", 8)
	lines := ts.Lines("neighborfilters")
	if len(lines) < 20 {
		deny.Fail("neighborfilters:lines", 0, "template neighborfilters not found or unexpectedly short")
		return
	}
	hasIn := false
	nOut := 0
	definedBy := map[string]bool{} // naming functions that have a definition line
	collectDefs := func(tmpl string) {
		vars := ts.VarDefs(tmpl)
		for _, l := range ts.Lines(tmpl) {
			m := rePfxDef.FindStringSubmatch(strings.TrimSpace(l.String()))
			if m == nil {
				continue
			}
			name := m[2]
			fn := strings.Fields(name)[0]
			if strings.HasPrefix(fn, "$") {
				for _, d := range vars[fn] {
					fn = strings.Fields(d)[0]
				}
			}
			// sequence counter is per list name
			seqOK := m[3] == m[2] || (strings.HasPrefix(m[3], "$") && len(vars[m[3]]) > 0)
			key := tmpl + ":" + fn
			names.Check("definition:"+key+":"+m[4], 0, seqOK, "", "prefix-list sequence numbers are not counted per list name")
			if m[4] == "permit" {
				// definitions of permit entries use the advertisement's own family
				famOK := strings.HasPrefix(m[1], "{{frrIPFamily") && strings.Contains(m[1], "IPFamily")
				names.Check("definition:"+key+":family", 0, famOK, "", "a prefix-list permit entry is not declared with the address family of the advertisement it permits")
			}
			definedBy[fn] = true
		}
	}
	collectDefs("neighborfilters")
	for _, t := range []string{"localpreffilter", "communityfilter", "largecommunityfilter"} {
		collectDefs(t)
	}
	for i, l := range lines {
		s := l.String()
		if reRouteMapIn.MatchString(strings.TrimSpace(s)) {
			hasIn = true
		}
		if !reRouteMapOut.MatchString(strings.TrimSpace(s)) {
			continue
		}
		nOut++
		key := "out-entry#" + itoa2(nOut)
		// next line must be a match
		if i+1 >= len(lines) {
			deny.Fail(key+":match", 0, "a permit entry of the outbound route-map has no match clause: it permits every prefix to this neighbour")
			continue
		}
		m := reMatch.FindStringSubmatch(lines[i+1].String())
		deny.Check(key+":match", 0, m != nil, "", "a permit entry of the outbound route-map is not followed by `match ip|ipv6 address prefix-list <naming function of this neighbour>`: it permits every prefix (line after: "+strings.TrimSpace(safeLine(lines, i+1))+")")
		if m == nil {
			continue
		}
		fam, fn := m[1], m[2]
		names.Check(key+":list-defined("+fn+")", 0, definedBy[fn], "", "the outbound route-map matches prefix-list "+fn+"(…) but no `prefix-list {{"+fn+" …}}` definition is generated")
		// family keyword vs the list ranged over
		wantFam := ""
		for _, v := range []struct{ rng, fam string }{{".neighbor.LocalPrefsV4", "ip"}, {".neighbor.LocalPrefsV6", "ipv6"}, {".neighbor.LargeCommunitiesV4", "ip"}, {".neighbor.LargeCommunitiesV6", "ipv6"}, {".neighbor.CommunitiesV4", "ip"}, {".neighbor.CommunitiesV6", "ipv6"}} {
			if l.InRangeOver(v.rng) {
				wantFam = v.fam
			}
		}
		if wantFam != "" {
			names.Check(key+":family-keyword", 0, fam == wantFam, "", "a route-map entry generated for the "+wantFam+" list matches with `match "+fam+" address`: the entry never matches and the attribute is not set")
		}
		// set / on-match
		hasSet, hasNext := false, false
		for j := i + 2; j < len(lines) && !strings.HasPrefix(strings.TrimSpace(lines[j].String()), "route-map") && strings.HasPrefix(lines[j].String(), " "); j++ {
			if reSet.MatchString(lines[j].String()) {
				hasSet = true
			}
			if reOnMatch.MatchString(lines[j].String()) {
				hasNext = true
			}
		}
		deny.Check(key+":on-match-next", 0, hasSet == hasNext, "", "a route-map entry that sets an attribute does not continue with `on-match next` (the first matching attribute entry would end the evaluation: later communities / the allow-list are skipped), or a final allow entry continues")
	}
	deny.Check("in-route-map-denies", 0, hasIn, "", "no `route-map {{ID}}-in deny` entry: routes received from the peer are accepted")
	deny.Check("out-entries", 0, nOut >= 8, "", "fewer outbound entries than on the confirmed tree")
	// deny any guards
	for _, l := range lines {
		s := strings.TrimSpace(l.String())
		if !strings.HasSuffix(s, "deny any") {
			continue
		}
		fam := "V4"
		if strings.HasPrefix(s, "ipv6") {
			fam = "V6"
		}
		ok := false
		for _, c := range l.Ctx {
			if strings.Contains(c.String(), "not .neighbor.Has"+fam+"Advertisements") {
				ok = true
			}
		}
		deny.Check("deny-any-"+fam+":guarded", 0, ok, "", "the `deny any` entry of the allow-list is not restricted to neighbours without "+fam+" advertisements (it would shadow or be shadowed by permits)")
	}

	scope := r.Rule("TPL-SCOPE", "G template structure", "in neighborsession and neighborenableipfamily every `neighbor <x> …` statement names the template's own neighbour ($peer assigned from .Addr/.Iface of the argument, or .neighbor.Addr / .neighbor.Iface); route-map names are {{.ID}}-in/-out of the same neighbour; frr.tmpl invokes neighborfilters / neighborsession / neighborenableipfamily with the element of `range .Neighbors` of the router in scope", 10)
	// a method of the neighbour that names the peer (`.Peer`): accepted when it returns the interface for an unnumbered
	// neighbour and the address otherwise - the decision the templates used to make themselves
	peerMethods := map[string]bool{}
	if nt := p.LookupType(frrPkg, "neighborConfig"); nt != nil {
		for i := 0; i < nt.NumMethods(); i++ {
			m := nt.Method(i)
			mf := p.FnOf(m)
			if mf == nil || mf.Body == nil || mf.Param(0) != nil {
				continue
			}
			mg := mf.Graph()
			good, n := true, 0
			for _, rt := range mg.Returns() {
				res := retResults(rt)
				if len(res) != 1 {
					good = false
					continue
				}
				n++
				switch {
				case mf.MatchWith("R.Iface", res[0], chk.H("R", isRecv(mf))) != nil:
					good = good && mg.Dominated(rt, mg.GPat(false, `R.Iface == ""`, chk.H("R", isRecv(mf))))
				case mf.MatchWith("R.Addr", res[0], chk.H("R", isRecv(mf))) != nil:
					good = good && mg.Dominated(rt, mg.GPat(true, `R.Iface == ""`, chk.H("R", isRecv(mf))))
				default:
					good = false
				}
			}
			if good && n == 2 {
				peerMethods[m.Name()] = true
			}
		}
	}
	isPeerRef := func(d string) bool {
		if d == ".neighbor.Addr" || d == ".neighbor.Iface" || d == ".Addr" || d == ".Iface" {
			return true
		}
		for m := range peerMethods {
			if d == ".neighbor."+m || d == "."+m {
				return true
			}
		}
		return false
	}
	for _, tn := range []string{"neighborsession", "neighborenableipfamily"} {
		vars := ts.VarDefs(tn)
		okPeer := len(vars["$peer"]) >= 1
		for _, d := range vars["$peer"] {
			if !isPeerRef(d) {
				okPeer = false
			}
		}
		scope.Check(tn+":$peer", 0, okPeer, "", "$peer is not the neighbour's own address / interface")
		n := 0
		for _, l := range ts.Lines(tn) {
			s := strings.TrimSpace(l.String())
			if !strings.HasPrefix(s, "neighbor ") {
				continue
			}
			n++
			who := strings.Fields(s)[1]
			ok := who == "{{$peer}}" || (strings.HasPrefix(who, "{{") && strings.HasSuffix(who, "}}") && isPeerRef(strings.TrimSuffix(strings.TrimPrefix(who, "{{"), "}}")))
			viaMethod := false
			for m := range peerMethods {
				if who == "{{.neighbor."+m+"}}" || who == "{{."+m+"}}" {
					viaMethod = true // the peer-naming method: the same choice $peer makes
				}
			}
			scope.Check(tn+":statement#"+itoa2(n), 0, ok, "", "a neighbor statement is addressed to `"+who+"`, not to the neighbour the template was invoked for: "+s)
			// an unnumbered peer has no address: a statement that spells the address out instead of $peer is `neighbor  …`
			// for it. The two reviewed exceptions: the remote-as line of the numbered branch, and disable-connected-check
			// (never emitted for an interface peer: its family is dual-stack and the helper wants IPv6 only)
			if ok && who != "{{$peer}}" && !viaMethod {
				fields := strings.Fields(s)
				rest := ""
				if len(fields) > 2 {
					rest = fields[2]
				}
				okDirect := (strings.HasSuffix(who, "Addr}}") && (rest == "remote-as" || rest == "disable-connected-check")) ||
					(strings.HasSuffix(who, "Iface}}") && rest == "interface")
				scope.Check(tn+":statement#"+itoa2(n)+":via-$peer", 0, okDirect, "", "a neighbor statement names the peer by its address (or interface) directly instead of $peer: for an unnumbered peer (or a numbered one) the statement is attached to nobody: "+s)
			}
			if strings.Contains(s, "route-map") {
				scope.Check(tn+":route-map-name#"+itoa2(n), 0, strings.Contains(s, "route-map {{.ID}}-in in") || strings.Contains(s, "route-map {{.ID}}-out out"), "", "the route-map attached to the neighbour is not {{ID}}-in / {{ID}}-out of that same neighbour")
			}
		}
		scope.Check(tn+":statements", 0, n >= 3, "", "fewer neighbor statements than expected")
	}
	for _, tn := range []string{"neighborfilters", "neighborsession", "neighborenableipfamily"} {
		for i, cs := range ts.CallSites[tn] {
			arg := cs.Node.Pipe.String()
			ok := cs.From == "frr.tmpl" && (arg == "." || strings.Contains(arg, `"neighbor" .`))
			scope.Check("call:"+tn+"#"+itoa(i+1), 0, ok, "", "template "+tn+" is not invoked with the neighbour currently ranged over ("+arg+")")
		}
		scope.Check("call:"+tn+":present", 0, len(ts.CallSites[tn]) == 1, "", "template "+tn+" is not invoked exactly once from frr.tmpl")
	}
}

func safeLine(ls []chk.TLine, i int) string {
	if i < len(ls) {
		return ls[i].String()
	}
	return ""
}

func c14MapOrder(p *chk.Prog, r *chk.Report) {
	x := r.Rule("MAPORDER", "A map-order taint", "in the call-graph closure of (*sessionManager).createConfig no slice in map-iteration order is returned, stored into the configuration or passed on unsorted (routers, neighbours and prefixes go through sortMap, community/local-preference sets through sets.List, BFD profiles are sorted by name when they are synchronised)", 3)
	f := need(x, p, frrPkg, "sessionManager", "createConfig")
	sb := need(x, p, frrPkg, "sessionManager", "SyncBFDProfiles")
	if f == nil || sb == nil {
		return
	}
	a := p.AnalyseMapOrder(f, sb)
	r.Saw(a.Funcs...)
	for _, s := range a.Sanitised {
		x.OK("sorted-before-escape:"+s, 0, "")
	}
	for _, fd := range a.Findings {
		x.Fail(fd.Key(), fd.Pos, fd.Detail+" (map range at "+p.Rel(fd.Loop)+"): the generated text depends on Go map iteration order, identical session sets produce different files and spurious reloads")
	}
	if a.Returns[f] {
		x.Fail("createConfig:returns-map-ordered", f.Pos(), "createConfig returns data in map iteration order")
	}
	for _, u := range a.SortSanitisers {
		var sc *chk.SortCall
		for _, c := range p.SortCalls() {
			if c.Call == u.Call {
				c := c
				sc = &c
			}
		}
		ok := false
		if sc != nil && sc.Less != nil {
			if rets := sc.ReturnsOfLess(); len(rets) == 1 {
				if kc := sc.AsKeyCompare(rets[0]); kc != nil && u.Fn.MatchNew("X[I].Name", kc.Left) != nil {
					ok = true
				}
			}
		}
		x.Check("total-order:"+u.Fn.Name(), u.Call.Pos(), ok, "", "a map-ordered list is sorted by a key that is not the element's unique name")
	}
	x.Check("coverage", 0, a.Loops >= 3, "", "fewer map-range loops analysed than on the confirmed tree")
	// information: first-come neighbour creation in map order
	r.Info = append(r.Info, "createConfig ranges over the sessions map and creates a neighbour entry for the first session with a given neighbour name; two sessions with the same (ASN, peer, VRF) but different source address would be resolved in map order (not a violation of a listed clause: such a configuration is not expressible in FRR either)")
}

func c14Params(p *chk.Prog, r *chk.Report) {
	x := r.Rule("COVER-PARAMS", "E sibling (field coverage)", "every field of bgp.SessionParameters is read in (*sessionManager).createConfig or sessionName (reviewed exemptions: PasswordRef - FRR mode receives the resolved password; CurrentNode, SessionName - not part of the FRR configuration); the neighborConfig literal takes Addr<-PeerAddress, Iface<-PeerInterface, Port<-PeerPort, Password<-Password, BFDProfile, GracefulRestart, EBGPMultiHop, VRFName, DisableMP name for name, ASN<-asnFor(PeerASN, DynamicASN), and the timers from HoldTime / KeepAliveTime / ConnectTime", 25)
	f := need(x, p, frrPkg, "sessionManager", "createConfig")
	sn := need(x, p, frrPkg, "", "sessionName")
	spT := p.LookupType("internal/bgp", "SessionParameters")
	if f == nil || sn == nil || spT == nil {
		return
	}
	exempt := map[string]bool{"PasswordRef": true, "CurrentNode": true, "SessionName": true}
	st := spT.Underlying().(*types.Struct)
	for i := 0; i < st.NumFields(); i++ {
		fld := st.Field(i)
		if exempt[fld.Name()] {
			continue
		}
		x.Check("SessionParameters."+fld.Name()+":consumed", f.Pos(), f.MentionsField(f.Body, fld), "", "session parameter "+fld.Name()+" is never read when the FRR configuration is generated (the setting is silently ignored)")
	}
	// the literal
	ncT := p.LookupType(frrPkg, "neighborConfig")
	var lit *ast.CompositeLit
	ast.Inspect(f.Body, func(n ast.Node) bool {
		if cl, ok := n.(*ast.CompositeLit); ok && ncT != nil {
			if t := f.Info().TypeOf(cl); t != nil && types.Identical(t, ncT) {
				lit = cl
			}
		}
		return true
	})
	if lit == nil {
		x.Fail("createConfig:neighbor-literal", f.Pos(), "no neighborConfig literal")
		return
	}
	table := map[string]string{"Addr": "PeerAddress", "Iface": "PeerInterface", "Port": "PeerPort", "Password": "Password", "BFDProfile": "BFDProfile",
		"GracefulRestart": "GracefulRestart", "EBGPMultiHop": "EBGPMultiHop", "VRFName": "VRFName", "DisableMP": "DisableMP",
		"HoldTime": "HoldTime", "KeepaliveTime": "KeepAliveTime", "ConnectTime": "ConnectTime", "ASN": "PeerASN"}
	kv := map[string]ast.Expr{}
	for _, e := range lit.Elts {
		if k, ok := e.(*ast.KeyValueExpr); ok {
			kv[k.Key.(*ast.Ident).Name] = k.Value
		}
	}
	var keys []string
	for k := range table {
		keys = append(keys, k)
	}
	sort.Strings(keys)
	for _, k := range keys {
		src := p.LookupField("internal/bgp", "SessionParameters", table[k])
		v := kv[k]
		ok := v != nil && src != nil
		if ok {
			ok = f.MentionsField(v, src)
			if !ok {
				if id, isID := ast.Unparen(v).(*ast.Ident); isID {
					for _, d := range assignsTo(f, f.ObjOf(id)) {
						if f.MentionsField(d, src) {
							ok = true
						}
					}
					// declared with var and assigned through a local (`time := …; holdTime = &time`)
					if !ok {
						ast.Inspect(f.Body, func(n ast.Node) bool {
							if ifs, isIf := n.(*ast.IfStmt); isIf && f.MentionsField(ifs.Cond, src) && f.Mentions(ifs.Body, f.ObjOf(id)) {
								ok = true
							}
							return true
						})
					}
				}
			}
		}
		if !ok && v == nil && src != nil {
			// left out of the literal and set right after it on the object just built (`n = &neighborConfig{..}; if
			// s.X != nil { n.k = f(*s.X) }`): in the same block as the literal's statement, before the object is used further
			ok = c14SetAfterLiteral(f, lit, k, src)
		}
		x.Check("neighborConfig."+k, lit.Pos(), ok, "", "neighborConfig."+k+" is not filled from SessionParameters."+table[k])
	}
	// each neighbour is described from its own session only: nothing computed for an earlier session leaks in
	if rs, isRs := f.LoopOf(lit).(*ast.RangeStmt); isRs {
		carried := carriedIntoIteration(f, f.Graph(), rs, lit)
		x.Check("createConfig:neighbor-built-from-its-own-session", lit.Pos(), len(carried) == 0, "", "the neighbour entry reads "+strings.Join(carried, ", ")+", declared outside the session loop and not set on every path of an iteration: a session that leaves the setting unset inherits the value of the session visited before it (in map order)")
	}
	// what earlier sessions put under a router / neighbour key is kept: inside the session loop an entry of a keyed
	// accumulator (routers, rout.neighbors, rout.neighborsProperties) is created only when the key is new - two sessions
	// can map to one neighbour, and the second must not reset the community and local-preference sets of the first
	if rs, isRs := f.LoopOf(lit).(*ast.RangeStmt); isRs {
		g := f.Graph()
		nStore := 0
		for _, st := range g.Find(func(n ast.Node) bool {
			as, ok := n.(*ast.AssignStmt)
			if !ok || len(as.Lhs) != 1 || len(as.Rhs) != 1 || as.Tok != token.ASSIGN || !chk.InBody(rs, n) {
				return false
			}
			ix, ok := ast.Unparen(as.Lhs[0]).(*ast.IndexExpr)
			if !ok {
				return false
			}
			mt, isMap := f.Info().TypeOf(ix.X).Underlying().(*types.Map)
			if !isMap {
				return false
			}
			_, ptrVal := mt.Elem().Underlying().(*types.Pointer)
			return ptrVal // entries that are objects filled over several sessions
		}) {
			ix := ast.Unparen(st.Node.(*ast.AssignStmt).Lhs[0]).(*ast.IndexExpr)
			// nested in a loop over the advertisements: a per-advertisement object, not a per-session accumulator
			if l := f.LoopOf(st.Node); l != ast.Stmt(rs) {
				continue
			}
			nStore++
			sameK := func(e ast.Expr) bool { return f.SameExpr(e, ix.Index) }
			absent := chk.GBool(false, func(e ast.Expr) bool {
				id, isId := ast.Unparen(e).(*ast.Ident)
				if !isId {
					return false
				}
				rhs, idx := g.DefOf(id, g.FactSite(id))
				return rhs != nil && idx == 1 && f.MatchWith("M[K]", rhs, chk.H("K", sameK)) != nil
			})
			nilEntry := g.GPat(true, "V == nil", chk.H("V", definedBy(g, "M[K]", chk.H("K", sameK))))
			x.Check("createConfig:entry-created-only-when-absent:"+f.Src(ix.X), st.Pos(), g.Dominated(st, chk.GOr(absent, nilEntry)), "", "an entry of "+f.Src(ix.X)+" is (re)created for every session: when two sessions map to the same key the second visit throws away what the first accumulated (which one loses depends on map order)")
		}
		x.Check("createConfig:keyed-accumulators-found", lit.Pos(), nStore >= 2, "", "expected the router and neighbour (and neighbour-properties) entries to be created in the session loop")
	}
	srcOK := len(f.Graph().Find(f.IsAssignPat("N.SrcAddr", "S.SourceAddress.String()"))) == 1
	x.Check("neighborConfig.SrcAddr", lit.Pos(), srcOK, "", "neighborConfig.SrcAddr is not filled from SessionParameters.SourceAddress")
}

func c14Families(p *chk.Prog, r *chk.Report) {
	x := r.Rule("FAMILY-SETS", "B path", "in createConfig, with family = ipfamily.ForAddress(adv.Prefix.IP) of the advertisement being processed: Insert into CommunitiesV4 / LargeCommunitiesV4 / LocalPrefsV4 is dominated by family == IPv4 and into the V6 sets by its negation; LocalPrefs only for adv.LocalPref != 0; the `case ipfamily.IPv4` arm inserts into ipV4Prefixes and sets HasV4Advertisements (IPv6 likewise); the advertisement's own family is stored in advertisementConfig.IPFamily", 10)
	f := need(x, p, frrPkg, "sessionManager", "createConfig")
	if f == nil {
		return
	}
	g := f.Graph()
	fam := definedBy(g, "ipfamily.ForAddress(A.Prefix.IP)")
	is4 := g.GPat(true, "F == ipfamily.IPv4", chk.H("F", fam))
	not4 := g.GPat(false, "F == ipfamily.IPv4", chk.H("F", fam))
	// an insert through a local that stands for the set of the advertisement's family (`s := p.XV6; if family == IPv4 {
	// s = p.XV4 }; s.Insert(v)`): under the assumption family == IPv4 only the V4 set can be the value at the insert, under
	// its negation only the V6 set
	cut4 := func(b *cfgBlock, k int) bool { return g.EdgeImplies(b, k, not4) } // the executions with family == IPv4
	cut6 := func(b *cfgBlock, k int) bool { return g.EdgeImplies(b, k, is4) }
	// where the sets live: the set whose sorted list ends up in the neighbour's field T (`n.T = sets.List(P.<path>)`);
	// on the confirmed tree the path is the field T of the per-neighbour record itself
	selPath := func(e ast.Expr) (*ast.Ident, []string) {
		var path []string
		for {
			switch y := ast.Unparen(e).(type) {
			case *ast.SelectorExpr:
				path = append([]string{y.Sel.Name}, path...)
				e = y.X
			case *ast.UnaryExpr:
				if y.Op != token.AND {
					return nil, nil
				}
				e = y.X
			case *ast.StarExpr:
				e = y.X
			case *ast.Ident:
				return y, path
			default:
				return nil, nil
			}
		}
	}
	allSets := []string{"CommunitiesV4", "LargeCommunitiesV4", "LocalPrefsV4", "CommunitiesV6", "LargeCommunitiesV6", "LocalPrefsV6"}
	pathOf := map[string]string{}
	for _, set := range allSets {
		pathOf[set] = set
		for _, st := range g.Find(f.IsAssignPat("N."+set, "sets.List(S)")) {
			call := ast.Unparen(st.Node.(*ast.AssignStmt).Rhs[0]).(*ast.CallExpr)
			if _, path := selPath(call.Args[0]); len(path) > 0 {
				pathOf[set] = strings.Join(path, ".")
			}
		}
	}
	// what is rendered for a family is everything that was collected for it: the neighbour's list is the collected set
	// as a list, with nothing taken out (a community that IPv4 prefixes carry as well still needs its IPv6 entry)
	for _, set := range allSets {
		for _, st := range g.Find(f.IsAssignPat("N."+set, "V")) {
			rhs := st.Node.(*ast.AssignStmt).Rhs[0]
			narrowed := ""
			ast.Inspect(rhs, func(n ast.Node) bool {
				if sel, isSel := n.(*ast.SelectorExpr); isSel {
					switch sel.Sel.Name {
					case "Difference", "Intersection", "SymmetricDifference", "Delete", "PopAny":
						if fo, isF := f.ObjOf(sel.Sel).(*types.Func); isF && fo.Pkg() != nil && strings.HasSuffix(fo.Pkg().Path(), "util/sets") {
							narrowed = sel.Sel.Name
						}
					}
				}
				return narrowed == ""
			})
			x.Check(set+":whole-set-rendered", st.Pos(), narrowed == "", "", "the neighbour's "+set+" is the collected set with elements taken out ("+narrowed+"): the route-map entry of that family for those values is not generated")
		}
	}
	directSites := map[string][]chk.Site{}
	aliasSites := map[string][]chk.Site{}
	for _, s := range g.FindPat("V.Insert(X)") {
		id, rest := selPath(ast.Unparen(s.Node.(*ast.CallExpr).Fun).(*ast.SelectorExpr).X)
		if id == nil {
			continue
		}
		if len(rest) > 0 {
			for _, set := range allSets {
				if strings.Join(rest, ".") == pathOf[set] {
					directSites[set] = append(directSites[set], s)
				}
			}
		}
		only := func(cut func(b *cfgBlock, k int) bool) string {
			defs, entry := g.ReachingDefsUnder(id, s, cut)
			name := ""
			if entry || len(defs) == 0 {
				return ""
			}
			for _, d := range defs {
				as, isAs := d.(*ast.AssignStmt)
				if !isAs || len(as.Lhs) != 1 || len(as.Rhs) != 1 {
					return ""
				}
				_, path := selPath(as.Rhs[0])
				if len(path) == 0 {
					return ""
				}
				sel := strings.Join(append(append([]string{}, path...), rest...), ".")
				if name != "" && name != sel {
					return ""
				}
				name = sel
			}
			return name
		}
		n4, n6 := only(cut4), only(cut6)
		if n4 == "" || n6 == "" {
			continue
		}
		for _, set := range allSets {
			if strings.HasSuffix(set, "V4") && pathOf[set] == n4 && pathOf[strings.TrimSuffix(set, "V4")+"V6"] == n6 {
				aliasSites[set] = append(aliasSites[set], s)
				aliasSites[strings.TrimSuffix(set, "V4")+"V6"] = append(aliasSites[strings.TrimSuffix(set, "V4")+"V6"], s)
			}
		}
	}
	for _, set := range []string{"CommunitiesV4", "LargeCommunitiesV4", "LocalPrefsV4", "CommunitiesV6", "LargeCommunitiesV6", "LocalPrefsV6"} {
		sites := directSites[set]
		x.Check(set+":insert-site", f.Pos(), len(sites)+len(aliasSites[set]) == 1, "", "expected one Insert into "+set)
		for _, s := range aliasSites[set] {
			x.OK(set+":by-prefix-family", s.Pos(), "through the local that holds the set of the advertisement's family")
			if strings.HasPrefix(set, "LocalPrefs") {
				x.Check(set+":non-zero", s.Pos(), g.Dominated(s, g.GPat(true, "A.LocalPref != 0")), "", "a zero local preference is recorded")
			}
		}
		for _, s := range sites {
			want := is4
			if strings.HasSuffix(set, "V6") {
				want = not4
			}
			x.Check(set+":by-prefix-family", s.Pos(), g.Dominated(s, want), "", set+" is filled without testing the family of the advertised prefix (the route-map entry is generated for the wrong family and never matches)")
			if strings.HasPrefix(set, "LocalPrefs") {
				x.Check(set+":non-zero", s.Pos(), g.Dominated(s, g.GPat(true, "A.LocalPref != 0")), "", "a zero local preference is recorded")
			}
		}
	}
	// large communities go to the large sets and lists only, standard ones to the standard sets and lists only
	isLarge := g.GPat(true, "community.IsLarge(C)")
	notLarge := g.GPat(false, "community.IsLarge(C)")
	for _, set := range []string{"CommunitiesV4", "CommunitiesV6", "LargeCommunitiesV4", "LargeCommunitiesV6"} {
		want := notLarge
		if strings.HasPrefix(set, "Large") {
			want = isLarge
		}
		sites := append([]chk.Site{}, directSites[set]...)
		sites = append(sites, aliasSites[set]...)
		for _, s := range sites {
			okKind := g.Dominated(s, want)
			if call, isCall := s.Node.(*ast.CallExpr); isCall && !okKind && call.Ellipsis.IsValid() && len(call.Args) == 1 {
				// a whole list inserted at once: every element of that list was appended under the kind test
				if id, isId := ast.Unparen(call.Args[0]).(*ast.Ident); isId {
					srcs := flowSources(f, f.ObjOf(id))
					srcs[f.ObjOf(id)] = true
					nApp := 0
					okKind = true
					for o := range srcs {
						for _, a := range g.Find(f.IsAssignPat("L", "append(L, ETC)", chk.H("L", f.IsObj(o)))) {
							nApp++
							if !g.Dominated(a, want) {
								okKind = false
							}
						}
					}
					okKind = okKind && nApp >= 1
				}
			}
			x.Check(set+":by-community-kind", s.Pos(), okKind, "", set+" receives a community of the other kind (a large community is also announced as a standard one, or the reverse): the route-map sets an attribute nobody requested")
		}
	}
	for _, s := range g.Find(f.IsAssignPat("L", "append(L, C.String())")) {
		as := s.Node.(*ast.AssignStmt)
		id, isId := as.Lhs[0].(*ast.Ident)
		if !isId {
			continue
		}
		// which list of the advertisement literal does this local feed?
		for fld, want := range map[string]chk.Guard{"Communities": notLarge, "LargeCommunities": isLarge} {
			if len(g.FindPat("advertisementConfig{"+fld+": L}", chk.H("L", f.IsObj(f.ObjOf(id))))) > 0 {
				x.Check("advertisement."+fld+":by-community-kind", s.Pos(), g.Dominated(s, want), "", "the advertisement's "+fld+" list receives a community of the other kind")
			}
		}
	}
	for _, c := range []struct{ fam, m, flag string }{{"IPv4", "ipV4Prefixes", "HasV4Advertisements"}, {"IPv6", "ipV6Prefixes", "HasV6Advertisements"}} {
		caseG := g.GPat(true, "F == ipfamily."+c.fam, chk.H("F", fam))
		ins := g.Find(f.IsAssignPat("R."+c.m+"[P]", "P"))
		if len(ins) == 0 {
			// the prefixes kept as a set: R.m.Insert(P) (or R.m[P] = struct{}{} / true)
			setIns := isSetInsert(f)
			cm := c.m
			ins = g.Find(func(n ast.Node) bool {
				if es, ok := n.(*ast.ExprStmt); ok && f.MatchNew("R."+cm+".Insert(P)", es.X) != nil {
					return true
				}
				if as, ok := n.(*ast.AssignStmt); ok && setIns(n) {
					return f.MatchNew("R."+cm+"[P]", as.Lhs[0]) != nil
				}
				return false
			})
		}
		flg := g.Find(f.IsAssignPat("N."+c.flag, "true"))
		ok := len(ins) == 1 && len(flg) == 1 && g.Dominated(ins[0], caseG) && g.Dominated(flg[0], caseG)
		if ok {
			// every advertisement of that family that is processed to the end of its iteration has done both
			advLoop, _ := f.LoopOf(ins[0].Node).(*ast.RangeStmt)
			if advLoop == nil {
				ok = false
			} else {
				both := chk.GAnd(chk.GEvent(func(n ast.Node) bool { return n == ins[0].Top }), chk.GEvent(func(n ast.Node) bool { return n == flg[0].Top }))
				ends := g.LoopIteration(advLoop, chk.GOr(chk.GNot(caseG), both))
				for _, e := range ends {
					if !e.OK {
						ok = false
					}
				}
				ok = ok && len(ends) > 0
			}
		}
		if !ok && len(ins) == 1 && len(flg) == 0 && g.Dominated(ins[0], caseG) {
			// the flag derived from the data when the neighbours are finished: N.flag = (some advertisement of
			// N.Advertisements has IPFamily == this family). It says the same as long as every advertisement of the family
			// that is processed to the end of its iteration both originates its prefix and is handed, with that family,
			// to addToAdvertisements for the neighbour's list
			fam0 := fam
			fam := c.fam
			derived := 0
			for _, s := range g.Find(f.IsAssignPat("N."+c.flag, "V")) {
				as := s.Node.(*ast.AssignStmt)
				nbr := as.Lhs[0].(*ast.SelectorExpr).X
				rid, isId := ast.Unparen(as.Rhs[0]).(*ast.Ident)
				if !isId {
					continue
				}
				ro := f.ObjOf(rid)
				sets, clears, other := 0, 0, 0
				for _, a := range assignsTo(f, ro) {
					ra, isAs := a.(*ast.AssignStmt)
					if !isAs || len(ra.Rhs) != 1 {
						if _, isDecl := a.(*ast.DeclStmt); isDecl {
							continue
						}
						if _, isSpec := a.(*ast.ValueSpec); isSpec {
							continue
						}
						other++
						continue
					}
					switch {
					case f.IsConstBool(ra.Rhs[0], false):
						clears++
					case f.IsConstBool(ra.Rhs[0], true):
						rs, _ := f.LoopOf(ra).(*ast.RangeStmt)
						sites := g.Find(func(n ast.Node) bool { return n == ast.Node(ra) })
						if rs == nil || len(sites) != 1 || f.MatchWith("N.Advertisements", ast.Unparen(rs.X), chk.H("N", func(e ast.Expr) bool { return f.SameExpr(e, nbr) })) == nil {
							other++
							continue
						}
						isFam := func(e ast.Expr) bool {
							return isObjNamed(f, "internal/ipfamily."+fam)(unconv(f, f.Resolve(unconv(f, e))))
						}
						if g.Dominated(sites[0], g.GPat(true, "X.IPFamily == F", chk.H("X", rangeVal(f, rs)), chk.H("F", isFam))) {
							sets++
						} else {
							other++
						}
					default:
						other++
					}
				}
				if sets == 1 && other == 0 {
					derived++
				}
			}
			advLoop, _ := f.LoopOf(ins[0].Node).(*ast.RangeStmt)
			if derived == 1 && advLoop != nil {
				famVar := func(e ast.Expr) bool { return fam0(e) }
				handed := func(n ast.Node) bool {
					as, isAs := n.(*ast.AssignStmt)
					if !isAs || len(as.Rhs) != 1 {
						return false
					}
					b := f.MatchNew("addToAdvertisements(NB.Advertisements, &A)", as.Rhs[0])
					if b == nil || len(as.Lhs) < 1 || f.MatchNew("NB.Advertisements", as.Lhs[0]) == nil {
						return false
					}
					return len(g.FindPat("advertisementConfig{IPFamily: F}", chk.H("F", famVar))) > 0 && definedBy(g, "advertisementConfig{IPFamily: F}", chk.H("F", famVar))(b["A"])
				}
				both := chk.GAnd(chk.GEvent(func(n ast.Node) bool { return n == ins[0].Top }), chk.GEvent(handed))
				ends := g.LoopIteration(advLoop, chk.GOr(chk.GNot(caseG), both))
				ok = len(ends) > 0
				for _, e := range ends {
					if !e.OK {
						ok = false
					}
				}
			}
		}
		x.Check(c.fam+":prefix-map-and-flag", f.Pos(), ok, "", "the "+c.fam+" arm does not both originate the prefix ("+c.m+") and mark the neighbour as having "+c.fam+" advertisements (the allow-list would get a `deny any` next to permits, or no network statement)")
	}
	lits := g.FindPat("advertisementConfig{IPFamily: F, Prefix: PFX, LocalPref: A.LocalPref}", chk.H("F", fam), chk.H("PFX", definedBy(g, "A.Prefix.String()")))
	x.Check("advertisementConfig:literal", f.Pos(), len(lits) == 1, "", "the advertisement handed to the templates does not carry the prefix, its own family and its local preference")
}

// c14Validate is shared by the frr and frrk8s back ends (BACKEND-AGREE).
func c14Validate(p *chk.Prog, r *chk.Report, pkg string) {
	x := r.Rule("VALIDATE", "B path", "(*session).Set stores as advertised only a list in which every element passed validate (at most 63 communities), fails when the session is not registered, regenerates the configuration, and restores the previous list when generation fails; NewSession unregisters the session when generation fails", 4)
	f := need(x, p, pkg, "session", "Set")
	if f == nil {
		return
	}
	g := f.Graph()
	advs := isParamIdx(f, 0)
	stores := g.Find(func(n ast.Node) bool {
		as, ok := n.(*ast.AssignStmt)
		return ok && len(as.Lhs) == 1 && f.MatchWith("RECV.advertised", as.Lhs[0], chk.H("RECV", isRecv(f))) != nil
	})
	var newList types.Object
	okStore := false
	for _, s := range stores {
		rhs := s.Node.(*ast.AssignStmt).Rhs[0]
		if id, ok := ast.Unparen(rhs).(*ast.Ident); ok {
			for _, rs := range f.RangeLoops(advs) {
				a := rangeVal(f, rs)
				app := f.IsAssignPat("L", "append(L, A)", chk.H("L", f.IsObj(f.ObjOf(id))), chk.H("A", a))
				apps := g.Find(app)
				if len(apps) == 1 && g.Dominated(apps[0], g.GErrNil(true, "validate(A)", chk.H("A", a))) && !loopSkipsWithout(g, rs, app, chk.NoGuard) && g.AfterLoop(s, rs) {
					newList = f.ObjOf(id)
					okStore = true
				}
			}
		}
	}
	copyForm := false
	if !okStore {
		// the whole argument list validated first, then stored as a copy: append([]T{}, advs...) / slices.Clone(advs)
		for _, s := range stores {
			rhs := s.Node.(*ast.AssignStmt).Rhs[0]
			isCopy := f.MatchWith("append(E, A...)", rhs, chk.H("A", advs), chk.H("E", func(e ast.Expr) bool {
				cl, isLit := ast.Unparen(e).(*ast.CompositeLit)
				return isLit && len(cl.Elts) == 0 || f.IsNilLit(e) || isEmptyMake(f, e)
			})) != nil || f.MatchWith("slices.Clone(A)", rhs, chk.H("A", advs)) != nil
			if !isCopy {
				// a list made with one slot per argument and filled by copy(list, advs) before it is stored
				if id, isId := ast.Unparen(rhs).(*ast.Ident); isId && f.ObjOf(id) != nil {
					o := f.ObjOf(id)
					defs := assignsTo(f, o)
					sized := false
					for _, d := range defs {
						if as, isAs := d.(*ast.AssignStmt); isAs && len(as.Rhs) == 1 && f.MatchWith("make(T, len(A))", as.Rhs[0], chk.H("A", advs)) != nil {
							sized = true
						}
					}
					cps := g.FindPat("copy(N, A)", chk.H("N", f.IsObj(o)), chk.H("A", advs))
					if sized && len(defs) == 1 && len(cps) == 1 {
						top := cps[0].Top
						if w := g.MustPass(chk.Site{}, func(n ast.Node) bool { return n == s.Top }, false, func(n ast.Node) bool { return n == top }); !w.Found {
							isCopy = true
						}
					}
				}
			}
			if !isCopy {
				continue
			}
			for _, rs := range f.RangeLoops(advs) {
				a := rangeVal(f, rs)
				if forallBefore(f, g, rs, g.GErrNil(true, "validate(A)", chk.H("A", a)), s) == "" {
					okStore, copyForm = true, true
				}
			}
		}
	}
	x.Check(pkg+":Set:stores-validated-complete-list", f.Pos(), okStore, "", "Set can store advertisements that did not pass validate, or not all of them")
	// rollback
	okRB := false
	gen := "RECV.sessionManager.createConfig()"
	if pkg == "internal/bgp/frrk8s" {
		gen = "RECV.sessionManager.updateConfig()"
	}
	for _, e := range g.EdgesImplying(g.GErrNil(false, gen)) {
		old := func(ex ast.Expr) bool {
			return definedBy(g, "RECV.advertised")(ex) && f.ObjOf(ex) != newList
		}
		w := g.BranchAlways(e, f.IsAssignPat("RECV.advertised", "OLD", chk.H("OLD", old)))
		w2 := g.BranchAlways(e, func(n ast.Node) bool { return isErrReturn(f, n) })
		okRB = !w.Found && !w2.Found
	}
	// success means stored and generated: a nil return is reached only behind the store of the new list and a successful
	// generation - or behind a comparison of the whole old and new lists (nothing to do)
	if newList != nil || copyForm {
		isStore := func(n ast.Node) bool {
			for _, s := range stores {
				if n == s.Top {
					return true
				}
			}
			return false
		}
		oldL := func(e ast.Expr) bool {
			return f.MatchWith("RECV.advertised", e, chk.H("RECV", isRecv(f))) != nil || definedBy(g, "RECV.advertised")(e)
		}
		newL := f.IsObj(newList)
		if copyForm {
			newL = advs
		}
		unchanged := chk.GSame(g.GPat(true, "reflect.DeepEqual(O, N)", chk.H("O", oldL), chk.H("N", newL)), g.GPat(true, "reflect.DeepEqual(N, O)", chk.H("O", oldL), chk.H("N", newL)),
			g.GPat(true, "slices.EqualFunc(O, N, F)", chk.H("O", oldL), chk.H("N", newL)), g.GPat(true, "slices.EqualFunc(N, O, F)", chk.H("O", oldL), chk.H("N", newL)))
		done := chk.GOr(chk.GAnd(chk.GEvent(isStore), g.GErrNil(true, gen)), unchanged)
		okDone := true
		wherePos := f.Pos()
		for _, rt := range g.Returns() {
			rr := retResults(rt)
			if len(rr) != 1 || !f.IsNilLit(rr[0]) {
				continue
			}
			if !g.Dominated(rt, done) {
				okDone, wherePos = false, rt.Pos()
			}
		}
		x.Check(pkg+":Set:success-means-stored-and-generated", wherePos, okDone, "", "Set can report success without having stored the requested list and generated the configuration from it (a shortcut that judges the request unchanged by anything weaker than equality of the whole lists loses withdrawn attributes)")
	}
	x.Check(pkg+":Set:rollback-on-generation-error", f.Pos(), okRB, "", "when the configuration cannot be generated Set returns the error but keeps the new advertisements (every later generation fails or silently applies them)")
	vf := need(x, p, pkg, "", "validate")
	if vf != nil {
		vg := vf.Graph()
		ok := false
		for _, e := range vg.EdgesImplying(vg.GPat(true, "len(A.Communities) > C")) {
			cond := e.B.Nodes[len(e.B.Nodes)-1].(ast.Expr)
			c, isC := constInt(vf, vf.MatchNew("len(A.Communities) > C", cond)["C"])
			ok = isC && c == 63 && !vg.BranchAlways(e, func(n ast.Node) bool { return isErrReturn(vf, n) }).Found
		}
		x.Check(pkg+":validate:bound-63", vf.Pos(), ok, "", "the community bound differs from the other back ends (63)")
	}
	ns := need(x, p, pkg, "sessionManager", "NewSession")
	if ns != nil {
		ng := ns.Graph()
		ok := false
		for _, e := range ng.EdgesImplying(ng.GErrNil(false, strings.Replace(gen, "RECV.sessionManager", "RECV", 1))) {
			_ = e
			// at every return: the generation succeeded, or the session was unregistered on the way
			unreg := chk.GEvent(func(n ast.Node) bool {
				es, isES := n.(*ast.ExprStmt)
				return isES && ns.MatchNew("delete(RECV.sessions, K)", es.X) != nil
			})
			ok = true
			for _, rt := range ng.Returns() {
				if !ng.Dominated(rt, chk.GOr(ng.GErrNil(true, strings.Replace(gen, "RECV.sessionManager", "RECV", 1)), unreg)) {
					ok = false
				}
			}
		}
		x.Check(pkg+":NewSession:unregister-on-generation-error", ns.Pos(), ok, "", "a session whose configuration could not be generated stays registered")
	}
}

func c14Merge(p *chk.Prog, r *chk.Report) {
	x := r.Rule("MERGE-GUARD", "B path", "mergeAdvertisements returns a merged entry only behind equal Prefix, IPFamily and LocalPref; addToAdvertisements merges only under current[i].Prefix == toAdd.Prefix for the position found by sort.Search(… current[i].Prefix >= toAdd.Prefix) and otherwise inserts at that position", 4)
	f := need(x, p, frrPkg, "", "mergeAdvertisements")
	if f != nil {
		g := f.Graph()
		a, b := isParamIdx(f, 0), isParamIdx(f, 1)
		for _, rt := range g.Returns() {
			rr := retResults(rt)
			if len(rr) != 2 || !f.IsNilLit(rr[1]) {
				continue
			}
			for _, fld := range []string{"Prefix", "IPFamily", "LocalPref"} {
				x.Check("mergeAdvertisements:equal-"+fld, rt.Pos(), g.Dominated(rt, g.GPat(false, "A."+fld+" != B."+fld, chk.H("A", a), chk.H("B", b))), "", "advertisements with different "+fld+" can be merged into one entry (one of the requested values is lost)")
			}
			// the merged entry carries the communities and the large communities of both inputs (never one input as it is)
			for _, fld := range []string{"Communities", "LargeCommunities"} {
				res := rr[0]
				ok := !a(res) && !b(res)
				if ok {
					same := func(e ast.Expr) bool { return f.SameExpr(e, res) }
					isSet := func(n ast.Node) bool {
						return f.IsAssignPat("R."+fld, "mergeCommunities(A."+fld+", B."+fld+")", chk.H("R", same), chk.H("A", a), chk.H("B", b))(n) ||
							f.IsAssignPat("R."+fld, "mergeCommunities(B."+fld+", A."+fld+")", chk.H("R", same), chk.H("A", a), chk.H("B", b))(n)
					}
					node := rt.Node
					w := g.MustPass(chk.Site{}, func(n ast.Node) bool { return n == node }, false, isSet)
					inLit := f.MatchWith("&advertisementConfig{"+fld+": mergeCommunities(A."+fld+", B."+fld+")}", f.Resolve(res), chk.H("A", a), chk.H("B", b)) != nil
					ok = !w.Found || inLit
				}
				x.Check("mergeAdvertisements:union-of-"+fld, rt.Pos(), ok, "", "a merged advertisement can lose the "+fld+" of one of the two requests (returned without merging both lists)")
			}
			// ... and the scalar fields the two inputs agree on: each is carried over from an input (a field left at its
			// zero value - a local preference of 0 - renders as "not requested")
			for _, fld := range []string{"Prefix", "IPFamily", "LocalPref"} {
				res := rr[0]
				same := func(e ast.Expr) bool { return f.SameExpr(e, res) }
				isSet := func(n ast.Node) bool {
					return f.IsAssignPat("R."+fld, "A."+fld, chk.H("R", same), chk.H("A", func(e ast.Expr) bool { return a(e) || b(e) }))(n)
				}
				node := rt.Node
				w := g.MustPass(chk.Site{}, func(n ast.Node) bool { return n == node }, false, isSet)
				inLit := f.MatchWith("&advertisementConfig{"+fld+": A."+fld+"}", f.Resolve(res), chk.H("A", func(e ast.Expr) bool { return a(e) || b(e) })) != nil
				// a copy of one input as the starting point carries every scalar field
				copied := false
				if id, isId := ast.Unparen(res).(*ast.Ident); isId {
					for _, d := range assignsTo(f, f.ObjOf(id)) {
						if as, isAs := d.(*ast.AssignStmt); isAs && len(as.Rhs) == 1 {
							if st, isStar := ast.Unparen(as.Rhs[0]).(*ast.StarExpr); isStar && (a(st.X) || b(st.X)) {
								copied = true
							}
							if u, isU := ast.Unparen(as.Rhs[0]).(*ast.UnaryExpr); isU && u.Op == token.AND {
								if cid, isC := ast.Unparen(u.X).(*ast.Ident); isC {
									for _, d2 := range assignsTo(f, f.ObjOf(cid)) {
										if as2, isAs2 := d2.(*ast.AssignStmt); isAs2 && len(as2.Rhs) == 1 {
											if st2, isStar2 := ast.Unparen(as2.Rhs[0]).(*ast.StarExpr); isStar2 && (a(st2.X) || b(st2.X)) {
												copied = true
											}
										}
									}
								}
							}
						}
					}
				}
				x.Check("mergeAdvertisements:carries-"+fld, rt.Pos(), !w.Found || inLit || copied, "", "the merged advertisement does not carry the "+fld+" the two requests agree on (it is left at its zero value)")
			}
		}
	}
	// the merged community list does not depend on the order in which the requests arrived: it is sorted (sets.List
	// sorts; or an explicit sort before the return)
	mc := need(x, p, frrPkg, "", "mergeCommunities")
	if mc != nil {
		mg := mc.Graph()
		ok := len(mg.Returns()) > 0
		for _, rt := range mg.Returns() {
			rr := retResults(rt)
			if len(rr) != 1 {
				ok = false
				continue
			}
			sorted := mc.MatchWith("sets.List(S)", mc.Resolve(rr[0])) != nil
			if id, isId := ast.Unparen(rr[0]).(*ast.Ident); isId && !sorted {
				same := mc.IsObj(mc.ObjOf(id))
				w := mg.MustPass(chk.Site{}, func(n ast.Node) bool { return n == rt.Top }, false, func(n ast.Node) bool {
					return mc.ContainsPat("sort.Strings(L)", chk.H("L", same))(n) || mc.ContainsPat("slices.Sort(L)", chk.H("L", same))(n)
				})
				// nothing is appended after the sort
				sorted = !w.Found
				if sorted {
					for _, ss := range mg.Find(func(n ast.Node) bool {
						return mc.ContainsPat("sort.Strings(L)", chk.H("L", same))(n) || mc.ContainsPat("slices.Sort(L)", chk.H("L", same))(n)
					}) {
						w2 := (&chk.Walk{G: mg, From: ss, Hit: mc.IsAssignPat("L", "append(L, ETC)", chk.H("L", same)), Stop: func(n ast.Node) bool { return n == rt.Top }}).Run()
						if w2.Found {
							sorted = false
						}
					}
				}
			}
			if !sorted {
				ok = false
			}
		}
		x.Check("mergeCommunities:sorted", mc.Pos(), ok, "", "the merged community list keeps the order in which the advertisements were merged (argument order of Set, map order of the sessions): the same requests render different configurations and the reloader sees spurious changes")
	}
	af := need(x, p, frrPkg, "", "addToAdvertisements")
	if af != nil {
		g := af.Graph()
		cur, add := isParamIdx(af, 0), isParamIdx(af, 1)
		idx := definedBy(g, "sort.Search(len(C), FN)", chk.H("C", cur))
		ok := false
		for _, s := range g.FindPat("mergeAdvertisements(C[I], T)", chk.H("C", cur), chk.H("T", add), chk.H("I", idx)) {
			ok = g.Dominated(s, g.GPat(true, "C[I].Prefix == T.Prefix", chk.H("C", cur), chk.H("T", add), chk.H("I", idx)))
		}
		// the search predicate
		okS := false
		ast.Inspect(af.Body, func(n ast.Node) bool {
			if lit, isLit := n.(*ast.FuncLit); isLit {
				for _, st := range lit.Body.List {
					if rs, isRet := st.(*ast.ReturnStmt); isRet && len(rs.Results) == 1 && af.MatchWith("C[I].Prefix >= T.Prefix", rs.Results[0], chk.H("C", cur), chk.H("T", add)) != nil {
						okS = true
					}
				}
			}
			return true
		})
		if !(ok && okS) {
			// the library form: i, found := slices.BinarySearchFunc(current, toAdd.Prefix, cmp) with cmp ordering an
			// element's Prefix against the target; merged only when found
			bs := "slices.BinarySearchFunc(C, T.Prefix, FN)"
			idx2 := definedByIdx(g, af, bs, 0, chk.H("C", cur), chk.H("T", add))
			found := definedByIdx(g, af, bs, 1, chk.H("C", cur), chk.H("T", add))
			ok2 := false
			for _, s := range g.FindPat("mergeAdvertisements(C[I], T)", chk.H("C", cur), chk.H("T", add), chk.H("I", idx2)) {
				ok2 = g.Dominated(s, chk.GOr(chk.GBool(true, found), g.GPat(true, "C[I].Prefix == T.Prefix", chk.H("C", cur), chk.H("T", add), chk.H("I", idx2))))
			}
			okS2 := false
			for _, c := range g.FindPat(bs, chk.H("C", cur), chk.H("T", add)) {
				lit, isLit := ast.Unparen(c.Node.(*ast.CallExpr).Args[2]).(*ast.FuncLit)
				if !isLit || len(lit.Body.List) != 1 {
					continue
				}
				lf := af.LitFn(lit)
				if rs, isRet := lit.Body.List[0].(*ast.ReturnStmt); isRet && len(rs.Results) == 1 {
					for _, pat := range []string{"strings.Compare(A.Prefix, P)", "cmp.Compare(A.Prefix, P)"} {
						if lf.MatchWith(pat, rs.Results[0], chk.H("A", isParamIdx(lf, 0)), chk.H("P", isParamIdx(lf, 1))) != nil {
							okS2 = true
						}
					}
				}
			}
			if ok2 && okS2 {
				ok, okS = true, true
			}
		}
		x.Check("addToAdvertisements:merge-only-equal-prefix", af.Pos(), ok && okS, "", "an advertisement can be merged into an entry for a different prefix, or the insert position is not the sorted one")
		c14InsertIdiom(x, af, g, cur, add)
	}
}

// c14InsertIdiom: the insertion in the middle keeps every element. It is decided by idiom - one of
//
//	res := make([]T, len(cur)+1); copy(res[:i], cur[:i]); copy(res[i+1:], cur[i:]); res[i] = x; return res
//	cur = append(cur, nil); copy(cur[i+1:], cur[i:]); cur[i] = x; return cur        (copy handles the overlap)
//	return slices.Insert(cur, i, x)
//	return append(cur[:i], append([]T{x}, cur[i:]...)...)
//
// with nothing else writing the lists; a hand-written shifting loop is not decided (and reported): an off-by-one or a
// forward shift loses or duplicates advertisements without any test noticing for fewer than three prefixes.
func c14InsertIdiom(x *chk.R, f *chk.Fn, g *chk.Graph, cur, add func(ast.Expr) bool) {
	loops := 0
	chk.InspectNoLit(f.Body, func(n ast.Node) bool {
		switch n.(type) {
		case *ast.ForStmt, *ast.RangeStmt:
			loops++
		}
		return true
	})
	C, T := chk.H("C", cur), chk.H("T", add)
	one := func(pat string, hs ...chk.HoleCheck) bool { return len(g.FindPat(pat, hs...)) == 1 }
	stores := func(target func(ast.Expr) bool) int {
		return len(g.Find(func(n ast.Node) bool {
			as, ok := n.(*ast.AssignStmt)
			if !ok {
				return false
			}
			for _, l := range as.Lhs {
				if ix, isIx := ast.Unparen(l).(*ast.IndexExpr); isIx && target(ix.X) {
					return true
				}
			}
			return false
		}))
	}
	ok := false
	switch {
	case one("slices.Insert(C, I, T)", C, T):
		ok = true
	case one("append(C[:I], append(L, C[I:]...)...)", C):
		ok = true
	default:
		// a fresh list of len+1 filled by two copies and one store
		res := definedBy(g, "make(TY, len(C)+1)", C)
		R := chk.H("R", res)
		if one("copy(R[:I], C[:I])", R, C) && one("copy(R[I+1:], C[I:])", R, C) && len(g.Find(f.IsAssignPat("R[I]", "T", R, T))) == 1 && stores(res) == 1 {
			ok = true
		}
		// in place: grow by one, shift the tail with copy, store
		if !ok && len(g.Find(f.IsAssignPat("C", "append(C, nil)", C))) == 1 && one("copy(C[I+1:], C[I:])", C) && len(g.Find(f.IsAssignPat("C[I]", "T", C, T))) == 1 {
			grow := g.Find(f.IsAssignPat("C", "append(C, nil)", C))[0]
			shift := g.FindPat("copy(C[I+1:], C[I:])", C)[0]
			store := g.Find(f.IsAssignPat("C[I]", "T", C, T))[0]
			ok = grow.Pos() < shift.Pos() && shift.Pos() < store.Pos()
		}
	}
	x.Check("addToAdvertisements:insert-keeps-every-element", f.Pos(), ok && loops == 0, "", "the insertion at the sorted position is not one of the reviewed idioms (two copies into a list one longer, grow + copy + store, slices.Insert, append of the two halves): a hand-written shift is not decided here - a wrong direction or bound loses or duplicates advertisements")
}

// c14Keys: routers and neighbours are grouped by the strings RouterName / NeighborName build; two sessions that differ in
// one of the identifying parameters must get different keys, so every parameter has to reach the result.
func c14Keys(p *chk.Prog, r *chk.Report) {
	x := r.Rule("KEY-COMPLETE", "A dataflow", "frr.NeighborName's result depends on every one of its parameters (peer address, interface - the only identity of an unnumbered peer -, ASN, dynamic ASN, VRF) and frr.RouterName's on source address, ASN and VRF: a parameter that does not reach the key merges distinct neighbours / routers into one configuration block, chosen by map order", 8)
	for _, name := range []string{"NeighborName", "RouterName"} {
		f := need(x, p, frrPkg, "", name)
		if f == nil {
			continue
		}
		reach := paramsInResults(f)
		for i := 0; ; i++ {
			pv := f.Param(i)
			if pv == nil {
				break
			}
			x.Check(name+":uses:"+pv.Name(), f.Pos(), reach[pv], "", "the key built by "+name+" does not depend on its parameter "+pv.Name()+": configurations that differ only there are merged")
		}
	}
}

// c14SetAfterLiteral: the composite literal is assigned to a variable N (`N = &T{..}` / `N := T{..}`), and a later
// statement of the same block, reached before any other statement mentions N, is `N.k = V` or `if C { N.k = V }` with V
// reading the source field.
func c14SetAfterLiteral(f *chk.Fn, lit *ast.CompositeLit, k string, src *types.Var) bool {
	var as *ast.AssignStmt
	for n := ast.Node(lit); n != nil; n = f.Prog.Parent(n) {
		if a, ok := n.(*ast.AssignStmt); ok {
			as = a
			break
		}
		if _, isStmt := n.(ast.Stmt); isStmt {
			break
		}
	}
	if as == nil || len(as.Lhs) != 1 || len(as.Rhs) != 1 {
		return false
	}
	obj := f.ObjOf(as.Lhs[0])
	if obj == nil {
		return false
	}
	var list []ast.Stmt
	switch b := f.Prog.Parent(as).(type) {
	case *ast.BlockStmt:
		list = b.List
	case *ast.CaseClause:
		list = b.Body
	default:
		return false
	}
	after := false
	sets := func(st ast.Stmt) bool {
		a, ok := st.(*ast.AssignStmt)
		if !ok || len(a.Lhs) != 1 || len(a.Rhs) != 1 || a.Tok != token.ASSIGN {
			return false
		}
		se, ok := ast.Unparen(a.Lhs[0]).(*ast.SelectorExpr)
		return ok && se.Sel.Name == k && f.ObjOf(se.X) == obj && f.MentionsField(a.Rhs[0], src)
	}
	fieldStore := func(st ast.Stmt) bool {
		// a store into some field of N (the initialisation still going on), directly or behind a test that does not
		// itself read N
		var a *ast.AssignStmt
		switch y := st.(type) {
		case *ast.AssignStmt:
			a = y
		case *ast.IfStmt:
			if y.Init == nil && y.Else == nil && len(y.Body.List) == 1 && !f.Mentions(y.Cond, obj) {
				a, _ = y.Body.List[0].(*ast.AssignStmt)
			}
		}
		if a == nil || len(a.Lhs) != 1 || len(a.Rhs) != 1 || a.Tok != token.ASSIGN {
			return false
		}
		se, ok := ast.Unparen(a.Lhs[0]).(*ast.SelectorExpr)
		return ok && f.ObjOf(se.X) == obj && !f.Mentions(a.Rhs[0], obj)
	}
	for _, st := range list {
		if st == ast.Stmt(as) {
			after = true
			continue
		}
		if !after {
			continue
		}
		if sets(st) {
			return true
		}
		if ifs, ok := st.(*ast.IfStmt); ok && ifs.Init == nil && ifs.Else == nil && len(ifs.Body.List) == 1 && sets(ifs.Body.List[0]) && !f.Mentions(ifs.Cond, obj) {
			return true
		}
		if fieldStore(st) {
			continue
		}
		if f.Mentions(st, obj) {
			return false // the object is used before the field is set
		}
	}
	return false
}

// sessionKeyRule (C14 for internal/bgp/frr, C15 for internal/bgp/frrk8s): the session table is keyed by sessionName;
// two sessions that differ in what identifies a neighbour must not share a key, or the second silently replaces the
// first in the table the generator ranges over, and closing either removes the other.
func sessionKeyRule(p *chk.Prog, r *chk.Report, pkg string) {
	x := r.Rule("SESSION-KEY", "E sibling (field coverage) + B value flow", "sessionName(s) in "+pkg+" reads every identifying parameter of the session - PeerASN, DynamicASN, PeerAddress, PeerInterface, MyASN, SourceAddress, VRFName - and each of them reaches the returned string (directly, or through a local the format call takes)", 7)
	f := need(x, p, pkg, "", "sessionName")
	if f == nil {
		return
	}
	g := f.Graph()
	// the locals (and expressions) the returned strings are built from, transitively
	feeds := map[types.Object]bool{}
	var exprs []ast.Expr
	for _, rt := range g.Returns() {
		exprs = append(exprs, retResults(rt)...)
	}
	for changed := true; changed; {
		changed = false
		for _, e := range exprs {
			ast.Inspect(e, func(n ast.Node) bool {
				if id, ok := n.(*ast.Ident); ok {
					if v, isVar := f.ObjOf(id).(*types.Var); isVar && !v.IsField() && !feeds[v] {
						feeds[v] = true
						changed = true
						for _, as := range assignsTo(f, v) {
							if a, isAs := as.(*ast.AssignStmt); isAs {
								exprs = append(exprs, a.Rhs...)
							}
						}
					}
				}
				return true
			})
		}
	}
	for _, name := range []string{"PeerASN", "DynamicASN", "PeerAddress", "PeerInterface", "MyASN", "SourceAddress", "VRFName"} {
		fld := p.LookupField("internal/bgp", "SessionParameters", name)
		if fld == nil {
			x.Undecided("anchor:SessionParameters."+name, "UNDECIDED anchor missing: bgp.SessionParameters."+name)
			continue
		}
		reaches := false
		for _, e := range exprs {
			if f.MentionsField(e, fld) {
				reaches = true
			}
		}
		// a field that only decides which value is used (`if s.PeerInterface != "" { peer = s.PeerInterface }`) is
		// mentioned in the assignment it guards as well; one that is only tested still distinguishes the keys when the
		// guarded assignment feeds the result
		if !reaches {
			ast.Inspect(f.Body, func(n ast.Node) bool {
				ifs, ok := n.(*ast.IfStmt)
				if !ok || !f.MentionsField(ifs.Cond, fld) {
					return true
				}
				ast.Inspect(ifs.Body, func(m ast.Node) bool {
					if as, isAs := m.(*ast.AssignStmt); isAs {
						for _, l := range as.Lhs {
							if v := f.ObjOf(l); v != nil && feeds[v] {
								reaches = true
							}
						}
					}
					if _, isRet := m.(*ast.ReturnStmt); isRet {
						reaches = true
					}
					return true
				})
				return true
			})
		}
		x.Check("sessionName:"+name, f.Pos(), reaches, "", "the session key does not depend on "+name+": two sessions that differ only there share one entry of the session table - the second replaces the first, the generator never sees the first again, and closing either removes the other neighbour from the configuration")
	}
}

// routerKeyRule (C14 for createConfig, C15 for updateConfig): sessions are grouped into routers by the triple that
// identifies a router in FRR - router id, local ASN, VRF - the same values the router entry is created with.
func routerKeyRule(p *chk.Prog, r *chk.Report, pkg, fn string) {
	x := r.Rule("ROUTER-KEY", "B value flow", "in "+fn+" the key under which a session's router entry is looked up and stored is RouterName(s.RouterID.String(), s.MyASN, s.VRFName) of that session", 1)
	f := need(x, p, pkg, "sessionManager", fn)
	if f == nil {
		return
	}
	g := f.Graph()
	n := 0
	for _, st := range g.Find(func(nd ast.Node) bool {
		as, ok := nd.(*ast.AssignStmt)
		if !ok || len(as.Lhs) != 1 || as.Tok != token.ASSIGN {
			return false
		}
		ix, ok := ast.Unparen(as.Lhs[0]).(*ast.IndexExpr)
		if !ok {
			return false
		}
		mt, isMap := f.Info().TypeOf(ix.X).Underlying().(*types.Map)
		if !isMap {
			return false
		}
		pt, isPtr := mt.Elem().Underlying().(*types.Pointer)
		if !isPtr {
			return false
		}
		nt, isNamed := pt.Elem().(*types.Named)
		return isNamed && nt.Obj().Name() == "router"
	}) {
		rs, _ := f.LoopOf(st.Node).(*ast.RangeStmt)
		if rs == nil {
			continue
		}
		n++
		sess := rangeVal(f, rs)
		key := ast.Unparen(st.Node.(*ast.AssignStmt).Lhs[0]).(*ast.IndexExpr).Index
		okKey := false
		for _, pat := range []string{"RouterName(S.RouterID.String(), S.MyASN, S.VRFName)", "frr.RouterName(S.RouterID.String(), S.MyASN, S.VRFName)"} {
			if definedBy(g, pat, chk.H("S", sess))(key) {
				okKey = true
			}
		}
		x.Check(fn+":router-keyed-by-id-asn-vrf", st.Pos(), okKey, "", "the router entries are not keyed by the session's router id, local ASN and VRF: sessions of one router are split into several router blocks (each with part of the neighbours and prefixes), or sessions of different routers are merged into one whose id depends on map order")
	}
	x.Check(fn+":router-store", f.Pos(), n >= 1, "", "no store into the router table inside the session loop")
}
