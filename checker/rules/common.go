package rules

import (
	"fmt"
	"go/ast"
	"go/token"
	"go/types"
	"os"
	"sort"
	"strings"

	"verif/mlbcheck/chk"
)

// need resolves a function anchor, recording an UNDECIDED obligation when it is
// missing.
func need(x *chk.R, p *chk.Prog, pkg, recv, name string) *chk.Fn {
	f := p.LookupFunc(pkg, recv, name)
	what := pkg + "." + name
	if recv != "" {
		what = pkg + ".(" + recv + ")." + name
	}
	if !x.Need(f, what) {
		return nil
	}
	return f
}

// ownRule: field `typ.field` of package pkg is written only by the allowed
// functions (short names). Escapes of the whole value (passing the map/slice
// itself to another function, storing it elsewhere, taking its address) count
// as writes by the escaping function.
func ownRule(x *chk.R, p *chk.Prog, pkg, typ, field string, allowed ...string) {
	fld := p.LookupField(pkg, typ, field)
	if fld == nil {
		x.Undecided("anchor:"+typ+"."+field, "UNDECIDED anchor missing: field "+pkg+"."+typ+"."+field)
		return
	}
	ok := map[string]bool{}
	for _, a := range allowed {
		ok[a] = true
	}
	seen := map[string]bool{}
	for _, a := range p.FieldAccesses(fld) {
		if !a.IsWrite() && a.Kind != "escape" {
			continue
		}
		fn := "<package initialiser>"
		if a.Fn != nil {
			fn = a.Fn.Name()
		}
		key := typ + "." + field + "@" + fn
		if seen[key+a.Kind] {
			continue
		}
		seen[key+a.Kind] = true
		x.Check(key+"#"+a.Kind, a.Sel.Pos(), ok[fn], "write by an owner", fmt.Sprintf("%s is written (%s) by %s, which is not one of its owners %v", typ+"."+field, a.Kind, fn, allowed))
	}
}

// callersRule: the named function is called (or taken as a value) only from the
// allowed functions.
func callersRule(x *chk.R, p *chk.Prog, callee string, allowed ...string) {
	ok := map[string]bool{}
	for _, a := range allowed {
		ok[a] = true
	}
	sites := append(p.CallSites(callee), p.FuncValueUses(callee)...)
	for _, cs := range sites {
		x.Check(callee+"@"+cs.Fn.Name(), cs.Call.Pos(), ok[cs.Fn.Name()], "call from an allowed caller",
			fmt.Sprintf("%s is called from %s; allowed callers are %v", callee, cs.Fn.Name(), allowed))
	}
}

// isParamOf returns a predicate: the expression is the named parameter (or the
// receiver) of f.
func isParam(f *chk.Fn, name string) func(ast.Expr) bool {
	v := f.ParamNamed(name)
	if v == nil {
		if r := f.Recv(); r != nil && r.Name() == name {
			v = r
		}
	}
	if rec := os.Getenv("MLB_RECORD_PARAMS"); rec != "" && v != nil {
		for i := 0; ; i++ {
			pv := f.Param(i)
			if pv == nil && i > 12 {
				break
			}
			if pv == v {
				if fh, err := os.OpenFile(rec, os.O_APPEND|os.O_CREATE|os.O_WRONLY, 0o644); err == nil {
					fmt.Fprintf(fh, "%s\t%s\t%d\n", f.Name(), name, i)
					fh.Close()
				}
				break
			}
		}
	}
	if v == nil {
		// the parameter was renamed: its position on the confirmed tree (frozen table, tools/gen_params.sh)
		if idx, ok := paramIndex[f.Name()+"#"+name]; ok {
			v = f.Param(idx)
		}
	}
	return func(e ast.Expr) bool { return v != nil && f.Denotes(e, v) }
}

// isParamIdx returns a predicate: the expression is the i-th parameter of f.
func isParamIdx(f *chk.Fn, i int) func(ast.Expr) bool {
	v := f.Param(i)
	return func(e ast.Expr) bool { return v != nil && f.Denotes(e, v) }
}

// isRecv: the expression is the receiver of f.
func isRecv(f *chk.Fn) func(ast.Expr) bool {
	v := f.Recv()
	return func(e ast.Expr) bool { return v != nil && f.Denotes(e, v) }
}

// constStr: e is a string constant with one of the given values.
func constStr(f *chk.Fn, vals ...string) func(ast.Expr) bool {
	return func(e ast.Expr) bool {
		for _, v := range vals {
			if f.IsConstString(e, v) {
				return true
			}
		}
		return false
	}
}

// isObjNamed: e resolves to the object with the given module-relative name
// (constants, variables, functions), e.g. "internal/k8s/controllers.SyncStateError".
func isObjNamed(f *chk.Fn, names ...string) func(ast.Expr) bool {
	return func(e ast.Expr) bool {
		o := f.ObjOf(e)
		if o == nil {
			return false
		}
		n := chk.ObjName(o)
		for _, w := range names {
			if n == w {
				return true
			}
		}
		return false
	}
}

// definedBy: e is a local variable whose reaching definition (same block, or
// the unique definition in the function) matches the pattern.
func definedBy(g *chk.Graph, pat string, checks ...chk.HoleCheck) func(ast.Expr) bool {
	return func(e ast.Expr) bool {
		id, ok := ast.Unparen(e).(*ast.Ident)
		if !ok {
			// the value written in place instead of through a local
			return g.Fn.MatchWith(pat, ast.Unparen(e), checks...) != nil
		}
		rhs, _ := g.DefOf(id, g.FactSite(id))
		if rhs != nil && g.Fn.MatchWith(pat, rhs, checks...) != nil {
			return true
		}
		// through a chain of temporaries
		if r := g.Fn.Resolve(id); r != ast.Expr(id) {
			return g.Fn.MatchWith(pat, r, checks...) != nil
		}
		return false
	}
}

// rangeVar returns predicates for the key and value variables of a range stmt.
// The element of the current iteration is the value variable, or X[k] / &X[k]
// (directly or through a local) where X is the ranged expression and k the key
// variable: `for _, v := range X` and `for i := range X { v := &X[i]` agree.
func rangeVal(f *chk.Fn, rs *ast.RangeStmt) func(ast.Expr) bool {
	var o, k types.Object
	if id, ok := rs.Value.(*ast.Ident); ok {
		o = f.ObjOf(id)
	}
	if id, ok := rs.Key.(*ast.Ident); ok && id.Name != "_" {
		k = f.ObjOf(id)
	}
	_, isMap := f.Info().TypeOf(rs.X).Underlying().(*types.Map)
	return func(e ast.Expr) bool {
		if o != nil && f.Denotes(e, o) {
			return true
		}
		if k == nil {
			return false
		}
		r := f.Resolve(e)
		for i := 0; i < 3; i++ {
			switch x := ast.Unparen(r).(type) {
			case *ast.UnaryExpr:
				if x.Op == token.AND {
					r = f.Resolve(x.X)
					continue
				}
			case *ast.StarExpr:
				r = f.Resolve(x.X)
				continue
			}
			break
		}
		ix, ok := ast.Unparen(r).(*ast.IndexExpr)
		if !ok || !f.Denotes(ix.Index, k) {
			return false
		}
		_ = isMap
		return f.SameExpr(ix.X, rs.X)
	}
}

func rangeKey(f *chk.Fn, rs *ast.RangeStmt) func(ast.Expr) bool {
	var o types.Object
	if id, ok := rs.Key.(*ast.Ident); ok {
		o = f.ObjOf(id)
	}
	return func(e ast.Expr) bool { return o != nil && f.Denotes(e, o) }
}

// returnsOf lists the return statements of a function.
func returnsOf(g *chk.Graph) []chk.Site { return g.Returns() }

func retResults(s chk.Site) []ast.Expr { return s.Node.(*ast.ReturnStmt).Results }

// posOf gives a position for a witness, falling back to the function.
func posOf(w chk.Witness, f *chk.Fn) token.Pos {
	if p := w.Pos(); p.IsValid() {
		return p
	}
	return f.Pos()
}

func describe(f *chk.Fn, w chk.Witness) string {
	if !w.Found {
		return ""
	}
	switch w.Kind {
	case chk.ExitReturn:
		return "reaches the return at " + f.Prog.Rel(posOf(w, f))
	case chk.ExitFall:
		return "reaches the end of the function"
	}
	return "reaches " + f.Prog.Rel(posOf(w, f))
}

// noAssignTo reports the assignments to the object of variable v in f's body.
func assignsTo(f *chk.Fn, o types.Object) []ast.Node {
	var out []ast.Node
	ast.Inspect(f.Body, func(n ast.Node) bool {
		switch s := n.(type) {
		case *ast.AssignStmt:
			for _, l := range s.Lhs {
				if id, ok := l.(*ast.Ident); ok && f.ObjOf(id) == o && o != nil {
					out = append(out, s)
				}
			}
		case *ast.IncDecStmt:
			if id, ok := s.X.(*ast.Ident); ok && f.ObjOf(id) == o && o != nil {
				out = append(out, s)
			}
		}
		return true
	})
	return out
}

func sortedKeys(m map[string]bool) []string {
	var out []string
	for k := range m {
		out = append(out, k)
	}
	sort.Strings(out)
	return out
}

func join(ss []string) string { return strings.Join(ss, ", ") }

// allFoundShape decides the shape of a "for every x in A there is an equal y in
// B" function over two slice parameters: an outer loop over parameter a, a
// per-iteration boolean flag initialised to false, an inner loop over parameter
// b that sets the flag only behind X.Equal(Y) of the two loop variables, after
// the inner loop `if !flag { return onMissing }` on every such path, no break
// out of the outer loop, and `return !onMissing` only after the outer loop ran
// to exhaustion. It returns "" when the shape holds, else a reason.
func allFoundShape(f *chk.Fn, a, b int, onMissing bool) string {
	g := f.Graph()
	outer := f.RangeLoops(isParamIdx(f, a))
	inner := f.RangeLoops(isParamIdx(f, b))
	if len(outer) != 1 || len(inner) != 1 || !chk.InBody(outer[0], inner[0]) {
		return "no nested loops over the two address lists"
	}
	pv, cv := rangeVal(f, outer[0]), rangeVal(f, inner[0])
	var flag types.Object
	for _, s := range g.Find(f.IsAssignPat("H", "true")) {
		if g.Dominated(s, g.GPat(true, "P.Equal(C)", chk.H("P", pv), chk.H("C", cv))) || g.Dominated(s, g.GPat(true, "C.Equal(P)", chk.H("P", pv), chk.H("C", cv))) {
			flag = f.ObjOf(s.Node.(*ast.AssignStmt).Lhs[0])
		} else {
			return "the found-flag is set without an Equal test of the two loop variables"
		}
	}
	if flag == nil {
		return "no found-flag set behind X.Equal(Y)"
	}
	decl := g.Find(func(n ast.Node) bool {
		as, ok := n.(*ast.AssignStmt)
		return ok && as.Tok.String() == ":=" && len(as.Lhs) == 1 && f.ObjOf(as.Lhs[0]) == flag && f.IsConstBool(as.Rhs[0], false) && chk.InBody(outer[0], n) && !chk.InBody(inner[0], n)
	})
	if len(decl) != 1 {
		return "the found-flag is not reset to false for every element of the outer list"
	}
	es := g.EdgesImplying(chk.GBool(false, f.IsObj(flag)))
	if len(es) == 0 {
		return "the found-flag is never tested"
	}
	isRet := func(val bool) func(ast.Node) bool {
		return func(n ast.Node) bool {
			rs, ok := n.(*ast.ReturnStmt)
			return ok && len(rs.Results) == 1 && f.IsConstBool(rs.Results[0], val)
		}
	}
	for _, e := range es {
		if g.BranchAlways(e, isRet(onMissing)).Found {
			return "an element without a match does not lead to the `missing` result"
		}
	}
	// every outer iteration reaches the flag test after the inner loop
	loopB, bodyB, doneB := g.RangeBlocks(outer[0])
	for _, bl := range g.Blocks {
		for _, s := range bl.Succs {
			if s == doneB && bl != loopB {
				return "the outer loop can be left early"
			}
		}
	}
	testBlocks := map[*cfgBlock]bool{}
	for _, e := range es {
		testBlocks[e.B] = true
	}
	seen := map[*cfgBlock]bool{}
	var skips func(bl *cfgBlock) bool
	skips = func(bl *cfgBlock) bool {
		if testBlocks[bl] {
			return false
		}
		for _, s := range bl.Succs {
			if s == loopB {
				return true
			}
			if !seen[s] {
				seen[s] = true
				if skips(s) {
					return true
				}
			}
		}
		return false
	}
	if bodyB != nil && skips(bodyB) {
		return "an outer iteration can complete without testing the found-flag"
	}
	for _, rt := range g.Returns() {
		res := retResults(rt)
		if len(res) != 1 {
			return "unexpected return arity"
		}
		switch {
		case f.IsConstBool(res[0], onMissing):
			// inside the outer loop behind !flag, or a pre-check before the loops
			if chk.InBody(outer[0], rt.Node) && !g.Dominated(rt, chk.GBool(false, f.IsObj(flag))) {
				return "the `missing` result is returned for an element that was found"
			}
		case f.IsConstBool(res[0], !onMissing):
			if !g.AfterLoop(rt, outer[0]) {
				return "the `all found` result is returned before every element was examined"
			}
		default:
			return "a return that is not a boolean constant"
		}
	}
	return ""
}

// forallBefore decides that `site` is reached only if the guard phi held for
// every element of the range loop rs. Three idioms are recognised:
//
//	exit:    an iteration can only continue with phi established, the loop has no
//	         break, and the site lies behind the exhaustion of the loop;
//	flag:    a boolean F is true whenever the loop starts, is never set to true in
//	         the body, every iteration that ends (continue or break) without phi
//	         has set F = false, and the site needs F;
//	counter: an integer C is reset to 0 before the loop, incremented at most once
//	         per iteration and only with phi established, and the site needs
//	         C == len(X) for the ranged X.
//
// It returns "" when one idiom is established, else the reasons.
func forallBefore(f *chk.Fn, g *chk.Graph, rs *ast.RangeStmt, phi chk.Guard, site chk.Site) string {
	var why []string
	// exit idiom
	ends := g.LoopIteration(rs, phi)
	exitOK := len(ends) > 0
	for _, e := range ends {
		if e.Break {
			exitOK = false
			why = append(why, "exit idiom: the loop can be left early at "+f.Prog.Rel(endPos(e, rs)))
		} else if !e.OK {
			exitOK = false
			why = append(why, "exit idiom: an iteration can continue without the check (through "+f.Prog.Rel(endPos(e, rs))+")")
		}
	}
	if exitOK {
		if g.AfterLoop(site, rs) {
			return ""
		}
		why = append(why, "exit idiom: the result does not lie behind the exhaustion of the loop")
	}
	// flag idiom: a boolean that is cleared (F = false), or an error / pointer that is set (F = non-nil), when the check fails
	type flagKind struct{ cleared, required chk.Guard }
	// candidates: 0 boolean marked with false, 1 boolean marked with true, 2 nil-able marked with a non-nil value
	flags := map[types.Object]int{}
	conflict := map[types.Object]bool{}
	note := func(o types.Object, k int) {
		if old, ok := flags[o]; ok && old != k {
			conflict[o] = true
		}
		flags[o] = k
	}
	ast.Inspect(rs.Body, func(n ast.Node) bool {
		if as, ok := n.(*ast.AssignStmt); ok && len(as.Lhs) == len(as.Rhs) && as.Tok == token.ASSIGN {
			for i, l := range as.Lhs {
				if id, ok := l.(*ast.Ident); ok {
					if o := f.ObjOf(id); o != nil {
						switch {
						case f.IsConstBool(as.Rhs[i], false):
							note(o, 0)
						case f.IsConstBool(as.Rhs[i], true):
							note(o, 1)
						case f.KnownNonNil(as.Rhs[i]):
							note(o, 2)
						case monotone(f, o, as.Rhs[i]) == token.LOR:
							note(o, 1) // F = F || x: can only become true
						case monotone(f, o, as.Rhs[i]) == token.LAND:
							note(o, 0) // F = F && x: can only become false
						}
					}
				}
			}
		}
		return true
	})
	for fl, k := range flags {
		if conflict[fl] {
			continue
		}
		isF := f.IsObj(fl)
		var kind flagKind
		switch k {
		case 0:
			kind = flagKind{cleared: chk.GBool(false, isF), required: chk.GBool(true, isF)}
		case 1:
			kind = flagKind{cleared: chk.GBool(true, isF), required: chk.GBool(false, isF)}
		default:
			kind = flagKind{cleared: g.GExprNil(false, isF), required: g.GExprNil(true, isF)}
		}
		setBack := false
		ast.Inspect(rs.Body, func(n ast.Node) bool {
			if as, ok := n.(*ast.AssignStmt); ok {
				for i, l := range as.Lhs {
					if !isF(l) {
						continue
					}
					marking := i < len(as.Rhs) && len(as.Lhs) == len(as.Rhs) &&
						((k == 0 && (f.IsConstBool(as.Rhs[i], false) || monotone(f, fl, as.Rhs[i]) == token.LAND)) ||
							(k == 1 && (f.IsConstBool(as.Rhs[i], true) || monotone(f, fl, as.Rhs[i]) == token.LOR)) ||
							(k == 2 && f.KnownNonNil(as.Rhs[i])))
					if !marking {
						setBack = true
					}
				}
			}
			return true
		})
		if setBack {
			why = append(why, "flag idiom: "+fl.Name()+" can be set back inside the loop")
			continue
		}
		if !g.LoopEntryDominated(rs, kind.required) {
			why = append(why, "flag idiom: "+fl.Name()+" is not known to be in its initial state when the loop starts")
			continue
		}
		ok := true
		for _, e := range g.LoopIteration(rs, chk.GOr(phi, kind.cleared)) {
			if !e.OK {
				ok = false
				why = append(why, "flag idiom: an iteration can end without the check and without marking "+fl.Name()+" (through "+f.Prog.Rel(endPos(e, rs))+")")
			}
		}
		if !ok {
			continue
		}
		if !g.Dominated(site, kind.required) {
			why = append(why, "flag idiom: the result does not require "+fl.Name()+" to be unmarked")
			continue
		}
		return ""
	}
	// counter idiom
	for _, inc := range g.Find(func(n ast.Node) bool {
		s, ok := n.(*ast.IncDecStmt)
		return ok && s.Tok == token.INC && chk.InBody(rs, n)
	}) {
		id, ok := inc.Node.(*ast.IncDecStmt).X.(*ast.Ident)
		if !ok {
			continue
		}
		cnt := f.ObjOf(id)
		if cnt == nil {
			continue
		}
		if !g.Dominated(inc, phi) {
			why = append(why, "counter idiom: "+id.Name+" can be incremented without the check")
			continue
		}
		// at most once per iteration: the increment cannot be reached again within the iteration
		region := map[*cfgBlock]bool{}
		loop, _, done := g.RangeBlocks(rs)
		work := append([]*cfgBlock{}, inc.B.Succs...)
		again := false
		for len(work) > 0 {
			b := work[len(work)-1]
			work = work[:len(work)-1]
			if b == loop || b == done || region[b] {
				continue
			}
			region[b] = true
			if b == inc.B {
				again = true
			}
			work = append(work, b.Succs...)
		}
		if again {
			why = append(why, "counter idiom: "+id.Name+" can be incremented more than once for one element")
			continue
		}
		// reset before the loop, in the same enclosing loop body / function
		reset := false
		others := 0
		ast.Inspect(f.Body, func(n ast.Node) bool {
			switch s := n.(type) {
			case *ast.AssignStmt:
				for i, l := range s.Lhs {
					if f.ObjOf(l) != cnt {
						continue
					}
					if len(s.Lhs) == len(s.Rhs) && f.IsConstInt(s.Rhs[i], 0) && s.End() <= rs.Pos() && f.LoopOf(s) == f.LoopOf(rs) {
						reset = true
					} else {
						others++
					}
				}
			case *ast.ValueSpec:
				for _, nm := range s.Names {
					if f.Info().Defs[nm] == cnt && len(s.Values) == 0 && s.End() <= rs.Pos() && f.LoopOf(s) == f.LoopOf(rs) {
						reset = true
					}
				}
			case *ast.IncDecStmt:
				if f.ObjOf(s.X) == cnt && n != inc.Node {
					others++
				}
			}
			return true
		})
		if !reset || others > 0 {
			why = append(why, "counter idiom: "+id.Name+" is not reset to 0 right before the loop, or is modified elsewhere")
			continue
		}
		same := func(e ast.Expr) bool { return f.SameExpr(e, rs.X) }
		if !g.Dominated(site, g.GPat(true, "C == len(X)", chk.H("C", f.IsObj(cnt)), chk.H("X", same))) {
			why = append(why, "counter idiom: the result does not require "+id.Name+" == len of the ranged list")
			continue
		}
		return ""
	}
	if len(why) == 0 {
		return "no for-all idiom (early exit, flag, counter) found"
	}
	return strings.Join(why, "; ")
}

func endPos(e chk.IterationEnd, rs *ast.RangeStmt) token.Pos {
	if e.From != nil && len(e.From.Nodes) > 0 {
		return e.From.Nodes[len(e.From.Nodes)-1].Pos()
	}
	return rs.Pos()
}

// flagTrueOnlyIf decides that the boolean local v can be true only when `just`
// was established: every assignment gives it false, or true behind `just`, or an
// expression that is true only with `just`. It returns the first unjustified site.
func flagTrueOnlyIf(f *chk.Fn, g *chk.Graph, v types.Object, just chk.Guard) (bool, token.Pos) {
	ok, bad := true, token.NoPos
	n := 0
	for _, s := range g.Find(func(nd ast.Node) bool {
		switch st := nd.(type) {
		case *ast.AssignStmt:
			for _, l := range st.Lhs {
				if id, isId := l.(*ast.Ident); isId && f.ObjOf(id) == v {
					return true
				}
			}
		case *ast.ValueSpec:
			for _, nm := range st.Names {
				if f.Info().Defs[nm] == v {
					return true
				}
			}
		}
		return false
	}) {
		var rhs ast.Expr
		switch st := s.Node.(type) {
		case *ast.AssignStmt:
			for i, l := range st.Lhs {
				if id, isId := l.(*ast.Ident); isId && f.ObjOf(id) == v && len(st.Lhs) == len(st.Rhs) {
					rhs = st.Rhs[i]
				}
			}
			if rhs == nil {
				ok, bad = false, st.Pos() // tuple assignment: unknown value
				continue
			}
		case *ast.ValueSpec:
			for i, nm := range st.Names {
				if f.Info().Defs[nm] == v && i < len(st.Values) {
					rhs = st.Values[i]
				}
			}
			if rhs == nil {
				n++
				continue // zero value: false
			}
		}
		n++
		switch {
		case f.IsConstBool(rhs, false):
		case f.IsConstBool(rhs, true):
			if !g.Dominated(s, just) {
				ok, bad = false, s.Pos()
			}
		default:
			if !g.DominatedAssuming(s, rhs, true, just) {
				ok, bad = false, s.Pos()
			}
		}
	}
	if n == 0 {
		return false, f.Pos()
	}
	return ok, bad
}

// boolLocalsRequiredAt lists the boolean locals that are known to be true at the site.
func boolLocalsRequiredAt(f *chk.Fn, g *chk.Graph, s chk.Site) []types.Object {
	var out []types.Object
	seen := map[types.Object]bool{}
	ast.Inspect(f.Body, func(n ast.Node) bool {
		id, ok := n.(*ast.Ident)
		if !ok {
			return true
		}
		v, ok := f.ObjOf(id).(*types.Var)
		if !ok || seen[v] || v.IsField() || v.Pkg() == nil || v.Parent() == v.Pkg().Scope() {
			return true
		}
		if b, isB := v.Type().Underlying().(*types.Basic); !isB || b.Info()&types.IsBoolean == 0 {
			return true
		}
		seen[v] = true
		if g.Dominated(s, chk.GBool(true, f.IsObj(v))) {
			out = append(out, v)
		}
		return true
	})
	return out
}

type posNode token.Pos

func (p posNode) Pos() token.Pos { return token.Pos(p) }
func (p posNode) End() token.Pos { return token.Pos(p) }

// elementOf returns a predicate: the expression is an element of a collection
// satisfying coll - the value variable of a range over it, or an index into it
// (both through temporaries: `l := a.m[k]; for i := range l { l[i] }`).
func elementOf(f *chk.Fn, coll func(ast.Expr) bool) func(ast.Expr) bool {
	isColl := func(e ast.Expr) bool {
		return coll(e) || (f.Resolve(e) != e && coll(f.Resolve(e)))
	}
	return func(e ast.Expr) bool {
		for _, rs := range f.RangeLoops(coll) {
			if rangeVal(f, rs)(e) {
				return true
			}
		}
		r := f.Resolve(e)
		for i := 0; i < 3; i++ {
			switch x := ast.Unparen(r).(type) {
			case *ast.UnaryExpr:
				if x.Op == token.AND {
					r = f.Resolve(x.X)
					continue
				}
			case *ast.StarExpr:
				r = f.Resolve(x.X)
				continue
			}
			break
		}
		if ix, ok := ast.Unparen(r).(*ast.IndexExpr); ok {
			return isColl(ix.X)
		}
		return false
	}
}

// isParamNamedOrIdx: the parameter by name, or (when it was renamed) by position.
func isParamNamedOrIdx(f *chk.Fn, name string, idx int) func(ast.Expr) bool {
	if f.ParamNamed(name) != nil {
		return isParam(f, name)
	}
	return isParamIdx(f, idx)
}

// flowSources returns the local variables whose value is copied (plain
// `a = b`, `a, x = b, y`, `a := b`) into obj, directly or through other locals:
// a list that is built in one variable and then handed over under another name.
func flowSources(f *chk.Fn, obj types.Object) map[types.Object]bool {
	edges := map[types.Object][]types.Object{} // dst -> srcs
	add := func(l, r ast.Expr) {
		li, ok1 := ast.Unparen(l).(*ast.Ident)
		ri, ok2 := ast.Unparen(r).(*ast.Ident)
		if !ok1 || !ok2 {
			return
		}
		lo, ro := f.ObjOf(li), f.ObjOf(ri)
		if lo == nil || ro == nil || lo == ro {
			return
		}
		if _, isVar := ro.(*types.Var); !isVar {
			return
		}
		edges[lo] = append(edges[lo], ro)
	}
	ast.Inspect(f.Body, func(n ast.Node) bool {
		switch s := n.(type) {
		case *ast.AssignStmt:
			if len(s.Lhs) == len(s.Rhs) {
				for i := range s.Lhs {
					add(s.Lhs[i], s.Rhs[i])
				}
			}
		case *ast.ValueSpec:
			if len(s.Names) == len(s.Values) {
				for i := range s.Names {
					add(s.Names[i], s.Values[i])
				}
			}
		}
		return true
	})
	out := map[types.Object]bool{}
	work := []types.Object{obj}
	for len(work) > 0 {
		o := work[len(work)-1]
		work = work[:len(work)-1]
		for _, s := range edges[o] {
			if !out[s] && s != obj {
				out[s] = true
				work = append(work, s)
			}
		}
	}
	return out
}

// isObjOrSource: the expression is obj or a variable whose value is copied into obj.
func isObjOrSource(f *chk.Fn, obj types.Object) func(ast.Expr) bool {
	src := flowSources(f, obj)
	return func(e ast.Expr) bool {
		if f.Denotes(e, obj) {
			return true
		}
		o := f.ObjOf(e)
		return o != nil && src[o]
	}
}

// monotone: rhs is `F || x` / `x || F` (returns LOR) or `F && x` / `x && F` (returns LAND) for the variable F.
func monotone(f *chk.Fn, fl types.Object, rhs ast.Expr) token.Token {
	be, ok := ast.Unparen(rhs).(*ast.BinaryExpr)
	if !ok || (be.Op != token.LOR && be.Op != token.LAND) {
		return token.ILLEGAL
	}
	if f.ObjOf(be.X) == fl || f.ObjOf(be.Y) == fl {
		return be.Op
	}
	return token.ILLEGAL
}
