package rules

import (
	"fmt"
	"go/ast"
	"go/token"
	"go/types"
	"os"
	"sort"
	"strings"

	"verif/mlbcheck/chk"
)

// need resolves a function anchor, recording an UNDECIDED obligation when it is
// missing.
func need(x *chk.R, p *chk.Prog, pkg, recv, name string) *chk.Fn {
	f := p.LookupFunc(pkg, recv, name)
	what := pkg + "." + name
	if recv != "" {
		what = pkg + ".(" + recv + ")." + name
	}
	if !x.Need(f, what) {
		return nil
	}
	return f
}

// ownRule: field `typ.field` of package pkg is written only by the allowed
// functions (short names). Escapes of the whole value (passing the map/slice
// itself to another function, storing it elsewhere, taking its address) count
// as writes by the escaping function.
func ownRule(x *chk.R, p *chk.Prog, pkg, typ, field string, allowed ...string) {
	fld := p.LookupField(pkg, typ, field)
	if fld == nil {
		x.Undecided("anchor:"+typ+"."+field, "UNDECIDED anchor missing: field "+pkg+"."+typ+"."+field)
		return
	}
	ok := map[string]bool{}
	for _, a := range allowed {
		ok[a] = true
	}
	seen := map[string]bool{}
	for _, a := range p.FieldAccesses(fld) {
		if !a.IsWrite() && a.Kind != "escape" {
			continue
		}
		fn := "<package initialiser>"
		if a.Fn != nil {
			fn = a.Fn.Name()
		}
		key := typ + "." + field + "@" + fn
		if seen[key+a.Kind] {
			continue
		}
		seen[key+a.Kind] = true
		x.Check(key+"#"+a.Kind, a.Sel.Pos(), ok[fn], "write by an owner", fmt.Sprintf("%s is written (%s) by %s, which is not one of its owners %v", typ+"."+field, a.Kind, fn, allowed))
	}
}

// callersRule: the named function is called (or taken as a value) only from the
// allowed functions.
func callersRule(x *chk.R, p *chk.Prog, callee string, allowed ...string) {
	ok := map[string]bool{}
	for _, a := range allowed {
		ok[a] = true
	}
	sites := append(p.CallSites(callee), p.FuncValueUses(callee)...)
	for _, cs := range sites {
		x.Check(callee+"@"+cs.Fn.Name(), cs.Call.Pos(), ok[cs.Fn.Name()], "call from an allowed caller",
			fmt.Sprintf("%s is called from %s; allowed callers are %v", callee, cs.Fn.Name(), allowed))
	}
}

// isParamOf returns a predicate: the expression is the named parameter (or the
// receiver) of f.
func isParam(f *chk.Fn, name string) func(ast.Expr) bool {
	v := f.ParamNamed(name)
	if v == nil {
		if r := f.Recv(); r != nil && r.Name() == name {
			v = r
		}
	}
	if rec := os.Getenv("MLB_RECORD_PARAMS"); rec != "" && v != nil {
		for i := 0; ; i++ {
			pv := f.Param(i)
			if pv == nil && i > 12 {
				break
			}
			if pv == v {
				if fh, err := os.OpenFile(rec, os.O_APPEND|os.O_CREATE|os.O_WRONLY, 0o644); err == nil {
					fmt.Fprintf(fh, "%s\t%s\t%d\n", f.Name(), name, i)
					fh.Close()
				}
				break
			}
		}
	}
	if v == nil {
		// the parameter was renamed: its position on the confirmed tree (frozen table, tools/gen_params.sh)
		if idx, ok := paramIndex[f.Name()+"#"+name]; ok {
			v = f.Param(idx)
		}
	}
	return func(e ast.Expr) bool { return v != nil && f.Denotes(e, v) }
}

// isParamIdx returns a predicate: the expression is the i-th parameter of f.
func isParamIdx(f *chk.Fn, i int) func(ast.Expr) bool {
	v := f.Param(i)
	return func(e ast.Expr) bool { return v != nil && f.Denotes(e, v) }
}

// isRecv: the expression is the receiver of f.
func isRecv(f *chk.Fn) func(ast.Expr) bool {
	v := f.Recv()
	return func(e ast.Expr) bool { return v != nil && f.Denotes(e, v) }
}

// constStr: e is a string constant with one of the given values.
func constStr(f *chk.Fn, vals ...string) func(ast.Expr) bool {
	return func(e ast.Expr) bool {
		for _, v := range vals {
			if f.IsConstString(e, v) {
				return true
			}
		}
		return false
	}
}

// isObjNamed: e resolves to the object with the given module-relative name
// (constants, variables, functions), e.g. "internal/k8s/controllers.SyncStateError".
func isObjNamed(f *chk.Fn, names ...string) func(ast.Expr) bool {
	return func(e ast.Expr) bool {
		o := f.ObjOf(e)
		if o == nil {
			return false
		}
		n := chk.ObjName(o)
		for _, w := range names {
			if n == w {
				return true
			}
		}
		return false
	}
}

// definedBy: e is a local variable whose reaching definition (same block, or
// the unique definition in the function) matches the pattern.
func definedBy(g *chk.Graph, pat string, checks ...chk.HoleCheck) func(ast.Expr) bool {
	return func(e ast.Expr) bool {
		id, ok := ast.Unparen(e).(*ast.Ident)
		if !ok {
			// the value written in place instead of through a local
			return g.Fn.MatchWith(pat, ast.Unparen(e), checks...) != nil
		}
		rhs, _ := g.DefOf(id, g.FactSite(id))
		if rhs != nil && g.Fn.MatchWith(pat, rhs, checks...) != nil {
			return true
		}
		// through a chain of temporaries
		if r := g.Fn.Resolve(id); r != ast.Expr(id) {
			if g.Fn.MatchWith(pat, r, checks...) != nil {
				return true
			}
			// the chain ends at a local defined by a tuple-valued call (`v, err := F(..)`)
			if rid, isId := ast.Unparen(r).(*ast.Ident); isId {
				if rhs2, _ := g.DefOf(rid, g.FactSite(rid)); rhs2 != nil && g.Fn.MatchWith(pat, rhs2, checks...) != nil {
					return true
				}
			}
		}
		return false
	}
}

// rangeVar returns predicates for the key and value variables of a range stmt.
// The element of the current iteration is the value variable, or X[k] / &X[k]
// (directly or through a local) where X is the ranged expression and k the key
// variable: `for _, v := range X` and `for i := range X { v := &X[i]` agree.
func rangeVal(f *chk.Fn, rs *ast.RangeStmt) func(ast.Expr) bool {
	var o, k types.Object
	if id, ok := rs.Value.(*ast.Ident); ok {
		o = f.ObjOf(id)
	}
	if id, ok := rs.Key.(*ast.Ident); ok && id.Name != "_" {
		k = f.ObjOf(id)
	}
	_, isMap := f.Info().TypeOf(rs.X).Underlying().(*types.Map)
	return func(e ast.Expr) bool {
		if o != nil && f.Denotes(e, o) {
			return true
		}
		if k == nil {
			return false
		}
		r := f.Resolve(e)
		for i := 0; i < 3; i++ {
			switch x := ast.Unparen(r).(type) {
			case *ast.UnaryExpr:
				if x.Op == token.AND {
					r = f.Resolve(x.X)
					continue
				}
			case *ast.StarExpr:
				r = f.Resolve(x.X)
				continue
			}
			break
		}
		ix, ok := ast.Unparen(r).(*ast.IndexExpr)
		if !ok || !f.Denotes(ix.Index, k) {
			return false
		}
		_ = isMap
		return f.SameExpr(ix.X, rs.X)
	}
}

func rangeKey(f *chk.Fn, rs *ast.RangeStmt) func(ast.Expr) bool {
	var o types.Object
	if id, ok := rs.Key.(*ast.Ident); ok {
		o = f.ObjOf(id)
	}
	return func(e ast.Expr) bool { return o != nil && f.Denotes(e, o) }
}

// returnsOf lists the return statements of a function.
func returnsOf(g *chk.Graph) []chk.Site { return g.Returns() }

func retResults(s chk.Site) []ast.Expr { return s.Node.(*ast.ReturnStmt).Results }

// posOf gives a position for a witness, falling back to the function.
func posOf(w chk.Witness, f *chk.Fn) token.Pos {
	if p := w.Pos(); p.IsValid() {
		return p
	}
	return f.Pos()
}

func describe(f *chk.Fn, w chk.Witness) string {
	if !w.Found {
		return ""
	}
	switch w.Kind {
	case chk.ExitReturn:
		return "reaches the return at " + f.Prog.Rel(posOf(w, f))
	case chk.ExitFall:
		return "reaches the end of the function"
	}
	return "reaches " + f.Prog.Rel(posOf(w, f))
}

// noAssignTo reports the assignments to the object of variable v in f's body.
func assignsTo(f *chk.Fn, o types.Object) []ast.Node {
	var out []ast.Node
	ast.Inspect(f.Body, func(n ast.Node) bool {
		switch s := n.(type) {
		case *ast.AssignStmt:
			for _, l := range s.Lhs {
				if id, ok := l.(*ast.Ident); ok && f.ObjOf(id) == o && o != nil {
					out = append(out, s)
				}
			}
		case *ast.IncDecStmt:
			if id, ok := s.X.(*ast.Ident); ok && f.ObjOf(id) == o && o != nil {
				out = append(out, s)
			}
		}
		return true
	})
	return out
}

// resultForm is one value a function can return at a given return statement, with the place where that value was
// formed (conditions about parameters that hold there still hold at the return).
type resultForm struct {
	E  ast.Expr // nil: a value that cannot be described (zero value, several targets)
	At chk.Site
}

// resultForms lists what result idx of the return can be: the expression itself, or - for a result built in a local
// ("single exit": `sel = []T{a}` in the branches, `return sel, nil` at the end) - every assignment to that local which
// some feasible path carries to the return.
func resultForms(g *chk.Graph, f *chk.Fn, rt chk.Site, idx int) []resultForm {
	res := retResults(rt)
	if idx >= len(res) {
		return nil
	}
	id, ok := ast.Unparen(res[idx]).(*ast.Ident)
	if !ok {
		return []resultForm{{res[idx], rt}}
	}
	v, ok := f.ObjOf(id).(*types.Var)
	if !ok || v.IsField() || v.Parent() == nil || v.Pkg() == nil || v.Parent() == v.Pkg().Scope() || f.IsNilLit(id) {
		return []resultForm{{res[idx], rt}}
	}
	if d := f.LocalDef(id); d != nil {
		if st := g.FactSite(d); st.B != nil {
			return []resultForm{{d, st}}
		}
		return []resultForm{{d, rt}}
	}
	var out []resultForm
	nonNil := g.Dominated(rt, g.GExprNil(false, f.IsObj(v)))
	for _, n := range assignsTo(f, v) {
		as, isAs := n.(*ast.AssignStmt)
		if !isAs || len(as.Lhs) != len(as.Rhs) {
			out = append(out, resultForm{nil, rt})
			continue
		}
		nn := n
		if g.Dominated(rt, chk.GNot(chk.GEvent(func(m ast.Node) bool { return m == nn }))) {
			continue // never on a path that reaches this return
		}
		for i, l := range as.Lhs {
			if lid, isId := l.(*ast.Ident); isId && f.ObjOf(lid) == types.Object(v) {
				if f.IsNilLit(as.Rhs[i]) && nonNil {
					continue
				}
				sites := g.Find(func(m ast.Node) bool { return m == nn })
				at := rt
				if len(sites) > 0 {
					at = sites[0]
				}
				out = append(out, resultForm{as.Rhs[i], at})
			}
		}
	}
	if !nonNil {
		out = append(out, resultForm{nil, rt}) // the zero value of a `var` declaration can get here
	}
	return out
}

func sortedKeys(m map[string]bool) []string {
	var out []string
	for k := range m {
		out = append(out, k)
	}
	sort.Strings(out)
	return out
}

func join(ss []string) string { return strings.Join(ss, ", ") }

// allFoundShape decides the shape of a "for every x in A there is an equal y in
// B" function over two slice parameters: an outer loop over parameter a, a
// per-iteration boolean flag initialised to false, an inner loop over parameter
// b that sets the flag only behind X.Equal(Y) of the two loop variables, after
// the inner loop `if !flag { return onMissing }` on every such path, no break
// out of the outer loop, and `return !onMissing` only after the outer loop ran
// to exhaustion. It returns "" when the shape holds, else a reason.
func allFoundShape(f *chk.Fn, a, b int, onMissing bool) string {
	g := f.Graph()
	outer := f.RangeLoops(isParamIdx(f, a))
	inner := f.RangeLoops(isParamIdx(f, b))
	if len(outer) != 1 || len(inner) != 1 || !chk.InBody(outer[0], inner[0]) {
		return "no nested loops over the two address lists"
	}
	pv, cv := rangeVal(f, outer[0]), rangeVal(f, inner[0])
	var flag types.Object
	for _, s := range g.Find(f.IsAssignPat("H", "true")) {
		if g.Dominated(s, g.GPat(true, "P.Equal(C)", chk.H("P", pv), chk.H("C", cv))) || g.Dominated(s, g.GPat(true, "C.Equal(P)", chk.H("P", pv), chk.H("C", cv))) {
			flag = f.ObjOf(s.Node.(*ast.AssignStmt).Lhs[0])
		} else {
			return "the found-flag is set without an Equal test of the two loop variables"
		}
	}
	if flag == nil {
		return "no found-flag set behind X.Equal(Y)"
	}
	decl := g.Find(func(n ast.Node) bool {
		as, ok := n.(*ast.AssignStmt)
		return ok && as.Tok.String() == ":=" && len(as.Lhs) == 1 && f.ObjOf(as.Lhs[0]) == flag && f.IsConstBool(as.Rhs[0], false) && chk.InBody(outer[0], n) && !chk.InBody(inner[0], n)
	})
	if len(decl) != 1 {
		// declared without a value (`var found bool`: false) inside the outer loop, outside the inner one - the form an
		// expanded slices.ContainsFunc leaves; any other assignment to it outside the inner loop is `= false`
		nDecl, okOther := 0, true
		ast.Inspect(outer[0].Body, func(n ast.Node) bool {
			switch y := n.(type) {
			case *ast.ValueSpec:
				for _, nm := range y.Names {
					if f.Info().Defs[nm] == flag && len(y.Values) == 0 && !chk.InBody(inner[0], y) {
						nDecl++
					}
				}
			case *ast.AssignStmt:
				for i, l := range y.Lhs {
					if f.ObjOf(l) == flag && len(y.Lhs) == len(y.Rhs) && !chk.InBody(inner[0], y) && !f.IsConstBool(y.Rhs[i], false) {
						okOther = false
					}
				}
			}
			return true
		})
		if len(decl) != 0 || nDecl != 1 || !okOther {
			return "the found-flag is not reset to false for every element of the outer list"
		}
	}
	es := g.EdgesImplying(chk.GBool(false, f.IsObj(flag)))
	if len(es) == 0 {
		return "the found-flag is never tested"
	}
	isRet := func(val bool) func(ast.Node) bool {
		return func(n ast.Node) bool {
			rs, ok := n.(*ast.ReturnStmt)
			return ok && len(rs.Results) == 1 && f.IsConstBool(rs.Results[0], val)
		}
	}
	for _, e := range es {
		if g.BranchAlways(e, isRet(onMissing)).Found {
			return "an element without a match does not lead to the `missing` result"
		}
	}
	// every outer iteration reaches the flag test after the inner loop
	loopB, bodyB, doneB := g.RangeBlocks(outer[0])
	for _, bl := range g.Blocks {
		for _, s := range bl.Succs {
			if s == doneB && bl != loopB {
				return "the outer loop can be left early"
			}
		}
	}
	testBlocks := map[*cfgBlock]bool{}
	for _, e := range es {
		testBlocks[e.B] = true
	}
	seen := map[*cfgBlock]bool{}
	var skips func(bl *cfgBlock) bool
	skips = func(bl *cfgBlock) bool {
		if testBlocks[bl] {
			return false
		}
		for _, s := range bl.Succs {
			if s == loopB {
				return true
			}
			if !seen[s] {
				seen[s] = true
				if skips(s) {
					return true
				}
			}
		}
		return false
	}
	if bodyB != nil && skips(bodyB) {
		return "an outer iteration can complete without testing the found-flag"
	}
	for _, rt := range g.Returns() {
		res := retResults(rt)
		if len(res) != 1 {
			return "unexpected return arity"
		}
		switch {
		case f.IsConstBool(res[0], onMissing):
			// inside the outer loop behind !flag, or a pre-check before the loops
			if chk.InBody(outer[0], rt.Node) && !g.Dominated(rt, chk.GBool(false, f.IsObj(flag))) {
				return "the `missing` result is returned for an element that was found"
			}
		case f.IsConstBool(res[0], !onMissing):
			if !g.AfterLoop(rt, outer[0]) {
				return "the `all found` result is returned before every element was examined"
			}
		default:
			return "a return that is not a boolean constant"
		}
	}
	return ""
}

// forallBefore decides that `site` is reached only if the guard phi held for
// every element of the range loop rs. Three idioms are recognised:
//
//	exit:    an iteration can only continue with phi established, the loop has no
//	         break, and the site lies behind the exhaustion of the loop;
//	flag:    a boolean F is true whenever the loop starts, is never set to true in
//	         the body, every iteration that ends (continue or break) without phi
//	         has set F = false, and the site needs F;
//	counter: an integer C is reset to 0 before the loop, incremented at most once
//	         per iteration and only with phi established, and the site needs
//	         C == len(X) for the ranged X.
//
// It returns "" when one idiom is established, else the reasons.
func forallBefore(f *chk.Fn, g *chk.Graph, rs *ast.RangeStmt, phi chk.Guard, site chk.Site) string {
	var why []string
	// exit idiom
	ends := g.LoopIteration(rs, phi)
	exitOK := len(ends) > 0
	// a site in the same iteration of an enclosing range loop: leaving rs for the next outer element is not a way to it
	var outerHead *cfgBlock
	if outer, ok := f.LoopOf(rs).(*ast.RangeStmt); ok && site.Node != nil && chk.InBody(outer, site.Node) {
		outerHead, _, _ = g.RangeBlocks(outer)
	}
	for _, e := range ends {
		if e.Break {
			if !e.ReachesWithin(site, outerHead) {
				continue // left early only on paths that never get to the site (an error is returned first)
			}
			exitOK = false
			why = append(why, "exit idiom: the loop can be left early at "+f.Prog.Rel(endPos(e, rs)))
		} else if !e.OK {
			exitOK = false
			why = append(why, "exit idiom: an iteration can continue without the check (through "+f.Prog.Rel(endPos(e, rs))+")")
		}
	}
	if exitOK {
		if g.AfterLoop(site, rs) {
			return ""
		}
		why = append(why, "exit idiom: the result does not lie behind the exhaustion of the loop")
	}
	// flag idiom: a boolean that is cleared (F = false), or an error / pointer that is set (F = non-nil), when the check fails
	type flagKind struct{ cleared, required chk.Guard }
	// candidates: 0 boolean marked with false, 1 boolean marked with true, 2 nil-able marked with a non-nil value
	flags := map[types.Object]int{}
	conflict := map[types.Object]bool{}
	note := func(o types.Object, k int) {
		if old, ok := flags[o]; ok && old != k {
			conflict[o] = true
		}
		flags[o] = k
	}
	// a value that is certainly not nil where it is stored: syntactically, or a variable tested `!= nil` on every path
	nonNilAt := func(rhs ast.Expr) bool {
		if f.KnownNonNil(rhs) {
			return true
		}
		if _, isId := ast.Unparen(rhs).(*ast.Ident); !isId || f.IsNilLit(rhs) {
			return false
		}
		st := g.FactSite(rhs)
		if st.B == nil {
			return false
		}
		if g.Dominated(st, g.GExprNil(false, func(e ast.Expr) bool { return f.SameValue(e, rhs) })) {
			return true
		}
		// ... or handed, in a test that decided the way here, to a function of this module that reads through it before
		// anything else (the test has an outcome only when the pointer is not nil)
		return g.Dominated(st, chk.GFunc(func(ft chk.Fact) bool {
			found := false
			ast.Inspect(ft.E, func(n ast.Node) bool {
				c, isCall := n.(*ast.CallExpr)
				if !isCall || found {
					return !found
				}
				fo, _ := f.Callee(c).(*types.Func)
				if fo == nil {
					return true
				}
				for i, a := range c.Args {
					if f.SameValue(a, rhs) && chk.DerefsParamFirst(f.Prog, fo, i) {
						found = true
					}
				}
				return true
			})
			return found
		}))
	}
	ast.Inspect(rs.Body, func(n ast.Node) bool {
		if as, ok := n.(*ast.AssignStmt); ok && len(as.Lhs) == len(as.Rhs) && as.Tok == token.ASSIGN {
			for i, l := range as.Lhs {
				if id, ok := l.(*ast.Ident); ok {
					if o := f.ObjOf(id); o != nil {
						switch {
						case f.IsConstBool(as.Rhs[i], false):
							note(o, 0)
						case f.IsConstBool(as.Rhs[i], true):
							note(o, 1)
						case nonNilAt(as.Rhs[i]):
							note(o, 2)
						case monotone(f, o, as.Rhs[i]) == token.LOR:
							note(o, 1) // F = F || x: can only become true
						case monotone(f, o, as.Rhs[i]) == token.LAND:
							note(o, 0) // F = F && x: can only become false
						}
					}
				}
			}
		}
		return true
	})
	for fl, k := range flags {
		if conflict[fl] {
			continue
		}
		isObjF := f.IsObj(fl)
		isF := func(e ast.Expr) bool { return isObjF(e) || isObjF(f.Resolve(e)) } // also a plain copy of the flag
		var kind flagKind
		switch k {
		case 0:
			kind = flagKind{cleared: chk.GBool(false, isF), required: chk.GBool(true, isF)}
		case 1:
			kind = flagKind{cleared: chk.GBool(true, isF), required: chk.GBool(false, isF)}
		default:
			kind = flagKind{cleared: g.GExprNil(false, isF), required: g.GExprNil(true, isF)}
		}
		setBack := false
		ast.Inspect(rs.Body, func(n ast.Node) bool {
			if as, ok := n.(*ast.AssignStmt); ok {
				for i, l := range as.Lhs {
					if !isObjF(l) {
						continue
					}
					marking := i < len(as.Rhs) && len(as.Lhs) == len(as.Rhs) &&
						((k == 0 && (f.IsConstBool(as.Rhs[i], false) || monotone(f, fl, as.Rhs[i]) == token.LAND)) ||
							(k == 1 && (f.IsConstBool(as.Rhs[i], true) || monotone(f, fl, as.Rhs[i]) == token.LOR)) ||
							(k == 2 && nonNilAt(as.Rhs[i])))
					if !marking {
						setBack = true
					}
				}
			}
			return true
		})
		if setBack {
			why = append(why, "flag idiom: "+fl.Name()+" can be set back inside the loop")
			continue
		}
		if !g.LoopEntryDominated(rs, kind.required) {
			why = append(why, "flag idiom: "+fl.Name()+" is not known to be in its initial state when the loop starts")
			continue
		}
		ok := true
		for _, e := range g.LoopIteration(rs, chk.GOr(phi, kind.cleared)) {
			if !e.OK {
				ok = false
				why = append(why, "flag idiom: an iteration can end without the check and without marking "+fl.Name()+" (through "+f.Prog.Rel(endPos(e, rs))+")")
			}
		}
		if !ok {
			continue
		}
		if !g.Dominated(site, kind.required) {
			why = append(why, "flag idiom: the result does not require "+fl.Name()+" to be unmarked")
			continue
		}
		return ""
	}
	// counter idiom
	for _, inc := range g.Find(func(n ast.Node) bool {
		s, ok := n.(*ast.IncDecStmt)
		return ok && s.Tok == token.INC && chk.InBody(rs, n)
	}) {
		id, ok := inc.Node.(*ast.IncDecStmt).X.(*ast.Ident)
		if !ok {
			continue
		}
		cnt := f.ObjOf(id)
		if cnt == nil {
			continue
		}
		if !g.Dominated(inc, phi) {
			why = append(why, "counter idiom: "+id.Name+" can be incremented without the check")
			continue
		}
		// at most once per iteration: the increment cannot be reached again within the iteration
		region := map[*cfgBlock]bool{}
		loop, _, done := g.RangeBlocks(rs)
		work := append([]*cfgBlock{}, inc.B.Succs...)
		again := false
		for len(work) > 0 {
			b := work[len(work)-1]
			work = work[:len(work)-1]
			if b == loop || b == done || region[b] {
				continue
			}
			region[b] = true
			if b == inc.B {
				again = true
			}
			work = append(work, b.Succs...)
		}
		if again {
			why = append(why, "counter idiom: "+id.Name+" can be incremented more than once for one element")
			continue
		}
		// reset before the loop, in the same enclosing loop body / function
		reset := false
		others := 0
		ast.Inspect(f.Body, func(n ast.Node) bool {
			switch s := n.(type) {
			case *ast.AssignStmt:
				for i, l := range s.Lhs {
					if f.ObjOf(l) != cnt {
						continue
					}
					if len(s.Lhs) == len(s.Rhs) && f.IsConstInt(s.Rhs[i], 0) && s.End() <= rs.Pos() && f.LoopOf(s) == f.LoopOf(rs) {
						reset = true
					} else {
						others++
					}
				}
			case *ast.ValueSpec:
				for _, nm := range s.Names {
					if f.Info().Defs[nm] == cnt && len(s.Values) == 0 && s.End() <= rs.Pos() && f.LoopOf(s) == f.LoopOf(rs) {
						reset = true
					}
				}
			case *ast.IncDecStmt:
				if f.ObjOf(s.X) == cnt && n != inc.Node {
					others++
				}
			}
			return true
		})
		if !reset || others > 0 {
			why = append(why, "counter idiom: "+id.Name+" is not reset to 0 right before the loop, or is modified elsewhere")
			continue
		}
		same := func(e ast.Expr) bool { return f.SameExpr(e, rs.X) }
		if !g.Dominated(site, g.GPat(true, "C == len(X)", chk.H("C", f.IsObj(cnt)), chk.H("X", same))) {
			why = append(why, "counter idiom: the result does not require "+id.Name+" == len of the ranged list")
			continue
		}
		return ""
	}
	if len(why) == 0 {
		return "no for-all idiom (early exit, flag, counter) found"
	}
	return strings.Join(why, "; ")
}

func endPos(e chk.IterationEnd, rs *ast.RangeStmt) token.Pos {
	if e.From != nil && len(e.From.Nodes) > 0 {
		return e.From.Nodes[len(e.From.Nodes)-1].Pos()
	}
	return rs.Pos()
}

// flagTrueOnlyIf decides that the boolean local v can be true only when `just`
// was established: every assignment gives it false, or true behind `just`, or an
// expression that is true only with `just`. It returns the first unjustified site.
func flagTrueOnlyIf(f *chk.Fn, g *chk.Graph, v types.Object, just chk.Guard) (bool, token.Pos) {
	ok, bad := true, token.NoPos
	n := 0
	for _, s := range g.Find(func(nd ast.Node) bool {
		switch st := nd.(type) {
		case *ast.AssignStmt:
			for _, l := range st.Lhs {
				if id, isId := l.(*ast.Ident); isId && f.ObjOf(id) == v {
					return true
				}
			}
		case *ast.ValueSpec:
			for _, nm := range st.Names {
				if f.Info().Defs[nm] == v {
					return true
				}
			}
		}
		return false
	}) {
		var rhs ast.Expr
		switch st := s.Node.(type) {
		case *ast.AssignStmt:
			for i, l := range st.Lhs {
				if id, isId := l.(*ast.Ident); isId && f.ObjOf(id) == v && len(st.Lhs) == len(st.Rhs) {
					rhs = st.Rhs[i]
				}
			}
			if rhs == nil {
				ok, bad = false, st.Pos() // tuple assignment: unknown value
				continue
			}
		case *ast.ValueSpec:
			for i, nm := range st.Names {
				if f.Info().Defs[nm] == v && i < len(st.Values) {
					rhs = st.Values[i]
				}
			}
			if rhs == nil {
				n++
				continue // zero value: false
			}
		}
		n++
		switch {
		case f.IsConstBool(rhs, false):
		case f.IsConstBool(rhs, true):
			if !g.Dominated(s, just) {
				ok, bad = false, s.Pos()
			}
		default:
			if !g.DominatedAssuming(s, rhs, true, just) {
				ok, bad = false, s.Pos()
			}
		}
	}
	if n == 0 {
		return false, f.Pos()
	}
	return ok, bad
}

// boolLocalsRequiredAt lists the boolean locals that are known to be true at the site.
func boolLocalsRequiredAt(f *chk.Fn, g *chk.Graph, s chk.Site) []types.Object {
	var out []types.Object
	seen := map[types.Object]bool{}
	ast.Inspect(f.Body, func(n ast.Node) bool {
		id, ok := n.(*ast.Ident)
		if !ok {
			return true
		}
		v, ok := f.ObjOf(id).(*types.Var)
		if !ok || seen[v] || v.IsField() || v.Pkg() == nil || v.Parent() == v.Pkg().Scope() {
			return true
		}
		if b, isB := v.Type().Underlying().(*types.Basic); !isB || b.Info()&types.IsBoolean == 0 {
			return true
		}
		seen[v] = true
		if g.Dominated(s, chk.GBool(true, f.IsObj(v))) {
			out = append(out, v)
		}
		return true
	})
	return out
}

type posNode token.Pos

func (p posNode) Pos() token.Pos { return token.Pos(p) }
func (p posNode) End() token.Pos { return token.Pos(p) }

// elementOf returns a predicate: the expression is an element of a collection
// satisfying coll - the value variable of a range over it, or an index into it
// (both through temporaries: `l := a.m[k]; for i := range l { l[i] }`).
func elementOf(f *chk.Fn, coll func(ast.Expr) bool) func(ast.Expr) bool {
	isColl := func(e ast.Expr) bool {
		return coll(e) || (f.Resolve(e) != e && coll(f.Resolve(e)))
	}
	return func(e ast.Expr) bool {
		for _, rs := range f.RangeLoops(coll) {
			if rangeVal(f, rs)(e) {
				return true
			}
		}
		r := f.Resolve(e)
		for i := 0; i < 3; i++ {
			switch x := ast.Unparen(r).(type) {
			case *ast.UnaryExpr:
				if x.Op == token.AND {
					r = f.Resolve(x.X)
					continue
				}
			case *ast.StarExpr:
				r = f.Resolve(x.X)
				continue
			}
			break
		}
		if ix, ok := ast.Unparen(r).(*ast.IndexExpr); ok {
			return isColl(ix.X)
		}
		return false
	}
}

// startsEmptyBefore: the only assignments to the local list are inside the loop - it is declared without a value
// (or as an empty literal / make of length 0) and nothing else fills it before the loop.
func startsEmptyBefore(f *chk.Fn, g *chk.Graph, l types.Object, rs *ast.RangeStmt) bool {
	v, ok := l.(*types.Var)
	if !ok || v.IsField() || v.Pkg() == nil || v.Parent() == v.Pkg().Scope() {
		return false
	}
	for _, n := range assignsTo(f, l) {
		if chk.InBody(rs, n) || n.Pos() > rs.End() {
			continue
		}
		as, isAs := n.(*ast.AssignStmt)
		if !isAs || len(as.Lhs) != len(as.Rhs) {
			return false
		}
		for i, lh := range as.Lhs {
			if id, isId := lh.(*ast.Ident); isId && f.ObjOf(id) == l {
				r := ast.Unparen(as.Rhs[i])
				cl, isLit := r.(*ast.CompositeLit)
				if f.IsNilLit(r) || (isLit && len(cl.Elts) == 0) || f.MatchNew("make(T, 0)", r) != nil || f.MatchNew("make(T, 0, N)", r) != nil {
					continue
				}
				return false
			}
		}
	}
	// parameters and named results are not local lists
	if f.Type.Params != nil {
		for _, fld := range f.Type.Params.List {
			for _, nm := range fld.Names {
				if f.Info().Defs[nm] == l {
					return false
				}
			}
		}
	}
	return true
}

// argOrigin is where the value of a parameter comes from: the argument expression at a call site, in the caller.
type argOrigin struct {
	Fn   *chk.Fn
	Call *ast.CallExpr
	Arg  ast.Expr
}

// paramOrigins: when e denotes a parameter of f that f never assigns, the arguments passed for it at every static call
// site of f in the module (nil when e is not such a parameter or f has no caller) - what a helper that takes a value
// of its former receiver as a parameter is handed.
func paramOrigins(p *chk.Prog, f *chk.Fn, e ast.Expr) []argOrigin {
	if f.Type == nil || f.Type.Params == nil || f.Obj == nil {
		return nil
	}
	idx, k := -1, 0
	var pobj types.Object
	for _, fld := range f.Type.Params.List {
		for _, nm := range fld.Names {
			if o := f.Info().Defs[nm]; o != nil && f.Denotes(e, o) {
				idx, pobj = k, o
			}
			k++
		}
		if len(fld.Names) == 0 {
			k++
		}
	}
	if idx < 0 || len(assignsTo(f, pobj)) > 0 {
		return nil
	}
	var out []argOrigin
	for _, cs := range p.CallersOf(f) {
		if idx >= len(cs.Call.Args) || cs.Call.Ellipsis.IsValid() {
			return nil
		}
		out = append(out, argOrigin{cs.Fn, cs.Call, cs.Call.Args[idx]})
	}
	return out
}

// paramIdent returns the identifier declaring the parameter with that name (or, when it was renamed, the one at the
// position), nil if there is none.
func paramIdent(f *chk.Fn, name string, idx int) ast.Expr {
	if f.Type == nil || f.Type.Params == nil {
		return nil
	}
	var byIdx ast.Expr
	k := 0
	for _, fld := range f.Type.Params.List {
		for _, nm := range fld.Names {
			if nm.Name == name {
				return nm
			}
			if k == idx {
				byIdx = nm
			}
			k++
		}
		if len(fld.Names) == 0 {
			k++
		}
	}
	return byIdx
}

// recvFieldOrPassed: e is the field `name` of f's receiver, or a parameter of f for which every caller passes that
// field of its own receiver (of the given type).
func recvFieldOrPassed(p *chk.Prog, f *chk.Fn, typ, name string) func(ast.Expr) bool {
	return func(e ast.Expr) bool {
		if sel, ok := ast.Unparen(f.Resolve(e)).(*ast.SelectorExpr); ok && sel.Sel.Name == name && isRecv(f)(sel.X) {
			return true
		}
		orig := paramOrigins(p, f, e)
		if len(orig) == 0 {
			return false
		}
		for _, o := range orig {
			sel, ok := ast.Unparen(o.Fn.Resolve(o.Arg)).(*ast.SelectorExpr)
			if !ok || sel.Sel.Name != name || !isRecv(o.Fn)(sel.X) {
				return false
			}
			if rv := o.Fn.Recv(); rv == nil || !strings.HasSuffix(strings.TrimPrefix(rv.Type().String(), "*"), "."+typ) {
				return false
			}
		}
		return true
	}
}

// filteredList: e is a local list that holds exactly the elements of a collection (satisfying coll) for which
// keep(element) holds: it is declared empty in the innermost loop body (or function) that contains the use, its only
// other assignment is `L = append(L, a)` for the element a of a range loop over the collection, that append is
// dominated by keep(a), the loop has no break, and an iteration ends without the append only when keep(a) is false.
func filteredList(f *chk.Fn, g *chk.Graph, e ast.Expr, coll func(ast.Expr) bool, keep func(elem func(ast.Expr) bool, positive bool) chk.Guard) bool {
	return collectedList(f, g, e, coll, func(rs *ast.RangeStmt, pos bool) chk.Guard { return keep(rangeVal(f, rs), pos) }, nil)
}

// filteredKeys: e is a local list that holds exactly the keys of the collection (a map, or the indexes of a slice) for
// whose iteration keep holds (keep is given the collecting loop: it may speak about the key and the value).
func filteredKeys(f *chk.Fn, g *chk.Graph, e ast.Expr, coll func(ast.Expr) bool, keep func(rs *ast.RangeStmt, positive bool) chk.Guard) bool {
	return collectedList(f, g, e, coll, keep, func(rs *ast.RangeStmt) func(ast.Expr) bool { return rangeKey(f, rs) })
}

// mappedList: e is a local list that holds proj(element) for every element of the collection, in order (the list a
// helper returns to its caller, which then hands all of it on).
func mappedList(f *chk.Fn, g *chk.Graph, e ast.Expr, coll func(ast.Expr) bool, proj func(elem func(ast.Expr) bool) func(ast.Expr) bool) bool {
	if rid, isId := ast.Unparen(f.Resolve(e)).(*ast.Ident); isId {
		e = rid
	}
	return collectedList(f, g, e, coll, func(*ast.RangeStmt, bool) chk.Guard { return chk.NoGuard },
		func(rs *ast.RangeStmt) func(ast.Expr) bool { return proj(rangeVal(f, rs)) })
}

func collectedList(f *chk.Fn, g *chk.Graph, e ast.Expr, coll func(ast.Expr) bool, keep func(rs *ast.RangeStmt, positive bool) chk.Guard, proj func(rs *ast.RangeStmt) func(ast.Expr) bool) bool {
	// a plain copy of the collected list (the result of an expanded helper handed over under another name)
	if rid, isId := ast.Unparen(f.Resolve(e)).(*ast.Ident); isId {
		if _, wasId := ast.Unparen(e).(*ast.Ident); wasId {
			e = rid
		}
	}
	id, ok := ast.Unparen(e).(*ast.Ident)
	if !ok {
		return false
	}
	l, ok := f.ObjOf(id).(*types.Var)
	if !ok || l.IsField() || l.Pkg() == nil || l.Parent() == l.Pkg().Scope() {
		return false
	}
	// declared in the same iteration as the use, or built completely before the loop that contains the use
	if outer := f.LoopOf(id); outer != nil {
		if !(outer.Pos() <= l.Pos() && l.Pos() <= outer.End()) {
			for _, n := range assignsTo(f, l) {
				if n.End() > outer.Pos() {
					return false
				}
			}
		}
	}
	nApp := 0
	for _, n := range assignsTo(f, l) {
		as, isAs := n.(*ast.AssignStmt)
		if !isAs || len(as.Lhs) != 1 || len(as.Rhs) != 1 {
			return false
		}
		r := ast.Unparen(as.Rhs[0])
		if cl, isLit := r.(*ast.CompositeLit); f.IsNilLit(r) || (isLit && len(cl.Elts) == 0) || isEmptyMake(f, r) {
			if as.Pos() > id.Pos() {
				return false
			}
			continue
		}
		rs, _ := f.LoopOf(as).(*ast.RangeStmt)
		if rs == nil || !(coll(rs.X) || coll(f.Resolve(rs.X))) {
			return false
		}
		what := rangeVal(f, rs)
		if proj != nil {
			what = proj(rs)
		}
		if !f.IsAssignPat("R", "append(R, A)", chk.H("R", f.IsObj(l)), chk.H("A", what))(as) {
			return false
		}
		sites := g.Find(func(m ast.Node) bool { return m == ast.Node(as) })
		if len(sites) != 1 || loopHasBreak(g, rs) {
			return false
		}
		kp, kn := keep(rs, true), keep(rs, false)
		if !kp.IsNone() && !g.Dominated(sites[0], kp) {
			return false
		}
		if loopSkipsWithout(g, rs, func(m ast.Node) bool { return m == sites[0].Top }, kn) {
			return false
		}
		if !(rs.End() <= id.Pos()) {
			return false
		}
		nApp++
	}
	return nApp == 1
}

// isEmptyMake: make(T, 0) / make(T, 0, n)
func isEmptyMake(f *chk.Fn, e ast.Expr) bool {
	call, ok := ast.Unparen(e).(*ast.CallExpr)
	if !ok || len(call.Args) < 2 {
		return false
	}
	if id, isId := call.Fun.(*ast.Ident); !isId || id.Name != "make" {
		return false
	}
	return f.IsConstInt(call.Args[1], 0)
}

// foundIndex: e (used at the site) is the index of an element of the collection for which cond(element) holds: an
// integer local that is set to the key of a range loop over the collection only where cond holds for that iteration's
// element, is otherwise only ever -1 (or its zero declaration before the search), and is known to be >= 0 at the site
// (the normal form of slices.IndexFunc followed by `if idx >= 0`).
func foundIndex(f *chk.Fn, g *chk.Graph, e ast.Expr, site chk.Site, coll func(ast.Expr) bool, cond func(elem func(ast.Expr) bool) chk.Guard) bool {
	id, ok := ast.Unparen(e).(*ast.Ident)
	if !ok {
		return false
	}
	// a plain copy of the search result (`i := found`) stands for it
	if rid, isId := ast.Unparen(f.Resolve(id)).(*ast.Ident); isId {
		id = rid
	}
	v := f.ObjOf(id)
	if _, isVar := v.(*types.Var); !isVar {
		return false
	}
	nSet := 0
	for _, n := range assignsTo(f, v) {
		as, isAs := n.(*ast.AssignStmt)
		if !isAs || len(as.Lhs) != len(as.Rhs) {
			return false
		}
		for i, l := range as.Lhs {
			if lid, isId := l.(*ast.Ident); !isId || f.ObjOf(lid) != v {
				continue
			}
			r := as.Rhs[i]
			if f.IsConstInt(r, -1) {
				continue
			}
			rs, _ := f.LoopOf(as).(*ast.RangeStmt)
			if rs == nil || !(coll(rs.X) || coll(f.Resolve(rs.X))) || !rangeKey(f, rs)(r) {
				return false
			}
			sites := g.Find(func(m ast.Node) bool { return m == ast.Node(as) })
			if len(sites) != 1 || !g.Dominated(sites[0], cond(rangeVal(f, rs))) {
				return false
			}
			nSet++
		}
	}
	if nSet == 0 {
		return false
	}
	isObjV := f.IsObj(v)
	isV := func(x ast.Expr) bool { return isObjV(x) || isObjV(f.Resolve(x)) }
	return g.Dominated(site, chk.GOr(g.GPat(true, "V >= 0", chk.H("V", isV)), g.GPat(true, "V > -1", chk.H("V", isV)), g.GPat(true, "V != -1", chk.H("V", isV))))
}

// isSetInsert: `S[k] = true` or `S[k] = struct{}{}` - the two spellings of adding k to a set kept in a map.
func isSetInsert(f *chk.Fn) func(ast.Node) bool {
	return func(n ast.Node) bool {
		as, ok := n.(*ast.AssignStmt)
		if !ok || len(as.Lhs) != 1 || len(as.Rhs) != 1 || as.Tok != token.ASSIGN {
			return false
		}
		ix, ok := ast.Unparen(as.Lhs[0]).(*ast.IndexExpr)
		if !ok {
			return false
		}
		if tv, ok := f.Info().Types[ix.X]; !ok || tv.Type == nil {
			return false
		} else if _, isMap := tv.Type.Underlying().(*types.Map); !isMap {
			return false
		}
		if f.IsConstBool(as.Rhs[0], true) {
			return true
		}
		cl, ok := ast.Unparen(as.Rhs[0]).(*ast.CompositeLit)
		if !ok || len(cl.Elts) != 0 {
			return false
		}
		if tv, ok := f.Info().Types[cl]; ok && tv.Type != nil {
			if st, isStruct := tv.Type.Underlying().(*types.Struct); isStruct && st.NumFields() == 0 {
				return true
			}
		}
		return false
	}
}

// memberGuard: "elem is a member of the collection": slices.Contains(coll, elem), or the equality of elem with an
// element of coll (the value variable of a loop over coll - the form the search functions of the standard library are
// normalised to - or coll[i]); the guard engine carries that comparison through the found-flag of the loop.
func memberGuard(g *chk.Graph, f *chk.Fn, coll, elem func(ast.Expr) bool) chk.Guard {
	el := elementOf(f, coll)
	return chk.GOr(
		g.GPat(true, "slices.Contains(C, E)", chk.H("C", coll), chk.H("E", elem)),
		g.GPat(true, "X == E", chk.H("X", el), chk.H("E", elem)),
		g.GPat(true, "E == X", chk.H("X", el), chk.H("E", elem)))
}

// isParamNamedOrIdx: the parameter by name, or (when it was renamed) by position.
func isParamNamedOrIdx(f *chk.Fn, name string, idx int) func(ast.Expr) bool {
	if f.ParamNamed(name) != nil {
		return isParam(f, name)
	}
	return isParamIdx(f, idx)
}

// flowSources returns the local variables whose value is copied (plain
// `a = b`, `a, x = b, y`, `a := b`) into obj, directly or through other locals:
// a list that is built in one variable and then handed over under another name.
func flowSources(f *chk.Fn, obj types.Object) map[types.Object]bool {
	edges := map[types.Object][]types.Object{} // dst -> srcs
	add := func(l, r ast.Expr) {
		li, ok1 := ast.Unparen(l).(*ast.Ident)
		ri, ok2 := ast.Unparen(r).(*ast.Ident)
		if !ok1 || !ok2 {
			return
		}
		lo, ro := f.ObjOf(li), f.ObjOf(ri)
		if lo == nil || ro == nil || lo == ro {
			return
		}
		if _, isVar := ro.(*types.Var); !isVar {
			return
		}
		edges[lo] = append(edges[lo], ro)
	}
	ast.Inspect(f.Body, func(n ast.Node) bool {
		switch s := n.(type) {
		case *ast.AssignStmt:
			if len(s.Lhs) == len(s.Rhs) {
				for i := range s.Lhs {
					add(s.Lhs[i], s.Rhs[i])
				}
			}
		case *ast.ValueSpec:
			if len(s.Names) == len(s.Values) {
				for i := range s.Names {
					add(s.Names[i], s.Values[i])
				}
			}
		}
		return true
	})
	out := map[types.Object]bool{}
	work := []types.Object{obj}
	for len(work) > 0 {
		o := work[len(work)-1]
		work = work[:len(work)-1]
		for _, s := range edges[o] {
			if !out[s] && s != obj {
				out[s] = true
				work = append(work, s)
			}
		}
	}
	return out
}

// isObjOrSource: the expression is obj or a variable whose value is copied into obj.
func isObjOrSource(f *chk.Fn, obj types.Object) func(ast.Expr) bool {
	src := flowSources(f, obj)
	return func(e ast.Expr) bool {
		if f.Denotes(e, obj) {
			return true
		}
		o := f.ObjOf(e)
		return o != nil && src[o]
	}
}

// monotone: rhs is `F || x` / `x || F` (returns LOR) or `F && x` / `x && F` (returns LAND) for the variable F.
func monotone(f *chk.Fn, fl types.Object, rhs ast.Expr) token.Token {
	be, ok := ast.Unparen(rhs).(*ast.BinaryExpr)
	if !ok || (be.Op != token.LOR && be.Op != token.LAND) {
		return token.ILLEGAL
	}
	if f.ObjOf(be.X) == fl || f.ObjOf(be.Y) == fl {
		return be.Op
	}
	return token.ILLEGAL
}

// scratchRule: no slice is truncated in place (x = x[:0]) while its value is still referenced elsewhere.
func scratchRule(p *chk.Prog, r *chk.Report, pkgs ...string) {
	x := r.Rule("NO-ALIAS-REUSE", "D ownership (escape)", "no slice is truncated in place (`x = x[:0]`) in "+strings.Join(pkgs, ", ")+" while its previous value escapes (stored into a literal or field, returned, passed on): the holder of the old value would observe the new elements (two configurations that must differ compare equal, or an earlier record shows a later one's data)", 0)
	n := 0
	for _, sr := range p.ScratchReuses(pkgs...) {
		n++
		x.Fail("reuse:"+sr.Fn.Name()+":"+types.ExprString(sr.Reset.(*ast.AssignStmt).Lhs[0]), sr.Reset.Pos(), "the slice is reset in place although its value is still referenced through "+p.Rel(sr.Escape.Pos()))
	}
	if n == 0 {
		x.OK("no-in-place-reuse-of-escaping-slices", 0, "")
	}
}

// loopLeavesEarly reports whether the loop can be left before its last element: a
// break / goto out of it, or a return inside its body (function literals excluded).
func loopLeavesEarly(f *chk.Fn, g *chk.Graph, rs *ast.RangeStmt) bool {
	if loopHasBreak(g, rs) {
		return true
	}
	early := false
	chk.InspectNoLit(rs.Body, func(n ast.Node) bool {
		switch s := n.(type) {
		case *ast.ReturnStmt:
			early = true
		case *ast.BranchStmt:
			if s.Tok == token.GOTO && s.Label != nil {
				// a goto whose label lies inside the body (an expanded helper's return) stays in the iteration
				inside := false
				ast.Inspect(rs.Body, func(m ast.Node) bool {
					if ls, ok := m.(*ast.LabeledStmt); ok && ls.Label.Name == s.Label.Name {
						inside = true
					}
					return !inside
				})
				if !inside {
					early = true
				}
			}
		}
		return !early
	})
	return early
}

// keyedAccumulatorRule: inside a loop, a fresh container is stored under M[K] only when the key is absent; otherwise
// what earlier iterations accumulated under the same key is thrown away (the result then depends on iteration order).
func keyedAccumulatorRule(x *chk.R, p *chk.Prog, pkgs ...string) int {
	n := 0
	for _, pk := range pkgs {
		for _, f := range p.FuncsIn(pk) {
			g := f.Graph()
			for _, s := range g.Find(func(nd ast.Node) bool {
				as, ok := nd.(*ast.AssignStmt)
				if !ok || len(as.Lhs) != 1 || len(as.Rhs) != 1 || as.Tok != token.ASSIGN {
					return false
				}
				ix, ok := ast.Unparen(as.Lhs[0]).(*ast.IndexExpr)
				if !ok || f.LoopOf(nd) == nil {
					return false
				}
				if _, isMap := f.Info().TypeOf(ix.X).Underlying().(*types.Map); !isMap {
					return false
				}
				if isFreshContainer(f, as.Rhs[0]) {
					return true
				}
				// M[k] = s where s was just made: `s = sets.New(); M[k] = s`
				if id, isId := ast.Unparen(as.Rhs[0]).(*ast.Ident); isId {
					if rhs, idx := g.DefOf(id, g.FactSite(id)); rhs != nil && idx == 0 && isFreshContainer(f, rhs) {
						return true
					}
				}
				return false
			}) {
				as := s.Node.(*ast.AssignStmt)
				ix := ast.Unparen(as.Lhs[0]).(*ast.IndexExpr)
				sameM := func(e ast.Expr) bool { return f.SameExpr(e, ix.X) }
				sameK := func(e ast.Expr) bool { return f.SameExpr(e, ix.Index) }
				// a local that stands for the entry: looked up from M[..] or stored into it
				entryVar := func(e ast.Expr) bool {
					id, isId := ast.Unparen(e).(*ast.Ident)
					if !isId || f.ObjOf(id) == nil {
						return false
					}
					o := f.ObjOf(id)
					found := false
					ast.Inspect(f.Body, func(nd ast.Node) bool {
						a2, ok := nd.(*ast.AssignStmt)
						if !ok || found {
							return !found
						}
						if len(a2.Rhs) == 1 && len(a2.Lhs) >= 1 {
							if l, isL := ast.Unparen(a2.Lhs[0]).(*ast.Ident); isL && f.ObjOf(l) == o {
								if rx, isIx := ast.Unparen(a2.Rhs[0]).(*ast.IndexExpr); isIx && sameM(rx.X) {
									found = true
								}
							}
							if lx, isIx := ast.Unparen(a2.Lhs[0]).(*ast.IndexExpr); isIx && len(a2.Lhs) == 1 && sameM(lx.X) {
								if r, isR := ast.Unparen(a2.Rhs[0]).(*ast.Ident); isR && f.ObjOf(r) == o {
									found = true
								}
							}
						}
						return true
					})
					return found
				}
				// is the entry accumulated into elsewhere in the function?
				acc := len(g.FindPat("M[K].Insert(ETC)", chk.H("M", sameM))) > 0 ||
					len(g.FindPat("V.Insert(ETC)", chk.H("V", entryVar))) > 0 ||
					len(g.Find(f.IsAssignPat("V", "append(V, ETC)", chk.H("V", entryVar)))) > 0 ||
					len(g.Find(f.IsAssignPat("M[K]", "append(M[K], ETC)", chk.H("M", sameM)))) > 0 ||
					len(g.Find(func(nd ast.Node) bool {
						a2, ok := nd.(*ast.AssignStmt)
						if !ok || len(a2.Lhs) != 1 {
							return false
						}
						outer, ok := ast.Unparen(a2.Lhs[0]).(*ast.IndexExpr)
						if !ok {
							return false
						}
						inner, ok := ast.Unparen(outer.X).(*ast.IndexExpr)
						return ok && sameM(inner.X)
					})) > 0
				if !acc {
					continue
				}
				// nothing is ever read back from the map in this function (no M[..] outside the left side of a store, no range
				// over it): what is stored was filled before the store, within the iteration that made it - there is nothing
				// accumulated under the key that the store could lose
				readBack := false
				stores := map[ast.Expr]bool{}
				ast.Inspect(f.Body, func(nd ast.Node) bool {
					switch y := nd.(type) {
					case *ast.AssignStmt:
						for _, l := range y.Lhs {
							stores[ast.Unparen(l)] = true
						}
					case *ast.IndexExpr:
						if sameM(y.X) && !stores[ast.Expr(y)] {
							readBack = true
						}
					case *ast.RangeStmt:
						if sameM(y.X) {
							readBack = true
						}
					}
					return true
				})
				if !readBack {
					continue
				}
				n++
				absent := chk.GOr(keyAbsent(f, g, sameM, sameK), g.GPat(true, "len(M[K]) == 0", chk.H("M", sameM), chk.H("K", sameK)))
				x.Check("fresh-entry-only-when-absent:"+f.Name()+":"+types.ExprString(ix.X), s.Pos(), g.Dominated(s, absent), "",
					"a fresh container is stored under "+types.ExprString(as.Lhs[0])+" although the key may already hold accumulated entries (they are lost; which ones depends on iteration order)")
			}
		}
	}
	return n
}

// keyAbsent: "the map holds nothing under the key", however it is asked: the comma-ok result of M[K] is false, M[K] is
// nil, or the value looked up from M[K] is nil (maps whose values are never nil).
func keyAbsent(f *chk.Fn, g *chk.Graph, sameM, sameK func(ast.Expr) bool) chk.Guard {
	okVar := func(e ast.Expr) bool {
		id, isId := ast.Unparen(e).(*ast.Ident)
		if !isId {
			return false
		}
		rhs, idx := g.DefOf(id, g.FactSite(id))
		return rhs != nil && idx == 1 && f.MatchWith("M[K]", rhs, chk.H("M", sameM), chk.H("K", sameK)) != nil
	}
	return chk.GOr(chk.GBool(false, okVar), g.GPat(true, "M[K] == nil", chk.H("M", sameM), chk.H("K", sameK)),
		g.GPat(true, "V == nil", chk.H("V", definedBy(g, "M[K]", chk.H("M", sameM), chk.H("K", sameK)))))
}

func isFreshContainer(f *chk.Fn, e ast.Expr) bool {
	switch v := ast.Unparen(e).(type) {
	case *ast.CompositeLit:
		switch f.Info().TypeOf(v).Underlying().(type) {
		case *types.Map, *types.Slice:
			return true
		}
	case *ast.CallExpr:
		if id, ok := v.Fun.(*ast.Ident); ok && id.Name == "make" {
			return true
		}
		if fn, ok := f.Callee(v).(*types.Func); ok && fn.Pkg() != nil && fn.Pkg().Path() == "k8s.io/apimachinery/pkg/util/sets" && fn.Name() == "New" {
			return true
		}
	}
	return false
}

// cidrContainmentRule (shared by C02 and C08): pools must be pairwise disjoint, which rests on
// config.cidrContainsCIDR being exactly "same length and same network, or shorter prefix that contains the other's
// base address" and on cidrsOverlap testing it in both directions.
func cidrContainmentRule(p *chk.Prog, r *chk.Report) {
	x := r.Rule("CIDR-CONTAINS", "B path (truth table)", "config.cidrContainsCIDR(outer, inner) is `(ol == il && outer.IP.Equal(inner.IP)) || (ol < il && outer.Contains(inner.IP))` for the two prefix lengths - no other condition decides; the overlap test at its use is containment in both directions (VALIDATED-ACCUMULATOR)", 1)
	f := need(x, p, cfgPkg, "", "cidrContainsCIDR")
	if f != nil {
		g := f.Graph()
		outer, inner := isParamIdx(f, 0), isParamIdx(f, 1)
		ol := definedByIdx(g, f, "O.Mask.Size()", 0, chk.H("O", outer))
		il := definedByIdx(g, f, "I.Mask.Size()", 0, chk.H("I", inner))
		spec := chk.GOr(
			chk.GAnd(g.GPat(true, "A == B", chk.H("A", ol), chk.H("B", il)), g.GPat(true, "O.IP.Equal(I.IP)", chk.H("O", outer), chk.H("I", inner))),
			chk.GAnd(g.GPat(true, "A < B", chk.H("A", ol), chk.H("B", il)), g.GPat(true, "O.Contains(I.IP)", chk.H("O", outer), chk.H("I", inner))))
		why := g.BoolResultIs(spec)
		x.Check("cidrContainsCIDR:truth-table", f.Pos(), why == "", "", "cidrContainsCIDR is not exactly `same length and same network, or shorter prefix containing the other's base address`: "+why)
	}
}

// definedByIdx: the expression is a local defined as result idx of a tuple-valued expression matching pat.
func definedByIdx(g *chk.Graph, f *chk.Fn, pat string, idx int, checks ...chk.HoleCheck) func(ast.Expr) bool {
	return func(e ast.Expr) bool {
		id, ok := ast.Unparen(e).(*ast.Ident)
		if !ok {
			return false
		}
		rhs, i := g.DefOf(id, g.FactSite(id))
		return rhs != nil && i == idx && f.MatchWith(pat, rhs, checks...) != nil
	}
}

// nodeExclusionRule (shared by C04, C09, C10, C12): a node is excluded from load balancers exactly when it carries the
// exclusion label, whatever the label's value.
func nodeExclusionRule(p *chk.Prog, r *chk.Report) {
	x := r.Rule("NODE-EXCLUDED", "B path (truth table)", "nodes.IsNodeExcludedFromBalancers(n) is true exactly when n is not nil and n.Labels has the key node.kubernetes.io/exclude-from-external-load-balancers (comma-ok of the map lookup; the value does not matter)", 1)
	f := need(x, p, "internal/k8s/nodes", "", "IsNodeExcludedFromBalancers")
	if f == nil {
		return
	}
	g := f.Graph()
	n := isParamIdx(f, 0)
	has := chk.GBool(true, func(e ast.Expr) bool {
		id, ok := ast.Unparen(e).(*ast.Ident)
		if !ok {
			return false
		}
		rhs, idx := g.DefOf(id, g.FactSite(id))
		return rhs != nil && idx == 1 && f.MatchWith("N.Labels[K]", rhs, chk.H("N", n), chk.H("K", constStr(f, "node.kubernetes.io/exclude-from-external-load-balancers"))) != nil
	})
	// or through the API machinery's own presence test: metav1.HasLabel(n.ObjectMeta, key) is `_, ok := Labels[key]`
	has = chk.GSame(has, g.GPat(true, "metav1.HasLabel(N.ObjectMeta, K)", chk.H("N", n), chk.H("K", constStr(f, "node.kubernetes.io/exclude-from-external-load-balancers"))))
	spec := chk.GAnd(g.GPat(false, "N == nil", chk.H("N", n)), has)
	why := g.BoolResultIs(spec)
	if why != "" {
		// the nil test folded into a nil-safe accessor: the lookup is made in a local that is N.Labels, or nil where N is nil
		// (a lookup in a nil map finds nothing, which is the answer for a nil node)
		key := chk.H("K", constStr(f, "node.kubernetes.io/exclude-from-external-load-balancers"))
		isNil := g.GPat(true, "N == nil", chk.H("N", n))
		hasSafe := chk.GBool(true, func(e ast.Expr) bool {
			id, ok := ast.Unparen(e).(*ast.Ident)
			if !ok {
				return false
			}
			rhs, idx := g.DefOf(id, g.FactSite(id))
			if rhs == nil || idx != 1 {
				return false
			}
			m := f.MatchWith("M[K]", rhs, key)
			if m == nil {
				return false
			}
			mid, isId := ast.Unparen(m["M"]).(*ast.Ident)
			if !isId {
				return false
			}
			vals, okv := g.ReachingValues(mid, g.FactSite(mid))
			if !okv {
				return false
			}
			labels := 0
			for _, v := range vals {
				switch {
				case v.Rhs != nil && f.MatchWith("N.Labels", v.Rhs, chk.H("N", n)) != nil:
					labels++
				case v.Rhs != nil && f.IsNilLit(v.Rhs) && g.Dominated(v.Def, isNil):
				default:
					return false
				}
			}
			return labels > 0
		})
		if g.BoolResultIs(hasSafe) == "" {
			why = ""
		}
	}
	x.Check("IsNodeExcludedFromBalancers:label-presence", f.Pos(), why == "", "", "the exclusion of a node does not depend on the presence of the label alone: "+why)
}

// assignCommitsRule (shared by C01, C03, C07, C11): a successful Allocator.Assign has recorded the allocation; there
// is no success path around the raw assign (the ports / keys recorded would be stale).
func assignCommitsRule(p *chk.Prog, r *chk.Report) {
	x := r.Rule("ASSIGN-COMMITS", "B path", "every `return nil` of (*Allocator).Assign is reached only through a.assign(svcKey, alloc) (no fast path that leaves the recorded ports, keys and counters as they were)", 1)
	f := need(x, p, allocPkg, "Allocator", "Assign")
	if f == nil {
		return
	}
	g := f.Graph()
	w := g.MustPass(chk.Site{}, func(n ast.Node) bool {
		rs, ok := n.(*ast.ReturnStmt)
		return ok && len(rs.Results) == 1 && f.IsNilLit(rs.Results[0])
	}, false, f.ContainsPat("RECV.assign(K, AL)", chk.H("K", isParamIdx(f, 0))))
	x.Check("Assign:success-needs-assign", posOf(w, f), !w.Found, "", "Assign can report success without recording the allocation (the service's ports / sharing key / pool counters keep their previous values)")
}

// pureCheckRule: the listed functions have no effect outside their own locals. A store is local when its target is an
// identifier declared in the function (not a parameter that is a pointer / map / slice being written through), or an
// element / field of a value created in the function (a composite literal, make, new or append result held in a local).
func pureCheckRule(p *chk.Prog, x *chk.R, fns [][3]string) {
	pureCheckRuleMsg(p, x, fns, " changes state that outlives the call (a recorded sharing key, an allocation, a pool): a check that is also run for candidates that are not taken must not have effects")
}

func pureCheckRuleMsg(p *chk.Prog, x *chk.R, fns [][3]string, msg string) {
	for _, fn := range fns {
		f := p.LookupFunc(fn[0], fn[1], fn[2])
		if f == nil && fn[2] == "sharingOK" {
			f = c01ShareFnOnly(p) // renamed or turned into a method: found by its role in checkSharing
		}
		if f == nil {
			continue // folded into its callers: nothing to judge here (the callers' rules apply)
		}
		localValue := func(e ast.Expr) bool {
			// the root of the written place is a local that holds a value made here
			root := e
			for {
				switch v := ast.Unparen(root).(type) {
				case *ast.SelectorExpr:
					root = v.X
					continue
				case *ast.IndexExpr:
					root = v.X
					continue
				case *ast.StarExpr:
					root = v.X
					continue
				}
				break
			}
			id, ok := ast.Unparen(root).(*ast.Ident)
			if !ok {
				return false
			}
			v, ok := f.ObjOf(id).(*types.Var)
			if !ok || v.IsField() || v.Pkg() == nil || v.Parent() == v.Pkg().Scope() {
				return false
			}
			if !(f.Body.Pos() <= v.Pos() && v.Pos() <= f.Body.End()) {
				return false // a parameter or the receiver
			}
			if ast.Unparen(e) == ast.Expr(id) {
				return true // the local variable itself
			}
			// every value the local ever holds was created in this function
			as := assignsTo(f, v)
			if len(as) == 0 {
				// declared with var / := only: look at the declaration
				return declaredFresh(f, v)
			}
			for _, a := range as {
				st, isAs := a.(*ast.AssignStmt)
				if !isAs || len(st.Lhs) != len(st.Rhs) {
					return false
				}
				for i, l := range st.Lhs {
					if lid, isId := l.(*ast.Ident); isId && f.ObjOf(lid) == types.Object(v) && !freshValue(f, st.Rhs[i], v) {
						return false
					}
				}
			}
			return true
		}
		var bad ast.Node
		chk.InspectNoLit(f.Body, func(n ast.Node) bool {
			if bad != nil {
				return false
			}
			switch st := n.(type) {
			case *ast.AssignStmt:
				for _, l := range st.Lhs {
					if id, isId := ast.Unparen(l).(*ast.Ident); isId && id.Name == "_" {
						continue
					}
					if !localValue(l) {
						bad = st
					}
				}
			case *ast.IncDecStmt:
				if !localValue(st.X) {
					bad = st
				}
			case *ast.CallExpr:
				if id, isId := st.Fun.(*ast.Ident); isId && (id.Name == "delete" || id.Name == "clear") {
					if _, isB := f.Info().Uses[id].(*types.Builtin); isB && len(st.Args) > 0 && !localValue(st.Args[0]) {
						bad = st
					}
				}
			case *ast.SendStmt:
				bad = st
			}
			return true
		})
		pos := f.Pos()
		if bad != nil {
			pos = bad.Pos()
		}
		x.Check(fn[2]+":no-store-outside-locals", pos, bad == nil, "", fn[2]+msg)
	}
}

// declaredFresh: the variable is declared by `var v T` (zero value) or `v := <fresh value>`.
func declaredFresh(f *chk.Fn, v *types.Var) bool {
	ok := false
	ast.Inspect(f.Body, func(n ast.Node) bool {
		switch st := n.(type) {
		case *ast.ValueSpec:
			for i, nm := range st.Names {
				if f.Info().Defs[nm] == types.Object(v) {
					ok = len(st.Values) == 0 || (i < len(st.Values) && freshValue(f, st.Values[i], v))
				}
			}
		case *ast.AssignStmt:
			if st.Tok == token.DEFINE && len(st.Lhs) == len(st.Rhs) {
				for i, l := range st.Lhs {
					if id, isId := l.(*ast.Ident); isId && f.Info().Defs[id] == types.Object(v) {
						ok = freshValue(f, st.Rhs[i], v)
					}
				}
			}
		}
		return true
	})
	return ok
}

// freshValue: the expression creates its value here (literal, make, new, a constant, nil) or extends the same local by
// append; anything loaded from elsewhere (a parameter's field, a map element) is not fresh.
func freshValue(f *chk.Fn, e ast.Expr, self *types.Var) bool {
	e = ast.Unparen(e)
	if f.IsNilLit(e) || f.ConstVal(e) != nil {
		return true
	}
	switch v := e.(type) {
	case *ast.CompositeLit, *ast.FuncLit, *ast.BasicLit:
		return true
	case *ast.UnaryExpr:
		if v.Op == token.AND {
			_, isLit := ast.Unparen(v.X).(*ast.CompositeLit)
			return isLit
		}
	case *ast.CallExpr:
		if id, ok := v.Fun.(*ast.Ident); ok {
			if _, isB := f.Info().Uses[id].(*types.Builtin); isB {
				switch id.Name {
				case "make", "new":
					return true
				case "append":
					return len(v.Args) > 0 && (f.ObjOf(ast.Unparen(v.Args[0])) == types.Object(self) || freshValue(f, v.Args[0], self))
				}
			}
		}
		// the result of a call is a value of its own unless it is a pointer / map / slice (which may alias state)
		if tv, ok := f.Info().Types[e]; ok && tv.Type != nil {
			switch tv.Type.Underlying().(type) {
			case *types.Pointer, *types.Map, *types.Slice, *types.Chan, *types.Interface:
				return false
			}
			return true
		}
	case *ast.Ident, *ast.SelectorExpr, *ast.IndexExpr, *ast.StarExpr, *ast.BinaryExpr:
		// a copied value: fresh when it cannot alias (not pointer-like)
		if tv, ok := f.Info().Types[e]; ok && tv.Type != nil {
			switch tv.Type.Underlying().(type) {
			case *types.Pointer, *types.Map, *types.Slice, *types.Chan, *types.Interface, *types.Signature:
				return false
			}
			return true
		}
	}
	return false
}

// ---- values followed across call boundaries (request objects, hoisted arguments) ------------------------------------

// xleaf is where a value followed backwards ends: an expression of a function that is not a plain copy of something
// else (a parameter of a function without callers, a literal, a call result ...).
type xleaf struct {
	Fn *chk.Fn
	E  ast.Expr
}

// crossLeaves follows e (in f) backwards through local definitions, fields of structs built in place (`req :=
// &T{a: x}; req.a`), address-of, and - when it ends at a parameter of f - through the arguments of every static caller
// of f, recursively (bounded). path is a pending field path (innermost last) to apply once a struct literal is reached.
func crossLeaves(p *chk.Prog, f *chk.Fn, e ast.Expr, path []string, depth int) []xleaf {
	if e == nil {
		return nil
	}
	if depth > 5 {
		return []xleaf{{f, e}}
	}
	e = ast.Unparen(f.Resolve(e))
	switch v := e.(type) {
	case *ast.UnaryExpr:
		if v.Op == token.AND {
			return crossLeaves(p, f, v.X, path, depth)
		}
	case *ast.StarExpr:
		return crossLeaves(p, f, v.X, path, depth)
	case *ast.SelectorExpr:
		if fld, ok := f.Info().Uses[v.Sel].(*types.Var); ok && fld.IsField() {
			return crossLeaves(p, f, v.X, append(append([]string{}, path...), v.Sel.Name), depth)
		}
	case *ast.CompositeLit:
		if len(path) > 0 {
			want := path[len(path)-1]
			for _, el := range v.Elts {
				if kv, ok := el.(*ast.KeyValueExpr); ok {
					if k, isId := kv.Key.(*ast.Ident); isId && k.Name == want {
						return crossLeaves(p, f, kv.Value, path[:len(path)-1], depth)
					}
				}
			}
			return []xleaf{{f, e}} // field not set: zero value
		}
	case *ast.Ident:
		if f.Type != nil && f.Type.Params != nil && f.Obj != nil {
			idx, k := -1, 0
			var pobj types.Object
			for _, fld := range f.Type.Params.List {
				for _, nm := range fld.Names {
					if f.Info().Defs[nm] == f.ObjOf(v) && f.ObjOf(v) != nil {
						idx, pobj = k, f.ObjOf(v)
					}
					k++
				}
				if len(fld.Names) == 0 {
					k++
				}
			}
			if idx >= 0 && len(assignsTo(f, pobj)) == 0 && len(path) > 0 {
				callers := p.CallersOf(f)
				if len(callers) > 0 {
					var out []xleaf
					for _, cs := range callers {
						if idx >= len(cs.Call.Args) || cs.Call.Ellipsis.IsValid() {
							return []xleaf{{f, e}}
						}
						out = append(out, crossLeaves(p, cs.Fn, cs.Call.Args[idx], path, depth+1)...)
					}
					return out
				}
			}
		}
	}
	if len(path) > 0 {
		return []xleaf{{f, nil}} // a field of something that is not seen through
	}
	return []xleaf{{f, e}}
}

// crossParam: e is (a copy of) a parameter named one of names - of f itself, or, for a field of a request object that f
// was handed, of every function that built that object.
func crossParam(p *chk.Prog, f *chk.Fn, names ...string) func(ast.Expr) bool {
	return func(e ast.Expr) bool {
		for _, n := range names {
			if f.ParamNamed(n) != nil && isParam(f, n)(e) {
				return true
			}
		}
		leaves := crossLeaves(p, f, e, nil, 0)
		if len(leaves) == 0 {
			return false
		}
		for _, l := range leaves {
			ok := false
			if l.E != nil {
				for _, n := range names {
					if l.Fn.ParamNamed(n) != nil && isParam(l.Fn, n)(l.E) {
						ok = true
					}
				}
			}
			if !ok {
				return false
			}
		}
		return true
	}
}

// paramsInResults: the parameters the function's results depend on by data flow - mentioned in a returned expression, or
// in some assignment to a local that is (transitively) mentioned there. Control dependence is not followed.
func paramsInResults(f *chk.Fn) map[types.Object]bool {
	params := map[types.Object]bool{}
	if f.Type.Params != nil {
		for _, fld := range f.Type.Params.List {
			for _, nm := range fld.Names {
				if o := f.Info().Defs[nm]; o != nil {
					params[o] = true
				}
			}
		}
	}
	seen := map[types.Object]bool{}
	out := map[types.Object]bool{}
	var visit func(e ast.Node)
	visit = func(e ast.Node) {
		ast.Inspect(e, func(n ast.Node) bool {
			id, ok := n.(*ast.Ident)
			if !ok {
				return true
			}
			o := f.ObjOf(id)
			v, isVar := o.(*types.Var)
			if !isVar || v.IsField() || seen[o] {
				return true
			}
			seen[o] = true
			if params[o] {
				out[o] = true
				return true
			}
			for _, d := range assignsTo(f, o) {
				if as, isAs := d.(*ast.AssignStmt); isAs {
					for _, r := range as.Rhs {
						visit(r)
					}
				}
			}
			return true
		})
	}
	ast.Inspect(f.Body, func(n ast.Node) bool {
		if _, isLit := n.(*ast.FuncLit); isLit {
			return false
		}
		if rs, ok := n.(*ast.ReturnStmt); ok {
			for _, r := range rs.Results {
				visit(r)
			}
		}
		return true
	})
	return out
}

// appendSameKeyRule: an accumulation `M[k1] = append(M[k2], v)` reads and writes the same entry: k1 and k2 are the same
// expression over the same values. (A different key on the read side restarts the entry from another one - or from
// nothing - every time.)
func appendSameKeyRule(x *chk.R, p *chk.Prog, pkgs ...string) int {
	n := 0
	for _, pk := range pkgs {
		for _, f := range p.FuncsIn(pk) {
			if f.Body == nil {
				continue
			}
			ast.Inspect(f.Body, func(nd ast.Node) bool {
				as, ok := nd.(*ast.AssignStmt)
				if !ok || len(as.Lhs) != 1 || len(as.Rhs) != 1 {
					return true
				}
				lx, ok := ast.Unparen(as.Lhs[0]).(*ast.IndexExpr)
				if !ok {
					return true
				}
				if _, isMap := f.Info().TypeOf(lx.X).Underlying().(*types.Map); !isMap {
					return true
				}
				call, ok := ast.Unparen(as.Rhs[0]).(*ast.CallExpr)
				if !ok || len(call.Args) < 2 {
					return true
				}
				if id, isId := call.Fun.(*ast.Ident); !isId || id.Name != "append" {
					return true
				}
				rx, ok := ast.Unparen(call.Args[0]).(*ast.IndexExpr)
				if !ok || !f.SameExpr(rx.X, lx.X) {
					return true
				}
				n++
				x.Check("append-same-entry:"+f.Name()+":"+types.ExprString(lx.X), as.Pos(), f.SameExpr(lx.Index, rx.Index), "",
					"the entry "+types.ExprString(as.Lhs[0])+" is rebuilt from "+types.ExprString(call.Args[0])+", a different entry: what was accumulated under the written key is lost")
				return true
			})
		}
	}
	return n
}

// scanLeftEarly: the loop that contains the node, or a loop around it, can be left before its last element: a return,
// a break (of this loop or of one around it), a continue of a loop around it, or a goto out of the body. It returns
// the offending statement or nil. Statements inside function literals do not count.
func scanLeftEarly(f *chk.Fn, inner ast.Node) ast.Node {
	var loops []ast.Stmt
	if s, ok := inner.(*ast.RangeStmt); ok {
		loops = append(loops, s)
	} else if s, ok := inner.(*ast.ForStmt); ok {
		loops = append(loops, s)
	}
	for l := f.LoopOf(inner); l != nil; l = f.LoopOf(l) {
		loops = append(loops, l)
	}
	for _, l := range loops {
		var body *ast.BlockStmt
		switch x := l.(type) {
		case *ast.RangeStmt:
			body = x.Body
		case *ast.ForStmt:
			body = x.Body
		}
		own := ""
		if ls, ok := f.Prog.Parent(l).(*ast.LabeledStmt); ok {
			own = ls.Label.Name
		}
		inside := map[string]bool{}
		ast.Inspect(body, func(n ast.Node) bool {
			if ls, ok := n.(*ast.LabeledStmt); ok {
				inside[ls.Label.Name] = true
			}
			return true
		})
		var bad ast.Node
		var visit func(root ast.Node, breakable bool)
		visit = func(root ast.Node, breakable bool) {
			ast.Inspect(root, func(n ast.Node) bool {
				if bad != nil || n == nil {
					return false
				}
				if n == root {
					return true
				}
				switch x := n.(type) {
				case *ast.FuncLit:
					return false
				case *ast.ForStmt, *ast.RangeStmt, *ast.SwitchStmt, *ast.TypeSwitchStmt, *ast.SelectStmt:
					visit(n, true)
					return false
				case *ast.ReturnStmt:
					bad = x
				case *ast.BranchStmt:
					switch x.Tok {
					case token.BREAK:
						if x.Label == nil && !breakable || x.Label != nil && !inside[x.Label.Name] {
							bad = x
						}
					case token.CONTINUE:
						if x.Label != nil && x.Label.Name != own && !inside[x.Label.Name] {
							bad = x
						}
					case token.GOTO:
						if x.Label != nil && !inside[x.Label.Name] {
							bad = x
						}
					}
				}
				return true
			})
		}
		visit(body, false)
		if bad != nil {
			return bad
		}
	}
	return nil
}

// litFieldPlace: the expression is the field `field` of a value of the named struct type (x.field), or a local variable
// that is handed over as that field in the only composite literal of the type in the function (`T{field: local}`): the
// same place under construction, whether the struct is filled field by field or built at the end from locals.
func litFieldPlace(f *chk.Fn, typ *types.Named, field string) func(ast.Expr) bool {
	var locals []types.Object
	nlit := 0
	if typ != nil && f.Body != nil {
		ast.Inspect(f.Body, func(n ast.Node) bool {
			cl, ok := n.(*ast.CompositeLit)
			if !ok {
				return true
			}
			t := f.Info().TypeOf(cl)
			if t == nil || !types.Identical(t, typ) {
				return true
			}
			nlit++
			for _, e := range cl.Elts {
				kv, ok := e.(*ast.KeyValueExpr)
				if !ok {
					continue
				}
				if k, ok := kv.Key.(*ast.Ident); ok && k.Name == field {
					if id, ok := ast.Unparen(kv.Value).(*ast.Ident); ok {
						if v, isVar := f.ObjOf(id).(*types.Var); isVar && !v.IsField() && v.Pos() > f.Body.Pos() {
							locals = append(locals, v)
						}
					}
				}
			}
			return true
		})
	}
	return func(e ast.Expr) bool {
		if sel, ok := ast.Unparen(e).(*ast.SelectorExpr); ok && sel.Sel.Name == field {
			if s, isSel := f.Info().Selections[sel]; isSel && s.Kind() == types.FieldVal {
				rt := s.Recv()
				if pt, isPtr := rt.Underlying().(*types.Pointer); isPtr {
					rt = pt.Elem()
				}
				return typ == nil || types.Identical(rt, typ)
			}
			return false
		}
		if nlit != 1 {
			return false
		}
		if id, ok := ast.Unparen(e).(*ast.Ident); ok {
			for _, l := range locals {
				if f.ObjOf(id) == l {
					return true
				}
			}
		}
		return false
	}
}

// mapWalk is a loop that visits every entry of a map: `for k, v := range M`, or `for _, k := range KEYS` over a local
// list that holds exactly the keys of M (a snapshot taken because the body changes M), the entry being M[k].
type mapWalk struct {
	rs       *ast.RangeStmt
	key, val func(ast.Expr) bool
}

func mapWalks(f *chk.Fn, g *chk.Graph, isMap func(ast.Expr) bool) []mapWalk {
	var out []mapWalk
	for _, rs := range f.RangeLoops(func(ast.Expr) bool { return true }) {
		if isMap(rs.X) {
			// a loop that only collects the keys is the first half of a snapshot walk, not a walk of its own
			if len(rs.Body.List) == 1 && rs.Value == nil {
				if as, ok := rs.Body.List[0].(*ast.AssignStmt); ok && len(as.Rhs) == 1 && f.MatchWith("append(L, K)", as.Rhs[0], chk.H("K", rangeKey(f, rs))) != nil {
					continue
				}
			}
			out = append(out, mapWalk{rs, rangeKey(f, rs), rangeVal(f, rs)})
			continue
		}
		if _, isSlice := f.Info().TypeOf(rs.X).Underlying().(*types.Slice); !isSlice {
			continue
		}
		list := rs.X
		if rid, isId := ast.Unparen(f.Resolve(list)).(*ast.Ident); isId {
			list = rid // a plain copy of the collected list
		}
		if filteredKeys(f, g, list, isMap, func(*ast.RangeStmt, bool) chk.Guard { return chk.NoGuard }) {
			key := rangeVal(f, rs)
			out = append(out, mapWalk{rs, key, definedBy(g, "M[K]", chk.H("M", isMap), chk.H("K", key))})
		}
	}
	return out
}

// sharedConfigRule (shared by C20 and C18): the parsed configuration is shared, not copied: the reconcilers keep the
// value they delivered last and compare every newly parsed configuration with it (reflect.DeepEqual) on their own
// goroutine, without the handlers' lock, while the handlers work on the very same objects under the lock. Both only
// hold together if nothing outside package internal/config ever stores into a configuration value: a store is a data
// race with that comparison, and afterwards the remembered configuration never equals a freshly parsed one, so every
// event looks like a configuration change. Decided syntactically over every function of the module outside
// internal/config (tests and e2e tooling excluded):
//
//	(a) no assignment, ++/--, delete or clear whose target is a field or element reached through a value of a type
//	    declared in internal/config;
//	(b) ipaddr.NewPrefix - which rewrites the IP of the network it is given - is only handed the address of a network
//	    built or copied in the calling function (&net.IPNet{...} or the address of a local value);
//	(c) no in-place sort / reverse of a slice reached through such a value.
func sharedConfigRule(p *chk.Prog, r *chk.Report) {
	x := r.Rule("SHARED-CONFIG", "D ownership (effects)", "outside package internal/config nothing stores into a configuration value (a type declared in internal/config, or a net.IPNet handed to ipaddr.NewPrefix, which rewrites its IP): no assignment / ++ / delete through a config-typed value, ipaddr.NewPrefix only on the address of a network built or copied locally, no in-place sort of a slice reached through a config value. The reconcilers compare the configuration they delivered last with every new one by reflect.DeepEqual without the handlers' lock", 1)
	cfgPath := chk.Module + "/" + cfgPkg
	isCfgType := func(t types.Type) bool {
		for i := 0; i < 3 && t != nil; i++ {
			if pt, ok := t.(*types.Pointer); ok {
				t = pt.Elem()
				continue
			}
			break
		}
		n, ok := t.(*types.Named)
		return ok && n.Obj().Pkg() != nil && n.Obj().Pkg().Path() == cfgPath
	}
	// reachedThroughConfig: some prefix of the access path has a configuration type
	var through func(f *chk.Fn, e ast.Expr) bool
	through = func(f *chk.Fn, e ast.Expr) bool {
		e = ast.Unparen(e)
		switch v := e.(type) {
		case *ast.SelectorExpr:
			if id, isId := ast.Unparen(v.X).(*ast.Ident); isId {
				if _, isPkg := f.Info().Uses[id].(*types.PkgName); isPkg {
					return false
				}
			}
			return isCfgType(f.Info().TypeOf(v.X)) || through(f, v.X)
		case *ast.IndexExpr:
			return isCfgType(f.Info().TypeOf(v.X)) || through(f, v.X)
		case *ast.StarExpr:
			return isCfgType(f.Info().TypeOf(v.X)) || through(f, v.X)
		case *ast.SliceExpr:
			return through(f, v.X)
		}
		return false
	}
	nSites := 0
	for _, f := range p.Funcs() {
		if f.Decl == nil || f.Pkg == nil || f.Body == nil {
			continue
		}
		pp := f.Pkg.PkgPath
		if pp == cfgPath || strings.HasPrefix(pp, cfgPath+"/") || strings.Contains(pp, "/e2etest") || strings.HasSuffix(pp, "/configmaptocrs") || strings.HasSuffix(p.Fset.Position(f.Decl.Pos()).Filename, "_test.go") {
			continue // the parser itself; test tooling; the offline ConfigMap converter (no reconcilers)
		}
		f := f
		throughShared := through
		// a struct value held in a local of this function is a copy: storing into its fields changes the copy (what the
		// copy still shares through maps, slices and pointers is not tracked - see DESIGN)
		through := func(f2 *chk.Fn, e ast.Expr) bool {
			root := ast.Unparen(e)
			for {
				switch v := root.(type) {
				case *ast.SelectorExpr:
					root = ast.Unparen(v.X)
					continue
				case *ast.IndexExpr:
					root = ast.Unparen(v.X)
					continue
				}
				break
			}
			if id, isId := root.(*ast.Ident); isId {
				if v, isVar := f.ObjOf(id).(*types.Var); isVar && !v.IsField() && v.Pos() > f.Body.Pos() && v.Pos() < f.Body.End() {
					if _, isStruct := v.Type().Underlying().(*types.Struct); isStruct {
						return false
					}
				}
			}
			return throughShared(f2, e)
		}
		// (d) a copy of a configuration struct - or of bgp.SessionParameters, which carries pointers taken from the
		// configuration (hold time, keepalive, connect time) - still shares what its pointer, map and slice fields refer
		// to: a store through such a field changes the configuration itself
		isCarrier := func(t types.Type) bool {
			if isCfgType(t) {
				return true
			}
			if pt, ok := t.(*types.Pointer); ok {
				t = pt.Elem()
			}
			n, ok := t.(*types.Named)
			return ok && n.Obj().Pkg() != nil && n.Obj().Pkg().Path() == chk.Module+"/internal/bgp" && n.Obj().Name() == "SessionParameters"
		}
		throughField := func(e ast.Expr, top ast.Node) bool {
			for x := ast.Unparen(e); ; {
				var inner ast.Expr
				deref := false
				switch v := x.(type) {
				case *ast.StarExpr:
					inner, deref = ast.Unparen(v.X), true
				case *ast.SelectorExpr:
					inner = ast.Unparen(v.X)
					if t := f.Info().TypeOf(inner); t != nil {
						_, deref = t.Underlying().(*types.Pointer)
					}
				case *ast.IndexExpr:
					inner = ast.Unparen(v.X)
					if t := f.Info().TypeOf(inner); t != nil {
						switch t.Underlying().(type) {
						case *types.Map, *types.Slice, *types.Pointer:
							deref = true
						}
					}
				default:
					return false
				}
				if deref {
					if sel, isSel := inner.(*ast.SelectorExpr); isSel {
						if fld, isF := f.ObjOf(sel.Sel).(*types.Var); isF && fld.IsField() && isCarrier(f.Info().TypeOf(sel.X)) && !replacedByFresh(f, sel, top) {
							return true
						}
					}
				}
				x = inner
			}
		}
		ast.Inspect(f.Body, func(n ast.Node) bool {
			switch st := n.(type) {
			case *ast.AssignStmt:
				for _, l := range st.Lhs {
					if _, isId := ast.Unparen(l).(*ast.Ident); isId {
						continue
					}
					if through(f, l) {
						nSites++
						x.Fail("store@"+f.Name()+":"+types.ExprString(l), st.Pos(), "a store into a configuration value outside internal/config: the configuration is shared with the reconcilers' lock-free comparison (data race; the remembered configuration stops being equal to a fresh one)")
					} else if throughField(l, st) {
						nSites++
						x.Fail("store-through-field@"+f.Name()+":"+types.ExprString(l), st.Pos(), "a store through a pointer, map or slice field of a (copied) configuration value or of the session parameters built from it: the copy shares that memory with the configuration the reconcilers remember (it stops being equal to a freshly parsed one: every later event reloads the configuration and resets the sessions)")
					}
				}
			case *ast.IncDecStmt:
				if through(f, st.X) {
					nSites++
					x.Fail("store@"+f.Name()+":"+types.ExprString(st.X), st.Pos(), "a store into a configuration value outside internal/config")
				}
			case *ast.CallExpr:
				if id, isId := ast.Unparen(st.Fun).(*ast.Ident); isId && (id.Name == "delete" || id.Name == "clear") {
					if _, isB := f.Info().Uses[id].(*types.Builtin); isB && len(st.Args) > 0 && through(f, &ast.IndexExpr{X: st.Args[0]}) {
						nSites++
						x.Fail("store@"+f.Name()+":"+id.Name+"("+types.ExprString(st.Args[0])+")", st.Pos(), "entries of a configuration map are removed outside internal/config")
					}
					return true
				}
				fo, _ := f.Callee(st).(*types.Func)
				if fo == nil || fo.Pkg() == nil {
					return true
				}
				full := fo.FullName()
				switch {
				case full == "github.com/mikioh/ipaddr.NewPrefix" && len(st.Args) == 1:
					nSites++
					arg := ast.Unparen(st.Args[0])
					fresh := false
					if u, isU := arg.(*ast.UnaryExpr); isU && u.Op == token.AND {
						switch y := ast.Unparen(u.X).(type) {
						case *ast.CompositeLit:
							fresh = true
						case *ast.Ident:
							// the address of a local value (a copy made here)
							if v, isVar := f.ObjOf(y).(*types.Var); isVar && !v.IsField() && v.Pos() > f.Body.Pos() && v.Pos() < f.Body.End() {
								if _, isPtr := v.Type().Underlying().(*types.Pointer); !isPtr {
									fresh = true
								}
							}
						}
					}
					x.Check("NewPrefix-arg@"+f.Name(), st.Pos(), fresh, "", "ipaddr.NewPrefix rewrites the IP of the network it is given (n.IP = n.IP.To16()); here it is handed a network that is not built or copied in this function - a pool's CIDR is part of the shared configuration: data race with the reconcilers' comparison, and the remembered configuration never equals a freshly parsed one again (every event re-delivers the pools and re-syncs every Service)")
				case (fo.Pkg().Path() == "sort" && (fo.Name() == "Slice" || fo.Name() == "SliceStable" || fo.Name() == "Strings" || fo.Name() == "Ints" || fo.Name() == "Sort" || fo.Name() == "Stable")) ||
					(fo.Pkg().Path() == "slices" && (strings.HasPrefix(fo.Name(), "Sort") || fo.Name() == "Reverse")):
					if len(st.Args) > 0 && through(f, st.Args[0]) {
						nSites++
						x.Fail("sort@"+f.Name()+":"+types.ExprString(st.Args[0]), st.Pos(), "a slice of the shared configuration is reordered in place outside internal/config")
					} else if len(st.Args) > 0 {
						// ... or through a local that is such a slice under another name: a plain copy of it, a reslice,
						// or append(<configuration slice>, more...) - which shares the configuration's backing array
						// for the elements it already had (reordering them reorders the configuration)
						if id, isId := ast.Unparen(st.Args[0]).(*ast.Ident); isId {
							for _, d := range assignsTo(f, f.ObjOf(id)) {
								as, isAs := d.(*ast.AssignStmt)
								if !isAs || len(as.Lhs) != len(as.Rhs) {
									continue
								}
								for i, l := range as.Lhs {
									if f.ObjOf(l) != f.ObjOf(id) {
										continue
									}
									src := ast.Unparen(as.Rhs[i])
									if c, isCall := src.(*ast.CallExpr); isCall && len(c.Args) > 0 {
										if fid, isF := ast.Unparen(c.Fun).(*ast.Ident); isF && fid.Name == "append" {
											if _, isB := f.Info().Uses[fid].(*types.Builtin); isB {
												src = ast.Unparen(c.Args[0])
											}
										}
									}
									if through(f, src) {
										nSites++
										x.Fail("sort-alias@"+f.Name()+":"+types.ExprString(st.Args[0]), st.Pos(), "a slice that shares its backing array with a slice of the configuration ("+types.ExprString(src)+") is reordered in place outside internal/config: the configuration's own order changes under the reconcilers' comparison and under every other reader")
									}
								}
							}
						}
					}
				}
			}
			return true
		})
	}
	x.Check("mutator-sites-found", 0, nSites >= 1, "", "no call of ipaddr.NewPrefix found (the rule's positive example): the allocator's address cursor moved - review")
}

// readoptBeforeExitRule (shared by C01, C03, C06): convergeBalancer never leaves a Service with a recorded status
// behind without the allocator knowing its addresses: every return is reached only after c.ips.Assign(key, svc, <the
// addresses parsed from the status>, ...) was called, or after clearServiceState(key, svc) dropped the record - whatever
// else is wrong with the Service (a malformed request, a missing pool). A return that comes before both - an "early
// validation" - is harmless while the controller runs (its allocator already holds the address) but a restarted
// controller never learns the address and hands it to the next Service: two statuses record one address.
// The one exit before both on the confirmed tree - cluster IPs whose family cannot be determined - is listed: the API
// server does not admit such a Service.
func readoptBeforeExitRule(p *chk.Prog, r *chk.Report) {
	x := r.Rule("READOPT-EXIT", "B path", "in controller.convergeBalancer every return is dominated by the re-adoption call c.ips.Assign(key, svc, lbIPs, ...) or by clearServiceState(key, svc) (reviewed exception: the return behind a failed ipfamily.ForService(svc))", 8)
	f := need(x, p, "controller", "controller", "convergeBalancer")
	if f == nil {
		return
	}
	g := f.Graph()
	svc, key := isParam(f, "svc"), isParam(f, "key")
	isAssign := f.ContainsPat("RECV.ips.Assign(K, S, ETC)", chk.H("K", key), chk.H("S", svc))
	isClear := f.ContainsPat("RECV.clearServiceState(K, S)", chk.H("K", key), chk.H("S", svc))
	exempt := g.GErrNil(false, "ipfamily.ForService(S)", chk.H("S", svc))
	// the re-adoption is made under `len(lbIPs) != 0` and the record is dropped under `len(lbIPs) == 0`: the walk carries
	// what is known about the emptiness of the held list
	var lbIPs types.Object
	for _, s := range g.FindPat("RECV.ips.Assign(K, S, IPS, ETC)", chk.H("K", key), chk.H("S", svc)) {
		lbIPs = f.ObjOf(s.Node.(*ast.CallExpr).Args[2])
	}
	n := 0
	for _, rt := range g.Returns() {
		n++
		if g.Dominated(rt, exempt) {
			x.OK("converge:return-after-readopt-or-clear", rt.Pos(), "reviewed exception: the family of the cluster IPs cannot be determined")
			continue
		}
		ok := false
		if lbIPs != nil {
			tr, rf := g.EmptinessTracker(f.IsObj(lbIPs))
			w := (&chk.StateWalk{G: g, Init: chk.EmpUnknown, Transfer: tr, Refine: rf,
				Stop: func(n ast.Node, _ int) bool { return isAssign(n) || isClear(n) },
				Hit:  func(n ast.Node, _ int) bool { return n == rt.Top }}).Run()
			ok = !w.Found
		}
		x.Check("converge:return-after-readopt-or-clear", rt.Pos(), ok, "", "convergeBalancer can return for a Service whose status records addresses before re-adopting them (Assign) and without clearing the record: after a restart the allocator does not know the address and gives it to another Service")
	}
	x.Check("converge:returns-found", f.Pos(), n >= 4, "", "unexpected shape")
	// what the allocator remembers about this Service is asked only once the recorded addresses were re-adopted (or there
	// are none, or an allocation was made): right after a restart it remembers nothing, and a test such as "the owning
	// pool differs from the requested one" would hold for every Service that requests a pool
	if lbIPs != nil {
		isQuery := func(n ast.Node) bool {
			return f.ContainsPat("RECV.ips.Pool(K)", chk.H("K", key))(n) || f.ContainsPat("RECV.ips.IPs(K)", chk.H("K", key))(n) || f.ContainsPat("RECV.ips.AllocationKey(K)", chk.H("K", key))(n)
		}
		allocates := func(n ast.Node) bool {
			return f.ContainsPat("RECV.allocateIPs(ETC)")(n) || f.ContainsPat("RECV.ips.Allocate(ETC)")(n) || f.ContainsPat("RECV.ips.AllocateFromPool(ETC)")(n)
		}
		tr, rf := g.EmptinessTracker(f.IsObj(lbIPs))
		w := (&chk.StateWalk{G: g, Init: chk.EmpUnknown, Transfer: tr, Refine: rf,
			Stop: func(n ast.Node, _ int) bool { return isAssign(n) || allocates(n) },
			Hit:  func(n ast.Node, st int) bool { return st != chk.EmpEmpty && isQuery(n) && !isAssign(n) }}).Run()
		x.Check("converge:allocator-asked-after-readoption", posOf(w, f), !w.Found, "", "the allocator is asked about this Service (Pool / IPs / AllocationKey) while its status records addresses that were not re-adopted yet: after a restart the answer is empty, and a decision taken on it (a different pool requested, say) clears addresses the Service rightfully holds")
	}
}

// nodeNetworkRule (shared by C04, C10, C12): a node counts as network-unavailable only when a condition of type
// NodeNetworkUnavailable has status True - not for an unknown status, not for a missing condition, not for a nil node.
// Decided over IsNetworkUnavailable and the functions of its package it calls (a status lookup helper in whatever
// shape: returning the status, a pointer to the condition, ...): (1) a true result is reached only behind a comparison
// `<status> == ConditionTrue`; (2) that is the only comparison of a condition status in the closure (a test against
// ConditionFalse or ConditionUnknown decides the unknown status the other way); (3) a condition's type is only ever
// compared, with ==, with NodeNetworkUnavailable (directly or through a parameter that every call binds to it).
func nodeNetworkRule(p *chk.Prog, r *chk.Report) {
	x := r.Rule("NODE-NETWORK", "B path (truth table, necessary condition)", "nodes.IsNetworkUnavailable(n) is true only behind `<condition status> == ConditionTrue`; no other comparison of a condition status and no comparison of a condition type with anything but NodeNetworkUnavailable occurs in it or in the helpers of its package it calls", 2)
	f := need(x, p, "internal/k8s/nodes", "", "IsNetworkUnavailable")
	if f == nil {
		return
	}
	// the closure inside the package
	closure := []*chk.Fn{f}
	seen := map[*chk.Fn]bool{f: true}
	for i := 0; i < len(closure) && i < 6; i++ {
		cf := closure[i]
		chk.InspectNoLit(cf.Body, func(n ast.Node) bool {
			if c, ok := n.(*ast.CallExpr); ok {
				if fo, _ := cf.Callee(c).(*types.Func); fo != nil {
					if callee := p.FnOf(fo); callee != nil && callee.Pkg == f.Pkg && callee.Body != nil && !seen[callee] {
						seen[callee] = true
						closure = append(closure, callee)
					}
				}
			}
			return true
		})
	}
	typeNamed := func(fn *chk.Fn, e ast.Expr, name string) bool {
		t := fn.Info().TypeOf(e)
		return t != nil && strings.HasSuffix(t.String(), "k8s.io/api/core/v1."+name)
	}
	okStatus, okType, nStatus := true, true, 0
	for _, cf := range closure {
		cf := cf
		ast.Inspect(cf.Body, func(n ast.Node) bool {
			switch y := n.(type) {
			case *ast.SwitchStmt:
				if y.Tag != nil && (typeNamed(cf, y.Tag, "ConditionStatus") || typeNamed(cf, y.Tag, "NodeConditionType")) {
					okStatus = false // a switch over the status / type is not decided
				}
			case *ast.BinaryExpr:
				if y.Op != token.EQL && y.Op != token.NEQ {
					return true
				}
				if typeNamed(cf, y.X, "ConditionStatus") || typeNamed(cf, y.Y, "ConditionStatus") {
					nStatus++
					isTrue := isObjNamed(cf, "k8s.io/api/core/v1.ConditionTrue")
					if y.Op != token.EQL || !(isTrue(y.X) || isTrue(y.Y)) {
						okStatus = false
					}
				}
				if typeNamed(cf, y.X, "NodeConditionType") || typeNamed(cf, y.Y, "NodeConditionType") {
					isNU := func(e ast.Expr) bool {
						if isObjNamed(cf, "k8s.io/api/core/v1.NodeNetworkUnavailable")(e) {
							return true
						}
						// a parameter that every call binds to the constant
						id, isId := ast.Unparen(e).(*ast.Ident)
						if !isId {
							return false
						}
						for k := 0; ; k++ {
							pv := cf.Param(k)
							if pv == nil {
								return false
							}
							if cf.ObjOf(id) != types.Object(pv) {
								continue
							}
							sites := p.CallSites(cf.Name())
							if len(sites) == 0 {
								return false
							}
							for _, cs := range sites {
								if k >= len(cs.Call.Args) || !isObjNamed(cs.Fn, "k8s.io/api/core/v1.NodeNetworkUnavailable")(cs.Call.Args[k]) {
									return false
								}
							}
							return true
						}
					}
					if y.Op != token.EQL || !(isNU(y.X) || isNU(y.Y)) {
						okType = false
					}
				}
			}
			return true
		})
	}
	x.Check("IsNetworkUnavailable:status-compared-with-True-only", f.Pos(), okStatus && nStatus == 1, "", "the status of the condition is compared with something other than `== ConditionTrue` (or more than once, or through a switch): an unknown status (or a missing condition) can make the node count as network-unavailable")
	x.Check("IsNetworkUnavailable:condition-type", f.Pos(), okType, "", "a condition's type is compared with something other than NodeNetworkUnavailable")
	// a true result only behind that comparison
	g := f.Graph()
	stTrue := chk.GFunc(func(ft chk.Fact) bool {
		be, ok := ast.Unparen(ft.E).(*ast.BinaryExpr)
		if !ok || be.Op != token.EQL || !ft.Val {
			return false
		}
		isTrue := isObjNamed(f, "k8s.io/api/core/v1.ConditionTrue")
		return (isTrue(be.X) && typeNamed(f, be.Y, "ConditionStatus")) || (isTrue(be.Y) && typeNamed(f, be.X, "ConditionStatus"))
	})
	okTrue, n := true, 0
	for _, rt := range g.Returns() {
		res := retResults(rt)
		if len(res) != 1 {
			okTrue = false
			continue
		}
		n++
		switch {
		case f.IsConstBool(res[0], false):
		case f.IsConstBool(res[0], true):
			okTrue = okTrue && g.Dominated(rt, stTrue)
		default:
			okTrue = okTrue && g.DominatedAssuming(rt, res[0], true, stTrue)
		}
	}
	x.Check("IsNetworkUnavailable:true-only-behind-status-True", f.Pos(), okTrue && n >= 1, "", "IsNetworkUnavailable can answer true without the comparison `<status> == ConditionTrue` having succeeded (a nil node, a missing condition)")
}

// definedByOrNil: like definedBy, but through any number of definitions: every value the local can hold at its use
// (reaching definitions, plain copies of locals followed) matches the pattern or is nil, and at least one matches - the
// result of a "look up or fail" helper expanded in place (`pool, err := lookup(name)` with the error path leaving nil).
func definedByOrNil(g *chk.Graph, pat string, checks ...chk.HoleCheck) func(ast.Expr) bool {
	direct := definedBy(g, pat, checks...)
	return func(e ast.Expr) bool {
		if direct(e) {
			return true
		}
		id, ok := ast.Unparen(e).(*ast.Ident)
		if !ok {
			return false
		}
		vals, ok := g.ValuesUnder(id, g.FactSite(id), func(*cfgBlock, int) bool { return false })
		if !ok {
			return false
		}
		n := 0
		for _, v := range vals {
			if g.Fn.IsNilLit(v) {
				continue
			}
			if g.Fn.MatchWith(pat, v, checks...) == nil && !direct(v) {
				return false
			}
			n++
		}
		return n >= 1
	}
}

// annotationPrecedence: f answers with the value of the stable annotation whenever the Service carries it - present, not
// merely non-empty: an empty stable annotation switches the feature off whatever a left-over deprecated one says - and
// with the deprecated one (or nothing) only when the stable key is absent.
func annotationPrecedence(x *chk.R, f *chk.Fn, key string, m, stable, dep func(ast.Expr) bool) {
	g := f.Graph()
	lookup := func(k func(ast.Expr) bool) func(ast.Expr) bool {
		return func(e ast.Expr) bool {
			e = ast.Unparen(e)
			if f.MatchWith("M[K]", e, chk.H("M", m), chk.H("K", k)) != nil {
				return true
			}
			id, ok := e.(*ast.Ident)
			if !ok {
				return false
			}
			rhs, idx := g.DefOf(id, g.FactSite(id))
			return rhs != nil && idx == 0 && f.MatchWith("M[K]", rhs, chk.H("M", m), chk.H("K", k)) != nil
		}
	}
	present := func(k func(ast.Expr) bool, v bool) chk.Guard {
		return chk.GBool(v, func(e ast.Expr) bool {
			id, ok := ast.Unparen(e).(*ast.Ident)
			if !ok {
				return false
			}
			rhs, idx := g.DefOf(id, g.FactSite(id))
			return rhs != nil && idx == 1 && f.MatchWith("M[K]", rhs, chk.H("M", m), chk.H("K", k)) != nil
		})
	}
	ok, n := true, 0
	why := ""
	for _, rt := range g.Returns() {
		rs := rt.Node.(*ast.ReturnStmt)
		if len(rs.Results) != 1 {
			continue
		}
		n++
		res := rs.Results[0]
		switch {
		case lookup(stable)(res):
			if !g.Dominated(rt, present(stable, true)) {
				ok, why = false, "the stable annotation's value is returned without its presence having been established (comma-ok)"
			}
		case lookup(dep)(res), f.IsConstString(res, ""):
			if !g.Dominated(rt, present(stable, false)) {
				ok, why = false, "the deprecated annotation (or nothing) is answered on a path where the stable annotation may be present (an empty stable annotation must win)"
			}
		default:
			ok, why = false, "a result that is neither annotation's value"
		}
	}
	x.Check(key, f.Pos(), ok && n > 0, "", "the stable annotation does not take precedence whenever it is present: "+why)
}

// familyOfRule (shared by C08, C02): the family of a network or address is the family of the address itself - IPv6
// exactly when it has no 4-byte form. The length of a mask or of the byte slice says nothing: an IPv4-mapped notation
// parses to an IPv4 network with a 16-byte mask.
func familyOfRule(p *chk.Prog, r *chk.Report) {
	x := r.Rule("FAMILY-OF", "B path (truth table)", "ipfamily.ForCIDR(c) and ipfamily.ForAddress(ip) answer IPv6 only behind <address>.To4() == nil and IPv4 only behind its negation, for the address c.IP / ip (or ForCIDR hands c.IP to ForAddress)", 2)
	for _, t := range []struct {
		name, pat string
	}{{"ForCIDR", "C.IP.To4() == nil"}, {"ForAddress", "C.To4() == nil"}} {
		f := need(x, p, "internal/ipfamily", "", t.name)
		if f == nil {
			continue
		}
		g := f.Graph()
		arg := chk.H("C", isParamIdx(f, 0))
		ok, n := true, 0
		for _, rt := range g.Returns() {
			res := retResults(rt)
			if len(res) != 1 {
				continue
			}
			n++
			switch {
			case t.name == "ForCIDR" && f.MatchWith("ForAddress(C.IP)", res[0], arg) != nil:
			case isObjNamed(f, "internal/ipfamily.IPv6")(res[0]):
				ok = ok && g.Dominated(rt, g.GPat(true, t.pat, arg))
			case isObjNamed(f, "internal/ipfamily.IPv4")(res[0]):
				ok = ok && g.Dominated(rt, g.GPat(false, t.pat, arg))
			default:
				ok = false
			}
		}
		x.Check(t.name+":decided-by-the-address", f.Pos(), ok && n > 0, "", "the family is not decided by whether the address has a 4-byte form (To4() == nil): an IPv4 network written in IPv4-mapped notation carries a 16-byte mask and would count as IPv6, so the IPv4 node addresses are never compared with it")
	}
}

// carriedIntoIteration lists the local variables read in `use` (an expression evaluated inside the body of rs) that are
// declared outside the loop, assigned somewhere inside it, and not assigned on every path from the start of an
// iteration to the use: on such a path the use sees what an earlier iteration left behind.
func carriedIntoIteration(f *chk.Fn, g *chk.Graph, rs *ast.RangeStmt, use ast.Expr) []string {
	_, body, _ := g.RangeBlocks(rs)
	if body == nil {
		return nil
	}
	top := g.FactSite(use).Top
	var out []string
	seen := map[types.Object]bool{}
	ast.Inspect(use, func(n ast.Node) bool {
		if _, isLit := n.(*ast.FuncLit); isLit {
			return false
		}
		if kv, isKV := n.(*ast.KeyValueExpr); isKV {
			ast.Inspect(kv.Value, func(m ast.Node) bool { return carriedVisit(f, g, rs, body, top, m, seen, &out) })
			return false
		}
		return carriedVisit(f, g, rs, body, top, n, seen, &out)
	})
	sort.Strings(out)
	return out
}

func carriedVisit(f *chk.Fn, g *chk.Graph, rs *ast.RangeStmt, body *cfgBlock, top ast.Node, n ast.Node, seen map[types.Object]bool, out *[]string) bool {
	id, isId := n.(*ast.Ident)
	if !isId {
		return true
	}
	v, isVar := f.ObjOf(id).(*types.Var)
	if !isVar || v.IsField() || seen[v] || v.Pkg() == nil || v.Parent() == v.Pkg().Scope() {
		return true
	}
	seen[v] = true
	if chk.Encloses(rs, identDecl(f, v)) {
		return true // declared by or inside the loop: fresh in every iteration
	}
	defines := func(m ast.Node) bool {
		switch d := m.(type) {
		case *ast.AssignStmt:
			for _, l := range d.Lhs {
				if lid, ok := ast.Unparen(l).(*ast.Ident); ok && f.ObjOf(lid) == types.Object(v) {
					return true
				}
			}
		case *ast.ValueSpec:
			for _, nm := range d.Names {
				if f.ObjOf(nm) == types.Object(v) {
					return true
				}
			}
		}
		return false
	}
	assignedInside := false
	chk.InspectNoLit(rs.Body, func(m ast.Node) bool {
		if defines(m) {
			assignedInside = true
		}
		return !assignedInside
	})
	if !assignedInside {
		return true // an input of the loop
	}
	w := (&chk.Walk{G: g, From: chk.Site{G: g, B: body, I: 0}, Inclusive: true, Stop: defines, Hit: func(m ast.Node) bool { return m == top }}).Run()
	if w.Found {
		*out = append(*out, v.Name())
	}
	return true
}

// identDecl: the identifier that declares v.
func identDecl(f *chk.Fn, v *types.Var) ast.Node {
	var decl ast.Node
	ast.Inspect(f.Decl, func(n ast.Node) bool {
		if id, ok := n.(*ast.Ident); ok && id.Pos() == v.Pos() {
			decl = id
		}
		return decl == nil
	})
	return decl
}

// replacedByFresh: sel is `v.F` for a local struct value v, and every assignment to v.F in the function stores a
// container made there (make, a literal, new, the address of a local), one of them on every path to the use: the copy
// no longer shares that field with the value it was copied from.
func replacedByFresh(f *chk.Fn, sel *ast.SelectorExpr, use ast.Node) bool {
	id, isId := ast.Unparen(sel.X).(*ast.Ident)
	if !isId {
		return false
	}
	v, isVar := f.ObjOf(id).(*types.Var)
	if !isVar || v.IsField() || v.Pos() < f.Body.Pos() || v.Pos() > f.Body.End() {
		return false
	}
	if _, isStruct := v.Type().Underlying().(*types.Struct); !isStruct {
		return false
	}
	fld := f.ObjOf(sel.Sel)
	n, all := 0, true
	freshAt := map[ast.Node]bool{}
	ast.Inspect(f.Body, func(nd ast.Node) bool {
		as, ok := nd.(*ast.AssignStmt)
		if !ok || len(as.Lhs) != len(as.Rhs) {
			return true
		}
		for i, l := range as.Lhs {
			ls, isSel := ast.Unparen(l).(*ast.SelectorExpr)
			if !isSel || f.ObjOf(ls.Sel) != fld {
				continue
			}
			if lid, ok := ast.Unparen(ls.X).(*ast.Ident); !ok || f.ObjOf(lid) != types.Object(v) {
				continue
			}
			n++
			fresh := isFreshContainer(f, as.Rhs[i])
			if u, isU := ast.Unparen(as.Rhs[i]).(*ast.UnaryExpr); isU && u.Op == token.AND {
				switch y := ast.Unparen(u.X).(type) {
				case *ast.CompositeLit:
					fresh = true
				case *ast.Ident:
					if lv, isV := f.ObjOf(y).(*types.Var); isV && !lv.IsField() && lv.Pos() > f.Body.Pos() && lv.Pos() < f.Body.End() {
						fresh = true
					}
				}
			}
			if c, isC := ast.Unparen(as.Rhs[i]).(*ast.CallExpr); isC {
				if bid, isB := c.Fun.(*ast.Ident); isB && bid.Name == "new" {
					fresh = true
				}
			}
			if !fresh {
				all = false
			} else {
				freshAt[as] = true
			}
		}
		return true
	})
	if n == 0 || !all {
		return false
	}
	g := f.Graph()
	return !g.MustPass(chk.Site{}, func(m ast.Node) bool { return m == use }, false, func(m ast.Node) bool { return freshAt[m] }).Found
}

// ---- stores through what a function was handed (parameters, fetched values) -----------------------------------------

// sharedStore is a store (assignment, ++/--, delete/clear, in-place sort, set mutator) whose target is reached, through
// at least one pointer / map / slice step, from a value the function was handed.
type sharedStore struct {
	Node ast.Node
	What string
}

func pointerLike(t types.Type, depth int) bool {
	if t == nil || depth > 3 {
		return false
	}
	switch u := t.Underlying().(type) {
	case *types.Pointer, *types.Map, *types.Slice, *types.Chan, *types.Interface, *types.Signature:
		return true
	case *types.Struct:
		for i := 0; i < u.NumFields(); i++ {
			if pointerLike(u.Field(i).Type(), depth+1) {
				return true
			}
		}
	case *types.Array:
		return pointerLike(u.Elem(), depth+1)
	}
	return false
}

// storesThroughHanded: flow-insensitive. The handed values are the pointer-like parameters (not the receiver) when
// params is set, and the results of the calls that srcCall accepts. A local becomes handed-derived when it is assigned, ranged or
// declared from an expression that carries one (selection, indexing, dereference, slicing, address, a literal or append
// containing one, a conversion, a method of one with a pointer-like result other than DeepCopy/Clone, a call given one
// with a pointer-like result). A struct copy held in a local may be stored into field by field; anything behind one of
// its pointers, maps or slices is still the handed value.
func storesThroughHanded(f *chk.Fn, params bool, srcCall func(*ast.CallExpr) bool) []sharedStore {
	return storesThroughHandedSel(f, func(*types.Var) bool { return params }, srcCall)
}

func storesThroughHandedParams(f *chk.Fn, pick func(*types.Var) bool) []sharedStore {
	return storesThroughHandedSel(f, pick, nil)
}

func storesThroughHandedSel(f *chk.Fn, pick func(*types.Var) bool, srcCall func(*ast.CallExpr) bool) []sharedStore {
	info := f.Info()
	tainted := map[types.Object]bool{}
	for i := 0; ; i++ {
		pv := f.Param(i)
		if pv == nil {
			break
		}
		if pick(pv) && pointerLike(pv.Type(), 0) {
			tainted[pv] = true
		}
	}
	var carries func(e ast.Expr) bool
	carries = func(e ast.Expr) bool {
		switch v := ast.Unparen(e).(type) {
		case *ast.Ident:
			return tainted[f.ObjOf(v)]
		case *ast.SelectorExpr:
			if id, isId := ast.Unparen(v.X).(*ast.Ident); isId {
				if _, isPkg := info.Uses[id].(*types.PkgName); isPkg {
					return false
				}
			}
			return carries(v.X)
		case *ast.IndexExpr:
			return carries(v.X)
		case *ast.StarExpr:
			return carries(v.X)
		case *ast.SliceExpr:
			return carries(v.X)
		case *ast.UnaryExpr:
			return v.Op == token.AND && carries(v.X)
		case *ast.TypeAssertExpr:
			return carries(v.X)
		case *ast.CompositeLit:
			for _, el := range v.Elts {
				if kv, isKV := el.(*ast.KeyValueExpr); isKV {
					el = kv.Value
				}
				if pointerLike(info.TypeOf(el), 0) && carries(el) {
					return true
				}
			}
		case *ast.CallExpr:
			if srcCall != nil && srcCall(v) {
				return true
			}
			if tv, ok := info.Types[v.Fun]; ok && tv.IsType() {
				return len(v.Args) == 1 && carries(v.Args[0])
			}
			if !pointerLike(info.TypeOf(v), 0) {
				return false
			}
			if sel, isSel := ast.Unparen(v.Fun).(*ast.SelectorExpr); isSel {
				if _, isM := info.Selections[sel]; isM {
					switch sel.Sel.Name {
					case "DeepCopy", "Clone", "Copy", "String", "Error":
						return false
					}
					if carries(sel.X) {
						return true
					}
				}
			}
			for _, a := range v.Args {
				if pointerLike(info.TypeOf(a), 0) && carries(a) {
					return true
				}
			}
		}
		return false
	}
	taint := func(l ast.Expr) bool {
		id, isId := ast.Unparen(l).(*ast.Ident)
		if !isId || id.Name == "_" {
			return false
		}
		o := f.ObjOf(id)
		if v, isVar := o.(*types.Var); !isVar || v.IsField() || tainted[o] || !pointerLike(v.Type(), 0) {
			return false
		}
		tainted[o] = true
		return true
	}
	for changed := true; changed; {
		changed = false
		chk.InspectNoLit(f.Body, func(n ast.Node) bool {
			switch st := n.(type) {
			case *ast.AssignStmt:
				if len(st.Lhs) == len(st.Rhs) {
					for i, l := range st.Lhs {
						if carries(st.Rhs[i]) && taint(l) {
							changed = true
						}
					}
				} else if len(st.Rhs) == 1 && carries(st.Rhs[0]) {
					for _, l := range st.Lhs {
						if taint(l) {
							changed = true
						}
					}
				}
			case *ast.RangeStmt:
				if carries(st.X) {
					for _, l := range []ast.Expr{st.Key, st.Value} {
						if l != nil && taint(l) {
							changed = true
						}
					}
				}
			case *ast.ValueSpec:
				for i, nm := range st.Names {
					if i < len(st.Values) && carries(st.Values[i]) && taint(nm) {
						changed = true
					}
				}
			}
			return true
		})
	}
	// a store goes through the handed value when the path to the root takes a pointer / map / slice step
	through := func(e ast.Expr) bool {
		deref := false
		for x := ast.Unparen(e); ; {
			switch v := x.(type) {
			case *ast.StarExpr:
				deref = true
				x = ast.Unparen(v.X)
				continue
			case *ast.SelectorExpr:
				if t := info.TypeOf(v.X); t != nil {
					if _, isP := t.Underlying().(*types.Pointer); isP {
						deref = true
					}
				}
				x = ast.Unparen(v.X)
				continue
			case *ast.IndexExpr:
				if t := info.TypeOf(v.X); t != nil {
					switch t.Underlying().(type) {
					case *types.Map, *types.Slice, *types.Pointer:
						deref = true
					}
				}
				x = ast.Unparen(v.X)
				continue
			case *ast.Ident:
				return deref && tainted[f.ObjOf(v)]
			case *ast.CallExpr:
				return carries(v)
			}
			return false
		}
	}
	var out []sharedStore
	chk.InspectNoLit(f.Body, func(n ast.Node) bool {
		switch st := n.(type) {
		case *ast.AssignStmt:
			for _, l := range st.Lhs {
				if _, isId := ast.Unparen(l).(*ast.Ident); !isId && through(l) {
					out = append(out, sharedStore{st, types.ExprString(l) + " = ..."})
				}
			}
		case *ast.IncDecStmt:
			if _, isId := ast.Unparen(st.X).(*ast.Ident); !isId && through(st.X) {
				out = append(out, sharedStore{st, types.ExprString(st.X) + st.Tok.String()})
			}
		case *ast.CallExpr:
			if id, isId := ast.Unparen(st.Fun).(*ast.Ident); isId && (id.Name == "delete" || id.Name == "clear") {
				if _, isB := info.Uses[id].(*types.Builtin); isB && len(st.Args) > 0 && carries(st.Args[0]) {
					out = append(out, sharedStore{st, id.Name + "(" + types.ExprString(st.Args[0]) + ", ...)"})
				}
				return true
			}
			fo, _ := f.Callee(st).(*types.Func)
			if fo == nil || fo.Pkg() == nil {
				return true
			}
			switch pk := fo.Pkg().Path(); {
			case pk == "k8s.io/apimachinery/pkg/util/sets" && (fo.Name() == "Insert" || fo.Name() == "Delete" || fo.Name() == "Clear" || fo.Name() == "PopAny"):
				if sel, isSel := ast.Unparen(st.Fun).(*ast.SelectorExpr); isSel && carries(sel.X) {
					out = append(out, sharedStore{st, types.ExprString(sel.X) + "." + fo.Name() + "(...)"})
				}
			case (pk == "sort" && (fo.Name() == "Slice" || fo.Name() == "SliceStable" || fo.Name() == "Strings" || fo.Name() == "Ints" || fo.Name() == "Sort" || fo.Name() == "Stable")) ||
				(pk == "slices" && (strings.HasPrefix(fo.Name(), "Sort") || fo.Name() == "Reverse")):
				if len(st.Args) > 0 && carries(st.Args[0]) {
					out = append(out, sharedStore{st, fo.Name() + "(" + types.ExprString(st.Args[0]) + ") in place"})
				}
			}
		}
		return true
	})
	return out
}

// firstPresentKeyRule: f(m, keys...) answers with m[k] for the first k of keys that is present in m (comma-ok), and with
// "" when none is: inside the one loop over keys every return hands back the looked-up value behind its ok, no key is
// skipped otherwise (no break), and the only return after the loop is "".
func firstPresentKeyRule(x *chk.R, f *chk.Fn, key string) {
	g := f.Graph()
	m, keys := isParamIdx(f, 0), isParamIdx(f, 1)
	loops := f.RangeLoops(keys)
	ok := len(loops) == 1
	if ok {
		rs := loops[0]
		k := rangeVal(f, rs)
		ok = !loopHasBreak(g, rs)
		for _, rt := range g.Returns() {
			res := retResults(rt)
			if len(res) != 1 {
				ok = false
				continue
			}
			if chk.InBody(rs, rt.Node) {
				id, isId := ast.Unparen(res[0]).(*ast.Ident)
				good := false
				if isId {
					rhs, idx := g.DefOf(id, g.FactSite(id))
					good = rhs != nil && idx == 0 && f.MatchWith("M[K]", rhs, chk.H("M", m), chk.H("K", k)) != nil &&
						g.Dominated(rt, chk.GBool(true, func(e ast.Expr) bool {
							oid, isO := ast.Unparen(e).(*ast.Ident)
							if !isO {
								return false
							}
							r2, i2 := g.DefOf(oid, g.FactSite(oid))
							return r2 == rhs && i2 == 1
						}))
				}
				ok = ok && good
			} else {
				ok = ok && f.IsConstString(res[0], "")
			}
		}
		// a key that is present is not passed over: its ok edge always returns, and the lookup is made for every key
		present := chk.GBool(true, func(e ast.Expr) bool {
			oid, isO := ast.Unparen(e).(*ast.Ident)
			if !isO {
				return false
			}
			r2, i2 := g.DefOf(oid, g.FactSite(oid))
			return r2 != nil && i2 == 1 && f.MatchWith("M[K]", r2, chk.H("M", m), chk.H("K", k)) != nil
		})
		es := g.EdgesImplying(present)
		ok = ok && len(es) >= 1
		for _, e := range es {
			if g.BranchAlways(e, func(n ast.Node) bool { _, isRet := n.(*ast.ReturnStmt); return isRet }).Found {
				ok = false
			}
		}
		_, body, _ := g.RangeBlocks(rs)
		if body != nil {
			isLookup := f.ContainsPat("M[K]", chk.H("M", m), chk.H("K", k))
			w := (&chk.Walk{G: g, From: chk.Site{G: g, B: body, I: 0}, Inclusive: true, Stop: isLookup, Hit: func(n ast.Node) bool {
				_, isBr := n.(*ast.BranchStmt)
				return isBr
			}}).Run()
			ok = ok && !w.Found
		}
	}
	x.Check(key, f.Pos(), ok, "", "the lookup does not answer with the first key that is present (the stable annotation must win whenever the Service carries it)")
}

// assignsToField lists the plain assignments `v.F = E` to fields of the local v in f (outside function literals).
type fieldAssign struct {
	field string
	value ast.Expr
}

func assignsToField(f *chk.Fn, v types.Object) []fieldAssign {
	var out []fieldAssign
	if v == nil {
		return nil
	}
	chk.InspectNoLit(f.Body, func(n ast.Node) bool {
		as, ok := n.(*ast.AssignStmt)
		if !ok || len(as.Lhs) != len(as.Rhs) {
			return true
		}
		for i, l := range as.Lhs {
			if sel, isSel := ast.Unparen(l).(*ast.SelectorExpr); isSel {
				if id, isId := ast.Unparen(sel.X).(*ast.Ident); isId && f.ObjOf(id) == v {
					out = append(out, fieldAssign{sel.Sel.Name, as.Rhs[i]})
				}
			}
		}
		return true
	})
	return out
}

// valuesOnSuccess: what the local `id` holds at a use that is reached only with the error of the same tuple nil. It
// covers the join that the expansion of a multi-result helper leaves behind,
//
//	r0, r1, rErr = 0, 0, err   (error exits)      r0, r1, rErr = H.Len, H.Type, nil   (success exit)
//	a, b, e := r0, r1, rErr;  if e != nil { return ... };  ... a ...
//
// and the plain `a, b, e := h(..)` is left to the caller. The values of the component on the exits whose error
// component is the nil literal are returned; ok is false when the shape is anything else or the use is not behind
// `e == nil`.
func valuesOnSuccess(f *chk.Fn, g *chk.Graph, id *ast.Ident) ([]ast.Expr, bool) {
	use := g.FactSite(id)
	var def *ast.AssignStmt
	idx := -1
	ast.Inspect(f.Body, func(n ast.Node) bool {
		as, ok := n.(*ast.AssignStmt)
		if !ok || len(as.Lhs) != len(as.Rhs) || len(as.Lhs) < 2 {
			return true
		}
		for i, l := range as.Lhs {
			if lid, isId := l.(*ast.Ident); isId && f.ObjOf(lid) == f.ObjOf(id) && f.ObjOf(id) != nil {
				if def != nil && def != as {
					idx = -2 // several definitions
				}
				if idx != -2 {
					def, idx = as, i
				}
			}
		}
		return true
	})
	if def == nil || idx < 0 {
		return nil, false
	}
	last := len(def.Lhs) - 1
	eid, isId := def.Lhs[last].(*ast.Ident)
	if !isId || !isErrorTyped(f, eid) || idx == last {
		return nil, false
	}
	eobj := f.ObjOf(eid)
	if !g.Dominated(use, g.GExprNil(true, func(e ast.Expr) bool { return f.ObjOf(e) == eobj && eobj != nil })) {
		return nil, false
	}
	rv, isRv := ast.Unparen(def.Rhs[idx]).(*ast.Ident)
	re, isRe := ast.Unparen(def.Rhs[last]).(*ast.Ident)
	if !isRv || !isRe {
		return nil, false
	}
	vobj, errObj := f.ObjOf(rv), f.ObjOf(re)
	var vals []ast.Expr
	okAll := true
	ast.Inspect(f.Body, func(n ast.Node) bool {
		as, ok := n.(*ast.AssignStmt)
		if !ok || as == def {
			return true
		}
		vi, ei := -1, -1
		for i, l := range as.Lhs {
			if lid, isL := l.(*ast.Ident); isL {
				switch f.ObjOf(lid) {
				case vobj:
					vi = i
				case errObj:
					ei = i
				}
			}
		}
		if vi < 0 && ei < 0 {
			return true
		}
		if vi < 0 || ei < 0 || len(as.Lhs) != len(as.Rhs) {
			okAll = false // the two are not set together
			return true
		}
		if f.IsNilLit(as.Rhs[ei]) {
			vals = append(vals, as.Rhs[vi])
		}
		return true
	})
	if !okAll || len(vals) == 0 {
		return nil, false
	}
	return vals, true
}

// isOrSucceedsAs: e matches pat (with checks), or e is a local whose every value on the success exits of the helper it
// comes from matches it (valuesOnSuccess).
func isOrSucceedsAs(f *chk.Fn, g *chk.Graph, pat string, checks ...chk.HoleCheck) func(ast.Expr) bool {
	return func(e ast.Expr) bool {
		if f.MatchWith(pat, e, checks...) != nil {
			return true
		}
		id, isId := ast.Unparen(e).(*ast.Ident)
		if !isId {
			return false
		}
		vals, ok := valuesOnSuccess(f, g, id)
		if !ok {
			return false
		}
		for _, v := range vals {
			if f.MatchWith(pat, v, checks...) == nil {
				return false
			}
		}
		return true
	}
}

// nodeEventsRule (shared by C10, C04, C09): the speaker re-evaluates its node predicates only when a Node update reaches
// SetNode. The event filter lets an update through whenever the node's network availability - as IsNetworkUnavailable
// answers it, absent condition included - differs between the old and the new object (label changes are let through by
// the library predicate next to it).
func nodeEventsRule(p *chk.Prog, r *chk.Report) {
	x := r.Rule("NODE-EVENTS", "B path (truth table)", "in controllers.NodeReconcilerPredicate the UpdateFunc of the network-availability predicate returns, for two Node objects, true exactly when k8snodes.IsNetworkUnavailable(old) != k8snodes.IsNetworkUnavailable(new); the predicate is combined by Or with predicate.LabelChangedPredicate", 2)
	f := need(x, p, ctrlPkg, "", "NodeReconcilerPredicate")
	if f == nil {
		return
	}
	var lits []*ast.FuncLit
	ast.Inspect(f.Body, func(n ast.Node) bool {
		kv, ok := n.(*ast.KeyValueExpr)
		if !ok {
			return true
		}
		if k, isId := kv.Key.(*ast.Ident); isId && k.Name == "UpdateFunc" {
			if l, isLit := kv.Value.(*ast.FuncLit); isLit {
				lits = append(lits, l)
			}
		}
		return true
	})
	if len(lits) != 1 {
		x.Fail("predicate:update-func", f.Pos(), "expected one UpdateFunc literal in NodeReconcilerPredicate")
		return
	}
	lf := f.LitFn(lits[0])
	g := lf.Graph()
	ev := isParamIdx(lf, 0)
	asserted := func(field string, idx int) func(ast.Expr) bool {
		return func(e ast.Expr) bool {
			id, ok := ast.Unparen(e).(*ast.Ident)
			if !ok {
				return false
			}
			rhs, i := g.DefOf(id, g.FactSite(id))
			if rhs == nil || i != idx {
				return false
			}
			ta, isTA := ast.Unparen(rhs).(*ast.TypeAssertExpr)
			return isTA && lf.MatchWith("E."+field, ta.X, chk.H("E", ev)) != nil
		}
	}
	differ := chk.GSame(
		g.GPat(true, "k8snodes.IsNetworkUnavailable(O) != k8snodes.IsNetworkUnavailable(N)", chk.H("O", asserted("ObjectOld", 0)), chk.H("N", asserted("ObjectNew", 0))),
		g.GPat(true, "k8snodes.IsNetworkUnavailable(N) != k8snodes.IsNetworkUnavailable(O)", chk.H("O", asserted("ObjectOld", 0)), chk.H("N", asserted("ObjectNew", 0))))
	spec := chk.GAnd(chk.GBool(true, asserted("ObjectOld", 1)), chk.GBool(true, asserted("ObjectNew", 1)), differ)
	why := g.BoolResultIs(spec)
	x.Check("predicate:update-passes-exactly-on-availability-change", lits[0].Pos(), why == "", "", "a Node update that changes the node's network availability can be filtered out (or the test is made on something other than IsNetworkUnavailable of the two objects: a condition that appears or disappears is a change): the speaker keeps the stale Node and goes on announcing from a node whose network is down: "+why)
	orLabels := false
	ast.Inspect(f.Body, func(n ast.Node) bool {
		c, ok := n.(*ast.CallExpr)
		if !ok {
			return true
		}
		if fo, isF := f.Callee(c).(*types.Func); isF && fo.Name() == "Or" && fo.Pkg() != nil && strings.HasSuffix(fo.Pkg().Path(), "controller-runtime/pkg/predicate") {
			for _, a := range c.Args {
				if t := f.Info().TypeOf(a); t != nil && strings.HasSuffix(t.String(), "predicate.LabelChangedPredicate") {
					orLabels = true
				}
			}
		}
		return true
	})
	x.Check("predicate:or-label-change", f.Pos(), orLabels, "", "label changes of the node are not let through next to the availability change")
}

// branchAlwaysBeforeReturn: every path that enters the branch through the edge ends in a return of that branch, and
// passes a node satisfying via first. Decided on the shape of the graph, and when that finds a way around (`if !flag {
// via }` written out at the return by the deferred-cleanup normalisation), again with the flags and conditions in force:
// every return of the branch is reached only with via executed.
func branchAlwaysBeforeReturn(f *chk.Fn, g *chk.Graph, e chk.Edge, via func(ast.Node) bool) bool {
	if !g.BranchAlways(e, via).Found {
		return true
	}
	region := g.Region(e)
	if region == nil {
		return false
	}
	// the branch cannot be left other than by returning
	if g.BranchAlways(e, func(n ast.Node) bool { _, isRet := n.(*ast.ReturnStmt); return isRet }).Found {
		return false
	}
	n := 0
	for _, rt := range g.Returns() {
		if !chk.Encloses(region, rt.Node) {
			continue
		}
		n++
		if !g.Dominated(rt, chk.GEvent(via)) {
			return false
		}
	}
	return n > 0
}

// errExit is one place where a function decides to fail: the site and the error expression.
type errExit struct {
	Site chk.Site
	Expr ast.Expr
}

// errorExits lists where the function's error result (result number idx) gets a value that is not the nil literal: the
// return statements themselves, and, when a return hands back a variable that only carries the result of an expanded
// helper or literal (`_inlNrK = E; goto L; L: err := _inlNrK; if err != nil { return err }`), the assignments to that
// variable instead.
func errorExits(f *chk.Fn, g *chk.Graph, idx int) []errExit {
	var out []errExit
	seen := map[types.Object]bool{}
	var fromVar func(o types.Object)
	add := func(s chk.Site, e ast.Expr) {
		if f.IsNilLit(e) {
			return
		}
		if id, isId := ast.Unparen(e).(*ast.Ident); isId {
			src := id
			if !inlineResult.MatchString(id.Name) {
				if rhs, _ := g.DefOf(id, g.FactSite(id)); rhs != nil {
					if rid, isR := ast.Unparen(rhs).(*ast.Ident); isR && inlineResult.MatchString(rid.Name) {
						src = rid
					}
				}
			}
			if inlineResult.MatchString(src.Name) {
				if o := f.ObjOf(src); o != nil {
					fromVar(o)
					return
				}
			}
		}
		out = append(out, errExit{s, e})
	}
	fromVar = func(o types.Object) {
		if seen[o] {
			return
		}
		seen[o] = true
		for _, st := range g.Find(func(n ast.Node) bool {
			as, ok := n.(*ast.AssignStmt)
			if !ok || len(as.Lhs) != len(as.Rhs) {
				return false
			}
			for _, l := range as.Lhs {
				if id, isId := l.(*ast.Ident); isId && f.ObjOf(id) == o {
					return true
				}
			}
			return false
		}) {
			as := st.Node.(*ast.AssignStmt)
			for i, l := range as.Lhs {
				if id, isId := l.(*ast.Ident); isId && f.ObjOf(id) == o {
					add(st, as.Rhs[i])
				}
			}
		}
	}
	for _, rt := range g.Returns() {
		res := retResults(rt)
		if idx >= len(res) {
			continue
		}
		add(rt, res[idx])
	}
	return out
}

// fetchCheckedRule (shared by C03, C06, C07, C18): what a reconciler reads from the API is used only when the read
// succeeded. After `err := c.Get(ctx, key, &obj)` / `c.List(ctx, &list)` every later mention of obj / list in the
// function is reached only with that call's error nil (for Get: or recognised as not-found). A reconciler that goes on
// with a zero object or a partial list hands the handlers a cluster state that never existed: Services are cleared or
// re-allocated although nothing about them changed.
func fetchCheckedRule(p *chk.Prog, r *chk.Report) {
	x := r.Rule("FETCH-CHECKED", "B path", "in package internal/k8s/controllers, after a controller-runtime client Get(ctx, key, obj) / List(ctx, list) every later mention of the object read into is dominated by the nil error of that call (or, for Get, by apierrors.IsNotFound of that error)", 18)
	n := 0
	for _, f := range p.FuncsIn(ctrlPkg) {
		if f.Body == nil {
			continue
		}
		var calls []*ast.CallExpr
		chk.InspectNoLit(f.Body, func(nd ast.Node) bool {
			c, ok := nd.(*ast.CallExpr)
			if !ok {
				return true
			}
			fo, _ := f.Callee(c).(*types.Func)
			if fo == nil || fo.Pkg() == nil || !strings.HasSuffix(fo.Pkg().Path(), "controller-runtime/pkg/client") {
				return true
			}
			if (fo.Name() == "Get" && len(c.Args) >= 3) || (fo.Name() == "List" && len(c.Args) >= 2) {
				calls = append(calls, c)
			}
			return true
		})
		if len(calls) == 0 {
			continue
		}
		r.Saw(f)
		g := f.Graph()
		for _, c := range calls {
			c := c
			fo := f.Callee(c).(*types.Func)
			arg := c.Args[1]
			if fo.Name() == "Get" {
				arg = c.Args[2]
			}
			o := f.RootObj(arg)
			if u, isU := ast.Unparen(arg).(*ast.UnaryExpr); isU && u.Op == token.AND {
				o = f.RootObj(u.X)
			}
			if o == nil {
				continue
			}
			n++
			isCall := func(e ast.Expr) bool { return ast.Unparen(e) == ast.Expr(c) }
			fromCall := func(e ast.Expr) bool {
				if isCall(e) {
					return true
				}
				id, isId := ast.Unparen(e).(*ast.Ident)
				if !isId {
					return false
				}
				rhs, _ := g.DefOf(id, g.FactSite(id))
				return rhs != nil && isCall(rhs)
			}
			okErr := chk.GFunc(func(ft chk.Fact) bool {
				xx, yy, eq, ok := chk.EqParts(ft)
				if !ok || !eq {
					return false
				}
				switch {
				case f.IsNilLit(yy):
					return fromCall(xx)
				case f.IsNilLit(xx):
					return fromCall(yy)
				}
				return false
			})
			guard := okErr
			if fo.Name() == "Get" {
				guard = chk.GOr(okErr, g.GPat(true, "apierrors.IsNotFound(E)", chk.H("E", fromCall)),
					g.GPat(true, "client.IgnoreNotFound(E) == nil", chk.H("E", fromCall)))
			}
			var bad *ast.Ident
			chk.InspectNoLit(f.Body, func(nd ast.Node) bool {
				if bad != nil {
					return false
				}
				if nd == ast.Node(c) {
					return false
				}
				id, isId := nd.(*ast.Ident)
				if !isId || f.ObjOf(id) != o || id.Pos() < c.End() || f.Info().Defs[id] != nil {
					return true
				}
				site := g.FactSite(id)
				if site.B == nil {
					return true
				}
				if !g.Dominated(site, guard) {
					bad = id
				}
				return true
			})
			pos := c.Pos()
			if bad != nil {
				pos = bad.Pos()
			}
			x.Check(f.Name()+":"+fo.Name()+"("+f.Src(arg)+")", pos, bad == nil, "", "the object read by "+fo.Name()+" is used although the read failed (or its error was tested on another variable): the handlers are given a zero object / a partial list, a cluster state that never existed")
		}
	}
	_ = n
}

// unconv strips parentheses and type conversions: (T)(x) -> x (a function literal converted to a named function type
// is still that literal).
func unconv(f *chk.Fn, e ast.Expr) ast.Expr {
	for {
		e = ast.Unparen(e)
		c, ok := e.(*ast.CallExpr)
		if !ok || len(c.Args) != 1 {
			return e
		}
		if tv, has := f.Info().Types[c.Fun]; !has || !tv.IsType() {
			return e
		}
		e = c.Args[0]
	}
}

// argRolesRule: the positional hand-over of same-typed values. At every call of a function of this module, in the tree
// as written, an argument that carries the name of one of the callee's parameters (a variable, a field or a niladic /
// one-argument function so named, first letter folded) is passed in that parameter's position whenever another
// parameter of the identical type exists: two strings side by side are not told apart by the compiler, and a call
// that hands the sharing key where the backend key is expected builds, runs every test that uses one value for both,
// and records / compares the wrong key from then on.
func argRolesRule(p *chk.Prog, r *chk.Report, floor int, pkgs ...string) {
	x := r.Rule("ARG-ROLES", "A resolved", "in the tree as written, an argument named after a parameter of the called module function is passed in that parameter's position when another parameter of the same type exists (same-typed neighbours are not swapped)", floor)
	q := p
	if p.Written != nil {
		q = p.Written
	}
	fold := func(s string) string {
		s = strings.TrimPrefix(s, "get")
		s = strings.TrimPrefix(s, "Get")
		return strings.ToLower(s)
	}
	argName := func(e ast.Expr) string {
		switch v := ast.Unparen(e).(type) {
		case *ast.Ident:
			return v.Name
		case *ast.SelectorExpr:
			return v.Sel.Name
		case *ast.CallExpr:
			if len(v.Args) > 1 {
				return ""
			}
			switch fn := ast.Unparen(v.Fun).(type) {
			case *ast.Ident:
				return fn.Name
			case *ast.SelectorExpr:
				return fn.Sel.Name
			}
		}
		return ""
	}
	for _, pk := range pkgs {
		for _, f := range q.FuncsIn(pk) {
			if f.Body == nil || strings.HasSuffix(q.Fset.Position(f.Body.Pos()).Filename, "_test.go") {
				continue
			}
			seen := false
			ast.Inspect(f.Body, func(nd ast.Node) bool {
				c, ok := nd.(*ast.CallExpr)
				if !ok || c.Ellipsis.IsValid() {
					return true
				}
				fo, _ := f.Callee(c).(*types.Func)
				if fo == nil || fo.Pkg() == nil || !strings.HasPrefix(fo.Pkg().Path(), chk.Module) {
					return true
				}
				sig := fo.Type().(*types.Signature)
				ps := sig.Params()
				if sig.Variadic() || ps.Len() != len(c.Args) || ps.Len() < 2 {
					return true
				}
				for i, a := range c.Args {
					n := fold(argName(a))
					if n == "" {
						continue
					}
					own := fold(ps.At(i).Name())
					for j := 0; j < ps.Len(); j++ {
						if j == i || !types.Identical(ps.At(i).Type(), ps.At(j).Type()) || fold(ps.At(j).Name()) != n || ps.At(j).Name() == "_" {
							continue
						}
						if !seen {
							seen = true
							r.Saw(f)
						}
						// the argument is named after parameter j: it must sit in position j, unless its own position
						// carries the same name (both names fold alike)
						x.CheckAt(f.Name()+":"+chk.ShortName(fo)+"#"+ps.At(j).Name(), q.Rel(a.Pos()), own == n, "",
							"argument "+types.ExprString(a)+" is passed as parameter "+ps.At(i).Name()+" of "+chk.ShortName(fo)+", which has a parameter "+ps.At(j).Name()+" of the same type: the two values are exchanged at this call")
					}
					if own == n {
						// a correctly placed named argument with a same-typed sibling: counted as an instance
						for j := 0; j < ps.Len(); j++ {
							if j != i && types.Identical(ps.At(i).Type(), ps.At(j).Type()) {
								x.CheckAt(f.Name()+":"+chk.ShortName(fo)+"#"+ps.At(i).Name(), q.Rel(a.Pos()), true, "", "")
								break
							}
						}
					}
				}
				return true
			})
		}
	}
}

// successResult: the trailing result of a success return - the nil error, or the true of a helper that reports success
// by a flag.
func successResult(f *chk.Fn, e ast.Expr) bool {
	return f.IsNilLit(e) || f.IsConstBool(e, true)
}

// zeroValueVar: a local declared `var x T` without a value that nothing assigns, takes the address of, or selects a
// field of on the left of an assignment - it is T's zero value wherever it is read.
func zeroValueVar(f *chk.Fn, e ast.Expr) bool {
	id, isId := ast.Unparen(e).(*ast.Ident)
	if !isId {
		return false
	}
	o, isVar := f.ObjOf(id).(*types.Var)
	if !isVar || o.IsField() || f.Body == nil {
		return false
	}
	declared, touched := false, false
	ast.Inspect(f.Body, func(n ast.Node) bool {
		switch v := n.(type) {
		case *ast.ValueSpec:
			for _, nm := range v.Names {
				if f.Info().Defs[nm] == types.Object(o) {
					declared = len(v.Values) == 0
				}
			}
		case *ast.AssignStmt:
			for _, l := range v.Lhs {
				if f.RootObj(l) == types.Object(o) {
					touched = true
				}
			}
		case *ast.UnaryExpr:
			if v.Op == token.AND && f.RootObj(v.X) == types.Object(o) {
				touched = true
			}
		case *ast.IncDecStmt:
			if f.RootObj(v.X) == types.Object(o) {
				touched = true
			}
		case *ast.RangeStmt:
			if (v.Key != nil && f.RootObj(v.Key) == types.Object(o)) || (v.Value != nil && f.RootObj(v.Value) == types.Object(o)) {
				touched = true
			}
		case *ast.CallExpr:
			// a method with a pointer receiver called on it
			if sel, isSel := ast.Unparen(v.Fun).(*ast.SelectorExpr); isSel && f.RootObj(sel.X) == types.Object(o) {
				if sn := f.Info().Selections[sel]; sn != nil && sn.Kind() == types.MethodVal {
					if _, ptr := sn.Obj().Type().(*types.Signature).Recv().Type().(*types.Pointer); ptr {
						touched = true
					}
				}
			}
		}
		return true
	})
	return declared && !touched
}

// valueForms follows a returned value back through result variables and single-definition locals (helpers expanded in
// place hand their answer over that way): the expressions that can be the value, each with the site where it is taken.
func valueForms(g *chk.Graph, f *chk.Fn, e ast.Expr, at chk.Site, depth int) []resultForm {
	id, ok := ast.Unparen(e).(*ast.Ident)
	if !ok || depth <= 0 {
		return []resultForm{{e, at}}
	}
	v, ok := f.ObjOf(id).(*types.Var)
	if !ok || v.IsField() || v.Parent() == nil || v.Pkg() == nil || v.Parent() == v.Pkg().Scope() || f.IsNilLit(id) {
		return []resultForm{{e, at}}
	}
	if d := f.LocalDef(id); d != nil {
		st := g.FactSite(d)
		if st.B == nil {
			st = at
		}
		if _, isCall := ast.Unparen(d).(*ast.CallExpr); isCall {
			return []resultForm{{e, at}} // defined by a call: the variable is the value
		}
		return valueForms(g, f, d, st, depth-1)
	}
	var out []resultForm
	n := 0
	for _, a := range assignsTo(f, v) {
		as, isAs := a.(*ast.AssignStmt)
		if !isAs || len(as.Lhs) != len(as.Rhs) {
			if _, isSpec := a.(*ast.ValueSpec); isSpec {
				continue
			}
			if _, isDecl := a.(*ast.DeclStmt); isDecl {
				continue
			}
			return []resultForm{{e, at}}
		}
		aa := a
		sites := g.Find(func(m ast.Node) bool { return m == aa })
		st := at
		if len(sites) > 0 {
			st = sites[0]
		}
		for i, l := range as.Lhs {
			if lid, isId := l.(*ast.Ident); isId && f.ObjOf(lid) == types.Object(v) {
				n++
				out = append(out, valueForms(g, f, as.Rhs[i], st, depth-1)...)
			}
		}
	}
	if n == 0 {
		return []resultForm{{e, at}}
	}
	return out
}
