package rules

import (
	"fmt"
	"go/ast"
	"go/token"
	"go/types"
	"sort"
	"strings"

	"verif/mlbcheck/chk"
)

// need resolves a function anchor, recording an UNDECIDED obligation when it is
// missing.
func need(x *chk.R, p *chk.Prog, pkg, recv, name string) *chk.Fn {
	f := p.LookupFunc(pkg, recv, name)
	what := pkg + "." + name
	if recv != "" {
		what = pkg + ".(" + recv + ")." + name
	}
	if !x.Need(f, what) {
		return nil
	}
	return f
}

// ownRule: field `typ.field` of package pkg is written only by the allowed
// functions (short names). Escapes of the whole value (passing the map/slice
// itself to another function, storing it elsewhere, taking its address) count
// as writes by the escaping function.
func ownRule(x *chk.R, p *chk.Prog, pkg, typ, field string, allowed ...string) {
	fld := p.LookupField(pkg, typ, field)
	if fld == nil {
		x.Undecided("anchor:"+typ+"."+field, "UNDECIDED anchor missing: field "+pkg+"."+typ+"."+field)
		return
	}
	ok := map[string]bool{}
	for _, a := range allowed {
		ok[a] = true
	}
	seen := map[string]bool{}
	for _, a := range p.FieldAccesses(fld) {
		if !a.IsWrite() && a.Kind != "escape" {
			continue
		}
		fn := "<package initialiser>"
		if a.Fn != nil {
			fn = a.Fn.Name()
		}
		key := typ + "." + field + "@" + fn
		if seen[key+a.Kind] {
			continue
		}
		seen[key+a.Kind] = true
		x.Check(key+"#"+a.Kind, a.Sel.Pos(), ok[fn], "write by an owner", fmt.Sprintf("%s is written (%s) by %s, which is not one of its owners %v", typ+"."+field, a.Kind, fn, allowed))
	}
}

// callersRule: the named function is called (or taken as a value) only from the
// allowed functions.
func callersRule(x *chk.R, p *chk.Prog, callee string, allowed ...string) {
	ok := map[string]bool{}
	for _, a := range allowed {
		ok[a] = true
	}
	sites := append(p.CallSites(callee), p.FuncValueUses(callee)...)
	for _, cs := range sites {
		x.Check(callee+"@"+cs.Fn.Name(), cs.Call.Pos(), ok[cs.Fn.Name()], "call from an allowed caller",
			fmt.Sprintf("%s is called from %s; allowed callers are %v", callee, cs.Fn.Name(), allowed))
	}
}

// isParamOf returns a predicate: the expression is the named parameter (or the
// receiver) of f.
func isParam(f *chk.Fn, name string) func(ast.Expr) bool {
	v := f.ParamNamed(name)
	if v == nil {
		if r := f.Recv(); r != nil && r.Name() == name {
			v = r
		}
	}
	return func(e ast.Expr) bool { return v != nil && f.Denotes(e, v) }
}

// isParamIdx returns a predicate: the expression is the i-th parameter of f.
func isParamIdx(f *chk.Fn, i int) func(ast.Expr) bool {
	v := f.Param(i)
	return func(e ast.Expr) bool { return v != nil && f.Denotes(e, v) }
}

// isRecv: the expression is the receiver of f.
func isRecv(f *chk.Fn) func(ast.Expr) bool {
	v := f.Recv()
	return func(e ast.Expr) bool { return v != nil && f.Denotes(e, v) }
}

// constStr: e is a string constant with one of the given values.
func constStr(f *chk.Fn, vals ...string) func(ast.Expr) bool {
	return func(e ast.Expr) bool {
		for _, v := range vals {
			if f.IsConstString(e, v) {
				return true
			}
		}
		return false
	}
}

// isObjNamed: e resolves to the object with the given module-relative name
// (constants, variables, functions), e.g. "internal/k8s/controllers.SyncStateError".
func isObjNamed(f *chk.Fn, names ...string) func(ast.Expr) bool {
	return func(e ast.Expr) bool {
		o := f.ObjOf(e)
		if o == nil {
			return false
		}
		n := chk.ObjName(o)
		for _, w := range names {
			if n == w {
				return true
			}
		}
		return false
	}
}

// definedBy: e is a local variable whose reaching definition (same block, or
// the unique definition in the function) matches the pattern.
func definedBy(g *chk.Graph, pat string, checks ...chk.HoleCheck) func(ast.Expr) bool {
	return func(e ast.Expr) bool {
		id, ok := ast.Unparen(e).(*ast.Ident)
		if !ok {
			// the value written in place instead of through a local
			return g.Fn.MatchWith(pat, ast.Unparen(e), checks...) != nil
		}
		rhs, _ := g.DefOf(id, g.FactSite(id))
		if rhs != nil && g.Fn.MatchWith(pat, rhs, checks...) != nil {
			return true
		}
		// through a chain of temporaries
		if r := g.Fn.Resolve(id); r != ast.Expr(id) {
			return g.Fn.MatchWith(pat, r, checks...) != nil
		}
		return false
	}
}

// rangeVar returns predicates for the key and value variables of a range stmt.
// The element of the current iteration is the value variable, or X[k] / &X[k]
// (directly or through a local) where X is the ranged expression and k the key
// variable: `for _, v := range X` and `for i := range X { v := &X[i]` agree.
func rangeVal(f *chk.Fn, rs *ast.RangeStmt) func(ast.Expr) bool {
	var o, k types.Object
	if id, ok := rs.Value.(*ast.Ident); ok {
		o = f.ObjOf(id)
	}
	if id, ok := rs.Key.(*ast.Ident); ok && id.Name != "_" {
		k = f.ObjOf(id)
	}
	_, isMap := f.Info().TypeOf(rs.X).Underlying().(*types.Map)
	return func(e ast.Expr) bool {
		if o != nil && f.Denotes(e, o) {
			return true
		}
		if k == nil {
			return false
		}
		r := f.Resolve(e)
		for i := 0; i < 3; i++ {
			switch x := ast.Unparen(r).(type) {
			case *ast.UnaryExpr:
				if x.Op == token.AND {
					r = f.Resolve(x.X)
					continue
				}
			case *ast.StarExpr:
				r = f.Resolve(x.X)
				continue
			}
			break
		}
		ix, ok := ast.Unparen(r).(*ast.IndexExpr)
		if !ok || !f.Denotes(ix.Index, k) {
			return false
		}
		_ = isMap
		return f.SameExpr(ix.X, rs.X)
	}
}

func rangeKey(f *chk.Fn, rs *ast.RangeStmt) func(ast.Expr) bool {
	var o types.Object
	if id, ok := rs.Key.(*ast.Ident); ok {
		o = f.ObjOf(id)
	}
	return func(e ast.Expr) bool { return o != nil && f.Denotes(e, o) }
}

// returnsOf lists the return statements of a function.
func returnsOf(g *chk.Graph) []chk.Site { return g.Returns() }

func retResults(s chk.Site) []ast.Expr { return s.Node.(*ast.ReturnStmt).Results }

// posOf gives a position for a witness, falling back to the function.
func posOf(w chk.Witness, f *chk.Fn) token.Pos {
	if p := w.Pos(); p.IsValid() {
		return p
	}
	return f.Pos()
}

func describe(f *chk.Fn, w chk.Witness) string {
	if !w.Found {
		return ""
	}
	switch w.Kind {
	case chk.ExitReturn:
		return "reaches the return at " + f.Prog.Rel(posOf(w, f))
	case chk.ExitFall:
		return "reaches the end of the function"
	}
	return "reaches " + f.Prog.Rel(posOf(w, f))
}

// noAssignTo reports the assignments to the object of variable v in f's body.
func assignsTo(f *chk.Fn, o types.Object) []ast.Node {
	var out []ast.Node
	ast.Inspect(f.Body, func(n ast.Node) bool {
		switch s := n.(type) {
		case *ast.AssignStmt:
			for _, l := range s.Lhs {
				if id, ok := l.(*ast.Ident); ok && f.ObjOf(id) == o && o != nil {
					out = append(out, s)
				}
			}
		case *ast.IncDecStmt:
			if id, ok := s.X.(*ast.Ident); ok && f.ObjOf(id) == o && o != nil {
				out = append(out, s)
			}
		}
		return true
	})
	return out
}

func sortedKeys(m map[string]bool) []string {
	var out []string
	for k := range m {
		out = append(out, k)
	}
	sort.Strings(out)
	return out
}

func join(ss []string) string { return strings.Join(ss, ", ") }

// allFoundShape decides the shape of a "for every x in A there is an equal y in
// B" function over two slice parameters: an outer loop over parameter a, a
// per-iteration boolean flag initialised to false, an inner loop over parameter
// b that sets the flag only behind X.Equal(Y) of the two loop variables, after
// the inner loop `if !flag { return onMissing }` on every such path, no break
// out of the outer loop, and `return !onMissing` only after the outer loop ran
// to exhaustion. It returns "" when the shape holds, else a reason.
func allFoundShape(f *chk.Fn, a, b int, onMissing bool) string {
	g := f.Graph()
	outer := f.RangeLoops(isParamIdx(f, a))
	inner := f.RangeLoops(isParamIdx(f, b))
	if len(outer) != 1 || len(inner) != 1 || !chk.InBody(outer[0], inner[0]) {
		return "no nested loops over the two address lists"
	}
	pv, cv := rangeVal(f, outer[0]), rangeVal(f, inner[0])
	var flag types.Object
	for _, s := range g.Find(f.IsAssignPat("H", "true")) {
		if g.Dominated(s, g.GPat(true, "P.Equal(C)", chk.H("P", pv), chk.H("C", cv))) || g.Dominated(s, g.GPat(true, "C.Equal(P)", chk.H("P", pv), chk.H("C", cv))) {
			flag = f.ObjOf(s.Node.(*ast.AssignStmt).Lhs[0])
		} else {
			return "the found-flag is set without an Equal test of the two loop variables"
		}
	}
	if flag == nil {
		return "no found-flag set behind X.Equal(Y)"
	}
	decl := g.Find(func(n ast.Node) bool {
		as, ok := n.(*ast.AssignStmt)
		return ok && as.Tok.String() == ":=" && len(as.Lhs) == 1 && f.ObjOf(as.Lhs[0]) == flag && f.IsConstBool(as.Rhs[0], false) && chk.InBody(outer[0], n) && !chk.InBody(inner[0], n)
	})
	if len(decl) != 1 {
		return "the found-flag is not reset to false for every element of the outer list"
	}
	es := g.EdgesImplying(chk.GBool(false, f.IsObj(flag)))
	if len(es) == 0 {
		return "the found-flag is never tested"
	}
	isRet := func(val bool) func(ast.Node) bool {
		return func(n ast.Node) bool {
			rs, ok := n.(*ast.ReturnStmt)
			return ok && len(rs.Results) == 1 && f.IsConstBool(rs.Results[0], val)
		}
	}
	for _, e := range es {
		if g.BranchAlways(e, isRet(onMissing)).Found {
			return "an element without a match does not lead to the `missing` result"
		}
	}
	// every outer iteration reaches the flag test after the inner loop
	loopB, bodyB, doneB := g.RangeBlocks(outer[0])
	for _, bl := range g.Blocks {
		for _, s := range bl.Succs {
			if s == doneB && bl != loopB {
				return "the outer loop can be left early"
			}
		}
	}
	testBlocks := map[*cfgBlock]bool{}
	for _, e := range es {
		testBlocks[e.B] = true
	}
	seen := map[*cfgBlock]bool{}
	var skips func(bl *cfgBlock) bool
	skips = func(bl *cfgBlock) bool {
		if testBlocks[bl] {
			return false
		}
		for _, s := range bl.Succs {
			if s == loopB {
				return true
			}
			if !seen[s] {
				seen[s] = true
				if skips(s) {
					return true
				}
			}
		}
		return false
	}
	if bodyB != nil && skips(bodyB) {
		return "an outer iteration can complete without testing the found-flag"
	}
	for _, rt := range g.Returns() {
		res := retResults(rt)
		if len(res) != 1 {
			return "unexpected return arity"
		}
		switch {
		case f.IsConstBool(res[0], onMissing):
			// inside the outer loop behind !flag, or a pre-check before the loops
			if chk.InBody(outer[0], rt.Node) && !g.Dominated(rt, chk.GBool(false, f.IsObj(flag))) {
				return "the `missing` result is returned for an element that was found"
			}
		case f.IsConstBool(res[0], !onMissing):
			if !g.AfterLoop(rt, outer[0]) {
				return "the `all found` result is returned before every element was examined"
			}
		default:
			return "a return that is not a boolean constant"
		}
	}
	return ""
}
