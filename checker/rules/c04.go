package rules

import (
	"go/ast"
	"go/token"
	"go/types"
	"strings"

	"verif/mlbcheck/chk"
)

const l2c = "(*speaker.layer2Controller)."

func init() {
	register(&Prop{
		ID: "C04",
		Explanation: "Decided (on all paths): the layer-2 election in (*layer2Controller).ShouldAnnounce is a deterministic argmin over a candidate list - the list (built " +
			"from Go maps) is sorted before its element 0 is read, the comparator indexes only the sorted list (SORT-IDX) and compares the same key " +
			"expression sha256(node + \"#\" + address) at i and j (SORT-KEY), the key depends only on the node name and the address, and c.myNode is used only " +
			"for the pool test and the final equality with element 0 (ELECTION); every candidate passed the eligibility filters: live speaker (or every known " +
			"node when membership is disabled), not network-unavailable, not excluded unless exclusion is ignored, selected by an L2 advertisement of the pool " +
			"(ELIGIBLE); under the Local policy the candidates are the nodes with a servable endpoint and a speaker; \"\" is returned only with an active endpoint, " +
			"a pool selecting this node and this node first (WINNER); EndpointCanServe is ready-or-serving (CANSERVE). ELECTION-SCOPE (the election key covers " +
			"every address the protocol announces) is violated today: known finding D9.",
		NotDecided: "That all speakers really see the same view (membership, nodes, endpoints) and hash collisions; which node wins for concrete inputs.",
		Run:        runC04,
		Mutants:    c04Mutants,
	})
	register(&Prop{
		ID: "C12",
		Explanation: "Decided: the structural premise of rendezvous hashing for the layer-2 election - the winner is element 0 of the candidate list sorted by a " +
			"key-based comparator (same key expression at i and j, strict `<` on the digest), the key's only inputs are the candidate's node name and the " +
			"first address, the comparator indexes only the sorted list, the list is sorted after its last modification, and nothing local (c.myNode, " +
			"service name) enters the key. With a key-based total order the winner is argmin key(node), from which \"removing a non-winner leaves the winner\" " +
			"and \"adding nodes changes the winner only to an added node\" follow. ELECTION-SCOPE is violated today (known finding D9): for an address that is " +
			"not first in its Service the choice also depends on another address.",
		NotDecided: "Nothing value-level is checked: the minimal-disruption conclusion is a mathematical consequence of the decided premise.",
		Run:        runC12,
		Mutants: []Mutant{
			{Name: "endpoint-scan-stops-at-first-unnamed", File: "speaker/layer2_controller.go",
				Old: "\t\t\tif ep.NodeName == nil {\n\t\t\t\tcontinue", New: "\t\t\tif ep.NodeName == nil {\n\t\t\t\tbreak", Expect: "ELIGIBLE"},
			{Name: "unknown-network-status-counts-as-unavailable", File: "internal/k8s/nodes/nodes.go",
				Old: "== corev1.ConditionTrue", New: "!= corev1.ConditionFalse", Expect: "NODE-NETWORK"},
			c04MutantNamed("sort-removed"), c04MutantNamed("comparator-uses-mynode"), c04MutantNamed("winner-is-last"), c04MutantNamed("hash-cache-by-position"),
			c04MutantNamed("speaker-scan-stops-at-unavailable-node"), c04MutantNamed("speaker-without-cached-node-skipped"),
			{Name: "key-includes-service-name", File: "speaker/layer2_controller.go",
				Old: "ipString := toAnnounce[0].String()", New: "ipString := toAnnounce[0].String() + name", Expect: "ELECTION"},
		},
	})
}

func c04MutantNamed(name string) Mutant {
	for _, m := range c04Mutants {
		if m.Name == name {
			return m
		}
	}
	panic("no C04 mutant named " + name)
}

var c04Mutants = []Mutant{
	{Name: "speaker-without-cached-node-skipped", File: "speaker/layer2_controller.go",
		Old: "\t\tif k8snodes.IsNetworkUnavailable(nodes[s]) {", New: "\t\tif _, known := nodes[s]; !known && len(nodes) > 0 {\n\t\t\tcontinue\n\t\t}\n\t\tif k8snodes.IsNetworkUnavailable(nodes[s]) {", Expect: "ELIGIBLE"},
	{Name: "bgp-handler-sorts-the-callers-addresses", File: "speaker/bgp_controller.go",
		Old: "\tc.svcAds[name] = nil\n\tfor _, lbIP := range lbIPs {", New: "\tc.svcAds[name] = nil\n\tsort.SliceStable(lbIPs, func(i, j int) bool { return lbIPs[i].To4() != nil && lbIPs[j].To4() == nil })\n\tfor _, lbIP := range lbIPs {", Expect: "ADDRESSES-READONLY"},
	{Name: "lone-speaker-reports-membership-disabled", File: "internal/speakerlist/speakerlist.go",
		Old: "\tactiveNodes := map[string]bool{}\n\tfor _, n := range sl.ml.Members() {", New: "\tif sl.ml.NumMembers() <= 1 {\n\t\treturn SpeakerListInfo{Disabled: true}\n\t}\n\tactiveNodes := map[string]bool{}\n\tfor _, n := range sl.ml.Members() {", Expect: "MEMBERSHIP"},
	{Name: "members-named-like-me-skipped", File: "internal/speakerlist/speakerlist.go",
		Old: "\tfor _, n := range sl.ml.Members() {\n\t\tactiveNodes[n.Name] = true", New: "\tfor _, n := range sl.ml.Members() {\n\t\tif n.State != memberlist.StateAlive {\n\t\t\tbreak\n\t\t}\n\t\tactiveNodes[n.Name] = true", Expect: "MEMBERSHIP"},
	{Name: "active-endpoint-needs-node-name", File: "speaker/layer2_controller.go",
		Old: "\t\t\tif !epslices.EndpointCanServe(ep.Conditions) {\n\t\t\t\tcontinue\n\t\t\t}\n\t\t\treturn true", New: "\t\t\tif !epslices.EndpointCanServe(ep.Conditions) || ep.NodeName == nil {\n\t\t\t\tcontinue\n\t\t\t}\n\t\t\treturn true", Expect: "WINNER"},
	{Name: "endpoint-scan-stops-at-first-unnamed", File: "speaker/layer2_controller.go",
		Old: "\t\t\tif ep.NodeName == nil {\n\t\t\t\tcontinue", New: "\t\t\tif ep.NodeName == nil {\n\t\t\t\tbreak", Expect: "ELIGIBLE"},
	{Name: "unknown-network-status-counts-as-unavailable", File: "internal/k8s/nodes/nodes.go",
		Old: "== corev1.ConditionTrue", New: "!= corev1.ConditionFalse", Expect: "NODE-NETWORK"},
	{Name: "sort-removed", File: "speaker/layer2_controller.go",
		Old: "\tsort.Slice(availableNodes, func(i, j int) bool {\n\t\thi := sha256.Sum256([]byte(availableNodes[i] + \"#\" + ipString))\n\t\thj := sha256.Sum256([]byte(availableNodes[j] + \"#\" + ipString))\n\n\t\treturn bytes.Compare(hi[:], hj[:]) < 0\n\t})\n",
		New: "\t_ = sha256.Sum256([]byte(ipString))\n\t_ = bytes.Compare\n\tsort.Strings(nil)\n", Expect: "ELECTION"},
	{Name: "comparator-uses-mynode", File: "speaker/layer2_controller.go",
		Old: "\t\treturn bytes.Compare(hi[:], hj[:]) < 0\n", New: "\t\tif availableNodes[i] == c.myNode {\n\t\t\treturn true\n\t\t}\n\t\treturn bytes.Compare(hi[:], hj[:]) < 0\n", Expect: "ELECTION"},
	{Name: "exclude-filter-dropped", File: "speaker/layer2_controller.go",
		Old: "\t\tif !c.ignoreExcludeLB && k8snodes.IsNodeExcludedFromBalancers(nodes[s]) {", New: "\t\tif !c.ignoreExcludeLB && k8snodes.IsNodeExcludedFromBalancers(nodes[c.myNode]) {", Expect: "ELIGIBLE"},
	{Name: "local-policy-uses-all-speakers", File: "speaker/layer2_controller.go",
		Old: "\t\tavailableNodes = nodesWithEndpoint(eps, speakerMap)\n", New: "\t\tavailableNodes = nodesWithActiveSpeakers(speakerMap)\n", Expect: "WINNER"},
	{Name: "winner-is-last", File: "speaker/layer2_controller.go",
		Old: "if len(availableNodes) > 0 && availableNodes[0] == c.myNode {", New: "if len(availableNodes) > 0 && availableNodes[len(availableNodes)-1] == c.myNode {", Expect: "ELECTION"},
	{Name: "hash-cache-by-position", File: "speaker/layer2_controller.go",
		Old: "\tsort.Slice(availableNodes, func(i, j int) bool {\n\t\thi := sha256.Sum256([]byte(availableNodes[i] + \"#\" + ipString))\n\t\thj := sha256.Sum256([]byte(availableNodes[j] + \"#\" + ipString))\n",
		New: "\thashes := make([][32]byte, len(availableNodes))\n\tfor k, n := range availableNodes {\n\t\thashes[k] = sha256.Sum256([]byte(n + \"#\" + ipString))\n\t}\n\tsort.Slice(availableNodes, func(i, j int) bool {\n\t\thi := hashes[i]\n\t\thj := hashes[j]\n", Expect: "ELECTION"},
	{Name: "endpoint-without-speaker-counts", File: "speaker/layer2_controller.go",
		Old: "\t\t\tif hasSpeaker := speakers[nodeName]; !hasSpeaker {\n\t\t\t\tcontinue\n\t\t\t}\n", New: "", Expect: "ELIGIBLE"},
	{Name: "unavailable-check-only-for-local-node", File: "speaker/layer2_controller.go",
		Old: "\t\tif k8snodes.IsNetworkUnavailable(nodes[s]) {", New: "\t\tif s == c.myNode && k8snodes.IsNetworkUnavailable(nodes[s]) {", Expect: "ELIGIBLE"},
	{Name: "canserve-ignores-ready-false", File: "internal/k8s/epslices/endpoint_slices.go",
		Old: "if conditions.Ready == nil || *conditions.Ready {", New: "if conditions.Ready == nil || *conditions.Ready || conditions.Serving == nil {", Expect: "CANSERVE"},
	{Name: "no-endpoint-still-elects", File: "speaker/layer2_controller.go",
		Old: "\tif !activeEndpointExists(eps) { // no active endpoints, just return", New: "\tif !activeEndpointExists(eps) && len(eps) > 0 { // no active endpoints, just return", Expect: "WINNER"},
	{Name: "first-nonempty-slice-decides", File: "speaker/layer2_controller.go",
		Old: "\t\t\treturn true\n\t\t}\n\t}\n\treturn false\n}\n\nfunc poolMatchesNodeL2",
		New: "\t\t\treturn true\n\t\t}\n\t\tif len(slice.Endpoints) > 0 {\n\t\t\treturn false\n\t\t}\n\t}\n\treturn false\n}\n\nfunc poolMatchesNodeL2", Expect: "no-only-after-every-slice"},
	{Name: "speaker-scan-stops-at-unavailable-node", File: "speaker/layer2_controller.go",
		Old: "\"reason\", \"speaker's node has NodeNetworkUnavailable condition\")\n\t\t\tcontinue",
		New: "\"reason\", \"speaker's node has NodeNetworkUnavailable condition\")\n\t\t\tbreak", Expect: "every-speaker-examined"},
	{Name: "node-update-filter-needs-condition-on-both-sides", File: "internal/k8s/controllers/node_controller.go",
		Old: "\t\t\tif k8snodes.IsNetworkUnavailable(oldNode) != k8snodes.IsNetworkUnavailable(newNode) {\n\t\t\t\treturn true\n\t\t\t}\n",
		New: "\t\t\tif len(oldNode.Status.Conditions) > 0 && k8snodes.IsNetworkUnavailable(oldNode) != k8snodes.IsNetworkUnavailable(newNode) {\n\t\t\t\treturn true\n\t\t\t}\n", Expect: "NODE-EVENTS"},
	{Name: "availability-compared-as-one-boolean", File: "speaker/main.go",
		Old: "\tif k8snodes.IsNetworkUnavailable(oldNode) != k8snodes.IsNetworkUnavailable(newNode) {\n\t\treturn true\n\t}\n\tif k8snodes.IsNodeExcludedFromBalancers(oldNode) != k8snodes.IsNodeExcludedFromBalancers(newNode) {\n\t\treturn true\n\t}\n\n\treturn false",
		New: "\tavail := func(n *v1.Node) bool { return !k8snodes.IsNetworkUnavailable(n) && !k8snodes.IsNodeExcludedFromBalancers(n) }\n\treturn avail(oldNode) != avail(newNode)", Expect: "RESYNC"},
}

func runC04(p *chk.Prog, r *chk.Report) {
	// the nodes an advertisement selects are those any one of its selectors matches (SELECT, shared with C08)
	c08Select(p, r)
	// an advertisement is dropped as a duplicate only of one with the same node set (ADV-DEDUP, shared with C08, C12)
	c08Dedup(p, r)
	// the advertisements applied are those of the pool that owns the addresses now (POOL-CURRENT, shared with C09)
	c09PoolCurrent(p, r)
	handlerReadonlyRule(p, r)
	c09Exit(p, r)
	membershipRule(p, r)
	nodeExclusionRule(p, r)
	nodeNetworkRule(p, r)
	c04Election(p, r)
	c04Eligible(p, r)
	c04Winner(p, r)
	canServeRule(p, r)
	electionScope(p, r)
	// a node whose network condition or exclusion label flips re-syncs every service, each input compared on its own
	// (RESYNC, shared with C09): with --ignore-exclude-lb a labelled node is a candidate and only its network decides
	c09Resync(p, r)
	nodeEventsRule(p, r)
}

func runC12(p *chk.Prog, r *chk.Report) {
	// the nodes' availability the election reads is the current one: a node update is stored and re-evaluated (RESYNC, shared with C09)
	c09Resync(p, r)
	// advertisements attached to a pool are de-duplicated by equality, not by inclusion (ADV-DEDUP, shared with C08)
	c08Dedup(p, r)
	handlerReadonlyRule(p, r)
	// the addresses the election is keyed on are the ones in the Service status (IP-CHANGE, shared with C09)
	c09Exit(p, r)
	membershipRule(p, r)
	c04Eligible(p, r)
	nodeExclusionRule(p, r)
	nodeNetworkRule(p, r)
	c04Election(p, r)
	electionScope(p, r)
}

// l2Election locates the election sort in ShouldAnnounce.
type l2Election struct {
	f    *chk.Fn
	g    *chk.Graph
	sc   *chk.SortCall
	list types.Object
}

func findL2Election(x *chk.R, p *chk.Prog) *l2Election {
	f := need(x, p, "speaker", "layer2Controller", "ShouldAnnounce")
	if f == nil {
		return nil
	}
	e := &l2Election{f: f, g: f.Graph()}
	for _, c := range p.SortCalls() {
		if c.Fn == f {
			c := c
			e.sc = &c
		}
	}
	return e
}

func c04Election(p *chk.Prog, r *chk.Report) {
	x := r.Rule("ELECTION", "A' comparator + A map order", "in (*layer2Controller).ShouldAnnounce: the candidate list read at index 0 for the final `== c.myNode` test is sorted by sort.Slice after its last assignment (it is built from Go maps); the comparator indexes only that list (SORT-IDX); it returns bytes.Compare(hi[:], hj[:]) < 0 where hi/hj are the same expression sha256.Sum256([]byte(list[k] + \"#\" + ipString)) at k = i, j (SORT-KEY); ipString derives only from toAnnounce[0]; the comparator's free variables are the list and ipString; c.myNode occurs only in poolMatchesNodeL2(pool, c.myNode) and in the final equality", 8)
	e := findL2Election(x, p)
	if e == nil {
		return
	}
	f, g := e.f, e.g
	// the winner test
	// the comparison of element 0 with the local node, in either polarity
	wins := append(g.FindPat("L[0] == RECV.myNode", chk.H("RECV", isRecv(f))), g.FindPat("L[0] != RECV.myNode", chk.H("RECV", isRecv(f)))...)
	if len(wins) != 1 {
		x.Fail("ShouldAnnounce:winner-is-element-0", f.Pos(), "no test `candidates[0] == c.myNode`: the winner is not element 0 of the sorted candidate list")
		return
	}
	win := wins[0]
	wb := f.MatchNew("L[0] == M", win.Node.(ast.Expr))
	if wb == nil {
		wb = f.MatchNew("L[0] != M", win.Node.(ast.Expr))
	}
	list := f.ObjOf(wb["L"])
	x.OK("ShouldAnnounce:winner-is-element-0", win.Pos(), "")
	if e.sc == nil || e.sc.Less == nil {
		x.Fail("ShouldAnnounce:candidates-sorted", win.Pos(), "the candidate list (built from Go map iteration) is not sorted before element 0 is read: the winner depends on map order")
		return
	}
	sc := e.sc
	x.Check("ShouldAnnounce:sort-is-on-candidates", sc.Call.Pos(), f.ObjOf(sc.Slice) == list && list != nil, "", "the list that is sorted is not the list whose element 0 wins")
	sortSites := g.Find(func(n ast.Node) bool { return n == ast.Node(sc.Call) })
	if len(sortSites) == 1 {
		w := g.MustPass(chk.Site{}, func(n ast.Node) bool { return n == win.Top }, false, func(n ast.Node) bool { return n == sortSites[0].Top })
		x.Check("ShouldAnnounce:candidates-sorted", posOf(w, f), !w.Found, "", "element 0 can be read without sorting the candidates (map order decides the winner)")
		w2 := (&chk.Walk{G: g, From: sortSites[0], Stop: func(n ast.Node) bool { return n == win.Top }, Hit: func(n ast.Node) bool {
			as, ok := n.(*ast.AssignStmt)
			if !ok {
				return false
			}
			for _, l := range as.Lhs {
				if f.RootObj(l) == list {
					return true
				}
			}
			return false
		}}).Run()
		x.Check("ShouldAnnounce:no-change-after-sort", posOf(w2, f), !w2.Found, "", "the candidate list is modified between the sort and the read of element 0")
	}
	ok, bad := sc.IndexesOnlySorted()
	pos := sc.Call.Pos()
	if bad != nil {
		pos = bad.Pos()
	}
	x.Check("ShouldAnnounce:SORT-IDX", pos, ok, "", "the comparator's index parameters index something other than the list being sorted (a side table goes stale as soon as sort.Slice swaps elements)")
	// SORT-KEY
	lf := f.LitFn(sc.Less)
	lg := lf.Graph()
	keyOK := false
	var addrPart ast.Expr
	rets := lg.Returns()
	if len(rets) == 1 && len(retResults(rets[0])) == 1 {
		if b := lf.MatchNew("bytes.Compare(A[:], B[:]) < 0", retResults(rets[0])[0]); b != nil {
			// the two hashes as value expressions over the comparator's parameters (temporaries and helper
			// parameters expanded)
			da, db := sameRepr(lf, lf.Expand(b["A"])), sameRepr(lf, lf.Expand(b["B"]))
			ma := lf.MatchNew(`sha256.Sum256([]byte(L[I] + "#" + S))`, da)
			mb := lf.MatchNew(`sha256.Sum256([]byte(L[I] + "#" + S))`, db)
			if ma != nil && mb != nil && lf.ObjOf(ma["I"]) == sc.I && lf.ObjOf(mb["I"]) == sc.J && lf.SameModulo(da, db, sc.I, sc.J) && lf.ObjOf(ma["L"]) == list {
				keyOK = true
				addrPart = ma["S"]
			}
		}
	}
	if !keyOK && len(rets) == 1 && len(retResults(rets[0])) == 1 {
		// the digests compared as strings (byte-wise order): string(hi[:]) < string(hj[:])
		if b := lf.MatchNew("A < B", retResults(rets[0])[0]); b != nil {
			sa, sb := lf.MatchNew("string(H[:])", lf.Expand(b["A"])), lf.MatchNew("string(H[:])", lf.Expand(b["B"]))
			if sa != nil && sb != nil {
				da, db := lf.Expand(sa["H"]), lf.Expand(sb["H"])
				ma := lf.MatchNew(`sha256.Sum256([]byte(L[I] + "#" + S))`, da)
				mb := lf.MatchNew(`sha256.Sum256([]byte(L[I] + "#" + S))`, db)
				if ma != nil && mb != nil && lf.ObjOf(ma["I"]) == sc.I && lf.ObjOf(mb["I"]) == sc.J && lf.SameModulo(da, db, sc.I, sc.J) && lf.ObjOf(ma["L"]) == list {
					keyOK = true
					addrPart = ma["S"]
				}
			}
		}
	}
	var keyFnObj types.Object
	if !keyOK && len(rets) == 1 && len(retResults(rets[0])) == 1 {
		// the key computed by a local key function: bytes.Compare(K(list[i]), K(list[j])) < 0 with
		// K := func(node) []byte { h := sha256.Sum256([]byte(node + "#" + S)); return h[:] }
		if b := lf.MatchNew("bytes.Compare(K(L[I]), K2(L2[J])) < 0", retResults(rets[0])[0]); b != nil {
			k1, isId1 := ast.Unparen(b["K"]).(*ast.Ident)
			k2, isId2 := ast.Unparen(b["K2"]).(*ast.Ident)
			if isId1 && isId2 && lf.ObjOf(k1) != nil && lf.ObjOf(k1) == lf.ObjOf(k2) && lf.ObjOf(b["I"]) == sc.I && lf.ObjOf(b["J"]) == sc.J &&
				lf.ObjOf(b["L"]) == list && lf.ObjOf(b["L2"]) == list && len(assignsTo(f, lf.ObjOf(k1))) == 1 {
				if klit, isLit := ast.Unparen(f.LocalDef(k1)).(*ast.FuncLit); isLit && klit.Type.Params.NumFields() == 1 {
					kf := f.LitFn(klit)
					krets := kf.Graph().Returns()
					if atoms, okA := c04StreamedKey(f, kf, klit); okA && len(atoms) == 3 && isParamIdx(kf, 0)(atoms[0]) && kf.IsConstString(atoms[1], "#") {
						// sha256.New(); Write(node); Write("#" + address); Sum(nil): the digest of the same bytes
						keyOK = true
						addrPart = atoms[2]
						keyFnObj = lf.ObjOf(k1)
						c04KeyReadsOnly(f, kf, klit, addrPart, &keyOK)
					} else if len(krets) == 1 && len(retResults(krets[0])) == 1 {
						if hb := kf.MatchNew("H[:]", retResults(krets[0])[0]); hb != nil {
							if m := kf.MatchWith(`sha256.Sum256([]byte(P + "#" + S))`, kf.Expand(hb["H"]), chk.H("P", isParamIdx(kf, 0))); m != nil {
								keyOK = true
								addrPart = m["S"]
								keyFnObj = lf.ObjOf(k1)
								// the key function reads nothing but its parameter and the address part
								ast.Inspect(klit.Body, func(n ast.Node) bool {
									id, ok := n.(*ast.Ident)
									if !ok {
										return true
									}
									v, isVar := kf.ObjOf(id).(*types.Var)
									if !isVar || v.IsField() || v.Pkg() == nil || v.Parent() == v.Pkg().Scope() {
										return true
									}
									if v.Pos() >= klit.Pos() && v.Pos() <= klit.End() {
										return true
									}
									inAddr := false
									ast.Inspect(addrPart, func(m2 ast.Node) bool {
										if i2, ok := m2.(*ast.Ident); ok && kf.ObjOf(i2) == types.Object(v) {
											inAddr = true
										}
										return true
									})
									if !inAddr {
										keyOK = false
									}
									return true
								})
							}
						}
					}
				}
			}
		}
	}
	if !keyOK && len(rets) == 1 && len(retResults(rets[0])) == 1 {
		// the key computed by a function of the package: key(list[i], S) < key(list[j], S) on strings (byte-wise order), or
		// bytes.Compare of the two, with key(node, addr) = the sha256 digest of node + "#" + addr as string / byte slice
		for _, pat := range []string{"K(L[I], S) < K2(L2[J], S2)", "bytes.Compare(K(L[I], S), K2(L2[J], S2)) < 0", "strings.Compare(K(L[I], S), K2(L2[J], S2)) < 0"} {
			b := lf.MatchNew(pat, retResults(rets[0])[0])
			if b == nil {
				continue
			}
			ko1, _ := lf.ObjOf(b["K"]).(*types.Func)
			ko2, _ := lf.ObjOf(b["K2"]).(*types.Func)
			if ko1 == nil || ko1 != ko2 || lf.ObjOf(b["I"]) != sc.I || lf.ObjOf(b["J"]) != sc.J || lf.ObjOf(b["L"]) != list || lf.ObjOf(b["L2"]) != list || !lf.SameExpr(b["S"], b["S2"]) {
				continue
			}
			kf := p.FnOf(ko1)
			if kf == nil || kf.Body == nil || kf.Param(0) == nil || kf.Param(1) == nil || kf.Param(2) != nil {
				continue
			}
			krets := kf.Graph().Returns()
			if len(krets) != 1 || len(retResults(krets[0])) != 1 {
				continue
			}
			res := retResults(krets[0])[0]
			var h ast.Expr
			if m := kf.MatchNew("string(H[:])", res); m != nil {
				h = m["H"]
			} else if m := kf.MatchNew("H[:]", res); m != nil && !strings.HasPrefix(pat, "K(") {
				h = m["H"]
			}
			if h == nil {
				continue
			}
			if m := kf.MatchWith(`sha256.Sum256([]byte(P + "#" + S))`, kf.Expand(h), chk.H("P", isParamIdx(kf, 0)), chk.H("S", isParamIdx(kf, 1))); m != nil {
				// the key function reads nothing but its two parameters
				pure := true
				ast.Inspect(kf.Body, func(n ast.Node) bool {
					if id, ok := n.(*ast.Ident); ok {
						if v, isVar := kf.ObjOf(id).(*types.Var); isVar && !v.IsField() && v.Pkg() != nil && v.Parent() == v.Pkg().Scope() {
							pure = false // a package-level variable
						}
					}
					return true
				})
				if pure {
					keyOK = true
					addrPart = b["S"]
				}
			}
		}
	}
	x.Check("ShouldAnnounce:SORT-KEY", sc.Less.Pos(), keyOK, "", "the comparator is not `key(list[i]) < key(list[j])` with the same key expression sha256(list[k] + \"#\" + ipString) on both sides (the election is not an argmin of a per-node key)")
	// free variables: the list and what the address part is made of
	allowed := map[types.Object]bool{list: true}
	if keyFnObj != nil {
		allowed[keyFnObj] = true
	}
	if addrPart != nil {
		ast.Inspect(addrPart, func(n ast.Node) bool {
			if id, ok := n.(*ast.Ident); ok {
				if o := f.ObjOf(id); o != nil {
					allowed[o] = true
				}
			}
			return true
		})
	}
	good := true
	for _, o := range sc.FreeVars() {
		if allowed[o] {
			continue
		}
		// a table of precomputed keys (filled once per candidate) that the key expression was seen through: what
		// matters is what the stored expression reads, which the expanded key below shows
		seenThrough := false
		ast.Inspect(sc.Less.Body, func(n ast.Node) bool {
			if ix, ok := n.(*ast.IndexExpr); ok && lf.ObjOf(ast.Unparen(ix.X)) == o {
				if lf.MemoValue(ix) != nil {
					seenThrough = true
				} else {
					good = false
				}
				return false
			}
			if id, ok := n.(*ast.Ident); ok && lf.ObjOf(id) == o {
				good = false // any other use of the variable
			}
			return true
		})
		if !seenThrough {
			good = false
		}
	}
	if keyOK {
		// the expanded keys read only the list, the index parameters and the address part
		rets := lg.Returns()
		if b := lf.MatchNew("bytes.Compare(A[:], B[:]) < 0", retResults(rets[0])[0]); b != nil {
			for _, k := range []ast.Expr{lf.Expand(b["A"]), lf.Expand(b["B"])} {
				ast.Inspect(k, func(n ast.Node) bool {
					id, ok := n.(*ast.Ident)
					if !ok {
						return true
					}
					v, isVar := lf.ObjOf(id).(*types.Var)
					if !isVar || v.IsField() || v.Pkg() == nil || v.Parent() == v.Pkg().Scope() {
						return true
					}
					if !allowed[v] && types.Object(v) != sc.I && types.Object(v) != sc.J {
						good = false
					}
					return true
				})
			}
		}
	}
	x.Check("ShouldAnnounce:key-free-variables", sc.Less.Pos(), good && keyOK, "", "the comparator reads something besides the candidate list and the address string (e.g. the local node): speakers would disagree")
	// the address part is toAnnounce[0].String()
	ipOK := false
	if addrPart != nil {
		ipOK = f.MatchWith("T[0].String()", f.Expand(addrPart), chk.H("T", isParamNamedOrIdx(f, "toAnnounce", 2))) != nil
		if id, isId := ast.Unparen(addrPart).(*ast.Ident); isId && len(assignsTo(f, f.ObjOf(id))) != 1 {
			ipOK = false
		}
	}
	x.Check("ShouldAnnounce:key-address-source", f.Pos(), ipOK, "", "the address part of the election key is not exactly toAnnounce[0].String()")
	// uses of c.myNode
	myNode := p.LookupField("speaker", "layer2Controller", "myNode")
	n, bad2 := 0, ast.Node(nil)
	ast.Inspect(f.Body, func(nd ast.Node) bool {
		s, ok := nd.(*ast.SelectorExpr)
		if !ok || !f.IsField(s, myNode) {
			return true
		}
		n++
		par := p.Parent(s)
		var inner ast.Expr = s
		for {
			pe, isParen := par.(*ast.ParenExpr)
			if !isParen {
				break
			}
			inner, par = pe, p.Parent(pe)
		}
		if call, ok := par.(*ast.CallExpr); ok && f.MatchNew("poolMatchesNodeL2(_, _)", call) != nil {
			return true
		}
		if be, ok := par.(*ast.BinaryExpr); ok && ast.Node(be) == win.Node {
			return true
		}
		// a membership test of the local node in the candidate list: a node that is not a candidate can be refused
		// early (it could not be element 0), as long as a candidate still gets to the election
		isList := func(e ast.Expr) bool { return f.ObjOf(e) == list && list != nil }
		inMember := false
		if call, ok := par.(*ast.CallExpr); ok && f.MatchWith("slices.Contains(L, ME)", call, chk.H("L", isList)) != nil {
			inMember = true
		}
		if be, ok := par.(*ast.BinaryExpr); ok && be.Op == token.EQL {
			other := be.X
			if be.X == inner {
				other = be.Y
			}
			if elementOf(f, isList)(other) {
				inMember = true
			}
		}
		if inMember {
			isMe := func(e ast.Expr) bool {
				se, ok := ast.Unparen(e).(*ast.SelectorExpr)
				return ok && f.IsField(se, myNode)
			}
			okReach := false
			for _, e := range g.EdgesImplying(memberGuard(g, f, isList, isMe)) {
				start := chk.Site{G: g, B: e.B.Succs[e.K], I: 0}
				if len(e.B.Nodes) > 0 && e.B.Nodes[len(e.B.Nodes)-1] == win.Top {
					okReach = true // the final comparison with element 0 itself
					continue
				}
				if (&chk.Walk{G: g, From: start, Inclusive: true, Hit: func(m ast.Node) bool { return m == win.Top }}).Run().Found {
					okReach = true
				} else {
					okReach = false
					break
				}
			}
			if okReach {
				return true
			}
		}
		bad2 = s
		return true
	})
	pos2 := f.Pos()
	if bad2 != nil {
		pos2 = bad2.Pos()
	}
	x.Check("ShouldAnnounce:myNode-uses", pos2, bad2 == nil && n >= 2, "", "c.myNode influences the election outside the pool test and the final comparison with element 0")
}

func c04Eligible(p *chk.Prog, r *chk.Report) {
	x := r.Rule("ELIGIBLE", "B path", "in (*layer2Controller).speakersForPool a node becomes a candidate (res[s] = true) only behind !IsNetworkUnavailable(nodes[s]), the false edge of `!c.ignoreExcludeLB && IsNodeExcludedFromBalancers(nodes[s])` and poolMatchesNodeL2(pool, s), for s ranging over the usable speakers (over all known nodes only when membership is disabled); in nodesWithEndpoint a node becomes usable only behind EndpointCanServe(ep.Conditions), ep.NodeName != nil and speakers[*ep.NodeName]; poolMatchesNodeL2 is true only for an advertisement whose Nodes contains the node", 9)
	f := need(x, p, "speaker", "layer2Controller", "speakersForPool")
	if f != nil {
		g := f.Graph()
		nodes, pool := isParam(f, "nodes"), isParam(f, "pool")
		sets := g.Find(f.IsAssignPat("R[S]", "true"))
		// a set of the nodes the pool's L2 advertisements select, computed once (what poolMatchesNodeL2 answers node by
		// node) is not the candidate set
		poolSel := chk.NoGuard
		{
			var keep []chk.Site
			for _, st := range sets {
				m := f.RootObj(st.Node.(*ast.AssignStmt).Lhs[0])
				if m != nil && c04PoolNodeSet(f, g, m, pool) {
					poolSel = chk.GBool(true, func(e ast.Expr) bool { return f.MatchWith("M[_]", e, chk.H("M", f.IsObj(m))) != nil })
					c04PoolSets[m] = true
					continue
				}
				keep = append(keep, st)
			}
			sets = keep
		}
		// one site fed by a source that is selected first, or one site per source (the per-node test written once as a local
		// function and run from a loop over the members and from a loop over all nodes)
		x.Check("speakersForPool:candidate-site", f.Pos(), len(sets) == 1 || len(sets) == 2, "", "expected one `res[s] = true` (or one per candidate source)")
		direct := map[string]int{}
		for _, s := range sets {
			// every usable speaker is examined: the loop that admits candidates ends only when its source is exhausted
			// (the source is a map: a scan cut short at the first unfit node keeps a random subset)
			if l, isRs := f.LoopOf(s.Node).(*ast.RangeStmt); isRs {
				whole := !loopHasBreak(g, l)
				for _, rt := range g.Returns() {
					if chk.InBody(l, rt.Node) {
						whole = false
					}
				}
				x.Check("speakersForPool:every-speaker-examined", l.Pos(), whole, "", "the scan of the usable speakers can stop before the last one (a break or return in the loop): the candidates are then a random subset that differs from speaker to speaker")
			}
			key := s.Node.(*ast.AssignStmt).Lhs[0].(*ast.IndexExpr).Index
			same := func(e ast.Expr) bool { return f.SameExpr(e, key) }
			// a test made when the name was put on an intermediate list holds for the element taken from that list: the
			// candidates filtered in passes (health first, pool second) - every append to the list stands behind the test
			viaList := func(mk func(same func(ast.Expr) bool) chk.Guard) bool {
				lrs, _ := f.LoopOf(s.Node).(*ast.RangeStmt)
				if lrs == nil || !rangeVal(f, lrs)(key) {
					return false
				}
				lo := f.ObjOf(lrs.X)
				if lo == nil {
					return false
				}
				if _, isSlice := f.Info().TypeOf(lrs.X).Underlying().(*types.Slice); !isSlice {
					return false
				}
				nApp := 0
				for _, d := range assignsTo(f, lo) {
					as, isAs := d.(*ast.AssignStmt)
					if !isAs {
						continue // `var list []string`
					}
					if len(as.Rhs) != 1 {
						return false
					}
					if f.IsNilLit(as.Rhs[0]) {
						continue
					}
					b := f.MatchWith("append(L, V)", as.Rhs[0], chk.H("L", f.IsObj(lo)))
					if b == nil {
						if cl, isLit := ast.Unparen(as.Rhs[0]).(*ast.CompositeLit); isLit && len(cl.Elts) == 0 {
							continue
						}
						if isEmptyMake(f, as.Rhs[0]) {
							continue
						}
						return false
					}
					v := b["V"]
					sites := g.Find(func(n ast.Node) bool { return n == ast.Node(as) })
					if len(sites) != 1 || !g.Dominated(sites[0], mk(func(e ast.Expr) bool { return f.SameExpr(e, v) })) {
						return false
					}
					nApp++
				}
				return nApp >= 1
			}
			netOK := func(sm func(ast.Expr) bool) chk.Guard {
				return g.GPat(false, "k8snodes.IsNetworkUnavailable(N[S])", chk.H("N", nodes), chk.H("S", sm))
			}
			exclOK := func(sm func(ast.Expr) bool) chk.Guard {
				return g.GPat(false, "!IGN && k8snodes.IsNodeExcludedFromBalancers(N[S])", chk.H("IGN", recvFieldOrPassed(p, f, "layer2Controller", "ignoreExcludeLB")), chk.H("N", nodes), chk.H("S", sm))
			}
			x.Check("speakersForPool:network-available", s.Pos(), g.Dominated(s, netOK(same)) || viaList(netOK), "", "a network-unavailable node can become a candidate")
			x.Check("speakersForPool:not-excluded", s.Pos(), g.Dominated(s, exclOK(same)) || viaList(exclOK), "", "a node excluded from external load balancers can become a candidate although exclusion is not ignored")
			selects := g.Dominated(s, g.GPat(true, "poolMatchesNodeL2(P, S)", chk.H("P", pool), chk.H("S", same)))
			if !selects && !poolSel.IsNone() {
				for m := range c04PoolSets {
					selects = selects || g.Dominated(s, g.GPat(true, "M[S]", chk.H("M", f.IsObj(m)), chk.H("S", same)))
				}
			}
			x.Check("speakersForPool:pool-selects-node", s.Pos(), selects, "", "a node that no L2 advertisement of the pool selects can become a candidate")
			// the converse, where the three tests stand directly in the candidate loop: a usable speaker is left out only for
			// one of them. A further reason (a speaker whose Node object this process has not seen yet, say) makes the
			// candidate set depend on something the other speakers do not share, and two of them elect themselves.
			if lrs, isRs := f.LoopOf(s.Node).(*ast.RangeStmt); isRs && (rangeKey(f, lrs)(key) || rangeVal(f, lrs)(key)) &&
				g.Dominated(s, netOK(same)) && g.Dominated(s, exclOK(same)) && g.Dominated(s, g.GPat(true, "poolMatchesNodeL2(P, S)", chk.H("P", pool), chk.H("S", same))) {
				reasons := chk.GAnyOf(
					g.GPat(true, "k8snodes.IsNetworkUnavailable(N[S])", chk.H("N", nodes), chk.H("S", same)),
					g.GPat(true, "!IGN && k8snodes.IsNodeExcludedFromBalancers(N[S])", chk.H("IGN", recvFieldOrPassed(p, f, "layer2Controller", "ignoreExcludeLB")), chk.H("N", nodes), chk.H("S", same)),
					g.GPat(false, "poolMatchesNodeL2(P, S)", chk.H("P", pool), chk.H("S", same)))
				isSet := func(n ast.Node) bool { return n == s.Top }
				x.Check("speakersForPool:no-other-exclusion", lrs.Pos(), !loopSkipsWithout(g, lrs, isSet, reasons), "", "a usable speaker can be left out of the candidates for a reason other than an unavailable network, the exclusion label or the pool's node selection (e.g. its Node object not being in this speaker's cache yet): the candidate set then differs between speakers that see the same cluster, and two of them can elect themselves for one address")
			}
			// s ranges over the eligible nodes
			rs, _ := f.LoopOf(s.Node).(*ast.RangeStmt)
			okSrc := rs != nil && rangeKey(f, rs)(key)
			if rs != nil && !okSrc {
				// the names collected into a list first: the element of a range over a slice
				if _, isSlice := f.Info().TypeOf(rs.X).Underlying().(*types.Slice); isSlice && rangeVal(f, rs)(key) {
					okSrc = true
				}
			}
			if okSrc {
				// the candidate source is built here, or handed in by the (only) callers: then it is built there, from
				// the node map that is passed along
				fromMembership := func(fn *chk.Fn, src types.Object, nodesIn func(ast.Expr) bool) bool {
					if src == nil {
						return false
					}
					fg := fn.Graph()
					as2 := assignsTo(fn, src)
					if len(as2) == 0 {
						return false
					}
					// the maps whose keys the source can hold, each with the place where they get there
					srcs, okC := keySources(fn, fg, src, 0)
					if !okC || len(srcs) == 0 {
						return false
					}
					isSL := definedBy(fg, "RECV.sList.UsableSpeakers()")
					for _, ks := range srcs {
						switch {
						case fn.MatchWith("SL.Nodes", ks.m, chk.H("SL", isSL)) != nil:
						case nodesIn(ks.m) && fg.Dominated(ks.at, fg.GPat(true, "SL.Disabled", chk.H("SL", isSL))):
						default:
							return false
						}
					}
					return true
				}
				sl := definedBy(g, "RECV.sList.UsableSpeakers()")
				loopSites := g.Find(func(n ast.Node) bool { return n == ast.Node(rs.X) })
				if f.MatchWith("SL.Nodes", rs.X, chk.H("SL", sl)) != nil {
					// ranging over the members themselves
					direct["members"]++
				} else if nodes(rs.X) && len(loopSites) == 1 && g.Dominated(loopSites[0], g.GPat(true, "SL.Disabled", chk.H("SL", sl))) {
					// ranging over all known nodes, only with membership tracking disabled
					direct["all"]++
				} else if orig := paramOrigins(p, f, rs.X); len(orig) > 0 {
					for _, o := range orig {
						nodesArgs := paramOrigins(p, f, paramIdent(f, "nodes", 3))
						var nodesArg ast.Expr
						for _, na := range nodesArgs {
							if na.Call == o.Call {
								nodesArg = na.Arg
							}
						}
						ofn := o.Fn
						okSrc = okSrc && nodesArg != nil && fromMembership(ofn, ofn.ObjOf(o.Arg), func(e ast.Expr) bool { return ofn.SameExpr(e, nodesArg) })
					}
				} else {
					okSrc = fromMembership(f, f.ObjOf(rs.X), nodes)
				}
			}
			x.Check("speakersForPool:candidates-from-membership", s.Pos(), okSrc, "", "candidates are not drawn from the usable speakers (or from all known nodes only when membership tracking is disabled)")
		}
		if len(sets) == 2 {
			// two sites: one loop over the members and one over all nodes; with membership tracking enabled the members' loop runs
			ok2 := direct["members"] == 1 && direct["all"] == 1
			if ok2 {
				for _, rs := range f.RangeLoops(func(e ast.Expr) bool {
					return f.MatchWith("SL.Nodes", e, chk.H("SL", definedBy(g, "RECV.sList.UsableSpeakers()"))) != nil
				}) {
					hit := func(n ast.Node) bool { return n == ast.Node(rs.X) }
					// every return reached with tracking enabled comes after the members' loop
					w := (&chk.Walk{G: g, Stop: hit, Hit: func(n ast.Node) bool { _, isRet := n.(*ast.ReturnStmt); return isRet },
						Cut: func(b *cfgBlock, k int) bool {
							return g.EdgeImplies(b, k, g.GPat(true, "SL.Disabled", chk.H("SL", definedBy(g, "RECV.sList.UsableSpeakers()"))))
						}}).Run()
					if w.Found {
						ok2 = false
					}
				}
			}
			x.Check("speakersForPool:both-sources", f.Pos(), ok2, "", "with two candidate sites, one must range over the usable speakers (always run when membership tracking is enabled) and the other over all nodes when it is disabled")
		}
		c04KeysAlongside = false
		for _, rt := range g.Returns() {
			res := retResults(rt)
			okRet := len(sets) >= 1 && len(res) == 1
			if len(sets) >= 1 && len(res) == 2 {
				// the names of the set handed out with it: a list that starts empty, gains the key in the same basic block
				// as every insertion into the set, and is assigned nowhere else
				okRet = c04ListOfKeys(f, g, sets, f.ObjOf(res[1]))
				c04KeysAlongside = okRet
			}
			for _, st := range sets {
				okRet = okRet && f.ObjOf(res[0]) == f.RootObj(st.Node.(*ast.AssignStmt).Lhs[0])
			}
			x.Check("speakersForPool:returns-candidates", rt.Pos(), okRet, "", "speakersForPool returns something other than the filtered candidates")
		}
	}
	ne := need(x, p, "speaker", "", "nodesWithEndpoint")
	if ne != nil {
		g := ne.Graph()
		sets := g.Find(isSetInsert(ne))
		// the set of hosting nodes kept as a library set: H.Insert(name)
		keyOf := map[ast.Node]ast.Expr{}
		setOf := map[ast.Node]ast.Expr{}
		for _, s := range sets {
			keyOf[s.Node] = s.Node.(*ast.AssignStmt).Lhs[0].(*ast.IndexExpr).Index
			setOf[s.Node] = s.Node.(*ast.AssignStmt).Lhs[0].(*ast.IndexExpr).X
		}
		for _, s := range g.FindPat("H.Insert(K)") {
			if _, isSet := ne.Info().TypeOf(s.Node.(*ast.CallExpr).Fun.(*ast.SelectorExpr).X).Underlying().(*types.Map); isSet {
				keyOf[s.Node] = s.Node.(*ast.CallExpr).Args[0]
				setOf[s.Node] = s.Node.(*ast.CallExpr).Fun.(*ast.SelectorExpr).X
				sets = append(sets, s)
			}
		}
		if len(sets) == 0 {
			// the hosting nodes collected as a list (made unique afterwards, or not at all: the caller sorts and takes the
			// first): L = append(L, name) where L is what the function returns
			for _, s := range g.Find(ne.IsAssignPat("L", "append(L, K)")) {
				as := s.Node.(*ast.AssignStmt)
				l := ne.ObjOf(as.Lhs[0])
				returned := l != nil
				for _, rt := range g.Returns() {
					rr := retResults(rt)
					if len(rr) != 1 {
						returned = false
						continue
					}
					e := rr[0]
					if b := ne.MatchNew("slices.Compact(X)", e); b != nil {
						e = b["X"]
					}
					if ne.ObjOf(e) != l {
						returned = false
					}
				}
				if returned {
					keyOf[s.Node] = as.Rhs[0].(*ast.CallExpr).Args[1]
					setOf[s.Node] = as.Lhs[0]
					sets = append(sets, s)
				}
			}
		}
		x.Check("nodesWithEndpoint:usable-site", ne.Pos(), len(sets) == 1, "", "expected one `usable[node] = true`")
		for _, s := range sets {
			key := keyOf[s.Node]
			var ep ast.Expr
			isName := func(e ast.Expr) bool {
				if !ne.SameExpr(e, key) {
					return false
				}
				var rhs ast.Expr = ast.Unparen(e)
				if id, ok := ast.Unparen(e).(*ast.Ident); ok {
					rhs, _ = g.DefOf(id, g.FactSite(id))
				}
				b := ne.MatchNew("*EP.NodeName", rhs)
				if b == nil {
					return false
				}
				ep = b["EP"]
				return true
			}
			okName := isName(key)
			x.Check("nodesWithEndpoint:node-is-endpoint-node", s.Pos(), okName, "", "the usable node is not the endpoint's own node name")
			if !okName {
				continue
			}
			sameEP := func(e ast.Expr) bool { return ne.SameExpr(e, ep) }
			x.Check("nodesWithEndpoint:can-serve", s.Pos(), g.Dominated(s, g.GPat(true, "epslices.EndpointCanServe(EP.Conditions)", chk.H("EP", sameEP))), "", "a node counts although its endpoint is neither ready nor serving")
			x.Check("nodesWithEndpoint:has-node-name", s.Pos(), g.Dominated(s, g.GPat(true, "EP.NodeName != nil", chk.H("EP", sameEP))), "", "NodeName is dereferenced / used without the nil test")
			okSpeaker := g.Dominated(s, chk.GAnyOf(
				g.GPat(true, "SP[N]", chk.H("SP", isParam(ne, "speakers")), chk.H("N", isName)),
				chk.GBool(true, definedBy(g, "SP[N]", chk.H("SP", isParam(ne, "speakers")), chk.H("N", isName)))))
			if !okSpeaker {
				// the other way round: the hosting nodes are collected first, the result is drawn from the speakers that
				// are alive (value true) and hosting
				hset := func(e ast.Expr) bool {
					if ne.SameExpr(e, setOf[s.Node]) {
						return true
					}
					// the same set handed over under another name (the collecting helper's result)
					so, eo := ne.ObjOf(setOf[s.Node]), ne.ObjOf(e)
					return so != nil && eo != nil && flowSources(ne, eo)[so]
				}
				for _, rs := range ne.RangeLoops(isParam(ne, "speakers")) {
					node := rangeKey(ne, rs)
					apps := g.Find(func(n ast.Node) bool {
						return chk.InBody(rs, n) && ne.IsAssignPat("R", "append(R, N)", chk.H("N", node))(n)
					})
					if len(apps) != 1 {
						continue
					}
					alive := chk.GBool(true, rangeVal(ne, rs))
					hosting := chk.GAnyOf(g.GPat(true, "H.Has(N)", chk.H("H", hset), chk.H("N", node)), g.GPat(true, "H[N]", chk.H("H", hset), chk.H("N", node)),
						chk.GBool(true, definedByIdx(g, ne, "H[N]", 1, chk.H("H", hset), chk.H("N", node))))
					res := ne.ObjOf(apps[0].Node.(*ast.AssignStmt).Lhs[0])
					retOK := res != nil
					for _, rt := range g.Returns() {
						if rr := retResults(rt); len(rr) != 1 || ne.ObjOf(rr[0]) != res {
							retOK = false
						}
					}
					// the hosting set is complete when the result is drawn: the draw follows the outermost collecting loop
					var collect *ast.RangeStmt
					for l := ne.LoopOf(s.Node); l != nil; l = ne.LoopOf(l) {
						if lrs, isRs := l.(*ast.RangeStmt); isRs {
							collect = lrs
						}
					}
					if retOK && collect != nil && g.Dominated(apps[0], alive) && g.Dominated(apps[0], hosting) && g.AfterLoop(apps[0], collect) {
						okSpeaker = true
					}
				}
			}
			if !okSpeaker {
				// or drawn from the hosting set itself: every collected node that has a live speaker, once the set is complete
				hset := func(e ast.Expr) bool {
					if ne.SameExpr(e, setOf[s.Node]) {
						return true
					}
					so, eo := ne.ObjOf(setOf[s.Node]), ne.ObjOf(e)
					return so != nil && eo != nil && flowSources(ne, eo)[so]
				}
				for _, rs := range ne.RangeLoops(hset) {
					node := rangeKey(ne, rs)
					apps := g.Find(func(n ast.Node) bool {
						return chk.InBody(rs, n) && ne.IsAssignPat("R", "append(R, N)", chk.H("N", node))(n)
					})
					if len(apps) != 1 {
						continue
					}
					alive := chk.GAnyOf(g.GPat(true, "SP[N]", chk.H("SP", isParam(ne, "speakers")), chk.H("N", node)),
						chk.GBool(true, definedBy(g, "SP[N]", chk.H("SP", isParam(ne, "speakers")), chk.H("N", node))))
					res := ne.ObjOf(apps[0].Node.(*ast.AssignStmt).Lhs[0])
					retOK := res != nil
					for _, rt := range g.Returns() {
						if rr := retResults(rt); len(rr) != 1 || ne.ObjOf(rr[0]) != res {
							retOK = false
						}
					}
					var collect *ast.RangeStmt
					for l := ne.LoopOf(s.Node); l != nil; l = ne.LoopOf(l) {
						if lrs, isRs := l.(*ast.RangeStmt); isRs {
							collect = lrs
						}
					}
					if retOK && collect != nil && g.Dominated(apps[0], alive) && g.AfterLoop(apps[0], collect) {
						okSpeaker = true
					}
				}
			}
			x.Check("nodesWithEndpoint:has-speaker", s.Pos(), okSpeaker, "", "a node without a live, eligible speaker can become a candidate under the Local policy")
			// every endpoint is looked at: a node whose serving endpoint comes after one that is skipped is still a candidate
			if ne.LoopOf(s.Node) != nil {
				bad := scanLeftEarly(ne, s.Node)
				pos := s.Pos()
				if bad != nil {
					pos = bad.Pos()
				}
				x.Check("nodesWithEndpoint:every-endpoint-examined", pos, bad == nil, "", "the scan over slices and endpoints can end before the last one (break / return / jump out of the loops): the candidate set depends on the listing order")
			}
		}
	}
	pm := need(x, p, "speaker", "", "poolMatchesNodeL2")
	if pm != nil {
		g := pm.Graph()
		n := 0
		for _, rt := range g.Returns() {
			res := retResults(rt)
			if len(res) == 1 && pm.IsConstBool(res[0], true) {
				n++
				rs, _ := pm.LoopOf(rt.Node).(*ast.RangeStmt)
				ok := rs != nil && pm.MatchWith("P.L2Advertisements", rs.X, chk.H("P", isParamIdx(pm, 0))) != nil &&
					g.Dominated(rt, g.GPat(true, "A.Nodes[N]", chk.H("A", rangeVal(pm, rs)), chk.H("N", isParamIdx(pm, 1))))
				x.Check("poolMatchesNodeL2:true-needs-selecting-advertisement", rt.Pos(), ok, "", "poolMatchesNodeL2 can be true without an L2 advertisement of the pool selecting the node")
			}
		}
		x.Check("poolMatchesNodeL2:has-true", pm.Pos(), n == 1, "", "unexpected shape")
	}
}

func c04Winner(p *chk.Prog, r *chk.Report) {
	x := r.Rule("WINNER", "B path", "in (*layer2Controller).ShouldAnnounce \"\" is returned only behind activeEndpointExists(eps), poolMatchesNodeL2(pool, c.myNode), len(candidates) > 0 and candidates[0] == c.myNode; the candidates are nodesWithActiveSpeakers(speakersForPool(…, pool, nodes)), replaced under the Local policy - on every path of that branch - by nodesWithEndpoint(eps, same speaker map); activeEndpointExists is true only for an endpoint that can serve", 7)
	f := need(x, p, "speaker", "layer2Controller", "ShouldAnnounce")
	if f == nil {
		return
	}
	g := f.Graph()
	eps, pool := isParam(f, "eps"), isParam(f, "pool")
	n := 0
	for _, rt := range g.Returns() {
		res := retResults(rt)
		if len(res) != 1 || !f.IsConstString(res[0], "") {
			continue
		}
		n++
		x.Check("ShouldAnnounce:announce:active-endpoint", rt.Pos(), g.Dominated(rt, g.GPat(true, "activeEndpointExists(E)", chk.H("E", eps))), "", "a Service without any ready/serving endpoint can be announced")
		x.Check("ShouldAnnounce:announce:pool-selects-me", rt.Pos(), g.Dominated(rt, g.GPat(true, "poolMatchesNodeL2(P, RECV.myNode)", chk.H("P", pool))), "", "a node not selected by an L2 advertisement of the pool can announce")
		x.Check("ShouldAnnounce:announce:first-candidate", rt.Pos(), g.Dominated(rt, g.GPat(true, "L[0] == RECV.myNode")), "", "a node that is not the first candidate can announce")
	}
	x.Check("ShouldAnnounce:announce-return", f.Pos(), n == 1, "", "expected exactly one `return \"\"`")
	// candidate sources
	sm := definedBy(g, "RECV.speakersForPool(_, _, P, N, ETC)", chk.H("P", pool), chk.H("N", isParam(f, "nodes")))
	base := g.Find(func(nd ast.Node) bool {
		as, ok := nd.(*ast.AssignStmt)
		return ok && len(as.Rhs) == 1 && f.MatchWith("nodesWithActiveSpeakers(M)", as.Rhs[0], chk.H("M", sm)) != nil
	})
	// ... or the keys of that map collected in place (the helper is nothing else): a loop over the map that appends
	// every key to a list that starts empty
	var list types.Object
	inPlace := false
	if len(base) == 1 {
		list = f.ObjOf(base[0].Node.(*ast.AssignStmt).Lhs[0])
	} else if len(base) == 0 {
		for _, rs := range f.RangeLoops(sm) {
			apps := g.Find(func(nd ast.Node) bool {
				return chk.InBody(rs, nd) && f.IsAssignPat("R", "append(R, K)", chk.H("K", rangeKey(f, rs)))(nd)
			})
			if len(apps) != 1 || loopCanSkip(g, rs, func(nd ast.Node) bool { return nd == apps[0].Top }) {
				continue
			}
			l := f.ObjOf(apps[0].Node.(*ast.AssignStmt).Lhs[0])
			if l == nil || !g.LoopEntryDominated(rs, g.GPat(true, "len(L) == 0", chk.H("L", f.IsObj(l)))) && !startsEmptyBefore(f, g, l, rs) {
				continue
			}
			list, inPlace = l, true
			// collected into a scratch list that is then stored in the candidate list (`cands = r`)
			var into []types.Object
			for _, as := range g.Find(f.IsAssignPat("X", "R", chk.H("R", f.IsObj(l)))) {
				a := as.Node.(*ast.AssignStmt)
				if _, isId := ast.Unparen(a.Rhs[0]).(*ast.Ident); isId && a.Pos() > rs.End() {
					if xo := f.ObjOf(a.Lhs[0]); xo != nil && xo != l {
						into = append(into, xo)
					}
				}
			}
			if len(into) == 1 {
				list = into[0]
			}
		}
	}
	alongside := false
	if list == nil && c04KeysAlongside {
		// speakersForPool hands out the set and the list of its keys together
		for _, st := range g.Find(func(nd ast.Node) bool {
			as, ok := nd.(*ast.AssignStmt)
			return ok && len(as.Lhs) == 2 && len(as.Rhs) == 1 && f.MatchWith("RECV.speakersForPool(_, _, P, N, ETC)", as.Rhs[0], chk.H("P", pool), chk.H("N", isParam(f, "nodes"))) != nil
		}) {
			if l := f.ObjOf(st.Node.(*ast.AssignStmt).Lhs[1]); l != nil && sm(st.Node.(*ast.AssignStmt).Lhs[0]) {
				list, alongside = l, true
			}
		}
	}
	x.Check("ShouldAnnounce:candidates-are-filtered-speakers", f.Pos(), list != nil, "", "the candidates are not nodesWithActiveSpeakers(speakersForPool(l, name, pool, nodes))")
	local := g.GPat(true, "S.Spec.ExternalTrafficPolicy == L", chk.H("S", isParam(f, "svc")), chk.H("L", constStr(f, "Local")))
	es := g.EdgesImplying(local)
	x.Check("ShouldAnnounce:local-branch", f.Pos(), len(es) == 1, "", "no branch on ExternalTrafficPolicy == Local")
	if list != nil {
		for _, e := range es {
			w := g.BranchAlways(e, f.IsAssignPat("L", "nodesWithEndpoint(E, M)", chk.H("L", f.IsObj(list)), chk.H("E", eps), chk.H("M", sm)))
			x.Check("ShouldAnnounce:local-policy-needs-local-endpoint", posOf(w, f), !w.Found, "", "under the Local policy the candidates are not restricted to nodes hosting a servable endpoint")
		}
	}
	ae := need(x, p, "speaker", "", "activeEndpointExists")
	if ae != nil {
		ag := ae.Graph()
		for _, rt := range ag.Returns() {
			res := retResults(rt)
			if len(res) == 1 && !ae.IsConstBool(res[0], true) {
				x.Check("activeEndpointExists:no-only-after-every-slice", rt.Pos(), ae.LoopOf(rt.Node) == nil, "", "the answer can be `no` before every slice and endpoint was looked at (it is taken from the first slice, say): a Service whose servable endpoint sits in a later slice is announced by nobody")
			}
			if len(res) == 1 && ae.IsConstBool(res[0], true) {
				x.Check("activeEndpointExists:true-needs-servable", rt.Pos(), ag.Dominated(rt, ag.GPat(true, "epslices.EndpointCanServe(EP.Conditions)")), "", "activeEndpointExists can be true for an endpoint that cannot serve")
				// and conversely: an endpoint that can serve is never passed over (whatever else is true of it - under the
				// Cluster policy an endpoint without a node name still makes the Service announceable); nor is the scan cut
				// short by anything but the positive answer
				// the loop whose element the servability test is made on (the return may sit one loop further out when the
				// inner search hands its answer over)
				var rs *ast.RangeStmt
				for _, c := range ag.FindPat("epslices.EndpointCanServe(EP.Conditions)") {
					if l, isRs := ae.LoopOf(c.Node).(*ast.RangeStmt); isRs && rangeVal(ae, l)(ae.MatchNew("epslices.EndpointCanServe(EP.Conditions)", c.Node.(ast.Expr))["EP"]) {
						rs = l
					}
				}
				if rs != nil {
					okAll := true
					cannot := ag.GPat(false, "epslices.EndpointCanServe(EP.Conditions)", chk.H("EP", rangeVal(ae, rs)))
					can := ag.GPat(true, "epslices.EndpointCanServe(EP.Conditions)", chk.H("EP", rangeVal(ae, rs)))
					for _, e := range ag.LoopIteration(rs, cannot) {
						if !e.Break && !e.OK {
							okAll = false // goes on to the next endpoint although this one can serve
						}
					}
					for _, e := range ag.LoopIteration(rs, can) {
						if e.Break && !e.OK {
							okAll = false // stops looking although this endpoint cannot serve
						}
					}
					for l := ae.LoopOf(rs); l != nil; l = ae.LoopOf(l) {
						if lrs, isRs := l.(*ast.RangeStmt); isRs && loopHasBreak(ag, lrs) {
							okAll = false
						}
					}
					x.Check("activeEndpointExists:servable-endpoint-is-enough", rs.Pos(), okAll, "", "an endpoint that can serve can be passed over (an extra condition on the endpoint, or a scan that stops early): with only such endpoints nobody announces the Service although eligible nodes exist")
				}
			}
		}
	}
	na := p.LookupFunc("speaker", "", "nodesWithActiveSpeakers")
	if na == nil && !inPlace && !alongside {
		na = need(x, p, "speaker", "", "nodesWithActiveSpeakers")
	}
	if na == nil && inPlace {
		x.OK("nodesWithActiveSpeakers:all-keys", f.Pos(), "the keys are collected in place in ShouldAnnounce")
	}
	if na == nil && alongside {
		x.OK("nodesWithActiveSpeakers:all-keys", f.Pos(), "the keys are collected by speakersForPool as it fills the set")
	}
	if na != nil {
		ag := na.Graph()
		okk := false
		for _, rs := range na.RangeLoops(isParamIdx(na, 0)) {
			apps := ag.Find(func(nd ast.Node) bool {
				return chk.InBody(rs, nd) && na.IsAssignPat("R", "append(R, K)", chk.H("K", rangeKey(na, rs)))(nd)
			})
			okk = len(apps) == 1 && !loopCanSkip(ag, rs, func(nd ast.Node) bool { return nd == apps[0].Top })
		}
		x.Check("nodesWithActiveSpeakers:all-keys", na.Pos(), okk, "", "nodesWithActiveSpeakers does not return every key of the speaker map")
	}
}

// canServeRule is shared by C04 and C10.
func canServeRule(p *chk.Prog, r *chk.Report) {
	x := r.Rule("CANSERVE", "B path", "epslices.EndpointCanServe returns true only behind `Ready == nil || *Ready` or `Serving != nil && *Serving` of its argument, and false otherwise", 3)
	f := need(x, p, "internal/k8s/epslices", "", "EndpointCanServe")
	if f == nil {
		return
	}
	g := f.Graph()
	c := isParamIdx(f, 0)
	// the result as a boolean function of the four atoms Ready == nil, *Ready, Serving == nil, *Serving
	// (decided by enumerating their truth assignments along every path; the spelling of the function is free)
	canServe := g.GPat(true, "C.Ready == nil || *C.Ready || (C.Serving != nil && *C.Serving)", chk.H("C", c))
	why := g.BoolResultIs(canServe)
	x.Check("EndpointCanServe:truth-table", f.Pos(), why == "", "", "EndpointCanServe is not `Ready == nil || *Ready || (Serving != nil && *Serving)`: "+why)
	x.Check("EndpointCanServe:reads-conditions", f.Pos(), len(g.FindPat("C.Ready", chk.H("C", c))) > 0 && len(g.FindPat("C.Serving", chk.H("C", c))) > 0, "", "EndpointCanServe does not read both conditions")
	x.OK("EndpointCanServe:returns", f.Pos(), "")
}

func itoa(i int) string {
	return string(rune('0' + i))
}

// electionScope is the known finding D9 (shared by C04 and C12).
func electionScope(p *chk.Prog, r *chk.Report) {
	x := r.Rule("ELECTION-SCOPE", "E sibling", "the set of addresses that enter the election key of the layer-2 protocol's ShouldAnnounce covers the set of addresses its SetBalancer hands to the announcer (otherwise two Services sharing a non-first address can elect different nodes for it)", 1)
	sa := need(x, p, "speaker", "layer2Controller", "ShouldAnnounce")
	sb := need(x, p, "speaker", "layer2Controller", "SetBalancer")
	if sa == nil || sb == nil {
		return
	}
	// K: how toAnnounce is used in ShouldAnnounce
	ta := sa.ParamNamed("toAnnounce")
	onlyConstIdx := true
	uses := 0
	var firstUse ast.Node
	ast.Inspect(sa.Body, func(n ast.Node) bool {
		id, ok := n.(*ast.Ident)
		if !ok || sa.Info().Uses[id] != types.Object(ta) {
			return true
		}
		uses++
		if firstUse == nil {
			firstUse = id
		}
		ix, ok := p.Parent(id).(*ast.IndexExpr)
		if !ok || sa.ConstVal(ix.Index) == nil {
			onlyConstIdx = false
		}
		return true
	})
	// A: SetBalancer announces every element
	announcesAll := false
	g := sb.Graph()
	for _, rs := range sb.RangeLoops(isParam(sb, "lbIPs")) {
		if len(g.Find(func(n ast.Node) bool {
			return chk.InBody(rs, n) && sb.ContainsPat("RECV.announcer.SetBalancer(ETC)")(n)
		})) > 0 {
			announcesAll = true
		}
	}
	pos := sa.Pos()
	if firstUse != nil {
		pos = firstUse.Pos()
	}
	covers := !(announcesAll && onlyConstIdx && uses > 0)
	x.Check("layer2Controller.ShouldAnnounce:key-covers-announced-addresses", pos, covers, "",
		"the election key uses only a constant element of the address list while SetBalancer announces every address of the list")
}

// c04StreamedKey: the key function feeds a fresh sha256 hasher piece by piece and returns its digest:
//
//	h := sha256.New(); h.Write(X1); ...; h.Write(Xn); return h.Sum(nil)
//
// (straight-line, nothing else). The digest is sha256 of X1 || ... || Xn. It returns the pieces as string atoms: each Xk
// is []byte(E) - written in place or held in a local of the key function or of the enclosing function that is assigned
// once - and E is flattened over string concatenation, string locals assigned once being replaced by their value.
func c04StreamedKey(outer, kf *chk.Fn, klit *ast.FuncLit) ([]ast.Expr, bool) {
	body := klit.Body.List
	if len(body) < 3 {
		return nil, false
	}
	first, ok := body[0].(*ast.AssignStmt)
	if !ok || len(first.Lhs) != 1 || len(first.Rhs) != 1 || kf.MatchNew("sha256.New()", first.Rhs[0]) == nil {
		return nil, false
	}
	h := kf.ObjOf(first.Lhs[0])
	isH := func(e ast.Expr) bool { return h != nil && kf.ObjOf(e) == h }
	last, ok := body[len(body)-1].(*ast.ReturnStmt)
	if !ok || len(last.Results) != 1 || kf.MatchWith("H.Sum(nil)", last.Results[0], chk.H("H", isH)) == nil {
		return nil, false
	}
	onceDef := func(id *ast.Ident) ast.Expr {
		o := kf.ObjOf(id)
		v, isVar := o.(*types.Var)
		if !isVar || v.IsField() || v.Pkg() == nil || v.Parent() == v.Pkg().Scope() {
			return nil
		}
		var defs []ast.Node
		for _, fn := range []*chk.Fn{kf, outer} {
			for _, d := range assignsTo(fn, o) {
				dup := false
				for _, e := range defs {
					if e == d {
						dup = true
					}
				}
				if !dup {
					defs = append(defs, d)
				}
			}
		}
		if len(defs) != 1 {
			return nil
		}
		as, isAs := defs[0].(*ast.AssignStmt)
		if !isAs || len(as.Lhs) != len(as.Rhs) {
			return nil
		}
		for i, l := range as.Lhs {
			if lid, isId := l.(*ast.Ident); isId && kf.ObjOf(lid) == o {
				return as.Rhs[i]
			}
		}
		return nil
	}
	var flatten func(e ast.Expr, depth int) []ast.Expr
	flatten = func(e ast.Expr, depth int) []ast.Expr {
		e = ast.Unparen(e)
		if be, isBin := e.(*ast.BinaryExpr); isBin && be.Op == token.ADD {
			return append(flatten(be.X, depth), flatten(be.Y, depth)...)
		}
		if id, isId := e.(*ast.Ident); isId && depth < 4 {
			if d := onceDef(id); d != nil {
				if bt, isB := kf.Info().TypeOf(id).Underlying().(*types.Basic); isB && bt.Info()&types.IsString != 0 {
					return flatten(d, depth+1)
				}
			}
		}
		return []ast.Expr{e}
	}
	var atoms []ast.Expr
	for _, st := range body[1 : len(body)-1] {
		var call ast.Expr
		switch y := st.(type) {
		case *ast.ExprStmt:
			call = y.X
		case *ast.AssignStmt:
			if len(y.Rhs) == 1 {
				blank := true
				for _, l := range y.Lhs {
					if id, isId := l.(*ast.Ident); !isId || id.Name != "_" {
						blank = false
					}
				}
				if blank {
					call = y.Rhs[0]
				}
			}
		}
		if call == nil {
			return nil, false
		}
		b := kf.MatchWith("H.Write(X)", call, chk.H("H", isH))
		if b == nil {
			return nil, false
		}
		x := ast.Unparen(b["X"])
		if id, isId := x.(*ast.Ident); isId {
			if d := onceDef(id); d != nil {
				x = ast.Unparen(d)
			}
		}
		cb := kf.MatchNew("[]byte(E)", x)
		if cb == nil {
			return nil, false
		}
		atoms = append(atoms, flatten(cb["E"], 0)...)
	}
	return atoms, true
}

// c04KeyReadsOnly: the key function reads nothing but its parameter, its own locals and what the address part is made
// of (directly or through locals of the enclosing function that are assigned once from such values).
func c04KeyReadsOnly(outer, kf *chk.Fn, klit *ast.FuncLit, addrPart ast.Expr, ok *bool) {
	allowed := map[types.Object]bool{}
	ast.Inspect(addrPart, func(n ast.Node) bool {
		if id, isId := n.(*ast.Ident); isId {
			if o := kf.ObjOf(id); o != nil {
				allowed[o] = true
			}
		}
		return true
	})
	var check func(root ast.Node, depth int)
	check = func(root ast.Node, depth int) {
		ast.Inspect(root, func(n ast.Node) bool {
			id, isId := n.(*ast.Ident)
			if !isId {
				return true
			}
			v, isVar := kf.ObjOf(id).(*types.Var)
			if !isVar || v.IsField() || v.Pkg() == nil || v.Parent() == v.Pkg().Scope() || allowed[v] {
				return true
			}
			if v.Pos() >= klit.Pos() && v.Pos() <= klit.End() {
				return true
			}
			// a captured local assigned once: what it was made of
			defs := assignsTo(outer, v)
			if len(defs) == 1 && depth < 3 {
				if as, isAs := defs[0].(*ast.AssignStmt); isAs && len(as.Lhs) == len(as.Rhs) {
					allowed[v] = true
					for _, r := range as.Rhs {
						check(r, depth+1)
					}
					return true
				}
			}
			*ok = false
			return true
		})
	}
	check(klit.Body, 0)
}

// sameRepr strips conversions between types with identical underlying types (a digest kept in a named array type): the
// value, and how it compares byte by byte, is that of the operand.
func sameRepr(f *chk.Fn, e ast.Expr) ast.Expr {
	for {
		c, ok := ast.Unparen(e).(*ast.CallExpr)
		if !ok || len(c.Args) != 1 {
			return e
		}
		var to types.Type
		if tv, has := f.Info().Types[c.Fun]; has && tv.IsType() {
			to = tv.Type
		} else if tn, isTN := f.ObjOf(c.Fun).(*types.TypeName); isTN {
			to = tn.Type()
		}
		if to == nil {
			return e
		}
		at := f.Info().TypeOf(c.Args[0])
		if at == nil {
			// an expanded operand: the digest function's result type
			if ic, isCall := ast.Unparen(c.Args[0]).(*ast.CallExpr); isCall {
				if fo, isF := f.Callee(ic).(*types.Func); isF && fo.Type().(*types.Signature).Results().Len() == 1 {
					at = fo.Type().(*types.Signature).Results().At(0).Type()
				}
			}
		}
		if at == nil || !types.Identical(to.Underlying(), at.Underlying()) {
			return e
		}
		e = c.Args[0]
	}
}

// keySource: the keys of map m are put into a variable at the site `at`.
type keySource struct {
	m  ast.Expr
	at chk.Site
}

// keySources lists where the string list v gets its elements from, when every assignment to it takes the keys of a
// map: maps.Keys(M) (collected or not), a loop `for k := range M { v = append(v, k) }`, a copy of another such list;
// empty initialisations are ignored. ok is false when some assignment is anything else.
func keySources(f *chk.Fn, g *chk.Graph, v types.Object, depth int) ([]keySource, bool) {
	if v == nil || depth > 2 {
		return nil, false
	}
	var out []keySource
	for _, a := range assignsTo(f, v) {
		as, isAs := a.(*ast.AssignStmt)
		if !isAs || len(as.Lhs) != len(as.Rhs) {
			return nil, false
		}
		sites := g.Find(func(n ast.Node) bool { return n == ast.Node(as) })
		if len(sites) != 1 {
			return nil, false
		}
		for i, l := range as.Lhs {
			if id, isId := l.(*ast.Ident); !isId || f.ObjOf(id) != v {
				continue
			}
			rhs := ast.Unparen(as.Rhs[i])
			if b := f.MatchNew("slices.Collect(X)", rhs); b != nil {
				rhs = ast.Unparen(b["X"])
			}
			switch {
			case f.IsNilLit(rhs):
			case f.MatchNew("maps.Keys(M)", rhs) != nil:
				out = append(out, keySource{f.MatchNew("maps.Keys(M)", rhs)["M"], sites[0]})
			case f.MatchWith("append(V, K)", rhs, chk.H("V", f.IsObj(v))) != nil:
				rs, isRs := f.LoopOf(as).(*ast.RangeStmt)
				if !isRs || !rangeKey(f, rs)(f.MatchNew("append(V, K)", rhs)["K"]) {
					return nil, false
				}
				if _, isMap := f.Info().TypeOf(rs.X).Underlying().(*types.Map); !isMap {
					// the keys of a map handed over as an iterator (maps.Keys(M)) held in a local: its sources
					xid, isX := ast.Unparen(rs.X).(*ast.Ident)
					if !isX {
						return nil, false
					}
					sub, okS := keySources(f, g, f.ObjOf(xid), depth+1)
					if !okS || len(sub) == 0 {
						return nil, false
					}
					out = append(out, sub...)
					continue
				}
				out = append(out, keySource{rs.X, sites[0]})
			default:
				if cl, isCl := rhs.(*ast.CompositeLit); isCl && len(cl.Elts) == 0 {
					continue
				}
				if c, isC := rhs.(*ast.CallExpr); isC {
					if fid, isF := c.Fun.(*ast.Ident); isF && fid.Name == "make" {
						continue
					}
				}
				wid, isId := rhs.(*ast.Ident)
				if !isId {
					return nil, false
				}
				sub, okS := keySources(f, g, f.ObjOf(wid), depth+1)
				if !okS {
					return nil, false
				}
				for _, ks := range sub {
					out = append(out, keySource{ks.m, sites[0]})
				}
			}
		}
	}
	return out, true
}

// c04KeysAlongside: speakersForPool returns (set, list of the set's keys); set by the ELIGIBLE rule, read by WINNER.
var c04KeysAlongside bool

// c04ListOfKeys: l is a local list that starts empty, every insertion `S[K] = true` of sets has `l = append(l, K)` in
// its own basic block, and l is assigned nowhere else.
func c04ListOfKeys(f *chk.Fn, g *chk.Graph, sets []chk.Site, l types.Object) bool {
	if l == nil {
		return false
	}
	v, ok := l.(*types.Var)
	if !ok || v.IsField() || v.Pkg() == nil || v.Parent() == v.Pkg().Scope() {
		return false
	}
	if f.Type.Params != nil {
		for _, fld := range f.Type.Params.List {
			for _, nm := range fld.Names {
				if f.Info().Defs[nm] == l {
					return false
				}
			}
		}
	}
	paired := map[ast.Node]bool{}
	for _, st := range sets {
		ix, isIx := ast.Unparen(st.Node.(*ast.AssignStmt).Lhs[0]).(*ast.IndexExpr)
		if !isIx {
			return false
		}
		found := false
		for _, nd := range st.B.Nodes {
			if f.IsAssignPat("R", "append(R, K)", chk.H("R", f.IsObj(l)), chk.H("K", func(e ast.Expr) bool { return f.SameExpr(e, ix.Index) }))(nd) {
				found = true
				paired[nd] = true
			}
		}
		if !found {
			return false
		}
	}
	for _, n := range assignsTo(f, l) {
		if paired[n] {
			continue
		}
		// the declaration: empty
		as, isAs := n.(*ast.AssignStmt)
		if !isAs || len(as.Lhs) != len(as.Rhs) {
			return false
		}
		for i, lh := range as.Lhs {
			if id, isId := lh.(*ast.Ident); isId && f.ObjOf(id) == l {
				r := ast.Unparen(as.Rhs[i])
				cl, isLit := r.(*ast.CompositeLit)
				if !(f.IsNilLit(r) || (isLit && len(cl.Elts) == 0) || f.MatchNew("make(T, 0)", r) != nil || f.MatchNew("make(T, 0, N)", r) != nil) {
					return false
				}
				// ... and before every insertion
				for _, st := range sets {
					if as.Pos() > st.Pos() {
						return false
					}
				}
			}
		}
	}
	return true
}

var c04PoolSets = map[types.Object]bool{}

// c04PoolNodeSet: m is a local set holding exactly the nodes selected by an L2 advertisement of the pool:
//
//	m := map[string]bool{}
//	for _, adv := range P.L2Advertisements { for node, ok := range adv.Nodes { if ok { m[node] = true } } }
//
// with nothing else stored in it, nothing deleted from it, both loops run to exhaustion without skipping a selected
// node, and every read of it after the outer loop. Then m[s] is poolMatchesNodeL2(P, s).
func c04PoolNodeSet(f *chk.Fn, g *chk.Graph, m types.Object, pool func(ast.Expr) bool) bool {
	v, ok := m.(*types.Var)
	if !ok || v.IsField() || v.Pkg() == nil || v.Parent() == v.Pkg().Scope() {
		return false
	}
	if _, isMap := v.Type().Underlying().(*types.Map); !isMap {
		return false
	}
	var outer *ast.RangeStmt
	nSites := 0
	okAll := true
	chk.InspectNoLit(f.Body, func(n ast.Node) bool {
		id, isId := n.(*ast.Ident)
		if !isId || f.ObjOf(id) != m {
			return true
		}
		par := f.Prog.Parent(id)
		switch pp := par.(type) {
		case *ast.AssignStmt:
			// the declaration: an empty map
			if len(pp.Lhs) == 1 && len(pp.Rhs) == 1 && pp.Lhs[0] == ast.Expr(id) {
				r := ast.Unparen(pp.Rhs[0])
				if cl, isLit := r.(*ast.CompositeLit); isLit && len(cl.Elts) == 0 {
					return true
				}
				if f.MatchNew("make(T)", r) != nil || f.MatchNew("make(T, N)", r) != nil {
					return true
				}
			}
			okAll = false
		case *ast.IndexExpr:
			if pp.X != ast.Expr(id) {
				okAll = false
				return true
			}
			as, isAs := f.Prog.Parent(pp).(*ast.AssignStmt)
			if !isAs || len(as.Lhs) != 1 || as.Lhs[0] != ast.Expr(pp) {
				// a read (or a store among several): reads are placed below
				if isAs {
					for _, l := range as.Lhs {
						if l == ast.Expr(pp) {
							okAll = false
						}
					}
				}
				if _, isInc := f.Prog.Parent(pp).(*ast.IncDecStmt); isInc {
					okAll = false
				}
				if u, isU := f.Prog.Parent(pp).(*ast.UnaryExpr); isU && u.Op == token.AND {
					okAll = false
				}
				return true
			}
			// a store: m[node] = true for the node of a selected entry
			if !f.IsConstBool(as.Rhs[0], true) {
				okAll = false
				return true
			}
			inner, _ := f.LoopOf(as).(*ast.RangeStmt)
			if inner == nil || !rangeKey(f, inner)(pp.Index) {
				okAll = false
				return true
			}
			out, _ := f.LoopOf(inner).(*ast.RangeStmt)
			if out == nil || f.MatchWith("P.L2Advertisements", out.X, chk.H("P", pool)) == nil || f.MatchWith("ADV.Nodes", inner.X, chk.H("ADV", rangeVal(f, out))) == nil {
				okAll = false
				return true
			}
			if outer != nil && outer != out {
				okAll = false
			}
			outer = out
			nSites++
			sel := chk.GBool(true, rangeVal(f, inner))
			sites := g.Find(func(nd ast.Node) bool { return nd == ast.Node(as) })
			if len(sites) != 1 || !g.Dominated(sites[0], sel) {
				okAll = false
				return true
			}
			// no selected entry is passed over, no advertisement skipped
			if loopSkipsWithout(g, inner, func(nd ast.Node) bool { return nd == ast.Node(as) }, chk.GBool(false, rangeVal(f, inner))) || loopHasBreak(g, inner) ||
				loopCanSkip(g, out, func(nd ast.Node) bool { return nd == ast.Node(inner.X) }) || loopHasBreak(g, out) {
				okAll = false
			}
			for _, rt := range g.Returns() {
				if chk.InBody(out, rt.Node) {
					okAll = false
				}
			}
		case *ast.ValueSpec:
			if len(pp.Values) != 0 {
				okAll = false
			}
		default:
			okAll = false
		}
		return true
	})
	if !okAll || nSites != 1 || outer == nil {
		return false
	}
	// reads only once the set is complete
	for _, rd := range g.FindPat("M[_]", chk.H("M", f.IsObj(m))) {
		if as, isAs := rd.Top.(*ast.AssignStmt); isAs && chk.InBody(outer, as) {
			continue
		}
		if !g.AfterLoop(rd, outer) {
			return false
		}
	}
	return true
}

// handlerReadonlyRule (C12, C04, C09): the address list of a Service is handed to every protocol handler in turn; a
// handler that reorders or edits it in place changes what the next handler - the layer-2 election keyed on element 0 -
// sees, and only on the speakers where the first handler got that far.
func handlerReadonlyRule(p *chk.Prog, r *chk.Report) {
	x := r.Rule("ADDRESSES-READONLY", "D ownership", "in package speaker no function stores into an element of a []net.IP parameter, sorts / reverses it in place, or appends to it in place: the list belongs to the caller (controller.SetBalancer hands the same slice to the BGP and the layer-2 handler)", 6)
	n := 0
	inPlace := map[string]bool{"sort.Slice": true, "sort.SliceStable": true, "sort.Sort": true, "sort.Stable": true, "slices.Sort": true, "slices.SortFunc": true, "slices.SortStableFunc": true, "slices.Reverse": true}
	for _, f := range p.FuncsIn("speaker") {
		if f.Body == nil || f.Lit != nil {
			continue
		}
		for i := 0; ; i++ {
			pv := f.Param(i)
			if pv == nil {
				break
			}
			sl, isSl := pv.Type().Underlying().(*types.Slice)
			if !isSl || sl.Elem().String() != "net.IP" {
				continue
			}
			n++
			r.Saw(f)
			var bad ast.Node
			ast.Inspect(f.Body, func(nd ast.Node) bool {
				switch y := nd.(type) {
				case *ast.AssignStmt:
					for _, l := range y.Lhs {
						if ix, isIx := ast.Unparen(l).(*ast.IndexExpr); isIx && f.ObjOf(ix.X) == types.Object(pv) {
							bad = y
						}
					}
				case *ast.CallExpr:
					if fo, isF := f.Callee(y).(*types.Func); isF && inPlace[fo.FullName()] && len(y.Args) >= 1 && f.ObjOf(y.Args[0]) == types.Object(pv) {
						bad = y
					}
				}
				return true
			})
			pos := f.Pos()
			if bad != nil {
				pos = bad.Pos()
			}
			x.Check(f.Name()+":"+pv.Name(), pos, bad == nil, "", "the caller's address list is reordered or edited in place: the handlers that run after this one see another first address, and the layer-2 election - keyed on the first address - then differs between the speakers on which this handler ran and the others")
		}
	}
	_ = n
}
