package rules

import (
	"go/ast"
	"go/token"
	"go/types"
	"sort"
	"strings"

	"verif/mlbcheck/chk"
)

func init() {
	register(&Prop{
		ID: "C11",
		Explanation: "Decided (on all paths): the allocator maps written by assign are exactly the maps cleaned by Unassign, and for every address of the released " +
			"allocation - whether or not its pool still exists - Unassign removes the tenant, the ports, decrements the pool's in-use counters of the address's " +
			"family and deletes entries that reached zero, so len() of those maps is the number of distinct addresses in use (SIBLING, ZERO-DELETE); assign and " +
			"Unassign refresh the pool's counters and notify after every mutation, SetPools refreshes every pool and forgets removed pools (REFRESH); in poolCount " +
			"an accumulator that can hold the MaxInt64 sentinel is only ever added to through saturatingAdd, whose own body never adds past the sentinel (SAT-1), and " +
			"the size counter is decremented a second time only behind sz > 0 (NONNEG-1); updatePoolStats derives Available = capacity - len(in use) and Assigned = " +
			"len(in use) from the same family's map and capacity (STATS-FAMILY); the pool status reconciler copies the four counters name for name and returns " +
			"every write error so that the write is retried (FIELDMAP).",
		NotDecided: "The arithmetic of the `o <= 24` arm of poolCount (sz - 2^(25-o) is non-negative only by an argument about b = 32); equality with a freshly rebuilt " +
			"allocator as values; float64 rounding of 2^n for n < 62 (exact).",
		Run: runC11,
		Mutants: []Mutant{
			{Name: "bulk-correction-by-host-bits", File: "internal/allocator/allocator.go",
				Old: "\t\t\tif o <= 24 {", New: "\t\t\tif b-o >= 8 {", Expect: "BUGGY-COUNT"},
			{Name: "failed-write-releases-the-reservation", File: "controller/main.go",
				Old: "if err := c.client.UpdateStatus(svc); err != nil {",
				New: "if err := c.client.UpdateStatus(svc); err != nil {\n\t\t\tc.ips.Unassign(name)", Expect: "HANDLER-ERR"},
			{Name: "status-skipped-from-remembered-counters", File: "internal/k8s/controllers/pool_status_controller.go",
				Old: "\tc := r.CountersFetcher(pool.Name)\n", New: "\tc := r.CountersFetcher(pool.Name)\n\tif c.AssignedIPv4 == 0 && c.AssignedIPv6 == 0 {\n\t\treturn ctrl.Result{}, nil\n\t}\n", Expect: "FIELDMAP"},
			{Name: "non-balancer-with-empty-status-keeps-address", File: "controller/service.go",
				Old: "\tif svc.Spec.Type != v1.ServiceTypeLoadBalancer {\n", New: "\tif svc.Spec.Type != v1.ServiceTypeLoadBalancer {\n\t\tif len(svc.Status.LoadBalancer.Ingress) == 0 {\n\t\t\treturn nil\n\t\t}\n", Expect: "RELEASE-ON-EXIT"},
			{Name: "unassign-forgets-tenant", File: "internal/allocator/allocator.go",
				Old: "\t\tdelete(a.servicesOnIP[ip.String()], svc)\n", New: "", Expect: "SIBLING"},
			{Name: "zero-delete-removed", File: "internal/allocator/allocator.go",
				Old: "\t\tif a.poolIPV4InUse[al.pool][ip.String()] == 0 {\n\t\t\tdelete(a.poolIPV4InUse[al.pool], ip.String())\n\t\t}\n", New: "", Expect: "ZERO-DELETE"},
			{Name: "unassign-skips-refresh", File: "internal/allocator/allocator.go",
				Old: "\ta.updatePoolStats(a.pools.ByName[al.pool])\n\ta.countersChangedCallback(al.pool)\n}", New: "\ta.countersChangedCallback(al.pool)\n}", Expect: "REFRESH"},
			{Name: "reconciler-swaps-assigned", File: "internal/k8s/controllers/pool_status_controller.go",
				Old: "\t\tAssignedIPv4:  c.AssignedIPv4,\n\t\tAssignedIPv6:  c.AssignedIPv6,", New: "\t\tAssignedIPv4:  c.AssignedIPv6,\n\t\tAssignedIPv6:  c.AssignedIPv4,", Expect: "FIELDMAP"},
			{Name: "saturation-undone", File: "internal/allocator/allocator.go",
				Old: "\t\ttotal = saturatingAdd(total, sz)\n", New: "\t\ttotal += sz\n", Expect: "SAT-1"},
			{Name: "second-decrement-unguarded", File: "internal/allocator/allocator.go",
				Old: "\t\t\t\tif sz > 0 && ipConfusesBuggyFirmwares(lastIP) {", New: "\t\t\t\tif ipConfusesBuggyFirmwares(lastIP) {", Expect: "NONNEG-1"},
			{Name: "pool-gone-skips-counters", File: "internal/allocator/allocator.go",
				Old: "\t\tdelete(a.servicesOnIP[ip.String()], svc)\n", New: "\t\tdelete(a.servicesOnIP[ip.String()], svc)\n\t\tif _, ok := a.pools.ByName[al.pool]; !ok {\n\t\t\tcontinue\n\t\t}\n", Expect: "SIBLING"},
			{Name: "status-conflict-swallowed", File: "internal/k8s/controllers/pool_status_controller.go",
				Old: "\terr = r.Client.Status().Update(ctx, &pool)\n\tif err != nil {\n\t\treturn ctrl.Result{}, err\n\t}", New: "\terr = r.Client.Status().Update(ctx, &pool)\n\tif err != nil && !apierrors.IsConflict(err) {\n\t\treturn ctrl.Result{}, err\n\t}", Expect: "FIELDMAP"},
			{Name: "available-from-wrong-family", File: "internal/allocator/allocator.go",
				Old: "\t\tAvailableIPv6: ipv6 - int64(len(a.poolIPV6InUse[p.Name])),", New: "\t\tAvailableIPv6: ipv6 - int64(len(a.poolIPsInUse[p.Name])),", Expect: "STATS-FAMILY"},
			{Name: "setpools-skips-removed-pool-counters", File: "internal/allocator/allocator.go",
				Old: "\t\t\tdeleteStatsFor(n)\n\t\t\tdelete(a.poolToCounters, n)\n", New: "\t\t\tdeleteStatsFor(n)\n", Expect: "REFRESH"},
			{Name: "saturating-add-off", File: "internal/allocator/allocator.go",
				Old: "\tif a > math.MaxInt64-b {\n\t\treturn math.MaxInt64\n\t}\n\treturn a + b", New: "\tif a == math.MaxInt64 {\n\t\treturn math.MaxInt64\n\t}\n\treturn a + b", Expect: "SAT-1"},
			{Name: "assign-counts-family-once", File: "internal/allocator/allocator.go",
				Old: "\t\ta.poolIPsInUse[alloc.pool][ip.String()]++\n\t\tif ip.To4() == nil {", New: "\t\ta.poolIPsInUse[alloc.pool][ip.String()]++\n\t\tif ip.To4() == nil && len(alloc.ips) == 1 {", Expect: "SIBLING"},
		},
	})
}

func runC11(p *chk.Prog, r *chk.Report) {
	// an address a Service gives up is released in the allocator before anything else is tried (CLEAR-BEFORE-ALLOC, shared with C06)
	c06Clear(p, r)
	// the additional-family assignment keeps the address already held (GAIN, shared with C03)
	c03Converge(p, r)
	c11Sibling(p, r)
	c11Refresh(p, r)
	c11Numeric(p, r)
	c11Stats(p, r)
	releaseOnExitRule(p, r)
	// a reconfiguration releases exactly the allocations no pool owns any more (REHOME, shared with C03)
	c03Rehome(p, r)
	unassignCompleteRule(p, r)
	// a request refused after its addresses were assigned gives them back (REQUEST-IPS, shared with C02): the pool
	// counters otherwise include an address no Service holds
	c02Requests(p, r)
	// an address is released together with everything recorded for it (ports, sharing key): the books are only written
	// by assign / Unassign, and a successful Assign went through them (OWN-ALLOC, ASSIGN-COMMITS, shared with C01)
	assignCommitsRule(p, r)
	c01OwnAlloc(p, r)
	// a failed status write leaves the allocator's memory alone, and addresses are released only at the reviewed sites
	// (HANDLER-ERR, shared with C06; UNASSIGN-OWN-KEY, shared with C03): a reservation forgotten while the cluster still
	// records it is handed out twice and counted once
	c06Handler(p, r)
	c03Unassign(p, r)
}

var allocMaps = []string{"allocated", "sharingKeyForIP", "portsInUse", "servicesOnIP", "poolIPsInUse", "poolIPV4InUse", "poolIPV6InUse"}

func c11Sibling(p *chk.Prog, r *chk.Report) {
	x := r.Rule("SIBLING", "E sibling + B path", "the set of Allocator maps written by assign equals the set cleaned by Unassign; in assign every address increments poolIPsInUse and the in-use map of its family (IPv6 exactly when ip.To4() == nil) and records tenant and ports; in Unassign every address of the released allocation (no skip, no break, independent of whether the pool still exists) deletes the tenant, deletes every port, decrements poolIPsInUse and the in-use map of its family", 14)
	as := need(x, p, allocPkg, "Allocator", "assign")
	un := need(x, p, allocPkg, "Allocator", "Unassign")
	if as == nil || un == nil {
		return
	}
	written := map[string]bool{}
	cleaned := map[string]bool{}
	for _, m := range allocMaps {
		fld := p.LookupField(allocPkg, "Allocator", m)
		if fld == nil {
			x.Undecided("anchor:"+m, "UNDECIDED anchor missing: Allocator."+m)
			continue
		}
		for _, a := range p.FieldAccesses(fld) {
			if !a.IsWrite() || a.Fn == nil {
				continue
			}
			if a.Fn == as && (a.Kind == "elem" || a.Kind == "incdec" || a.Kind == "assign" || a.Kind == "method:Insert") {
				written[m] = true
			}
			if a.Fn == un && (a.Kind == "delete" || a.Kind == "incdec" || a.Kind == "method:Delete") {
				cleaned[m] = true
			}
		}
	}
	// an element that is a set is written / cleaned through its methods
	for _, m := range allocMaps {
		if len(as.Graph().FindPat("RECV."+m+"[K].Insert(V)", chk.H("RECV", isRecv(as)))) > 0 {
			written[m] = true
		}
		if len(un.Graph().FindPat("RECV."+m+"[K].Delete(V)", chk.H("RECV", isRecv(un)))) > 0 {
			cleaned[m] = true
		}
	}
	// ... or through a local that stands for the pool's inner map (`users := a.poolIPsInUse[al.pool]; users[ip]--`)
	for _, m := range allocMaps {
		ag, ug := as.Graph(), un.Graph()
		if len(ag.Find(isIncDec(as, "RECV."+m+"[P][K]", token.INC, chk.H("RECV", isRecv(as))))) > 0 || len(ag.Find(as.IsAssignPat("RECV."+m+"[P][K]", "V", chk.H("RECV", isRecv(as))))) > 0 {
			written[m] = true
		}
		if len(ug.Find(isIncDec(un, "RECV."+m+"[P][K]", token.DEC, chk.H("RECV", isRecv(un))))) > 0 || len(ug.FindPat("delete(RECV."+m+"[P], K)", chk.H("RECV", isRecv(un)))) > 0 {
			cleaned[m] = true
		}
	}
	for _, m := range allocMaps {
		x.Check("assign-writes/Unassign-cleans:"+m, un.Pos(), written[m] == cleaned[m] && written[m], "", "Allocator."+m+" is written by assign but not cleaned by Unassign (or vice versa): a released address leaves a ghost entry")
	}
	// assign: per-address must-pass
	ag := as.Graph()
	svc, al := isParamIdx(as, 0), isParamIdx(as, 1)
	// one loop over the allocation's addresses, or several (the bookkeeping split by concern): every update is made for
	// every address by one of them
	ipLoops := as.RangeLoops(func(e ast.Expr) bool { return as.MatchWith("AL.ips", e, chk.H("AL", al)) != nil })
	type mustT struct {
		name   string
		stmt   func(ip func(ast.Expr) bool) func(ast.Node) bool
		except func(v4, v6 chk.Guard) chk.Guard
	}
	musts := []mustT{
		{"tenant", func(ip func(ast.Expr) bool) func(ast.Node) bool {
			setIns := isSetInsert(as)
			pat := as.IsAssignPat("RECV.servicesOnIP[IP.String()][S]", "true", chk.H("IP", ip), chk.H("S", svc))
			ins := as.ContainsPat("RECV.servicesOnIP[IP.String()].Insert(S)", chk.H("IP", ip), chk.H("S", svc))
			return func(n ast.Node) bool {
				if pat(n) || ins(n) {
					return true
				}
				if a2, ok := n.(*ast.AssignStmt); ok && setIns(n) {
					return as.MatchWith("RECV.servicesOnIP[IP.String()][S]", a2.Lhs[0], chk.H("IP", ip), chk.H("S", svc)) != nil
				}
				return false
			}
		}, func(v4, v6 chk.Guard) chk.Guard { return chk.NoGuard }},
		{"sharing-key", func(ip func(ast.Expr) bool) func(ast.Node) bool {
			byPtr := as.IsAssignPat("RECV.sharingKeyForIP[IP.String()]", "&AL.key", chk.H("IP", ip), chk.H("AL", al))
			byVal := as.IsAssignPat("RECV.sharingKeyForIP[IP.String()]", "AL.key", chk.H("IP", ip), chk.H("AL", al))
			return func(n ast.Node) bool { return byPtr(n) || byVal(n) }
		}, func(v4, v6 chk.Guard) chk.Guard { return chk.NoGuard }},
		{"in-use", func(ip func(ast.Expr) bool) func(ast.Node) bool {
			return isIncDec(as, "RECV.poolIPsInUse[AL.pool][IP.String()]", token.INC, chk.H("IP", ip), chk.H("AL", al))
		}, func(v4, v6 chk.Guard) chk.Guard { return chk.NoGuard }},
		{"in-use-v6", func(ip func(ast.Expr) bool) func(ast.Node) bool {
			return isIncDec(as, "RECV.poolIPV6InUse[AL.pool][IP.String()]", token.INC, chk.H("IP", ip), chk.H("AL", al))
		}, func(v4, v6 chk.Guard) chk.Guard { return v4 }},
		{"in-use-v4", func(ip func(ast.Expr) bool) func(ast.Node) bool {
			return isIncDec(as, "RECV.poolIPV4InUse[AL.pool][IP.String()]", token.INC, chk.H("IP", ip), chk.H("AL", al))
		}, func(v4, v6 chk.Guard) chk.Guard { return v6 }},
	}
	if len(ipLoops) == 0 {
		x.Fail("assign:address-loop", as.Pos(), "no loop over the allocation's addresses")
	}
	for _, m := range musts {
		okM := false
		for _, rs := range ipLoops {
			ip := rangeVal(as, rs)
			v6 := ag.GPat(true, "IP.To4() == nil", chk.H("IP", ip))
			v4 := ag.GPat(false, "IP.To4() == nil", chk.H("IP", ip))
			if !loopSkipsWithout(ag, rs, m.stmt(ip), m.except(v4, v6)) && !loopHasBreak(ag, rs) {
				okM = true
			}
		}
		pos := as.Pos()
		if len(ipLoops) > 0 {
			pos = ipLoops[0].Pos()
		}
		x.Check("assign:every-address:"+m.name, pos, okM, "", "assign can record an address without updating "+m.name)
	}
	okPorts := false
	for _, rs := range ipLoops {
		ip := rangeVal(as, rs)
		v6 := ag.GPat(true, "IP.To4() == nil", chk.H("IP", ip))
		v4 := ag.GPat(false, "IP.To4() == nil", chk.H("IP", ip))
		// the family increments are on the right side of the To4 test
		for _, s := range ag.Find(isIncDec(as, "RECV.poolIPV6InUse[AL.pool][IP.String()]", token.INC, chk.H("IP", ip))) {
			x.Check("assign:v6-counter-only-for-v6", s.Pos(), ag.Dominated(s, v6), "", "the IPv6 in-use counter is incremented for an IPv4 address")
		}
		for _, s := range ag.Find(isIncDec(as, "RECV.poolIPV4InUse[AL.pool][IP.String()]", token.INC, chk.H("IP", ip))) {
			x.Check("assign:v4-counter-only-for-v4", s.Pos(), ag.Dominated(s, v4), "", "the IPv4 in-use counter is incremented for an IPv6 address")
		}
		// ports
		for _, prs := range as.RangeLoops(func(e ast.Expr) bool { return as.MatchWith("AL.ports", e, chk.H("AL", al)) != nil }) {
			if chk.InBody(rs, prs) {
				okPorts = okPorts || !loopCanSkip(ag, prs, as.IsAssignPat("RECV.portsInUse[IP.String()][P]", "S", chk.H("IP", ip), chk.H("P", rangeVal(as, prs)), chk.H("S", svc)))
			}
		}
	}
	posP := as.Pos()
	if len(ipLoops) > 0 {
		posP = ipLoops[0].Pos()
	}
	x.Check("assign:every-address:ports", posP, okPorts, "", "assign does not record every port of the allocation on every address")
	// Unassign
	ug := un.Graph()
	usvc := isParamIdx(un, 0)
	ual := definedBy(ug, "RECV.allocated[S]", chk.H("S", usvc))
	loops := un.RangeLoops(func(e ast.Expr) bool { return un.MatchWith("AL.ips", e, chk.H("AL", ual)) != nil })
	if len(loops) != 1 {
		x.Fail("Unassign:address-loop", un.Pos(), "no loop over the addresses of the released allocation")
		return
	}
	rs := loops[0]
	ip := rangeVal(un, rs)
	v6 := ug.GPat(true, "IP.To4() == nil", chk.H("IP", ip))
	v4 := ug.GPat(false, "IP.To4() == nil", chk.H("IP", ip))
	// one user fewer: `m[pool][ip]--`, or, for the last user, the entry deleted outright behind `m[pool][ip] == 1`
	lastUserDeletes := map[string]map[ast.Node]bool{}
	for _, m := range []string{"poolIPsInUse", "poolIPV4InUse", "poolIPV6InUse"} {
		lastUserDeletes[m] = map[ast.Node]bool{}
		one := ug.GPat(true, "RECV."+m+"[AL.pool][IP.String()] == 1", chk.H("IP", ip), chk.H("AL", ual))
		for _, s := range ug.FindPat("delete(RECV."+m+"[AL.pool], IP.String())", chk.H("IP", ip), chk.H("AL", ual)) {
			if ug.Dominated(s, one) {
				lastUserDeletes[m][s.Top] = true
			}
		}
	}
	oneFewer := func(m string) func(ast.Node) bool {
		dec := isIncDec(un, "RECV."+m+"[AL.pool][IP.String()]", token.DEC, chk.H("IP", ip), chk.H("AL", ual))
		return func(n ast.Node) bool { return dec(n) || lastUserDeletes[m][n] }
	}
	must := []struct {
		name   string
		stmt   func(ast.Node) bool
		except chk.Guard
	}{
		{"tenant", func(n ast.Node) bool {
			return un.ContainsPat("delete(RECV.servicesOnIP[IP.String()], S)", chk.H("IP", ip), chk.H("S", usvc))(n) ||
				un.ContainsPat("RECV.servicesOnIP[IP.String()].Delete(S)", chk.H("IP", ip), chk.H("S", usvc))(n)
		}, chk.NoGuard},
		{"in-use", oneFewer("poolIPsInUse"), chk.NoGuard},
		{"in-use-v6", oneFewer("poolIPV6InUse"), v4},
		{"in-use-v4", oneFewer("poolIPV4InUse"), v6},
	}
	for _, m := range must {
		x.Check("Unassign:every-address:"+m.name, rs.Pos(), !loopSkipsWithout(ug, rs, m.stmt, m.except) && !loopHasBreak(ug, rs), "", "Unassign can release an address without cleaning "+m.name+" (ghost reservation / wrong count; also when the pool no longer exists)")
	}
	for _, s := range ug.Find(isIncDec(un, "RECV.poolIPV6InUse[AL.pool][IP.String()]", token.DEC)) {
		x.Check("Unassign:v6-counter-only-for-v6", s.Pos(), ug.Dominated(s, v6), "", "the IPv6 in-use counter is decremented for an IPv4 address")
	}
	for _, s := range ug.Find(isIncDec(un, "RECV.poolIPV4InUse[AL.pool][IP.String()]", token.DEC)) {
		x.Check("Unassign:v4-counter-only-for-v4", s.Pos(), ug.Dominated(s, v4), "", "the IPv4 in-use counter is decremented for an IPv6 address")
	}
	okPorts = false
	for _, prs := range un.RangeLoops(func(e ast.Expr) bool { return un.MatchWith("AL.ports", e, chk.H("AL", ual)) != nil }) {
		if chk.InBody(rs, prs) {
			okPorts = !loopCanSkip(ug, prs, un.ContainsPat("delete(RECV.portsInUse[IP.String()], P)", chk.H("IP", ip), chk.H("P", rangeVal(un, prs)))) && !loopHasBreak(ug, prs)
		}
	}
	x.Check("Unassign:every-address:ports", rs.Pos(), okPorts, "", "Unassign does not release every port of the allocation on every address")
	dels := ug.FindPat("delete(RECV.allocated, S)", chk.H("S", usvc))
	x.Check("Unassign:forgets-allocation", un.Pos(), len(dels) == 1 && !ug.MustPass(chk.Site{}, func(n ast.Node) bool { return n == ast.Node(rs.X) }, false, func(n ast.Node) bool { return n == dels[0].Top }).Found, "", "Unassign does not delete the allocation record before releasing its addresses")

	z := r.Rule("ZERO-DELETE", "B path", "in Unassign, for each map whose len() is read by updatePoolStats (poolIPsInUse, poolIPV4InUse, poolIPV6InUse), every decrement of an entry is followed on every path, before the iteration or the function ends, by the test `m[pool][ip] == 0` whose true branch always deletes the entry", 3)
	for _, m := range []string{"poolIPsInUse", "poolIPV4InUse", "poolIPV6InUse"} {
		zero := ug.GPat(true, "RECV."+m+"[AL.pool][IP.String()] == 0", chk.H("IP", ip), chk.H("AL", ual))
		es := ug.EdgesImplying(zero)
		ok := true
		conds := map[ast.Node]bool{}
		for _, e := range es {
			// the zero branch always deletes the entry
			if ug.BranchAlways(e, un.ContainsPat("delete(RECV."+m+"[AL.pool], IP.String())", chk.H("IP", ip), chk.H("AL", ual))).Found {
				ok = false
			}
			conds[e.B.Nodes[len(e.B.Nodes)-1]] = true
		}
		// after every decrement of this map, the iteration (or the function) cannot end without that test: a map
		// that this address was never counted in (the other family's) needs no test
		decs := ug.Find(isIncDec(un, "RECV."+m+"[AL.pool][IP.String()]", token.DEC, chk.H("IP", ip), chk.H("AL", ual)))
		if len(decs) == 0 {
			ok = false
		}
		notLast := ug.GPat(false, "RECV."+m+"[AL.pool][IP.String()] == 1", chk.H("IP", ip), chk.H("AL", ual))
		for _, s := range decs {
			if ug.Dominated(s, notLast) {
				// the entry is decremented only when it had more than one user; the last user's branch deletes it
				lastOK := false
				for _, e := range ug.EdgesImplying(ug.GPat(true, "RECV."+m+"[AL.pool][IP.String()] == 1", chk.H("IP", ip), chk.H("AL", ual))) {
					lastOK = true
					if ug.BranchAlways(e, un.ContainsPat("delete(RECV."+m+"[AL.pool], IP.String())", chk.H("IP", ip), chk.H("AL", ual))).Found {
						ok = false
					}
				}
				if !lastOK {
					ok = false
				}
				continue
			}
			if len(es) == 0 {
				ok = false
			}
			w := ug.MustPass(s, func(n ast.Node) bool { return n == ast.Node(rs.Key) || n == ast.Node(rs.Value) || n == ast.Node(rs.X) }, true,
				func(n ast.Node) bool { return conds[n] })
			if w.Found {
				ok = false
			}
		}
		z.Check("Unassign:"+m, rs.Pos(), ok, "", "an entry of "+m+" that dropped to zero users is not deleted on every path: len() over-counts the addresses in use")
	}
}

// isIncDec builds a node predicate for `<pattern>++` / `<pattern>--`.
func isIncDec(f *chk.Fn, pat string, tok token.Token, checks ...chk.HoleCheck) func(ast.Node) bool {
	return func(n ast.Node) bool {
		s, ok := n.(*ast.IncDecStmt)
		return ok && s.Tok == tok && f.MatchWith(pat, s.X, checks...) != nil
	}
}

func c11Refresh(p *chk.Prog, r *chk.Report) {
	x := r.Rule("REFRESH", "B path", "assign reaches updatePoolStats(a.pools.ByName[alloc.pool]) and countersChangedCallback(alloc.pool) on every path; Unassign, after deleting the allocation, reaches either deleteStatsFor(al.pool) behind `pool not configured` or updatePoolStats(a.pools.ByName[al.pool]) and the callback; SetPools deletes counters and stats of every removed pool, refreshes every pool of the new set and notifies (deferred) for all of them", 7)
	as := need(x, p, allocPkg, "Allocator", "assign")
	if as != nil {
		g := as.Graph()
		al := isParamIdx(as, 1)
		w1 := g.MustPass(chk.Site{}, nil, true, as.ContainsPat("RECV.updatePoolStats(RECV.pools.ByName[AL.pool])", chk.H("AL", al)))
		w2 := g.MustPass(chk.Site{}, nil, true, as.ContainsPat("RECV.countersChangedCallback(AL.pool)", chk.H("AL", al)))
		x.Check("assign:refresh", posOf(w1, as), !w1.Found, "", "assign can return without recomputing the pool's counters")
		x.Check("assign:notify", posOf(w2, as), !w2.Found, "", "assign can return without notifying the pool status reconciler")
		// the refresh follows the mutation loop
		for _, rs := range as.RangeLoops(func(e ast.Expr) bool { return as.MatchWith("AL.ips", e, chk.H("AL", al)) != nil }) {
			for _, c := range g.FindPat("RECV.updatePoolStats(ETC)") {
				x.Check("assign:refresh-after-mutation", c.Pos(), g.AfterLoop(c, rs), "", "the counters are recomputed before the in-use maps are updated")
			}
		}
	}
	un := need(x, p, allocPkg, "Allocator", "Unassign")
	if un != nil {
		g := un.Graph()
		al := definedBy(g, "RECV.allocated[S]", chk.H("S", isParamIdx(un, 0)))
		dels := g.FindPat("delete(RECV.allocated, S)")
		if len(dels) == 1 {
			gone := g.GPat(false, "OK", chk.H("OK", definedBy(g, "RECV.pools.ByName[AL.pool]", chk.H("AL", al))))
			w := (&chk.Walk{G: g, From: dels[0], HitExit: true, Stop: func(n ast.Node) bool {
				return un.ContainsPat("RECV.updatePoolStats(RECV.pools.ByName[AL.pool])", chk.H("AL", al))(n)
			}, Cut: func(b *cfgBlock, k int) bool { return g.EdgeImplies(b, k, gone) }}).Run()
			x.Check("Unassign:refresh", posOf(w, un), !w.Found, "", "Unassign can return without recomputing the counters of a pool that is still configured")
			w2 := (&chk.Walk{G: g, From: dels[0], HitExit: true, Stop: un.ContainsPat("RECV.countersChangedCallback(AL.pool)", chk.H("AL", al)),
				Cut: func(b *cfgBlock, k int) bool { return g.EdgeImplies(b, k, gone) }}).Run()
			x.Check("Unassign:notify", posOf(w2, un), !w2.Found, "", "Unassign can return without notifying the pool status reconciler")
			for _, e := range g.EdgesImplying(gone) {
				w3 := g.BranchAlways(e, un.ContainsPat("deleteStatsFor(AL.pool)", chk.H("AL", al)))
				x.Check("Unassign:pool-gone-drops-stats", posOf(w3, un), !w3.Found, "", "the metrics of a removed pool are not dropped")
			}
		} else {
			x.Fail("Unassign:mutation-start", un.Pos(), "cannot locate delete(a.allocated, svc)")
		}
	}
	sp := need(x, p, allocPkg, "Allocator", "SetPools")
	if sp != nil {
		g := sp.Graph()
		newPools := isParamIdx(sp, 0)
		okRemoved := false
		for _, rs := range sp.RangeLoops(func(e ast.Expr) bool { return sp.MatchWith("RECV.pools.ByName", e, chk.H("RECV", isRecv(sp))) != nil }) {
			k := rangeKey(sp, rs)
			if _, isID := rs.Key.(*ast.Ident); !isID {
				continue
			}
			removed := g.GPat(true, "NP.ByName[K] == nil", chk.H("NP", newPools), chk.H("K", k))
			if !g.EdgeImpliesAny(removed) && !g.EdgeImpliesAny(chk.GNot(removed)) {
				continue
			}
			// every iteration for a pool that is gone from the new configuration has, when it ends, dropped the
			// metrics, dropped the counters and reported the pool as changed (whatever the shape of the branch)
			done := chk.GAnd(chk.GEvent(sp.ContainsPat("deleteStatsFor(K)", chk.H("K", k))),
				chk.GEvent(sp.ContainsPat("delete(RECV.poolToCounters, K)", chk.H("K", k))),
				chk.GEvent(sp.IsAssignPat("R", "append(R, K)", chk.H("K", k))))
			okRemoved = true
			ends := g.LoopIteration(rs, chk.GOr(chk.GNot(removed), done))
			for _, e := range ends {
				if !e.OK || e.Break {
					okRemoved = false
				}
			}
			okRemoved = okRemoved && len(ends) > 0
			// this loop runs before the new pools are installed
			inst := g.Find(sp.IsAssignPat("RECV.pools", "NP", chk.H("NP", newPools)))
			if len(inst) == 1 {
				okRemoved = okRemoved && g.AfterLoop(inst[0], rs)
			}
		}
		if !okRemoved {
			// two phases: the names of the removed pools are collected first (all of them), then every collected name has
			// its metrics and counters dropped, and the whole list is reported as changed
			isOld := func(e ast.Expr) bool { return sp.MatchWith("RECV.pools.ByName", e, chk.H("RECV", isRecv(sp))) != nil }
			gone := func(e ast.Expr) bool {
				return filteredKeys(sp, g, e, isOld, func(rs *ast.RangeStmt, pos bool) chk.Guard {
					return g.GPat(pos, "NP.ByName[K] == nil", chk.H("NP", newPools), chk.H("K", rangeKey(sp, rs)))
				})
			}
			for _, rs := range sp.RangeLoops(gone) {
				v := rangeVal(sp, rs)
				both := chk.GAnd(chk.GEvent(sp.ContainsPat("deleteStatsFor(K)", chk.H("K", v))), chk.GEvent(sp.ContainsPat("delete(RECV.poolToCounters, K)", chk.H("K", v))))
				ok2 := !loopHasBreak(g, rs)
				ends := g.LoopIteration(rs, both)
				for _, e := range ends {
					if !e.OK || e.Break {
						ok2 = false
					}
				}
				// reported as changed: the list is appended as a whole, outside any condition
				rep := false
				for _, s := range g.Find(func(n ast.Node) bool {
					as, isAs := n.(*ast.AssignStmt)
					if !isAs || len(as.Lhs) != 1 || len(as.Rhs) != 1 {
						return false
					}
					call, isCall := ast.Unparen(as.Rhs[0]).(*ast.CallExpr)
					if !isCall || len(call.Args) != 2 || !call.Ellipsis.IsValid() || !sp.SameExpr(call.Args[0], as.Lhs[0]) {
						return false
					}
					id, isId := call.Fun.(*ast.Ident)
					return isId && id.Name == "append" && sp.SameExpr(call.Args[1], rs.X)
				}) {
					if sp.LoopOf(s.Node) == nil && !g.MustPass(chk.Site{}, nil, true, func(n ast.Node) bool { return n == s.Top }).Found {
						rep = true
					}
				}
				inst := g.Find(sp.IsAssignPat("RECV.pools", "NP", chk.H("NP", newPools)))
				okRemoved = ok2 && len(ends) > 0 && rep && len(inst) == 1
				// the old pool set is walked before the new one is installed
				for _, ol := range sp.RangeLoops(isOld) {
					collects := false
					for _, d := range assignsTo(sp, sp.ObjOf(rs.X)) {
						if chk.InBody(ol, d) {
							collects = true
						}
					}
					if collects && len(inst) == 1 && !g.AfterLoop(inst[0], ol) {
						okRemoved = false
					}
				}
			}
		}
		x.Check("SetPools:removed-pools-forgotten", sp.Pos(), okRemoved, "", "counters/metrics of a pool that disappeared from the configuration are kept (or not reported as changed)")
		okAll := false
		for _, rs := range sp.RangeLoops(func(e ast.Expr) bool { return sp.MatchWith("RECV.pools.ByName", e, chk.H("RECV", isRecv(sp))) != nil }) {
			if _, hasVal := rs.Value.(*ast.Ident); !hasVal {
				continue
			}
			pv := rangeVal(sp, rs)
			okAll = !loopCanSkip(g, rs, sp.ContainsPat("RECV.updatePoolStats(P)", chk.H("P", pv))) &&
				!loopCanSkip(g, rs, sp.IsAssignPat("R", "append(R, P.Name)", chk.H("P", pv))) && !loopHasBreak(g, rs)
			inst := g.Find(sp.IsAssignPat("RECV.pools", "NP", chk.H("NP", newPools)))
			if len(inst) == 1 {
				xs := g.Find(func(n ast.Node) bool { return n == ast.Node(rs.X) })
				okAll = okAll && len(xs) == 1 && !g.MustPass(chk.Site{}, func(n ast.Node) bool { return n == xs[0].Top }, false, func(n ast.Node) bool { return n == inst[0].Top }).Found
			}
		}
		x.Check("SetPools:every-pool-refreshed", sp.Pos(), okAll, "", "after a pool change not every pool of the new configuration has its counters recomputed and reported")
		// deferred notification of everything collected
		okDefer := false
		ast.Inspect(sp.Body, func(n ast.Node) bool {
			d, ok := n.(*ast.DeferStmt)
			if !ok {
				return true
			}
			lit, ok := d.Call.Fun.(*ast.FuncLit)
			if !ok {
				// the notification as a deferred call of a named function / method of the package, handed the list (by
				// pointer, so that what is collected later is seen)
				if fo, _ := sp.Callee(d.Call).(*types.Func); fo != nil {
					if cf := p.FnOf(fo.Origin()); cf != nil && cf.Body != nil {
						r.Saw(cf)
						for _, rs := range cf.RangeLoops(chk.Any) {
							if !loopCanSkip(cf.Graph(), rs, cf.ContainsPat("RECV.countersChangedCallback(P)", chk.H("P", rangeVal(cf, rs)))) && !loopHasBreak(cf.Graph(), rs) {
								okDefer = true
							}
						}
					}
				}
				return true
			}
			lf := sp.LitFn(lit)
			for _, rs := range lf.RangeLoops(chk.Any) {
				if !loopCanSkip(lf.Graph(), rs, lf.ContainsPat("RECV.countersChangedCallback(P)", chk.H("P", rangeVal(lf, rs)))) {
					okDefer = true
				}
			}
			return true
		})
		x.Check("SetPools:notify-all-collected", sp.Pos(), okDefer, "", "SetPools does not notify for every pool it refreshed or removed")
	}
}

func c11Numeric(p *chk.Prog, r *chk.Report) {
	x := r.Rule("SAT-1", "F numeric typestate", "in allocator.poolCount every variable that is assigned the sentinel math.MaxInt64 is otherwise only assigned saturatingAdd(itself, …) (never `+=` / `+`); every returned accumulator is updated for every CIDR; saturatingAdd returns a + b only on the false edge of a > math.MaxInt64 - b and the sentinel otherwise", 4)
	f := need(x, p, allocPkg, "", "poolCount")
	if f != nil {
		isMax := isObjNamed(f, "math.MaxInt64")
		sat := map[types.Object]bool{}
		ast.Inspect(f.Body, func(n ast.Node) bool {
			as, ok := n.(*ast.AssignStmt)
			if !ok {
				return true
			}
			for i, l := range as.Lhs {
				if len(as.Rhs) == len(as.Lhs) && isMax(as.Rhs[i]) {
					if o := f.ObjOf(l); o != nil {
						sat[o] = true
					}
				}
			}
			return true
		})
		// all returned accumulators are treated alike: a sum that can meet the sentinel through the total
		derived := 0 // results computed at the return as the saturating sum of two accumulators
		for _, rt := range f.Graph().Returns() {
			for _, e := range retResults(rt) {
				if o := f.ObjOf(e); o != nil {
					sat[o] = true
				} else if b := f.MatchNew("saturatingAdd(A, B)", e); b != nil && f.ObjOf(b["A"]) != nil && f.ObjOf(b["B"]) != nil {
					sat[f.ObjOf(b["A"])] = true
					sat[f.ObjOf(b["B"])] = true
					derived++
				} else {
					x.Fail("poolCount:result-shape", rt.Pos(), "a count is returned that is neither an accumulator nor the saturating sum of two")
				}
			}
		}
		var names []string
		byName := map[string]types.Object{}
		for o := range sat {
			names = append(names, o.Name())
			byName[o.Name()] = o
		}
		sort.Strings(names)
		for _, nm := range names {
			o := byName[nm]
			ok := true
			var bad ast.Node
			for _, a := range assignsTo(f, o) {
				switch s := a.(type) {
				case *ast.AssignStmt:
					if s.Tok != token.ASSIGN && s.Tok != token.DEFINE {
						ok, bad = false, s
						continue
					}
					for i, l := range s.Lhs {
						if f.ObjOf(l) != o || len(s.Rhs) != len(s.Lhs) {
							continue
						}
						rhs := s.Rhs[i]
						if isMax(rhs) || f.IsConstInt(rhs, 0) {
							continue
						}
						if f.MatchWith("saturatingAdd(V, _)", rhs, chk.H("V", f.IsObj(o))) != nil {
							continue
						}
						ok, bad = false, s
					}
				default:
					ok, bad = false, a
				}
			}
			pos := f.Pos()
			if bad != nil {
				pos = bad.Pos()
			}
			x.Check("poolCount:"+nm+":only-saturating-updates", pos, ok, "", "accumulator `"+nm+"` can hold the MaxInt64 sentinel and is added to without saturation: a later range wraps it to a negative count")
		}
		x.Check("poolCount:accumulators", f.Pos(), len(names)+derived >= 3, "", "expected total, ipv4 and ipv6 accumulators")
		// every CIDR of the pool contributes: the loop over p.CIDR is never left before its last element
		for _, rs := range f.RangeLoops(func(e ast.Expr) bool { return f.MatchWith("P.CIDR", e, chk.H("P", isParamIdx(f, 0))) != nil }) {
			x.Check("poolCount:every-cidr-counted", rs.Pos(), !loopLeavesEarly(f, f.Graph(), rs), "", "the count stops at some range (return / break inside the loop over the pool's CIDRs): the ranges listed after it are not counted")
		}
	}
	sa := need(x, p, allocPkg, "", "saturatingAdd")
	if sa != nil {
		g := sa.Graph()
		a, b := isParamIdx(sa, 0), isParamIdx(sa, 1)
		over := g.GPat(true, "A > math.MaxInt64 - B", chk.H("A", a), chk.H("B", b))
		ok := true
		n := 0
		for _, rt := range g.Returns() {
			rr := retResults(rt)
			if len(rr) != 1 {
				ok = false
				continue
			}
			switch {
			case sa.MatchWith("A + B", rr[0], chk.H("A", a), chk.H("B", b)) != nil:
				n++
				if !g.Dominated(rt, g.GPat(false, "A > math.MaxInt64 - B", chk.H("A", a), chk.H("B", b))) {
					ok = false
				}
			case isObjNamed(sa, "math.MaxInt64")(rr[0]):
				if !g.Dominated(rt, over) {
					ok = false
				}
			default:
				ok = false
			}
		}
		x.Check("saturatingAdd:guarded-sum", sa.Pos(), ok && n == 1, "", "saturatingAdd can compute a + b when the sum exceeds MaxInt64")
	}
	if f != nil {
		// the whole-/24 correction (two unusable addresses per /24 contained) is an IPv4 notion: it is applied only to a
		// prefix of at most 24 ones - which no IPv6 range that gets here has (62 or more host bits were handled above).
		// A test on the number of host bits instead admits IPv6 /67../120 ranges, whose addresses the allocator hands out
		// without any such exclusion: the capacity reported is smaller than what can be assigned
		g := f.Graph()
		bc := r.Rule("BUGGY-COUNT", "B path (numeric guard)", "in allocator.poolCount a subtraction of more than one from the size of a range (`sz -= n`) is dominated by `ones <= 24` for the ones of that range's mask", 1)
		ones := definedByIdx(g, f, "C.Mask.Size()", 0)
		nSub := 0
		for _, s := range g.Find(func(n ast.Node) bool {
			as, ok := n.(*ast.AssignStmt)
			return ok && as.Tok == token.SUB_ASSIGN && len(as.Lhs) == 1
		}) {
			nSub++
			is24 := func(e ast.Expr) bool { return f.IsConstInt(e, 24) }
			is25 := func(e ast.Expr) bool { return f.IsConstInt(e, 25) }
			ok := g.Dominated(s, chk.GCompare(true, token.LEQ, ones, is24)) || g.Dominated(s, chk.GCompare(true, token.LSS, ones, is25))
			bc.Check("poolCount:bulk-correction-only-up-to-24-ones", s.Pos(), ok, "", "the per-/24 correction of the range size is applied without `ones <= 24`: ranges that are not IPv4 prefixes of at most 24 bits (IPv6 ranges with 8 to 61 host bits) are counted short of what the allocator assigns from them")
		}
		bc.Check("poolCount:bulk-correction-site", f.Pos(), nSub >= 1, "", "no bulk correction found")
	}
	y := r.Rule("NONNEG-1", "F numeric typestate", "in allocator.poolCount the size counter sz (2^(b-o) >= 1) is decremented by one at most once without a guard; a further `sz--` on the same path is dominated by sz > 0 (path-sensitive count of decrements)", 1)
	if f != nil {
		g := f.Graph()
		var sz types.Object
		for _, s := range g.Find(func(n ast.Node) bool { d, ok := n.(*ast.IncDecStmt); return ok && d.Tok == token.DEC }) {
			sz = f.ObjOf(s.Node.(*ast.IncDecStmt).X)
		}
		if sz == nil {
			y.Fail("poolCount:size-counter", f.Pos(), "no decremented size counter found")
			return
		}
		pos := g.GPat(true, "S > 0", chk.H("S", f.IsObj(sz)))
		isDec := func(n ast.Node) bool {
			d, ok := n.(*ast.IncDecStmt)
			return ok && d.Tok == token.DEC && f.ObjOf(d.X) == sz
		}
		// state: 0 = no decrement yet, 1 = one unguarded decrement, 2 = known positive again
		w := (&chk.StateWalk{G: g, Init: 0,
			Transfer: func(n ast.Node, s int) int {
				if isDec(n) {
					return 1
				}
				if as, ok := n.(*ast.AssignStmt); ok {
					for _, l := range as.Lhs {
						if f.ObjOf(l) == sz && as.Tok != token.SUB_ASSIGN {
							return 0
						}
					}
				}
				return s
			},
			Refine: func(b *cfgBlock, k int, s int) (int, bool) {
				if g.EdgeImplies(b, k, pos) {
					return 0, true
				}
				return s, true
			},
			Hit: func(n ast.Node, s int) bool { return isDec(n) && s == 1 },
		}).Run()
		y.Check("poolCount:second-decrement-guarded", posOf(w, f), !w.Found, "", "the size counter can be decremented twice on one path without a `sz > 0` test in between: a single-address range whose first and last address coincide counts -1")
	}
}

func c11Stats(p *chk.Prog, r *chk.Report) {
	x := r.Rule("STATS-FAMILY", "E sibling", "in updatePoolStats the PoolCounters stored for p.Name are {AvailableIPv4: v4 - int64(len(a.poolIPV4InUse[p.Name])), AssignedIPv4: int64(len(a.poolIPV4InUse[p.Name])), and the same with v6 / poolIPV6InUse} where (total, v4, v6) = poolCount(p) of the same pool", 1)
	f := need(x, p, allocPkg, "Allocator", "updatePoolStats")
	if f != nil {
		g := f.Graph()
		pool := isParamIdx(f, 0)
		cnt := func(idx int) func(ast.Expr) bool {
			return func(e ast.Expr) bool {
				id, ok := ast.Unparen(e).(*ast.Ident)
				if !ok {
					return false
				}
				rhs, i := g.DefOf(id, g.FactSite(id))
				return rhs != nil && i == idx && f.MatchWith("poolCount(P)", rhs, chk.H("P", pool)) != nil
			}
		}
		lits := g.Find(func(n ast.Node) bool {
			as, ok := n.(*ast.AssignStmt)
			if !ok || len(as.Lhs) != 1 || len(as.Rhs) != 1 {
				return false
			}
			return f.MatchWith("RECV.poolToCounters[P.Name]", as.Lhs[0], chk.H("P", pool)) != nil &&
				f.MatchWith("PoolCounters{AvailableIPv4: V4 - int64(len(RECV.poolIPV4InUse[P.Name])), AvailableIPv6: V6 - int64(len(RECV.poolIPV6InUse[P.Name])), AssignedIPv4: int64(len(RECV.poolIPV4InUse[P.Name])), AssignedIPv6: int64(len(RECV.poolIPV6InUse[P.Name]))}",
					as.Rhs[0], chk.H("P", pool), chk.H("V4", cnt(1)), chk.H("V6", cnt(2))) != nil
		})
		x.Check("updatePoolStats:counters", f.Pos(), len(lits) == 1, "", "the reported counters are not capacity - len(in use) / len(in use) of the same family and pool")
	}
	y := r.Rule("FIELDMAP", "E sibling", "PoolStatusReconciler.Reconcile builds the status from r.CountersFetcher(pool.Name) copying AssignedIPv4, AssignedIPv6, AvailableIPv4, AvailableIPv6 name for name, writes it when it differs, and returns every error of Status().Update (so the write is retried); allocator.CountersForPool returns poolToCounters[name]", 3)
	rf := need(y, p, ctrlPkg, "PoolStatusReconciler", "Reconcile")
	if rf != nil {
		g := rf.Graph()
		c := definedBy(g, "RECV.CountersFetcher(POOL.Name)")
		lits := g.Find(func(n ast.Node) bool {
			e, ok := n.(ast.Expr)
			return ok && rf.MatchWith("v1beta1.IPAddressPoolStatus{AssignedIPv4: C.AssignedIPv4, AssignedIPv6: C.AssignedIPv6, AvailableIPv4: C.AvailableIPv4, AvailableIPv6: C.AvailableIPv6}", e, chk.H("C", c)) != nil
		})
		nMap := len(lits)
		if nMap == 0 {
			// the struct conversion IPAddressPoolStatus(counters): the compiler admits it only for identical field names,
			// types and order - a name-for-name copy by construction
			nMap = len(g.FindPat("v1beta1.IPAddressPoolStatus(C)", chk.H("C", func(e ast.Expr) bool {
				return c(e) || rf.MatchNew("RECV.CountersFetcher(POOL.Name)", e) != nil
			})))
		}
		y.Check("PoolStatusReconciler:field-map", rf.Pos(), nMap == 1, "", "the pool status is not the allocator's counters copied name for name")
		// after the write, nil is returned only when the write succeeded; any other return hands back the write's own
		// error (the call itself, or the variable holding its result) or a fresh error
		updOK := g.GErrNil(true, "RECV.Client.Status().Update(ETC)")
		ups := g.FindPat("RECV.Client.Status().Update(ETC)")
		ok := len(ups) >= 1
		isUpd := func(e ast.Expr) bool { return rf.MatchNew("RECV.Client.Status().Update(ETC)", e) != nil }
		for _, u := range ups {
			w := (&chk.Walk{G: g, From: u, Hit: func(n ast.Node) bool {
				rt, okk := n.(*ast.ReturnStmt)
				if !okk || len(rt.Results) != 2 {
					return okk
				}
				res := rt.Results[1]
				site := g.FactSite(rt.Results[0])
				switch {
				case rf.IsNilLit(res):
					return !g.Dominated(site, updOK)
				case isUpd(ast.Unparen(res)), rf.KnownNonNil(res):
					return false
				}
				if id, isId := ast.Unparen(res).(*ast.Ident); isId {
					if rhs, idx := g.DefOf(id, site); rhs != nil && idx == 0 && isUpd(ast.Unparen(rhs)) {
						return false
					}
				}
				return true
			}}).Run()
			if w.Found {
				ok = false
			}
		}
		// the reported status is compared with what the pool object says now, never with what this process remembers
		// having written: success without a write is returned only for a pool that does not exist or whose current
		// status already equals the counters (a remembered copy goes stale when the pool is deleted and created again,
		// or when its status is reset from outside)
		status := func(e ast.Expr) bool {
			b := rf.MatchNew("P.Status", e)
			return b != nil
		}
		newSt := func(e ast.Expr) bool {
			t := rf.Info().TypeOf(e)
			return t != nil && strings.HasSuffix(t.String(), "v1beta1.IPAddressPoolStatus") && !status(e)
		}
		same := chk.GSame(g.GPat(true, "reflect.DeepEqual(S, N)", chk.H("S", status), chk.H("N", newSt)), g.GPat(true, "reflect.DeepEqual(N, S)", chk.H("S", status), chk.H("N", newSt)),
			g.GPat(true, "S == N", chk.H("S", status), chk.H("N", newSt)), g.GPat(true, "N == S", chk.H("S", status), chk.H("N", newSt)))
		allowed := chk.GAnyOf(g.GPat(true, "apierrors.IsNotFound(E)"), same)
		isWrite := rf.ContainsPat("RECV.Client.Status().Update(ETC)")
		wNo := (&chk.Walk{G: g, Stop: isWrite, Hit: func(n ast.Node) bool {
			rt, okk := n.(*ast.ReturnStmt)
			return okk && len(rt.Results) == 2 && rf.IsNilLit(rt.Results[1])
		}, Cut: func(b *cfgBlock, k int) bool { return g.EdgeImplies(b, k, allowed) }}).Run()
		y.Check("PoolStatusReconciler:no-success-without-comparing-current-status", posOf(wNo, rf), !wNo.Found, "", "the reconciler can report success without a write for a reason other than `the pool is gone` or `its current status already equals the counters`: "+describe(rf, wNo))
		y.Check("PoolStatusReconciler:write-error-returned", rf.Pos(), ok, "", "an error of the status write (e.g. a conflict) is swallowed: nothing retries the write and the reported counters stay stale")
	}
	cf := need(y, p, allocPkg, "Allocator", "CountersForPool")
	if cf != nil {
		ok := false
		for _, rt := range cf.Graph().Returns() {
			rr := retResults(rt)
			ok = len(rr) == 1 && cf.MatchWith("RECV.poolToCounters[N]", rr[0], chk.H("N", isParamIdx(cf, 0))) != nil
		}
		y.Check("CountersForPool:source", cf.Pos(), ok, "", "CountersForPool does not return the stored counters of the named pool")
	}
}

// unassignCompleteRule (shared by C07 and C11): once Unassign has forgotten the allocation record, nothing may leave the
// function before the per-address bookkeeping ran - whatever became of the pool.
func unassignCompleteRule(p *chk.Prog, r *chk.Report) {
	x := r.Rule("UNASSIGN-COMPLETE", "B path", "in (*Allocator).Unassign every path from delete(a.allocated, svc) to the end of the function passes the loop over the released allocation's addresses (tenants, ports, sharing key and in-use counters are released even when the pool no longer exists)", 1)
	un := need(x, p, allocPkg, "Allocator", "Unassign")
	if un == nil {
		return
	}
	g := un.Graph()
	usvc := isParamIdx(un, 0)
	ual := definedBy(g, "RECV.allocated[S]", chk.H("S", usvc))
	loops := un.RangeLoops(func(e ast.Expr) bool { return un.MatchWith("AL.ips", e, chk.H("AL", ual)) != nil })
	dels := g.FindPat("delete(RECV.allocated, S)", chk.H("S", usvc))
	if len(loops) != 1 || len(dels) != 1 {
		x.Fail("Unassign:shape", un.Pos(), "expected one delete(a.allocated, svc) and one loop over the allocation's addresses")
		return
	}
	w := g.MustPass(dels[0], nil, true, func(n ast.Node) bool { return n == ast.Node(loops[0].X) })
	x.Check("Unassign:bookkeeping-on-every-path", posOf(w, un), !w.Found, "", "Unassign can return after forgetting the allocation without releasing its addresses' tenants, ports and sharing keys (ghost entries: the addresses stay unusable for every other Service)")
}
