package rules

import (
	"go/ast"
	"go/token"
	"go/types"
	"strings"

	"verif/mlbcheck/chk"
)

const natPkg = "internal/bgp/native"

func init() {
	register(&Prop{
		ID: "C17",
		Explanation: "Decided (on all paths): every field of native.session that the goroutines share is accessed under session.mu, helper abort() only with it held " +
			"(LOCK-GUARDED); every function other than the waiting sender that changes a field of the wait predicate (new, conn, closed) broadcasts on the " +
			"condition variable before it returns (COND); a connection is dialled and stored only in a critical section that tested `closed` first, Close sets " +
			"closed and aborts in one critical section, the sender returns false only when closed (CLOSE-TYPESTATE); the connection is stored only after the peer's " +
			"OPEN was read successfully and its ASN equals the configured one (ASN-REFUSE); every failing send aborts the connection before returning " +
			"(SEND-ERROR-ABORT); the pending set is never dropped: new is set to nil only in the tuple assignment that moves it into advertised, Set always stores " +
			"the complete validated set and broadcasts, abort folds a pending set (PENDING); on a (re)connection the whole advertised set is sent before the sender " +
			"first waits (FULL-RESEND); in the diff phase every advertisement that is new or not Equal to the advertised one is sent, the withdraw list is exactly the " +
			"advertised prefixes missing from the new set, and advertised is committed only after both phases succeeded (DIFF); Advertisement.Equal reads every " +
			"field of the advertisement (EQUAL-COVERS).",
		NotDecided: "Convergence of the peer's table over all interleavings and disconnect points as such (needs executions); TCP and timer behaviour; the reader " +
			"goroutine's treatment of malformed peer messages beyond closing the connection.",
		Run: runC17,
		Mutants: []Mutant{
			{Name: "options-parsing-stops-after-the-first-capabilities-parameter", File: "internal/bgp/native/messages.go",
				Old: "\t\tif lr.N != 0 {\n\t\t\treturn fmt.Errorf(\"%d trailing garbage bytes after capability option\", lr.N)\n\t\t}\n\t}\n}\n\nfunc readCapabilities(", New: "\t\tif lr.N != 0 {\n\t\t\treturn fmt.Errorf(\"%d trailing garbage bytes after capability option\", lr.N)\n\t\t}\n\t\treturn nil\n\t}\n}\n\nfunc readCapabilities(", Expect: "READ-TO-END"},
			{Name: "diff-against-a-remembered-copy-of-the-advertised-set", File: "internal/bgp/native/native.go",
				Old: "\tstats.AdvertisedPrefixes(s.peerName, len(s.advertised))\n\n\tfor {\n\t\tfor s.new == nil && s.conn != nil {\n\t\t\ts.cond.Wait()\n\t\t}\n\n\t\tif s.closed {\n\t\t\treturn false\n\t\t}\n\t\tif s.conn == nil {\n\t\t\treturn true\n\t\t}\n\t\tif s.new == nil {\n\t\t\t// nil is \"no pending updates\", contrast to a non-nil\n\t\t\t// empty map which means \"withdraw all\".\n\t\t\tcontinue\n\t\t}\n\n\t\tfor c, adv := range s.new {\n\t\t\tif adv2, ok := s.advertised[c]; ok && adv.Equal(adv2) {", New: "\tsent := s.advertised\n\tstats.AdvertisedPrefixes(s.peerName, len(s.advertised))\n\n\tfor {\n\t\tfor s.new == nil && s.conn != nil {\n\t\t\ts.cond.Wait()\n\t\t}\n\n\t\tif s.closed {\n\t\t\treturn false\n\t\t}\n\t\tif s.conn == nil {\n\t\t\treturn true\n\t\t}\n\t\tif s.new == nil {\n\t\t\t// nil is \"no pending updates\", contrast to a non-nil\n\t\t\t// empty map which means \"withdraw all\".\n\t\t\tcontinue\n\t\t}\n\n\t\tfor c, adv := range s.new {\n\t\t\tif adv2, ok := sent[c]; ok && adv.Equal(adv2) {", Expect: "STALE-ALIAS"},
			{Name: "lock-released-around-withdraw", File: "internal/bgp/native/native.go",
				Old: "\t\t\tif err := sendWithdraw(s.conn, wdr); err != nil {", New: "\t\t\tconn := s.conn\n\t\t\ts.mu.Unlock()\n\t\t\terr := sendWithdraw(conn, wdr)\n\t\t\ts.mu.Lock()\n\t\t\tif err != nil {", Expect: "ROUND-ATOMIC"},
			{Name: "next-hop-from-configured-source", File: "internal/bgp/native/native.go",
				Old: "\ts.nextHop = addr.IP\n", New: "\ts.nextHop = addr.IP\n\tif s.SourceAddress != nil {\n\t\ts.nextHop = s.SourceAddress\n\t}\n", Expect: "ROUND-ATOMIC"},
			{Name: "set-without-broadcast", File: "internal/bgp/native/native.go",
				Old: "\tstats.PendingPrefixes(s.peerName, len(s.new))\n\ts.cond.Broadcast()\n", New: "\tstats.PendingPrefixes(s.peerName, len(s.new))\n", Expect: "COND"},
			{Name: "conn-stored-before-asn-test", File: "internal/bgp/native/native.go",
				Old: "\tif op.asn != s.PeerASN {\n\t\tconn.Close()\n\t\treturn fmt.Errorf(\"unexpected peer ASN %d, want %d\", op.asn, s.PeerASN)\n\t}\n", New: "\tif op.asn != s.PeerASN && op.asn != 23456 {\n\t\tconn.Close()\n\t\treturn fmt.Errorf(\"unexpected peer ASN %d, want %d\", op.asn, s.PeerASN)\n\t}\n", Expect: "ASN-REFUSE"},
			{Name: "failed-withdraw-without-abort", File: "internal/bgp/native/native.go",
				Old: "\t\t\tif err := sendWithdraw(s.conn, wdr); err != nil {\n\t\t\t\ts.abort()\n", New: "\t\t\tif err := sendWithdraw(s.conn, wdr); err != nil {\n", Expect: "SEND-ERROR-ABORT"},
			{Name: "commit-before-sending", File: "internal/bgp/native/native.go",
				Old: "\t\twdr := []*net.IPNet{}\n", New: "\t\tif len(s.new) == 0 {\n\t\t\ts.advertised, s.new = s.new, nil\n\t\t\tcontinue\n\t\t}\n\t\twdr := []*net.IPNet{}\n", Expect: "DIFF"},
			{Name: "set-fast-path-ignores-pending", File: "internal/bgp/native/native.go",
				Old: "\ts.new = newAdvs\n\n\tstats.PendingPrefixes", New: "\tif len(newAdvs) == len(s.advertised) && len(newAdvs) == 0 {\n\t\treturn nil\n\t}\n\ts.new = newAdvs\n\n\tstats.PendingPrefixes", Expect: "PENDING"},
			{Name: "initial-send-commits-late", File: "internal/bgp/native/native.go",
				Old: "\tif s.new != nil {\n\t\ts.advertised, s.new = s.new, nil\n\t}\n\n\tfor c, adv := range s.advertised {", New: "\ttoSend := s.advertised\n\tif s.new != nil {\n\t\ttoSend, s.new = s.new, nil\n\t}\n\ts.advertised = toSend\n\n\tfor c, adv := range s.advertised {", Expect: "PENDING"},
			{Name: "dial-after-close", File: "internal/bgp/native/native.go",
				Old: "\tif s.closed {\n\t\treturn errClosed\n\t}\n\n\tctx, cancel := context.WithTimeout", New: "\tctx, cancel := context.WithTimeout", Expect: "CLOSE-TYPESTATE"},
			{Name: "withdraw-list-from-new", File: "internal/bgp/native/native.go",
				Old: "\t\t\tif s.new[c] == nil {\n\t\t\t\twdr = append(wdr, adv.Prefix)", New: "\t\t\tif s.new[c] == nil && adv.LocalPref == 0 {\n\t\t\t\twdr = append(wdr, adv.Prefix)", Expect: "DIFF"},
			{Name: "reconnect-skips-full-resend", File: "internal/bgp/native/native.go",
				Old: "\tfor c, adv := range s.advertised {\n\t\tif err := sendUpdate(s.conn, s.MyASN, ibgp, fbasn, s.nextHop, adv); err != nil {\n\t\t\ts.abort()\n\t\t\tlevel.Error(s.logger).Log(\"op\", \"sendUpdate\", \"ip\", c,",
				New: "\tfor c, adv := range s.advertised {\n\t\tif len(adv.Communities) > 0 {\n\t\t\tcontinue\n\t\t}\n\t\tif err := sendUpdate(s.conn, s.MyASN, ibgp, fbasn, s.nextHop, adv); err != nil {\n\t\t\ts.abort()\n\t\t\tlevel.Error(s.logger).Log(\"op\", \"sendUpdate\", \"ip\", c,", Expect: "FULL-RESEND"},
			{Name: "equal-ignores-communities", File: "internal/bgp/bgp.go",
				Old: "\treturn reflect.DeepEqual(a.Communities, b.Communities)", New: "\treturn len(a.Communities) == len(b.Communities)", Expect: "EQUAL-COVERS"},
			{Name: "close-without-abort", File: "internal/bgp/native/native.go",
				Old: "\ts.closed = true\n\ts.abort()\n\treturn nil", New: "\ts.closed = true\n\treturn nil", Expect: "COND"},
			{Name: "holdtime-read-unlocked", File: "internal/bgp/native/native.go",
				Old: "\t\t\ts.mu.Lock()\n\t\t\tht := s.actualHoldTime\n\t\t\ts.mu.Unlock()", New: "\t\t\tht := s.actualHoldTime", Expect: "LOCK-GUARDED"},
		},
	})
}

func runC17(p *chk.Prog, r *chk.Report) {
	// what is requested is what is encoded: prefix length and bytes agree (PREFIX-AGREE, shared with C16)
	c16Prefix(p, r)
	c17RoundAtomic(p, r)
	// what Set accepts the encoders can encode (VALIDATED, shared with C16): otherwise the session aborts and reconnects forever
	c16Validated(p, r)
	c17WholeWithdraw(p, r)
	x := r.Rule("LOCK-GUARDED", "C locks (must-hold lockset dataflow)", "every access to native.session.{closed,conn,actualHoldTime,nextHop,advertised,new,peerFBASNSupport} is made with session.mu held (abort() through its callers: caller-holds fixed point); NewSession is exempt until the goroutines start", 30)
	guardedRule(x, p, c17Table)
	c17Cond(p, r)
	c17Close(p, r)
	c17Send(p, r)
	c17Pending(p, r)
	c17Diff(p, r)
	c17StaleAlias(p, r)
	setReadonlyRule(p, r)
	// the requested timers are never overwritten by what one connection negotiated (PARAMS-READONLY, shared with C16)
	c16ParamsReadonly(p, r)
	// the peer's capabilities are read to the end of the OPEN (READ-TO-END, shared with C16)
	c16ReadToEnd(p, r)
	// what a (re)connection negotiated is what the updates of that connection are encoded with (NEGOTIATED, shared
	// with C16): a capability remembered from an earlier connection makes the full re-send undecodable for the peer
	c16Negotiated(p, r)
}

const sess = "(*internal/bgp/native.session)."

func c17Cond(p *chk.Prog, r *chk.Report) {
	x := r.Rule("COND", "C locks (condition variable)", "the sender waits on `s.new == nil && s.conn != nil` (plus closed); every function other than sendUpdates (the waiter) and connect (runs in the waiter's goroutine before it waits) that writes session.new, session.conn or session.closed reaches s.cond.Broadcast()/Signal() - directly or through abort(), which always broadcasts - on every path from the write to its return", 4)
	ab := need(x, p, natPkg, "session", "abort")
	abortBroadcasts := false
	if ab != nil {
		g := ab.Graph()
		w := g.MustPass(chk.Site{}, nil, true, func(n ast.Node) bool {
			return ab.ContainsPat("RECV.cond.Broadcast()")(n) || ab.ContainsPat("RECV.cond.Signal()")(n)
		})
		abortBroadcasts = !w.Found
		x.Check("abort:always-broadcasts", posOf(w, ab), abortBroadcasts, "", "abort() can return without waking the sender")
	}
	exempt := map[string]bool{sess + "sendUpdates": true, sess + "connect": true, "(*internal/bgp/native.sessionManager).NewSession": true}
	seen := map[string]bool{}
	for _, fn := range []string{"new", "conn", "closed"} {
		fld := p.LookupField(natPkg, "session", fn)
		if fld == nil {
			x.Undecided("anchor:session."+fn, "UNDECIDED anchor missing")
			continue
		}
		for _, a := range p.FieldAccesses(fld) {
			if !a.IsWrite() || a.Fn == nil || exempt[a.Fn.Name()] {
				continue
			}
			f := a.Fn
			if f == ab {
				continue // checked above: abort itself broadcasts on every path
			}
			key := "write:" + fn + "@" + f.Name()
			if seen[key] {
				continue
			}
			seen[key] = true
			g := f.Graph()
			sites := g.Find(func(n ast.Node) bool { return n == a.Stmt })
			if len(sites) != 1 {
				x.Fail(key, a.Sel.Pos(), "write not found in the control-flow graph")
				continue
			}
			wake := func(n ast.Node) bool {
				if f.ContainsPat("RECV.cond.Broadcast()")(n) || f.ContainsPat("RECV.cond.Signal()")(n) {
					return true
				}
				return abortBroadcasts && f.ContainsCallTo(sess+"abort")(n)
			}
			w := g.MustPass(sites[0], nil, true, wake)
			x.Check(key, posOf(w, f), !w.Found, "", "session."+fn+" (part of the sender's wait predicate) is changed without waking the sender: the change is not acted upon until some later event")
		}
	}
	// the wait loop's predicate
	su := need(x, p, natPkg, "session", "sendUpdates")
	if su != nil {
		g := su.Graph()
		waits := g.FindPat("RECV.cond.Wait()")
		ok := len(waits) == 1
		if ok {
			fs, _ := su.LoopOf(waits[0].Node).(*ast.ForStmt)
			ok = fs != nil && su.MatchNew("RECV.new == nil && RECV.conn != nil", fs.Cond) != nil
		}
		x.Check("sendUpdates:wait-predicate", su.Pos(), ok, "", "the sender does not wait in a loop on `s.new == nil && s.conn != nil`")
	}
}

func c17Close(p *chk.Prog, r *chk.Report) {
	x := r.Rule("CLOSE-TYPESTATE", "B path", "in session.connect the dial (dialMD5) and the store s.conn = conn are dominated by the false edge of `s.closed`, tested in the same critical section (mu locked at entry, unlocked only by the deferred Unlock); Close sets closed = true and calls abort() before returning; sendUpdates returns false only behind s.closed, and run() stops exactly when connect reports errClosed or sendUpdates returns false", 7)
	f := need(x, p, natPkg, "session", "connect")
	if f != nil {
		g := f.Graph()
		open := g.GPat(false, "RECV.closed", chk.H("RECV", isRecv(f)))
		for _, c := range g.FindPat("dialMD5(ETC)") {
			x.Check("connect:dial-only-when-open", c.Pos(), g.Dominated(c, open), "", "a closed session can still dial the peer")
		}
		stores := g.Find(func(n ast.Node) bool {
			as, ok := n.(*ast.AssignStmt)
			return ok && len(as.Lhs) == 1 && f.MatchWith("RECV.conn", as.Lhs[0], chk.H("RECV", isRecv(f))) != nil && !f.IsNilLit(as.Rhs[0])
		})
		x.Check("connect:conn-store", f.Pos(), len(stores) == 1, "", "expected one store of the established connection")
		for _, s := range stores {
			x.Check("connect:store-only-when-open", s.Pos(), g.Dominated(s, open), "", "a connection can be stored on a closed session")
		}
		// one critical section: Lock first, only deferred Unlock
		okCS := false
		nUnlock := 0
		ast.Inspect(f.Body, func(n ast.Node) bool {
			if c, ok := n.(*ast.CallExpr); ok {
				if _, op := f.LockOp(c); op == "Unlock" {
					nUnlock++
				}
			}
			return true
		})
		for _, d := range f.Defers() {
			if _, op := f.LockOp(d.Call); op == "Unlock" && nUnlock == 1 {
				okCS = true
			}
		}
		x.Check("connect:single-critical-section", f.Pos(), okCS, "", "the closed test and the connection store are not in one critical section")
	}
	// only connect stores a non-nil conn
	fld := p.LookupField(natPkg, "session", "conn")
	for _, a := range p.FieldAccesses(fld) {
		if a.Kind != "assign" || a.Fn == nil {
			continue
		}
		as := a.Stmt.(*ast.AssignStmt)
		nonNil := false
		for i, l := range as.Lhs {
			if ast.Unparen(l) == ast.Expr(a.Sel) && i < len(as.Rhs) && !a.Fn.IsNilLit(as.Rhs[i]) {
				nonNil = true
			}
		}
		if nonNil {
			x.Check("conn-set@"+a.Fn.Name(), a.Sel.Pos(), a.Fn.Name() == sess+"connect", "", "a connection is installed outside connect() (bypassing the closed and ASN tests)")
		}
	}
	cl := need(x, p, natPkg, "session", "Close")
	if cl != nil {
		g := cl.Graph()
		sets := g.Find(cl.IsAssignPat("RECV.closed", "true"))
		ok := len(sets) == 1
		if ok {
			w := g.MustPass(sets[0], nil, true, cl.ContainsCallTo(sess+"abort"))
			ok = !w.Found
		}
		x.Check("Close:closed-then-abort", cl.Pos(), ok, "", "Close does not mark the session closed and tear down the connection in one step")
	}
	su := need(x, p, natPkg, "session", "sendUpdates")
	if su != nil {
		g := su.Graph()
		for _, rt := range g.Returns() {
			rr := retResults(rt)
			stop := len(rr) == 1 && su.IsConstBool(rr[0], false)
			if len(rr) == 1 && !stop && isErrorTyped(su, rr[0]) && !su.IsNilLit(rr[0]) {
				stop = true // "closed" reported as an error (run() stops on any error of sendUpdates)
			}
			if stop {
				x.Check("sendUpdates:false-only-when-closed", rt.Pos(), g.Dominated(rt, g.GPat(true, "RECV.closed")), "", "the sender can stop for good although the session is not closed")
			}
		}
		// and when closed it does stop: the closed test follows every wake-up
		for _, wsite := range g.FindPat("RECV.cond.Wait()") {
			fs, _ := su.LoopOf(wsite.Node).(*ast.ForStmt)
			if fs == nil {
				continue
			}
			outer, _ := su.LoopOf(fs).(*ast.ForStmt)
			if outer == nil {
				continue
			}
			// from the end of the wait loop, every path to a send passes the closed test
			isSend := su.ContainsPat("sendUpdate(ETC)")
			var doneB *cfgBlock
			for _, b := range g.Blocks {
				if b.Stmt == ast.Stmt(fs) && b.Kind.String() == "ForDone" {
					doneB = b
				}
			}
			if doneB == nil {
				continue
			}
			w := (&chk.Walk{G: g, From: chk.Site{G: g, B: doneB, I: 0}, Inclusive: true, Hit: func(n ast.Node) bool { return isSend(n) || su.ContainsPat("sendWithdraw(ETC)")(n) },
				Cut: func(b *cfgBlock, k int) bool { return g.EdgeImplies(b, k, g.GPat(false, "RECV.closed")) }}).Run()
			x.Check("sendUpdates:closed-tested-after-wakeup", wsite.Pos(), !w.Found, "", "after waking up the sender can send without testing `closed` first (messages after Close)")
		}
	}
	rn := need(x, p, natPkg, "session", "run")
	if rn != nil {
		g := rn.Graph()
		ok := false
		for _, e := range g.EdgesImplying(chk.GSame(g.GPat(true, "E == errClosed"), g.GPat(true, "errors.Is(E, errClosed)"))) {
			ok = !g.BranchAlways(e, func(n ast.Node) bool { _, isRet := n.(*ast.ReturnStmt); return isRet }).Found
		}
		ok2 := false
		for _, e := range g.EdgesImplying(g.GPat(false, "RECV.sendUpdates()")) {
			ok2 = !g.BranchAlways(e, func(n ast.Node) bool { _, isRet := n.(*ast.ReturnStmt); return isRet }).Found
		}
		// sendUpdates reporting "closed" as an error instead of false
		for _, e := range g.EdgesImplying(g.GErrNil(false, "RECV.sendUpdates()")) {
			ok2 = !g.BranchAlways(e, func(n ast.Node) bool { _, isRet := n.(*ast.ReturnStmt); return isRet }).Found
		}
		x.Check("run:stops-when-closed", rn.Pos(), ok && ok2, "", "run() keeps reconnecting after the session was closed")
	}
	y := r.Rule("ASN-REFUSE", "B path", "in session.connect the store s.conn = conn is dominated by a nil error of readOpen(conn) and by the false edge of op.asn != s.PeerASN for that OPEN; the refusing branch closes the socket and returns an error", 2)
	if f != nil {
		g := f.Graph()
		op := definedBy(g, "readOpen(C)")
		for _, s := range g.Find(func(n ast.Node) bool {
			as, ok := n.(*ast.AssignStmt)
			return ok && len(as.Lhs) == 1 && f.MatchWith("RECV.conn", as.Lhs[0], chk.H("RECV", isRecv(f))) != nil && !f.IsNilLit(as.Rhs[0])
		}) {
			conn := s.Node.(*ast.AssignStmt).Rhs[0]
			same := func(e ast.Expr) bool { return f.SameExpr(e, conn) }
			ok := g.Dominated(s, g.GErrNil(true, "readOpen(C)", chk.H("C", same))) &&
				g.Dominated(s, g.GPat(false, "OP.asn != RECV.PeerASN", chk.H("OP", op)))
			y.Check("connect:store-needs-expected-asn", s.Pos(), ok, "", "a connection can be established with a peer whose OPEN was not read or carries an unexpected ASN")
		}
		for _, e := range g.EdgesImplying(g.GPat(true, "OP.asn != RECV.PeerASN", chk.H("OP", op))) {
			w1 := g.BranchAlways(e, f.ContainsPat("C.Close()"))
			w2 := g.BranchAlways(e, func(n ast.Node) bool {
				rt, ok := n.(*ast.ReturnStmt)
				return ok && len(rt.Results) == 1 && !f.IsNilLit(rt.Results[0])
			})
			closed := !w1.Found || branchAlwaysBeforeReturn(f, g, e, f.ContainsPat("C.Close()"))
			y.Check("connect:unexpected-asn-refused", posOf(w1, f), closed && !w2.Found, "", "an unexpected peer ASN does not close the socket and fail the connection attempt")
		}
	}
	// the ASN that is compared is the one the peer states: the 4-byte-ASN capability, when present, always replaces the
	// 2-byte field of the fixed header
	rc := need(y, p, natPkg, "", "readCapabilities")
	if rc != nil {
		g := rc.Graph()
		isAsn := func(e ast.Expr) bool { return rc.MatchNew("RET.asn", e) != nil }
		okCap, nRead := true, 0
		// the capability code: the Code field of the header struct, or the first byte of the two-byte header array
		hdrByte0 := func(e ast.Expr) bool {
			b := rc.MatchNew("B[0]", rc.Resolve(e))
			if b == nil {
				return false
			}
			at, isArr := rc.Info().TypeOf(b["B"]).Underlying().(*types.Array)
			return isArr && at.Len() == 2 && len(g.FindPat("io.ReadFull(R, B[:])", chk.H("B", func(x ast.Expr) bool { return rc.SameExpr(x, b["B"]) }))) == 1
		}
		// ... or, whatever its name, the first field of the two-byte (type, length) record the element header is read into
		hdrField0 := func(e ast.Expr) bool {
			se, isSel := ast.Unparen(rc.Resolve(e)).(*ast.SelectorExpr)
			if !isSel {
				return false
			}
			st, isSt := rc.Info().TypeOf(se.X).Underlying().(*types.Struct)
			if !isSt || st.NumFields() != 2 || st.Field(0).Name() != se.Sel.Name {
				return false
			}
			for i := 0; i < 2; i++ {
				if b, isB := st.Field(i).Type().Underlying().(*types.Basic); !isB || b.Kind() != types.Uint8 {
					return false
				}
			}
			return len(g.FindPat("binary.Read(R, binary.BigEndian, &H)", chk.H("H", func(x ast.Expr) bool { return rc.SameExpr(x, se.X) }))) == 1
		}
		code65 := chk.GOr(g.GPat(true, "CAP.Code == 65"), g.GPat(true, "C == 65", chk.H("C", hdrByte0)), g.GPat(true, "C == 65", chk.H("C", hdrField0)))
		// the four bytes read into an array and decoded big-endian into the result
		for _, c := range g.FindPat("io.ReadFull(R, A[:])") {
			if !g.Dominated(c, code65) {
				continue
			}
			arr := c.Node.(*ast.CallExpr).Args[1].(*ast.SliceExpr).X
			if at, isArr := rc.Info().TypeOf(arr).Underlying().(*types.Array); !isArr || at.Len() != 4 {
				continue
			}
			nRead++
			same := func(e ast.Expr) bool { return rc.SameExpr(e, arr) }
			store := rc.IsAssignPat("RET.asn", "binary.BigEndian.Uint32(A[:])", chk.H("A", same))
			found := false
			for _, fb := range g.Find(rc.IsAssignPat("RET.fbasn", "true")) {
				found = true
				if g.MustPass(c, func(n ast.Node) bool { return n == fb.Top }, false, store).Found {
					okCap = false
				}
			}
			if !found {
				okCap = false
			}
		}
		for _, c := range g.FindPat("binary.Read(R, binary.BigEndian, &T)") {
			if !g.Dominated(c, code65) {
				continue
			}
			nRead++
			tgt := c.Node.(*ast.CallExpr).Args[2].(*ast.UnaryExpr).X
			if isAsn(tgt) {
				continue // read straight into the result
			}
			// read into a field of a capabilities record that the caller merges into the result afterwards: the record's
			// flag is set with it here, and in readOpen the flag, when set, always moves that field into the result's asn
			if sel, isSel := ast.Unparen(tgt).(*ast.SelectorExpr); isSel && sel.Sel.Name != "asn" {
				fld := sel.Sel.Name
				flagHere := false
				for _, fb := range g.Find(rc.IsAssignPat("CAPS.fbasn", "true", chk.H("CAPS", func(e ast.Expr) bool { return rc.SameExpr(e, sel.X) }))) {
					if !g.MustPass(c, func(n ast.Node) bool { return n == fb.Top }, false, func(n ast.Node) bool { return false }).Found {
						continue
					}
					flagHere = true
				}
				merged := false
				if ro := p.LookupFunc(natPkg, "", "readOpen"); ro != nil && ro.Body != nil && flagHere {
					og := ro.Graph()
					isSet := og.GPat(true, "C.fbasn")
					move := ro.IsAssignPat("RET.asn", "C."+fld)
					es := og.EdgesImplying(isSet)
					merged = len(es) >= 1
					for _, e := range es {
						if og.BranchAlways(e, move).Found {
							merged = false
						}
					}
				}
				if merged {
					continue
				}
			}
			// read into a local: the local is stored into ret.asn on every path on which the read succeeded
			same := func(e ast.Expr) bool { return rc.SameExpr(e, tgt) }
			store := rc.IsAssignPat("RET.asn", "V", chk.H("V", same))
			okRead := g.GErrNil(true, "binary.Read(R, binary.BigEndian, &T)", chk.H("T", same))
			found := false
			for _, fb := range g.Find(rc.IsAssignPat("RET.fbasn", "true")) {
				found = true
				if g.MustPass(c, func(n ast.Node) bool { return n == fb.Top }, false, store).Found {
					okCap = false
				}
			}
			_ = okRead
			if !found {
				okCap = false
			}
		}
		y.Check("readCapabilities:capability-asn-replaces-header-asn", rc.Pos(), okCap && nRead == 1, "", "the ASN announced in the 4-byte-ASN capability does not always become the peer's ASN (a peer whose capability disagrees with its 2-byte field is compared by the wrong one)")
	}
}

func c17Send(p *chk.Prog, r *chk.Report) {
	x := r.Rule("SEND-ERROR-ABORT", "B path", "in session.sendUpdates and session.sendKeepalive every branch taken on a failing sendUpdate / sendWithdraw / sendKeepalive calls s.abort() and then returns", 4)
	for _, name := range []string{"sendUpdates", "sendKeepalive"} {
		f := need(x, p, natPkg, "session", name)
		if f == nil {
			continue
		}
		g := f.Graph()
		n := 0
		for _, callee := range []string{"sendUpdate", "sendWithdraw", "sendKeepalive"} {
			for _, e := range g.DirectEdgesImplying(g.GErrNil(false, callee+"(RECV.conn, ETC)")) {
				n++
				w1 := g.BranchAlways(e, f.ContainsCallTo(sess+"abort"))
				w2 := g.BranchAlways(e, func(nd ast.Node) bool { _, ok := nd.(*ast.ReturnStmt); return ok })
				// the branch may continue behind a join (a helper that reports failure to its caller, which returns):
				// decided again along feasible paths - abort before anything else ends, return before the next iteration
				if w1.Found && !g.FeasibleEscape(e, f.ContainsCallTo(sess+"abort"), nil, chk.IsLoopHead) {
					w1.Found = false
				}
				if w2.Found && !g.FeasibleEscape(e, func(nd ast.Node) bool { _, ok := nd.(*ast.ReturnStmt); return ok }, nil, chk.IsLoopHead) {
					w2.Found = false
				}
				pos := e.B.Nodes[len(e.B.Nodes)-1].Pos()
				x.Check(name+":failed-"+callee+"#"+itoa(n), pos, !w1.Found && !w2.Found, "", "a failing "+callee+" does not abort the connection and return: the session keeps a half-written stream / never resends")
			}
		}
		want := 3
		if name == "sendKeepalive" {
			want = 1
		}
		x.Check(name+":send-error-branches", f.Pos(), n == want, "", "fewer error branches than send sites")
	}
}

func c17Pending(p *chk.Prog, r *chk.Report) {
	x := r.Rule("PENDING", "B path + D ownership", "session.new is set to nil only by the tuple assignment `s.advertised, s.new = s.new, nil` (a pending set is never dropped or parked in a local); session.Set stores, on every nil-returning path, a map that received every advertisement given (validated, keyed by Prefix.String()) and broadcasts; a validation error returns before anything is stored; abort() folds a pending set", 6)
	fld := p.LookupField(natPkg, "session", "new")
	adv := p.LookupField(natPkg, "session", "advertised")
	if fld == nil || adv == nil {
		x.Undecided("anchor:session.new", "UNDECIDED anchor missing")
		return
	}
	for _, a := range p.FieldAccesses(fld) {
		if a.Kind != "assign" || a.Fn == nil {
			continue
		}
		as := a.Stmt.(*ast.AssignStmt)
		f := a.Fn
		for i, l := range as.Lhs {
			if ast.Unparen(l) != ast.Expr(a.Sel) || len(as.Rhs) != len(as.Lhs) {
				continue
			}
			if f.IsNilLit(as.Rhs[i]) {
				ok := len(as.Lhs) == 2 && f.IsField(as.Lhs[0], adv) && f.IsField(as.Rhs[0], fld) && i == 1
				x.Check("new=nil@"+f.Name(), as.Pos(), ok, "", "the pending set is cleared without becoming the advertised set in the same assignment: if the connection breaks before it is stored, the requested routes are lost")
			}
		}
	}
	// any local that receives s.new is a parking spot
	for _, f := range p.FuncsIn(natPkg) {
		ast.Inspect(f.Body, func(n ast.Node) bool {
			as, ok := n.(*ast.AssignStmt)
			if !ok {
				return true
			}
			for i, rh := range as.Rhs {
				if len(as.Lhs) != len(as.Rhs) || !f.IsField(rh, fld) {
					continue
				}
				if f.IsField(as.Lhs[i], adv) {
					continue
				}
				// a local that is only read (ranged over, indexed, measured, compared): another name for the pending
				// set while s.new itself stays where it is
				if id, isId := as.Lhs[i].(*ast.Ident); isId && f.ObjOf(id) != nil && len(assignsTo(f, f.ObjOf(id))) == 1 {
					o := f.ObjOf(id)
					readOnly := true
					ast.Inspect(f.Body, func(m ast.Node) bool {
						u, isU := m.(*ast.Ident)
						if !isU || f.ObjOf(u) != o || u == id {
							return true
						}
						switch par := p.Parent(u).(type) {
						case *ast.RangeStmt:
							if par.X != ast.Expr(u) {
								readOnly = false
							}
						case *ast.IndexExpr:
							if par.X != ast.Expr(u) {
								readOnly = false
							} else if pas, isAs := p.Parent(par).(*ast.AssignStmt); isAs {
								for _, l := range pas.Lhs {
									if l == ast.Expr(par) {
										readOnly = false // an element store through the alias
									}
								}
							}
						case *ast.BinaryExpr:
						case *ast.CallExpr:
							if fid, isF := par.Fun.(*ast.Ident); !isF || fid.Name != "len" {
								readOnly = false
							}
						default:
							readOnly = false
						}
						return true
					})
					if readOnly {
						continue
					}
				}
				x.Fail("new-parked@"+f.Name(), as.Pos(), "the pending set is moved into something other than session.advertised")
			}
			return true
		})
	}
	st := need(x, p, natPkg, "session", "Set")
	if st != nil {
		g := st.Graph()
		advs := isParamIdx(st, 0)
		stores := g.Find(func(n ast.Node) bool {
			as, ok := n.(*ast.AssignStmt)
			return ok && len(as.Lhs) == 1 && st.IsField(as.Lhs[0], fld)
		})
		ok := len(stores) == 1
		if ok {
			m := st.ObjOf(stores[0].Node.(*ast.AssignStmt).Rhs[0])
			nilRet := func(n ast.Node) bool {
				rs, okk := n.(*ast.ReturnStmt)
				return okk && len(rs.Results) == 1 && st.IsNilLit(rs.Results[0])
			}
			w := g.MustPass(chk.Site{}, nilRet, false, func(n ast.Node) bool { return n == stores[0].Top })
			w2 := g.MustPass(stores[0], nilRet, false, st.ContainsPat("RECV.cond.Broadcast()"))
			ok = !w.Found && !w2.Found && m != nil
			// the map is fresh and receives every advertisement
			okFill := false
			for _, rs := range st.RangeLoops(advs) {
				a := rangeVal(st, rs)
				ins := st.IsAssignPat("M[A.Prefix.String()]", "A", chk.H("M", st.IsObj(m)), chk.H("A", a))
				okFill = !loopSkipsWithout(g, rs, ins, chk.NoGuard) && !loopHasBreak(g, rs) && g.AfterLoop(stores[0], rs)
				// validation precedes insertion; failure returns the error
				for _, s := range g.Find(ins) {
					if !g.Dominated(s, g.GErrNil(true, "validate(A)", chk.H("A", a))) {
						okFill = false
					}
				}
			}
			fresh := definedBy(g, "map[string]*bgp.Advertisement{}")(stores[0].Node.(*ast.AssignStmt).Rhs[0]) ||
				definedBy(g, "make(map[string]*bgp.Advertisement)")(stores[0].Node.(*ast.AssignStmt).Rhs[0]) ||
				definedBy(g, "make(map[string]*bgp.Advertisement, N)")(stores[0].Node.(*ast.AssignStmt).Rhs[0]) // a capacity hint: still empty
			ok = ok && okFill && fresh
		}
		x.Check("Set:always-stores-complete-validated-set-and-wakes", st.Pos(), ok, "", "Set can return success without the complete requested set being pending and the sender woken (e.g. a fast path that compares only with the advertised set and ignores an older pending one)")
	}
	ab := need(x, p, natPkg, "session", "abort")
	if ab != nil {
		g := ab.Graph()
		// every way through abort folds the pending set, except behind `s.new == nil`
		isFold := func(n ast.Node) bool {
			as, okk := n.(*ast.AssignStmt)
			return okk && len(as.Lhs) == 2 && ab.IsField(as.Lhs[0], adv) && ab.IsField(as.Rhs[0], fld)
		}
		noPending := g.GPat(false, "RECV.new != nil")
		w := (&chk.Walk{G: g, HitExit: true, Stop: isFold, Cut: func(b *cfgBlock, k int) bool { return g.EdgeImplies(b, k, noPending) }}).Run()
		ok := !w.Found && len(g.Find(isFold)) >= 1
		x.Check("abort:folds-pending", ab.Pos(), ok, "", "abort() does not fold a pending set into the advertised set (it would not be re-sent after the reconnection)")
		ok2 := false
		for _, e := range g.EdgesImplying(g.GPat(true, "RECV.conn != nil")) {
			ok2 = !g.BranchAlways(e, ab.ContainsPat("RECV.conn.Close()")).Found && !g.BranchAlways(e, ab.IsAssignPat("RECV.conn", "nil")).Found
		}
		x.Check("abort:closes-connection", ab.Pos(), ok2, "", "abort() does not close and forget the connection")
	}
}

func c17Diff(p *chk.Prog, r *chk.Report) {
	f := p.LookupFunc(natPkg, "session", "sendUpdates")
	x := r.Rule("FULL-RESEND", "B path", "in session.sendUpdates every path from the entry to the first s.cond.Wait() passes the fold `if s.new != nil { s.advertised, s.new = s.new, nil }` test and then a loop over s.advertised in which every element is handed to sendUpdate (no skip, no break) with the session's ASN / next hop", 3)
	if !x.Need(f, "native.session.sendUpdates") {
		return
	}
	g := f.Graph()
	waits := g.FindPat("RECV.cond.Wait()")
	if len(waits) != 1 {
		x.Fail("sendUpdates:wait", f.Pos(), "expected one cond.Wait()")
		return
	}
	wait := waits[0]
	var full *ast.RangeStmt
	for _, rs := range f.RangeLoops(func(e ast.Expr) bool { return f.MatchWith("RECV.advertised", e, chk.H("RECV", isRecv(f))) != nil }) {
		if f.LoopOf(rs) == nil {
			full = rs
		}
	}
	okFull := full != nil
	if okFull {
		send := f.ContainsPat("sendUpdate(RECV.conn, RECV.MyASN, IBGP, FB, RECV.nextHop, A)", chk.H("A", rangeVal(f, full)))
		okFull = !loopSkipsWithout(g, full, send, chk.NoGuard) && !loopHasBreak(g, full)
		w := g.MustPass(chk.Site{}, func(n ast.Node) bool { return n == wait.Top || chk.Encloses(n, wait.Node) }, false, func(n ast.Node) bool { return n == ast.Node(full.X) })
		okFull = okFull && !w.Found
		x.Check("sendUpdates:full-table-before-first-wait", full.Pos(), okFull, "", "after a (re)connection the sender can start waiting without having sent every advertised route (the peer's table was reset by the session loss)")
		// the fold test precedes the full send
		folds := g.EdgesImplying(g.GPat(true, "RECV.new != nil"))
		okFold := false
		for _, e := range folds {
			if f.LoopOf(e.B.Nodes[len(e.B.Nodes)-1]) != nil {
				continue
			}
			w := g.BranchAlways(e, func(n ast.Node) bool {
				as, ok := n.(*ast.AssignStmt)
				return ok && len(as.Lhs) == 2 && f.MatchNew("RECV.advertised", as.Lhs[0]) != nil && f.MatchNew("RECV.new", as.Rhs[0]) != nil
			})
			cond := e.B.Nodes[len(e.B.Nodes)-1]
			w2 := g.MustPass(chk.Site{}, func(n ast.Node) bool { return n == ast.Node(full.X) }, false, func(n ast.Node) bool { return n == cond })
			okFold = !w.Found && !w2.Found
		}
		x.Check("sendUpdates:pending-folded-before-full-send", f.Pos(), okFold, "", "a set requested while disconnected is not made the advertised set before the full table is sent")
		// ibgp flag
		// at every sendUpdate the iBGP argument is MyASN == PeerASN (spelt in place or held in a local)
		okFlag, okFB, nSend := true, true, 0
		for _, c := range g.FindPat("sendUpdate(RECV.conn, RECV.MyASN, IBGP, FB, RECV.nextHop, A)") {
			nSend++
			arg := f.Resolve(c.Node.(*ast.CallExpr).Args[2])
			if f.MatchWith("RECV.MyASN == RECV.PeerASN", arg, chk.H("RECV", isRecv(f))) == nil && f.MatchWith("RECV.PeerASN == RECV.MyASN", arg, chk.H("RECV", isRecv(f))) == nil {
				okFlag = false
			}
			if f.MatchWith("RECV.peerFBASNSupport", f.Resolve(c.Node.(*ast.CallExpr).Args[3]), chk.H("RECV", isRecv(f))) == nil {
				okFB = false
			}
		}
		x.Check("sendUpdates:ibgp-flag", f.Pos(), okFlag && nSend >= 1, "", "the iBGP flag is not MyASN == PeerASN")
		x.Check("sendUpdates:as4-flag", f.Pos(), okFB && nSend >= 1, "", "the AS_PATH encoding is not chosen by what the peer negotiated (s.peerFBASNSupport)")
	} else {
		x.Fail("sendUpdates:full-table-loop", f.Pos(), "no top-level loop over s.advertised")
	}

	y := r.Rule("DIFF", "B path", "in the diff phase of sendUpdates: every element of s.new is handed to sendUpdate unless `ok && adv.Equal(s.advertised[c])`; the withdraw list receives adv.Prefix for exactly the keys of s.advertised with s.new[c] == nil and is sent when non-empty; the commit `s.advertised, s.new = s.new, nil` inside the loop is reached only after the update loop and the withdraw phase, never from a failing send", 3)
	var diffNew, diffOld *ast.RangeStmt
	for _, rs := range f.RangeLoops(func(e ast.Expr) bool { return f.MatchWith("RECV.new", e, chk.H("RECV", isRecv(f))) != nil }) {
		diffNew = rs
	}
	for _, rs := range f.RangeLoops(func(e ast.Expr) bool { return f.MatchWith("RECV.advertised", e, chk.H("RECV", isRecv(f))) != nil }) {
		if f.LoopOf(rs) != nil {
			diffOld = rs
		}
	}
	if diffNew == nil || diffOld == nil {
		y.Fail("sendUpdates:diff-loops", f.Pos(), "no loop over s.new / s.advertised in the diff phase")
		return
	}
	k, a := rangeKey(f, diffNew), rangeVal(f, diffNew)
	send := f.ContainsPat("sendUpdate(RECV.conn, RECV.MyASN, IBGP, FB, RECV.nextHop, A)", chk.H("A", a))
	sameFor := func(k, a func(ast.Expr) bool) func(ft chk.Fact) bool {
		return func(ft chk.Fact) bool {
			if !ft.Val {
				return false
			}
			b := f.MatchNew("OK && A.Equal(B)", ft.E)
			if b == nil || !a(b["A"]) {
				return false
			}
			bid, ok1 := ast.Unparen(b["B"]).(*ast.Ident)
			oid, ok2 := ast.Unparen(b["OK"]).(*ast.Ident)
			if !ok1 || !ok2 {
				return false
			}
			site := g.FactSite(bid)
			r1, i1 := g.DefOf(bid, site)
			r2, i2 := g.DefOf(oid, site)
			return r1 != nil && r1 == r2 && i1 == 0 && i2 == 1 && f.MatchWith("RECV.advertised[K]", r1, chk.H("K", k)) != nil
		}
	}
	same := sameFor(k, a)
	okDiff := !loopSkipsWithout(g, diffNew, send, chk.GFunc(same)) && !loopHasBreak(g, diffNew)
	if !okDiff {
		// two phases: the keys of the new or changed advertisements are collected first, then every one of them is sent
		isNew := func(e ast.Expr) bool {
			return f.MatchWith("RECV.new", f.Resolve(e), chk.H("RECV", isRecv(f))) != nil || f.MatchWith("RECV.new", e, chk.H("RECV", isRecv(f))) != nil
		}
		changed := func(e ast.Expr) bool {
			return filteredKeys(f, g, e, isNew, func(rs *ast.RangeStmt, pos bool) chk.Guard {
				sm := chk.GFunc(sameFor(rangeKey(f, rs), rangeVal(f, rs)))
				if pos {
					return chk.GNot(sm)
				}
				return sm
			})
		}
		for _, rs := range f.RangeLoops(changed) {
			key := rangeVal(f, rs)
			send2 := f.ContainsPat("sendUpdate(RECV.conn, RECV.MyASN, IBGP, FB, RECV.nextHop, N[K])", chk.H("N", isNew), chk.H("K", key))
			okDiff = !loopSkipsWithout(g, rs, send2, chk.NoGuard) && !loopHasBreak(g, rs)
		}
	}
	y.Check("sendUpdates:diff-sends-new-or-changed", diffNew.Pos(), okDiff, "", "an advertisement that is new or whose attributes changed can be skipped in the diff phase")
	ok, ov := rangeKey(f, diffOld), rangeVal(f, diffOld)
	wapp := func(n ast.Node) bool { return f.IsAssignPat("W", "append(W, A.Prefix)", chk.H("A", ov))(n) }
	missing := g.GPat(true, "RECV.new[K] == nil", chk.H("K", ok))
	okW := !loopSkipsWithout(g, diffOld, wapp, g.GPat(false, "RECV.new[K] == nil", chk.H("K", ok))) && !loopHasBreak(g, diffOld)
	for _, s := range g.Find(wapp) {
		if !g.Dominated(s, missing) {
			okW = false
		}
	}
	// the list is sent when non-empty
	var wobj types.Object
	for _, s := range g.Find(wapp) {
		wobj = f.ObjOf(s.Node.(*ast.AssignStmt).Lhs[0])
	}
	okSend := false
	for _, e := range g.EdgesImplying(g.GPat(true, "len(W) > 0", chk.H("W", f.IsObj(wobj)))) {
		okSend = !g.BranchAlways(e, f.ContainsPat("sendWithdraw(RECV.conn, W)", chk.H("W", f.IsObj(wobj)))).Found
	}
	y.Check("sendUpdates:withdraw-set", diffOld.Pos(), okW && okSend && wobj != nil, "", "the withdraw list is not exactly the advertised prefixes that are missing from the new set (a dropped route stays in the peer's table), or it is not sent")
	// the list belongs to one round: what reaches an append is an empty list made in this round of the sender's loop,
	// or an append of this round - never what an earlier round collected (a prefix withdrawn once would be withdrawn again
	// in every later round, also after it was requested again)
	round := f.LoopOf(diffOld)
	okFresh, badPos := wobj != nil && round != nil, diffOld.Pos()
	if okFresh {
		for _, s := range g.Find(wapp) {
			call := s.Node.(*ast.AssignStmt).Rhs[0].(*ast.CallExpr)
			wid, isId := ast.Unparen(call.Args[0]).(*ast.Ident)
			if !isId {
				okFresh = false
				continue
			}
			vals, okv := g.ReachingValues(wid, s)
			if !okv {
				okFresh, badPos = false, s.Pos()
				continue
			}
			for _, v := range vals {
				if wapp(v.Def.Node) && chk.InBody(diffOld, v.Def.Node) {
					continue
				}
				if chk.InBody(round, v.Def.Node) && emptyListValue(f, v, wobj) {
					continue
				}
				okFresh, badPos = false, v.Def.Pos()
			}
		}
	}
	y.Check("sendUpdates:withdraw-list-fresh-each-round", badPos, okFresh, "", "the withdraw list of a round can still hold what an earlier round collected (the list is made or emptied outside the sender's loop): a prefix withdrawn once is withdrawn again in every later round, also after it was requested again")
	// commit
	commits := g.Find(func(n ast.Node) bool {
		as, okk := n.(*ast.AssignStmt)
		return okk && len(as.Lhs) == 2 && f.MatchNew("RECV.advertised", as.Lhs[0]) != nil && f.MatchNew("RECV.new", as.Rhs[0]) != nil && f.LoopOf(n) != nil
	})
	okC := len(commits) == 1
	if okC {
		c := commits[0]
		okC = g.AfterLoop(c, diffNew) && g.AfterLoop(c, diffOld)
		for _, callee := range []string{"sendUpdate", "sendWithdraw"} {
			for _, e := range g.DirectEdgesImplying(g.GErrNil(false, callee+"(RECV.conn, ETC)")) {
				st := chk.Site{G: g, B: e.B.Succs[e.K], I: 0}
				if (&chk.Walk{G: g, From: st, Inclusive: true, Hit: func(n ast.Node) bool { return n == c.Top }}).Run().Found &&
					g.FeasiblyReaches(e, func(n ast.Node) bool { return n == c.Top }) {
					okC = false
				}
			}
		}
	}
	y.Check("sendUpdates:commit-after-both-phases", f.Pos(), okC, "", "the advertised set is committed before the updates and withdraws for it were sent successfully")

	z := r.Rule("EQUAL-COVERS", "E sibling (field coverage)", "bgp.(*Advertisement).Equal reads every field of bgp.Advertisement of both operands (a changed attribute makes the advertisement unequal, so it is re-announced)", 4)
	eq := need(z, p, "internal/bgp", "Advertisement", "Equal")
	at := p.LookupType("internal/bgp", "Advertisement")
	if eq != nil && at != nil {
		st := at.Underlying().(*types.Struct)
		for i := 0; i < st.NumFields(); i++ {
			fl := st.Field(i)
			// both receiver.f and other.f occur, in a comparison whose inequality leads to false
			na, nb := 0, 0
			ast.Inspect(eq.Body, func(n ast.Node) bool {
				s, ok := n.(*ast.SelectorExpr)
				if !ok || !eq.IsField(s, fl) {
					return true
				}
				if isRecv(eq)(s.X) {
					na++
				}
				if isParamIdx(eq, 0)(s.X) {
					nb++
				}
				return true
			})
			okk := na >= 1 && nb >= 1
			// value comparison, not a weaker proxy (len): the field expressions are direct operands of != / DeepEqual / String() compare
			if okk {
				weak := false
				ast.Inspect(eq.Body, func(n ast.Node) bool {
					c, ok := n.(*ast.CallExpr)
					if !ok || len(c.Args) != 1 {
						return true
					}
					if id, ok := c.Fun.(*ast.Ident); ok && (id.Name == "len" || id.Name == "cap") {
						if s, ok := ast.Unparen(c.Args[0]).(*ast.SelectorExpr); ok && eq.IsField(s, fl) {
							weak = true
						}
					}
					return true
				})
				okk = !weak
			}
			z.Check("Equal:"+fl.Name(), eq.Pos(), okk, "", "Advertisement.Equal does not compare field "+fl.Name()+" by value: a change of it is not re-announced to the peer")
		}
	}
}

// c17WholeWithdraw (shared with C09): the withdraw message names every prefix it was asked to withdraw. The caller
// swaps its books wholesale after a successful sendWithdraw, so a prefix left out of the message is never looked at
// again and the peer keeps the route.
func c17WholeWithdraw(p *chk.Prog, r *chk.Report) {
	x := r.Rule("WHOLE-WITHDRAW", "B value flow", "native.sendWithdraw hands its prefixes parameter itself (never reassigned, sliced or filtered) to encodePrefixes, on every path to a nil return; encodePrefixes writes every element of its list (a loop without skip or break)", 2)
	f := need(x, p, natPkg, "", "sendWithdraw")
	if f != nil {
		g := f.Graph()
		var pv *types.Var
		for i := 0; i < 4; i++ {
			if v := f.Param(i); v != nil {
				if sl, isSl := v.Type().Underlying().(*types.Slice); isSl && strings.HasSuffix(sl.Elem().String(), "net.IPNet") {
					pv = v
				}
			}
		}
		ok := pv != nil && len(assignsTo(f, pv)) == 0
		if ok {
			enc := f.ContainsPat("encodePrefixes(B, P)", chk.H("P", f.IsObj(pv)))
			// in place: the loop over the parameter itself
			for _, rs := range f.RangeLoops(f.IsObj(pv)) {
				if !loopHasBreak(g, rs) {
					enc = func(n ast.Node) bool { return n == ast.Node(rs.X) }
				}
			}
			for _, rt := range g.Returns() {
				if rr := retResults(rt); len(rr) == 1 && f.IsNilLit(rr[0]) {
					// on the shape of the graph, and when that finds a way around (the encoding step expanded in place hands its
					// error over through a result variable), with the conditions on the way
					if g.MustPass(chk.Site{}, func(n ast.Node) bool { return n == rt.Top }, false, enc).Found && !g.Dominated(rt, chk.GEvent(enc)) {
						ok = false
					}
				}
			}
		}
		x.Check("sendWithdraw:every-prefix-encoded", f.Pos(), ok, "", "sendWithdraw can report success without having encoded every prefix it was given (the list is cut, filtered or replaced): the caller forgets the withdrawn prefixes wholesale, so the peer keeps the routes that were left out")
	}
	e := p.LookupFunc(natPkg, "", "encodePrefixes")
	if e != nil {
		g := e.Graph()
		ok := false
		for _, rs := range e.RangeLoops(isParamIdx(e, 1)) {
			wr := func(n ast.Node) bool { return e.ContainsPat("B.Write(ETC)")(n) }
			ok = !loopCanSkip(g, rs, wr) && !loopHasBreak(g, rs) && len(assignsTo(e, e.Param(1))) == 0
			for _, rt := range g.Returns() {
				if chk.InBody(rs, rt.Node) {
					ok = false
				}
			}
		}
		x.Check("encodePrefixes:every-element", e.Pos(), ok, "", "encodePrefixes does not write every prefix of its list")
	} else {
		x.OK("encodePrefixes:every-element", 0, "encodePrefixes is expanded into its callers")
	}
}

// c17RoundAtomic: one round of the sender - fold the pending set, send the difference, commit - runs under the session
// lock without a gap, and the next hop announced is the 4-byte local address of the connection.
func c17RoundAtomic(p *chk.Prog, r *chk.Report) {
	x := r.Rule("ROUND-ATOMIC", "C locks + B value flow", "session.sendUpdates never releases s.mu itself (the deferred Unlock and cond.Wait are the only releases): the set it diffed against is the set it commits; in session.connect s.nextHop is assigned only the IP of the connection's local *net.TCPAddr", 2)
	f := need(x, p, natPkg, "session", "sendUpdates")
	if f != nil {
		lock := p.LockField(natPkg, "session", "mu")
		var bad *ast.CallExpr
		ast.Inspect(f.Body, func(nd ast.Node) bool {
			switch y := nd.(type) {
			case *ast.DeferStmt:
				return false
			case *ast.FuncLit:
				return false
			case *ast.CallExpr:
				if lk, op := f.LockOp(y); lock != nil && lk == lock && (op == "Unlock" || op == "RUnlock") {
					bad = y
				}
			}
			return true
		})
		pos := f.Pos()
		if bad != nil {
			pos = bad.Pos()
		}
		x.Check("sendUpdates:lock-held-for-the-whole-round", pos, bad == nil && lock != nil, "", "the sender releases the session lock in the middle of a round: a Set that lands in the gap is committed as `held by the peer` by the closing s.advertised, s.new = s.new, nil without ever being diffed or sent")
	}
	c := need(x, p, natPkg, "session", "connect")
	if c != nil {
		g := c.Graph()
		n := 0
		for _, st := range g.Find(func(nd ast.Node) bool {
			as, ok := nd.(*ast.AssignStmt)
			return ok && len(as.Lhs) == 1 && len(as.Rhs) == 1 && c.MatchNew("RECV.nextHop", as.Lhs[0]) != nil
		}) {
			n++
			rhs := st.Node.(*ast.AssignStmt).Rhs[0]
			ok := false
			if b := c.MatchNew("A.IP", ast.Unparen(rhs)); b != nil {
				if id, isId := ast.Unparen(b["A"]).(*ast.Ident); isId {
					if def, _ := g.DefOf(id, g.FactSite(id)); def != nil {
						if ta, isTA := ast.Unparen(def).(*ast.TypeAssertExpr); isTA && c.MatchNew("C.LocalAddr()", ast.Unparen(ta.X)) != nil {
							ok = true
						}
					}
				}
			}
			x.Check("connect:next-hop-is-the-local-address", st.Pos(), ok, "", "the next hop is taken from something other than the connection's local address (a configured address in 16-byte form, say): encodePathAttrs writes the NEXT_HOP attribute with length 4 followed by the bytes as they are, so every UPDATE is malformed")
		}
		x.Check("connect:next-hop-assigned", c.Pos(), n >= 1, "", "s.nextHop is not assigned in connect")
	}
}

// c17StaleAlias: the set the peer is known to hold is the field s.advertised, which every round replaces by the set just
// sent. A local that remembers an earlier value of that field (or of s.new) and is read after the field was replaced is
// the set of some earlier round: a prefix withdrawn since then and announced again is taken for "already at the peer"
// and never re-sent.
func c17StaleAlias(p *chk.Prog, r *chk.Report) {
	x := r.Rule("STALE-ALIAS", "B path (value flow)", "in the methods of native.session no local that was assigned the value of s.advertised or s.new is read on a path on which that field has been assigned since: the round's comparisons read the current sets", 0)
	n := 0
	for _, f := range p.FuncsIn(natPkg) {
		if f.Body == nil || f.Recv() == nil || !strings.HasSuffix(f.Recv().Type().String(), "native.session") {
			continue
		}
		g := f.Graph()
		for _, fld := range []string{"advertised", "new"} {
			fld := fld
			isFieldStore := func(nd ast.Node) bool {
				as, ok := nd.(*ast.AssignStmt)
				if !ok {
					return false
				}
				for _, l := range as.Lhs {
					if f.MatchWith("RECV."+fld, l, chk.H("RECV", isRecv(f))) != nil {
						return true
					}
				}
				return false
			}
			for _, d := range g.Find(func(nd ast.Node) bool {
				as, ok := nd.(*ast.AssignStmt)
				if !ok || len(as.Lhs) != len(as.Rhs) {
					return false
				}
				for i, l := range as.Lhs {
					if _, isId := ast.Unparen(l).(*ast.Ident); isId && f.MatchWith("RECV."+fld, as.Rhs[i], chk.H("RECV", isRecv(f))) != nil {
						return true
					}
				}
				return false
			}) {
				as := d.Node.(*ast.AssignStmt)
				for i, l := range as.Lhs {
					id, isId := ast.Unparen(l).(*ast.Ident)
					if !isId || id.Name == "_" || f.MatchWith("RECV."+fld, as.Rhs[i], chk.H("RECV", isRecv(f))) == nil {
						continue
					}
					o := f.ObjOf(id)
					if o == nil {
						continue
					}
					n++
					redef := func(nd ast.Node) bool {
						// (the defining statement itself, met again on the way round a loop, refreshes the local)
						a2, ok := nd.(*ast.AssignStmt)
						if !ok {
							return false
						}
						for _, l2 := range a2.Lhs {
							if f.ObjOf(l2) == o {
								return true
							}
						}
						return false
					}
					reads := func(nd ast.Node) bool {
						found := false
						chk.InspectNoLit(nd, func(m ast.Node) bool {
							if u, isU := m.(*ast.Ident); isU && f.ObjOf(u) == o && f.Info().Defs[u] == nil {
								// not the left side of its own (re)definition
								if a2, isAs := nd.(*ast.AssignStmt); isAs {
									for _, l2 := range a2.Lhs {
										if l2 == ast.Expr(u) {
											return true
										}
									}
								}
								found = true
							}
							return !found
						})
						return found
					}
					stale := false
					var at token.Pos
					for _, st := range g.Find(isFieldStore) {
						// the store is reachable from the definition without the local being refreshed ...
						w1 := (&chk.Walk{G: g, From: d, Stop: redef, Hit: func(nd ast.Node) bool { return nd == st.Top }}).Run()
						if !w1.Found && st.Top != d.Top {
							continue
						}
						if st.Top == d.Top {
							continue
						}
						// ... and a read of the local is reachable from the store without it being refreshed
						w2 := (&chk.Walk{G: g, From: st, Stop: redef, Hit: reads}).Run()
						if w2.Found {
							stale, at = true, w2.Pos()
						}
					}
					pos := d.Pos()
					if stale && at.IsValid() {
						pos = at
					}
					x.Check(f.Name()+":"+o.Name()+"=s."+fld, pos, !stale, "", "`"+o.Name()+"` holds an earlier value of s."+fld+" and is read after the field was replaced: the comparison is made against the set of an earlier round (a prefix withdrawn and announced again is taken for already sent)")
				}
			}
		}
	}
	if n == 0 {
		x.OK("no-local-copies-of-the-sets", 0, "")
	}
}

// setReadonlyRule (C17, shared with C05): the advertisements handed to Session.Set belong to the caller, who hands the
// very same objects to the sessions of all peers (bgpController.publishAds). A session reads them - it validates, copies
// the pointers, compares - and never stores through them: a field "normalised" for one peer (LOCAL_PREF cleared for an
// eBGP session) is changed for every other session that holds the pointer.
func setReadonlyRule(p *chk.Prog, r *chk.Report) {
	x := r.Rule("SET-READONLY", "D ownership (effects)", "in the Set method of the native, frr and frr-k8s sessions nothing is stored through the advertisements received (no assignment, ++/--, append-assign or in-place sort whose target is reached from an element of the variadic parameter)", 3)
	for _, pkg := range []string{natPkg, frrPkg, fk8Pkg} {
		f := p.LookupFunc(pkg, "session", "Set")
		if f == nil || f.Body == nil {
			x.Undecided("anchor:"+pkg+".(session).Set", "UNDECIDED anchor missing: "+pkg+".(session).Set")
			continue
		}
		r.Saw(f)
		g := f.Graph()
		advs := isParamIdx(f, 0)
		fromAdvs := func(e ast.Expr) bool {
			root := ast.Unparen(e)
			for i := 0; i < 8; i++ {
				switch v := root.(type) {
				case *ast.SelectorExpr:
					root = ast.Unparen(v.X)
					continue
				case *ast.IndexExpr:
					if advs(v.X) {
						return true
					}
					root = ast.Unparen(v.X)
					continue
				case *ast.StarExpr:
					root = ast.Unparen(v.X)
					continue
				}
				break
			}
			id, isId := root.(*ast.Ident)
			if !isId {
				return false
			}
			for _, rs := range f.RangeLoops(advs) {
				if rangeVal(f, rs)(id) {
					return true
				}
			}
			// a local copy of an element pointer
			if d := f.LocalDef(id); d != nil {
				if ix, isIx := ast.Unparen(d).(*ast.IndexExpr); isIx && advs(ix.X) {
					return true
				}
				if did, isD := ast.Unparen(d).(*ast.Ident); isD {
					for _, rs := range f.RangeLoops(advs) {
						if rangeVal(f, rs)(did) {
							return true
						}
					}
				}
			}
			return false
		}
		bad := token.NoPos
		chk.InspectNoLit(f.Body, func(n ast.Node) bool {
			switch v := n.(type) {
			case *ast.AssignStmt:
				for _, l := range v.Lhs {
					if _, isId := ast.Unparen(l).(*ast.Ident); isId {
						continue
					}
					if fromAdvs(l) {
						bad = v.Pos()
					}
				}
			case *ast.IncDecStmt:
				if _, isId := ast.Unparen(v.X).(*ast.Ident); !isId && fromAdvs(v.X) {
					bad = v.Pos()
				}
			}
			return true
		})
		_ = g
		pos := f.Pos()
		if bad.IsValid() {
			pos = bad
		}
		x.Check(pkg+":Set:advertisements-not-written", pos, !bad.IsValid(), "", "Set stores through an advertisement it was handed: the same object is held by the sessions of the other peers (and by the controller), which now send / compare the changed value")
	}
}

// emptyListValue: the definition gives the list variable an empty value - a declaration without a value, nil, an empty
// literal, make with length 0, or the variable itself cut to length 0.
func emptyListValue(f *chk.Fn, v chk.ReachingValue, obj types.Object) bool {
	if v.Rhs == nil {
		// `var w []T`
		if vs, ok := v.Def.Node.(*ast.ValueSpec); ok && len(vs.Values) == 0 {
			for _, nm := range vs.Names {
				if f.Info().Defs[nm] == obj {
					return true
				}
			}
		}
		if ds, ok := v.Def.Node.(*ast.DeclStmt); ok {
			if gd, ok := ds.Decl.(*ast.GenDecl); ok {
				for _, sp := range gd.Specs {
					if vs, ok := sp.(*ast.ValueSpec); ok && len(vs.Values) == 0 {
						for _, nm := range vs.Names {
							if f.Info().Defs[nm] == obj {
								return true
							}
						}
					}
				}
			}
		}
		return false
	}
	switch e := ast.Unparen(v.Rhs).(type) {
	case *ast.Ident:
		return f.IsNilLit(e)
	case *ast.CompositeLit:
		return len(e.Elts) == 0
	case *ast.CallExpr:
		if id, ok := e.Fun.(*ast.Ident); ok && id.Name == "make" && len(e.Args) >= 2 {
			c := f.ConstVal(e.Args[1])
			return c != nil && c.String() == "0"
		}
	case *ast.SliceExpr:
		if id, ok := ast.Unparen(e.X).(*ast.Ident); ok && f.ObjOf(id) == obj && e.Low == nil && e.High != nil {
			c := f.ConstVal(e.High)
			return c != nil && c.String() == "0"
		}
	}
	return false
}
