package rules

import (
	"go/ast"
	"go/token"
	"go/types"

	"verif/mlbcheck/chk"
)

const cfgPkg = "internal/config"

func init() {
	register(&Prop{
		ID: "C08",
		Explanation: "Decided (on all paths of the accept path): ParseCIDR never returns an empty list without an error (NONEMPTY-PARSE); a pool's address groups are " +
			"written only by addressPoolFromCR, from a successful ParseCIDR of every written entry, and the pool's CIDR list receives the same networks " +
			"(PARSE-PRODUCER); in poolsFor a CIDR enters the global list only after it was compared (containment in both directions) with every CIDR accepted so far and with the node " +
			"IPs of its own family, every CIDR of every pool is examined, and a pool is stored only behind the duplicate-name test (VALIDATED-ACCUMULATOR); an " +
			"advertisement is attached to a pool only behind validateBGPAdvPerPool (BGP) / the duplicate filter (L2), to all pools exactly when it names and selects " +
			"none, otherwise to the named and selected pools (ATTACH); validateBGPAdvPerPool accepts only after the aggregation-length test on every address group and " +
			"the local-preference compatibility test against every advertisement already attached; advertisementsAreCompatible says `compatible` only for different " +
			"aggregation lengths, disjoint non-empty peer lists, or no common node (ADV-VALID); node selection is true only for an empty selector list or a matching " +
			"selector (SELECT); config.For returns a configuration only behind validate, poolsFor and validateConfig (FOR-ORDER); the family of a network is that " +
			"of its address, IPv6 exactly when it has no 4-byte form (FAMILY-OF).",
		NotDecided: "Exactness of ipaddr.Summarize (third-party arithmetic), label-selector semantics, that cidrContainsCIDR is a correct containment test as values.",
		Run:        runC08,
		Mutants: []Mutant{
			{Name: "network-assembled-from-the-written-address", File: "internal/config/config.go",
				Old: "\t\treturn []*net.IPNet{n}, nil", New: "\t\treturn []*net.IPNet{{IP: net.ParseIP(strings.Split(cidr, \"/\")[0]), Mask: n.Mask}}, nil", Expect: "CIDR-CANONICAL"},
			{Name: "last-node-selector-wins", File: "internal/config/config.go",
				Old: "\t\tfor _, s := range labelSelectors {\n\t\t\tnodeLabels := labels.Set(node.Labels)\n\t\t\tif s.Matches(nodeLabels) {\n\t\t\t\tres[node.Name] = true\n\t\t\t\tcontinue OUTER\n\t\t\t}\n\t\t}\n\t}\n\treturn res, nil",
				New: "\t\tselected := false\n\t\tfor _, s := range labelSelectors {\n\t\t\tnodeLabels := labels.Set(node.Labels)\n\t\t\tselected = s.Matches(nodeLabels)\n\t\t}\n\t\tif selected {\n\t\t\tres[node.Name] = true\n\t\t\tcontinue OUTER\n\t\t}\n\t}\n\treturn res, nil", Expect: "every-matching-node"},
			{Name: "family-of-cidr-by-mask-length", File: "internal/ipfamily/ipfamily.go",
				Old: "\tif cidr.IP.To4() == nil {",
				New: "\tif len(cidr.Mask) == net.IPv6len {", Expect: "FAMILY-OF"},
			{Name: "aggregation-length-carried-across-groups", File: "internal/config/config.go",
				Old: "\tfor addr, cidrs := range pool.cidrsPerAddresses {\n\t\tif len(cidrs) == 0 {\n\t\t\tcontinue\n\t\t}\n\t\tmaxLength := adv.AggregationLength", New: "\tmaxLength := adv.AggregationLength\n\tfor addr, cidrs := range pool.cidrsPerAddresses {\n\t\tif len(cidrs) == 0 {\n\t\t\tcontinue\n\t\t}", Expect: "ADV-VALID"},
			{Name: "aggregation-length-one-family-enough", File: "internal/config/config.go",
				Old: "\tif adv.AggregationLength != newAdv.AggregationLength && !hasV6 {", New: "\tif adv.AggregationLength != newAdv.AggregationLength {", Expect: "AGGR-DIFF"},
			{Name: "unlabeled-pools-never-selected", File: "internal/config/config.go",
				Old: "OUTER:\n\tfor _, pool := range pools {\n", New: "OUTER:\n\tfor _, pool := range pools {\n\t\tif len(pool.Labels) == 0 {\n\t\t\tcontinue\n\t\t}\n", Expect: "every-matching-pool"},
			{Name: "duplicate-advertisement-ignores-nodes", File: "internal/config/config.go",
				Old: "\t\tif !reflect.DeepEqual(adv.Nodes, toCheck.Nodes) {\n\t\t\tcontinue\n\t\t}\n", New: "", Expect: "ADV-DEDUP"},
			{Name: "containment-direction-flipped", File: "internal/config/config.go",
				Old: "\tif ol < il && outer.Contains(inner.IP) {", New: "\tif ol > il && outer.Contains(inner.IP) {", Expect: "CIDR-CONTAINS"},
			{Name: "append-before-overlap-loop", File: "internal/config/config.go",
				Old: "\t\t\tfor _, m := range allCIDRs {\n\t\t\t\tif cidrsOverlap(cidr, m) {", New: "\t\t\tfor _, m := range allCIDRs[:len(allCIDRs)/2] {\n\t\t\t\tif cidrsOverlap(cidr, m) {", Expect: "VALIDATED-ACCUMULATOR"},
			{Name: "skip-adv-validation-at-named-site", File: "internal/config/config.go",
				Old: "\t\t\tif pool, ok := ipPoolMap[poolName]; ok {\n\t\t\t\terr := validateBGPAdvPerPool(adv, pool)\n\t\t\t\tif err != nil {\n\t\t\t\t\treturn err\n\t\t\t\t}\n", New: "\t\t\tif pool, ok := ipPoolMap[poolName]; ok {\n", Expect: "ATTACH"},
			{Name: "parse-accepts-empty", File: "internal/config/config.go",
				Old: "\tif len(ret) == 0 {\n\t\treturn nil, fmt.Errorf(\"invalid IP range %q: start and end IPs must belong to the same IP family\", cidr)\n\t}\n", New: "", Expect: "NONEMPTY-PARSE"},
			{Name: "node-ip-family-hoisted", File: "internal/config/config.go",
				Old: "nodeIps := k8snodes.NodeIPsForFamily(resources.Nodes, ipfamily.ForCIDR(cidr))", New: "nodeIps := k8snodes.NodeIPsForFamily(resources.Nodes, ipfamily.ForCIDR(pool.CIDR[0]))", Expect: "VALIDATED-ACCUMULATOR"},
			{Name: "peers-compatible-when-one-side-empty", File: "internal/config/config.go",
				Old: "\tif len(newAdv.Peers) != 0 && len(adv.Peers) != 0 {", New: "\tif len(newAdv.Peers) != 0 || len(adv.Peers) != 0 {", Expect: "ADV-VALID"},
			{Name: "localpref-check-only-first-adv", File: "internal/config/config.go",
				Old: "\tfor _, bgpAdv := range pool.BGPAdvertisements {\n\t\tif adv.LocalPref != bgpAdv.LocalPref {", New: "\tfor i, bgpAdv := range pool.BGPAdvertisements {\n\t\tif i > 0 {\n\t\t\tbreak\n\t\t}\n\t\tif adv.LocalPref != bgpAdv.LocalPref {", Expect: "ADV-VALID"},
			{Name: "all-pools-branch-when-only-names-empty", File: "internal/config/config.go",
				Old: "\t\tif len(bgpAdv.Spec.IPAddressPools) == 0 && len(bgpAdv.Spec.IPAddressPoolSelectors) == 0 {", New: "\t\tif len(bgpAdv.Spec.IPAddressPools) == 0 {", Expect: "ATTACH"},
			{Name: "validateconfig-skipped", File: "internal/config/config.go",
				Old: "\terr = validateConfig(cfg)\n\tif err != nil {\n\t\treturn nil, err\n\t}\n\treturn cfg, nil", New: "\t_ = validateConfig\n\treturn cfg, nil", Expect: "FOR-ORDER"},
			{Name: "duplicate-pool-overwrites", File: "internal/config/config.go",
				Old: "\t\tif pools[p.Name] != nil {\n\t\t\treturn nil, fmt.Errorf(\"duplicate definition of pool %q\", p.Name)\n\t\t}\n", New: "", Expect: "VALIDATED-ACCUMULATOR"},
			{Name: "aggregation-checked-against-most-specific", File: "internal/config/config.go",
				Old: "\t\tif maxLength < lowest {", New: "\t\tif maxLength < lowest && len(cidrs) == 1 {", Expect: "ADV-VALID"},
			{Name: "node-selector-empty-matches-nothing", File: "internal/config/config.go",
				Old: "\t\t\tif s.Matches(nodeLabels) {\n\t\t\t\tres[node.Name] = true\n\t\t\t\tcontinue OUTER", New: "\t\t\tif s.Matches(nodeLabels) || s.Empty() {\n\t\t\t\tres[node.Name] = true\n\t\t\t\tcontinue OUTER", Expect: "SELECT"},
			{Name: "cidr-list-loses-range-tail", File: "internal/config/config.go",
				Old: "\t\tret.CIDR = append(ret.CIDR, nets...)", New: "\t\tret.CIDR = append(ret.CIDR, nets[0])", Expect: "PARSE-PRODUCER"},
		},
	})
}

func runC08(p *chk.Prog, r *chk.Report) {
	// the node sets follow the nodes' labels (CONFIG-NODE-EVENTS, shared with C10)
	configNodeEventsRule(p, r)
	c08AggrDiff(p, r)
	c08Dedup(p, r)
	cidrContainmentRule(p, r)
	c08Parse(p, r)
	c08Canonical(p, r)
	c08Accumulator(p, r)
	c08Attach(p, r)
	c08AdvValid(p, r)
	c08Select(p, r)
	c08OwnNodes(p, r)
	c08For(p, r)
	familyOfRule(p, r)
}

func c08Parse(p *chk.Prog, r *chk.Report) {
	x := r.Rule("NONEMPTY-PARSE", "B path", "every `return X, nil` of config.ParseCIDR has X provably non-empty: a literal with at least one element, or a variable whose emptiness (len(X) == 0) leads to an error return", 2)
	f := need(x, p, cfgPkg, "", "ParseCIDR")
	if f != nil {
		g := f.Graph()
		n := 0
		for _, rt := range g.Returns() {
			res := retResults(rt)
			if len(res) != 2 || !f.IsNilLit(res[1]) {
				continue
			}
			n++
			ok := false
			tag := types.ExprString(res[0])
			if cl, isLit := ast.Unparen(res[0]).(*ast.CompositeLit); isLit {
				ok = len(cl.Elts) >= 1
				tag = "literal"
			} else {
				v := res[0]
				nonEmpty := func(of ast.Expr) bool {
					return g.Dominated(rt, chk.GAnyOf(
						g.GPat(false, "len(X) == 0", chk.H("X", func(e ast.Expr) bool { return f.SameExpr(e, of) })),
						g.GPat(true, "len(X) > 0", chk.H("X", func(e ast.Expr) bool { return f.SameExpr(e, of) }))))
				}
				ok = nonEmpty(v)
				if !ok {
					// make(T, len(P)) for a P that is known to be non-empty has as many elements
					if b := f.MatchNew("make(_, len(P))", f.Resolve(v)); b != nil {
						ok = nonEmpty(b["P"])
					}
				}
			}
			x.Check("ParseCIDR:return("+tag+"):non-empty", rt.Pos(), ok, "", "ParseCIDR can accept an entry that yields no network (the pool would be accepted with fewer addresses than written; later code indexes element 0)")
		}
		x.Check("ParseCIDR:success-returns", f.Pos(), n >= 2, "", "expected the CIDR and the range success return")
		// mixed ranges: start after end rejected
		okOrder := false
		for _, e := range g.EdgesImplying(g.GPat(true, "bytes.Compare(S, E) > 0")) {
			okOrder = !g.BranchAlways(e, func(nd ast.Node) bool {
				rs, ok := nd.(*ast.ReturnStmt)
				return ok && len(rs.Results) == 2 && !f.IsNilLit(rs.Results[1])
			}).Found
			if !okOrder {
				// the refusal handed over through the error variable of an expanded helper: no success return can be
				// reached from the edge with the values set on the way
				okOrder = !g.FeasiblyReaches(e, func(nd ast.Node) bool {
					rs, ok := nd.(*ast.ReturnStmt)
					return ok && len(rs.Results) == 2 && f.IsNilLit(rs.Results[1])
				})
			}
		}
		x.Check("ParseCIDR:start-after-end-rejected", f.Pos(), okOrder, "", "a range whose start lies after its end is not rejected")
	}
	y := r.Rule("PARSE-PRODUCER", "D ownership + B path", "Pool.cidrsPerAddresses is written only in addressPoolFromCR; for every entry of p.Spec.Addresses (no skip) the group stored and the networks appended to ret.CIDR are the result of ParseCIDR(entry) behind err == nil; a pool without entries is rejected", 5)
	ownRule(y, p, cfgPkg, "Pool", "cidrsPerAddresses", cfgPkg+".addressPoolFromCR")
	af := need(y, p, cfgPkg, "", "addressPoolFromCR")
	if af != nil {
		g := af.Graph()
		cr := isParamIdx(af, 0)
		loops := af.RangeLoops(func(e ast.Expr) bool { return af.MatchWith("P.Spec.Addresses", e, chk.H("P", cr)) != nil })
		if len(loops) != 1 {
			y.Fail("addressPoolFromCR:address-loop", af.Pos(), "no loop over p.Spec.Addresses")
			return
		}
		rs := loops[0]
		entry := rangeVal(af, rs)
		nets := definedBy(g, "ParseCIDR(E)", chk.H("E", entry))
		okParse := g.GErrNil(true, "ParseCIDR(E)", chk.H("E", entry))
		poolT := p.LookupType(cfgPkg, "Pool")
		groups, list := litFieldPlace(af, poolT, "cidrsPerAddresses"), litFieldPlace(af, poolT, "CIDR")
		store := g.Find(af.IsAssignPat("M[E]", "N", chk.H("M", groups), chk.H("E", entry), chk.H("N", nets)))
		app := g.Find(func(n ast.Node) bool {
			as, ok := n.(*ast.AssignStmt)
			if !ok || len(as.Rhs) != 1 || len(as.Lhs) != 1 {
				return false
			}
			b := af.MatchWith("append(L, N...)", as.Rhs[0], chk.H("L", list), chk.H("N", nets))
			return b != nil && list(as.Lhs[0]) && af.SameExpr(as.Lhs[0], b["L"])
		})
		y.Check("addressPoolFromCR:group-is-parse-result", rs.Pos(), len(store) == 1 && g.Dominated(store[0], okParse), "", "an address group is stored that is not the successful ParseCIDR of the entry written by the user")
		y.Check("addressPoolFromCR:cidr-list-gets-all-networks", rs.Pos(), len(app) == 1 && g.Dominated(app[0], okParse), "", "the pool's CIDR list does not receive every network of the parsed entry (addresses lost or added)")
		if len(store) == 1 && len(app) == 1 {
			skip := loopSkipsWithout(g, rs, func(n ast.Node) bool { return n == store[0].Top }, chk.NoGuard) || loopSkipsWithout(g, rs, func(n ast.Node) bool { return n == app[0].Top }, chk.NoGuard)
			y.Check("addressPoolFromCR:every-entry", rs.Pos(), !skip && !loopHasBreak(g, rs), "", "an entry of spec.addresses can be skipped")
		}
		okEmpty := false
		for _, e := range g.EdgesImplying(g.GPat(true, "len(P.Spec.Addresses) == 0", chk.H("P", cr))) {
			okEmpty = !g.BranchAlways(e, func(nd ast.Node) bool {
				rt, ok := nd.(*ast.ReturnStmt)
				return ok && len(rt.Results) == 2 && !af.IsNilLit(rt.Results[1])
			}).Found
		}
		y.Check("addressPoolFromCR:empty-pool-rejected", af.Pos(), okEmpty, "", "a pool without addresses is accepted")
	}
}

func c08Accumulator(p *chk.Prog, r *chk.Report) {
	x := r.Rule("VALIDATED-ACCUMULATOR", "B path (for-all loops)", "in config.poolsFor, for every pool of resources.Pools and every cidr of pool.CIDR (no skip, no break): allCIDRs = append(allCIDRs, cidr) is reached only after a loop over all of allCIDRs in which the overlap test (neither CIDR contains the other)(cidr, m) was false for every m, and a loop over k8snodes.NodeIPsForFamily(resources.Nodes, ipfamily.ForCIDR(cidr)) in which cidr.Contains(nodeIP) was false; pools[p.Name] = pool is dominated by pools[p.Name] == nil and follows the CIDR loop; the overlap test (neither CIDR contains the other) tests containment both ways", 7)
	f := need(x, p, cfgPkg, "", "poolsFor")
	if f == nil {
		return
	}
	g := f.Graph()
	res := isParamIdx(f, 0)
	var poolLoop *ast.RangeStmt
	for _, rs := range f.RangeLoops(func(e ast.Expr) bool { return f.MatchWith("R.Pools", e, chk.H("R", res)) != nil }) {
		poolLoop = rs
	}
	if poolLoop == nil {
		x.Fail("poolsFor:pool-loop", f.Pos(), "no loop over resources.Pools")
		return
	}
	cr := rangeVal(f, poolLoop)
	pool := definedBy(g, "addressPoolFromCR(P, R.Namespaces)", chk.H("P", cr), chk.H("R", res))
	var cidrLoop *ast.RangeStmt
	for _, rs := range f.RangeLoops(func(e ast.Expr) bool { return f.MatchWith("P.CIDR", e, chk.H("P", pool)) != nil }) {
		if chk.InBody(poolLoop, rs) {
			cidrLoop = rs
		}
	}
	if cidrLoop == nil {
		x.Fail("poolsFor:cidr-loop", poolLoop.Pos(), "no loop over the CIDRs of the pool just parsed")
		return
	}
	cidr := rangeVal(f, cidrLoop)
	apps := g.Find(func(n ast.Node) bool {
		return chk.InBody(cidrLoop, n) && f.IsAssignPat("ALL", "append(ALL, C)", chk.H("C", cidr))(n)
	})
	if len(apps) != 1 {
		x.Fail("poolsFor:accumulator-append", cidrLoop.Pos(), "expected one allCIDRs = append(allCIDRs, cidr)")
		return
	}
	app := apps[0]
	all := f.ObjOf(app.Node.(*ast.AssignStmt).Lhs[0])
	// overlap loop
	okOverlap, why := false, "no loop over the accepted CIDRs"
	for _, rs := range f.RangeLoops(f.IsObj(all)) {
		if !chk.InBody(cidrLoop, rs) {
			continue
		}
		m := rangeVal(f, rs)
		// "do not overlap": neither contains the other (the one-line helper that names the test is expanded by the
		// normalisation, so the call and the spelt-out form are both this)
		guard := chk.GAnd(g.GPat(false, "cidrContainsCIDR(C, M)", chk.H("C", cidr), chk.H("M", m)), g.GPat(false, "cidrContainsCIDR(M, C)", chk.H("C", cidr), chk.H("M", m)))
		if w := forallBefore(f, g, rs, guard, app); w == "" {
			okOverlap = true
		} else {
			why = w
		}
	}
	x.Check("poolsFor:append:disjoint-from-all-accepted", app.Pos(), okOverlap, "", "a CIDR can be accepted without being compared with every CIDR accepted so far ("+why+")")
	// node ip loop
	okNode, why2 := false, "no loop over the node IPs of the CIDR's family"
	nodeIPs := definedBy(g, "k8snodes.NodeIPsForFamily(R.Nodes, ipfamily.ForCIDR(C))", chk.H("R", res), chk.H("C", cidr))
	for _, rs := range f.RangeLoops(nodeIPs) {
		if !chk.InBody(cidrLoop, rs) {
			continue
		}
		guard := g.GPat(false, "C.Contains(IP)", chk.H("C", cidr), chk.H("IP", rangeVal(f, rs)))
		if w := forallBefore(f, g, rs, guard, app); w == "" {
			okNode = true
		} else {
			why2 = w
		}
	}
	x.Check("poolsFor:append:contains-no-node-ip", app.Pos(), okNode, "", "a CIDR can be accepted although it contains a node's internal IP of its family ("+why2+")")
	accepted := chk.GEvent(func(n ast.Node) bool { return n == app.Top })
	// pool store
	stores := g.Find(f.IsAssignPat("M[P.Name]", "POOL", chk.H("P", cr), chk.H("POOL", pool)))
	x.Check("poolsFor:pool-store", poolLoop.Pos(), len(stores) == 1, "", "expected one pools[p.Name] = pool")
	for _, s := range stores {
		m := s.Node.(*ast.AssignStmt).Lhs[0].(*ast.IndexExpr).X
		x.Check("poolsFor:store:no-duplicate-name", s.Pos(), g.Dominated(s, keyAbsent(f, g, func(e ast.Expr) bool { return f.SameExpr(e, m) }, func(e ast.Expr) bool { return f.MatchWith("P.Name", e, chk.H("P", cr)) != nil })), "", "a second pool with the same name silently replaces the first")
		why := forallBefore(f, g, cidrLoop, accepted, s)
		x.Check("poolsFor:store:after-cidr-checks", s.Pos(), why == "", "", "a pool is stored although one of its CIDRs was not checked and accepted (skipped, or the loop left early): "+why)
	}
	x.Check("poolsFor:every-pool", poolLoop.Pos(), !loopHasBreak(g, poolLoop) && len(stores) == 1 && !loopSkipsWithout(g, poolLoop, func(n ast.Node) bool { return n == stores[0].Top }, chk.NoGuard), "", "a pool can be skipped")
	nf := need(x, p, "internal/k8s/nodes", "", "NodeIPsForFamily")
	if nf != nil {
		ng := nf.Graph()
		ok := false
		for _, s := range ng.Find(nf.IsAssignPat("R", "append(R, IP)")) {
			ip := s.Node.(*ast.AssignStmt).Rhs[0].(*ast.CallExpr).Args[1]
			same := func(e ast.Expr) bool { return nf.SameExpr(e, ip) }
			// the only skips: not an InternalIP, or family mismatch for a non-dual-stack request
			rs1, _ := nf.LoopOf(s.Node).(*ast.RangeStmt)
			if rs1 == nil {
				continue
			}
			skip := loopSkipsWithout(ng, rs1, func(n ast.Node) bool { return n == s.Top }, chk.GAnyOf(
				ng.GPat(false, "A.Type == T", chk.H("T", constStr(nf, "InternalIP"))),
				ng.GPat(true, "F != D && ipfamily.ForAddress(IP) != F", chk.H("F", isParamIdx(nf, 1)), chk.H("IP", same), chk.H("D", isObjNamed(nf, "internal/ipfamily.DualStack")))))
			ok = !skip && ng.Dominated(s, ng.GPat(true, "A.Type == T", chk.H("T", constStr(nf, "InternalIP"))))
			// every address of every node is looked at: neither loop is left early
			ok = ok && !loopHasBreak(ng, rs1)
			if outer, isR := nf.LoopOf(rs1).(*ast.RangeStmt); isR {
				ok = ok && !loopHasBreak(ng, outer) && !loopSkipsWithout(ng, outer, func(n ast.Node) bool { return n == ast.Node(rs1.X) }, chk.NoGuard)
			} else {
				ok = false
			}
		}
		if !ok {
			ok = c08NodeIPsTwoPhase(nf, ng)
		}
		x.Check("NodeIPsForFamily:all-internal-ips-of-family", nf.Pos(), ok, "", "NodeIPsForFamily can omit an internal IP of the requested family")
	}
}

func c08Attach(p *chk.Prog, r *chk.Report) {
	x := r.Rule("ATTACH", "B path", "in setBGPAdvertisementsToPools / setL2AdvertisementsToPools: every append to pool.BGPAdvertisements is dominated by validateBGPAdvPerPool(adv, pool) == nil for that pool and advertisement (L2: by !containsAdvertisement); the all-pools branch is taken exactly under len(spec.IPAddressPools) == 0 && len(spec.IPAddressPoolSelectors) == 0 and visits every pool of the map; otherwise the pools visited are append(spec.IPAddressPools, selectedPools(ipPools, spec.IPAddressPoolSelectors)...); the advertisement attached is the one parsed from the resource being processed", 10)
	for _, c := range []struct {
		fn, field, fromCR string
		bgp               bool
	}{
		{"setBGPAdvertisementsToPools", "BGPAdvertisements", "bgpAdvertisementFromCR", true},
		{"setL2AdvertisementsToPools", "L2Advertisements", "l2AdvertisementFromCR", false},
	} {
		f := need(x, p, cfgPkg, "", c.fn)
		if f == nil {
			continue
		}
		g := f.Graph()
		// the arguments are recognised by what they are (rooted at a parameter, of the right type), not by position or
		// name: the resources may arrive one by one or grouped in the ClusterResources value
		fromParam := func(e ast.Expr) bool {
			o := f.RootObj(e)
			if o == nil || f.Type.Params == nil {
				return false
			}
			switch ast.Unparen(e).(type) {
			case *ast.Ident, *ast.SelectorExpr:
			default:
				return false
			}
			for _, fld := range f.Type.Params.List {
				for _, nm := range fld.Names {
					if f.Info().Defs[nm] == o {
						return true
					}
				}
			}
			return false
		}
		typeIs := func(e ast.Expr, want string) bool {
			t := f.Info().TypeOf(e)
			return t != nil && types.TypeString(t, func(p *types.Package) string { return p.Name() }) == want
		}
		poolMap := func(e ast.Expr) bool { return fromParam(e) && typeIs(e, "map[string]*config.Pool") }
		crList := func(e ast.Expr) bool {
			return fromParam(e) && (typeIs(e, "[]v1beta1.BGPAdvertisement") || typeIs(e, "[]v1beta1.L2Advertisement"))
		}
		poolCRs := func(e ast.Expr) bool { return fromParam(e) && typeIs(e, "[]v1beta1.IPAddressPool") }
		var advLoop *ast.RangeStmt
		for _, rs := range f.RangeLoops(crList) {
			advLoop = rs
		}
		if advLoop == nil {
			x.Fail(c.fn+":adv-loop", f.Pos(), "no loop over the advertisements")
			continue
		}
		cr := rangeVal(f, advLoop)
		adv := definedBy(g, c.fromCR+"(CR, ETC)", chk.H("CR", cr))
		allBranch := g.GPat(true, "len(CR.Spec.IPAddressPools) == 0 && len(CR.Spec.IPAddressPoolSelectors) == 0", chk.H("CR", cr))
		apps := g.Find(func(n ast.Node) bool {
			as, ok := n.(*ast.AssignStmt)
			return ok && len(as.Lhs) == 1 && len(as.Rhs) == 1 && f.MatchWith("append(P."+c.field+", A)", as.Rhs[0], chk.H("A", adv)) != nil &&
				f.MatchNew("P."+c.field, as.Lhs[0]) != nil
		})
		x.Check(c.fn+":attach-sites", f.Pos(), len(apps) == 2, "", "expected the all-pools and the named/selected attach site, each attaching the advertisement parsed from the resource being processed")
		nAll, nNamed := 0, 0
		for _, a := range apps {
			pl := a.Node.(*ast.AssignStmt).Lhs[0].(*ast.SelectorExpr).X
			same := func(e ast.Expr) bool { return f.SameExpr(e, pl) }
			kind := "named"
			inAll := g.Dominated(a, allBranch)
			if inAll {
				kind = "all"
				nAll++
			} else {
				nNamed++
			}
			if c.bgp {
				x.Check(c.fn+":attach("+kind+"):validated", a.Pos(), g.Dominated(a, g.GErrNil(true, "validateBGPAdvPerPool(A, P)", chk.H("A", adv), chk.H("P", same))), "", "a BGP advertisement is attached to a pool without validateBGPAdvPerPool succeeding for that pool")
			} else {
				x.Check(c.fn+":attach("+kind+"):not-duplicate", a.Pos(), g.Dominated(a, g.GPat(false, "containsAdvertisement(P."+c.field+", A)", chk.H("A", adv), chk.H("P", same))), "", "an equivalent L2 advertisement can be attached twice")
			}
			rs, _ := f.LoopOf(a.Node).(*ast.RangeStmt)
			if rs == nil {
				x.Fail(c.fn+":attach("+kind+"):loop", a.Pos(), "attach site outside a loop over pools")
				continue
			}
			if inAll {
				ok := poolMap(rs.X) && rangeVal(f, rs)(pl) && !loopHasBreak(g, rs)
				var except chk.Guard
				if !c.bgp {
					except = g.GPat(true, "containsAdvertisement(P."+c.field+", A)", chk.H("A", adv), chk.H("P", same))
				}
				ok = ok && !loopSkipsWithout(g, rs, func(n ast.Node) bool { return n == a.Top }, except)
				x.Check(c.fn+":attach(all):every-pool", rs.Pos(), ok, "", "an advertisement that names no pool is not attached to every pool")
			} else {
				sel := definedBy(g, "selectedPools(POOLS, CR.Spec.IPAddressPoolSelectors)", chk.H("POOLS", poolCRs), chk.H("CR", cr))
				ok := f.MatchWith("append(CR.Spec.IPAddressPools, SEL...)", rs.X, chk.H("CR", cr), chk.H("SEL", sel)) != nil ||
					f.MatchWith("slices.Concat(CR.Spec.IPAddressPools, SEL)", throughLocals(g, rs.X), chk.H("CR", cr), chk.H("SEL", sel)) != nil
				name := rangeVal(f, rs)
				ok = ok && definedBy(g, "M[N]", chk.H("M", poolMap), chk.H("N", name))(pl) && !loopHasBreak(g, rs)
				x.Check(c.fn+":attach(named):named-and-selected-pools", rs.Pos(), ok, "", "the pools an advertisement is attached to are not exactly the named pools plus those selected by its pool selectors")
				// every named / selected pool that exists gets the advertisement: a name is passed over only when no pool
				// carries it (L2: or when an equivalent advertisement is attached already)
				missing := chk.GOr(chk.GBool(false, definedByIdx(g, f, "M[N]", 1, chk.H("M", poolMap), chk.H("N", name))), g.GExprNil(true, same))
				if !c.bgp {
					missing = chk.GOr(missing, g.GPat(true, "containsAdvertisement(P."+c.field+", A)", chk.H("A", adv), chk.H("P", same)))
				}
				x.Check(c.fn+":attach(named):every-existing-pool", rs.Pos(), !loopSkipsWithout(g, rs, func(n ast.Node) bool { return n == a.Top }, missing), "", "a pool the advertisement names or selects can be passed over although it exists (a de-duplication or other shortcut in front of the attach): the advertisement - with its own nodes, peers and communities - is silently not in force for that pool")
			}
		}
		x.Check(c.fn+":both-branches", f.Pos(), nAll == 1 && nNamed == 1, "", "the all-pools branch is not taken exactly when the advertisement names no pool and has no pool selector")
		// the all-pools branch does not fall through into the named loop
		for _, e := range g.EdgesImplying(allBranch) {
			w := g.BranchAlways(e, func(n ast.Node) bool { b, ok := n.(*ast.BranchStmt); return ok && b.Tok.String() == "continue" })
			_ = w
		}
		if len(apps) == 2 {
			x.Check(c.fn+":every-advertisement", advLoop.Pos(), !loopHasBreak(g, advLoop), "", "the loop over advertisements can be left early")
		}
	}
}

// c08PredicateNegated: ADV-VALID found the compatibility predicate used with the opposite polarity at its call.
var c08PredicateNegated bool

func c08AdvValid(p *chk.Prog, r *chk.Report) {
	c08PredicateNegated = false
	x := r.Rule("ADV-VALID", "B path (for-all loops)", "validateBGPAdvPerPool returns nil only after (a) a loop over all address groups of the pool in which, for non-empty groups, the aggregation length of the group's family (V6 when cidrs[0] is not IPv4) is not below lowestMask(group), and (b) a loop over all advertisements already attached in which a different local preference requires advertisementsAreCompatible; advertisementsAreCompatible returns true only for different aggregation lengths, for two non-empty peer lists without a common peer, or after no common node was found, and false for a common node", 8)
	minInPlace := false
	f := need(x, p, cfgPkg, "", "validateBGPAdvPerPool")
	if f != nil {
		g := f.Graph()
		adv, pool := isParamIdx(f, 0), isParamIdx(f, 1)
		var nilRets []chk.Site
		for _, rt := range g.Returns() {
			if rr := retResults(rt); len(rr) == 1 && f.IsNilLit(rr[0]) {
				nilRets = append(nilRets, rt)
			}
		}
		x.Check("validateBGPAdvPerPool:accept-return", f.Pos(), len(nilRets) == 1, "", "expected one accepting return")
		okA, whyA := false, "no loop over pool.cidrsPerAddresses"
		for _, rs := range f.RangeLoops(func(e ast.Expr) bool { return f.MatchWith("P.cidrsPerAddresses", e, chk.H("P", pool)) != nil }) {
			grp := rangeVal(f, rs)
			maxLen := func(e ast.Expr) bool {
				id, ok := ast.Unparen(e).(*ast.Ident)
				if !ok {
					return false
				}
				o := f.ObjOf(id)
				defs := assignsTo(f, o)
				if len(defs) == 1 {
					// looked up by the group's family in a two-entry table made here: {IPv4: adv.AggregationLength,
					// IPv6: adv.AggregationLengthV6}[ipfamily.ForCIDR(group[0])], set anew for every group
					as, isAs := defs[0].(*ast.AssignStmt)
					if !isAs || len(as.Rhs) != 1 || !chk.InBody(rs, as) {
						return false
					}
					ix, isIx := ast.Unparen(as.Rhs[0]).(*ast.IndexExpr)
					if !isIx || f.MatchWith("ipfamily.ForCIDR(G[0])", ix.Index, chk.H("G", grp)) == nil {
						return false
					}
					mid, isM := ast.Unparen(ix.X).(*ast.Ident)
					if !isM || len(assignsTo(f, f.ObjOf(mid))) != 1 {
						return false
					}
					cl, isCl := ast.Unparen(f.LocalDef(mid)).(*ast.CompositeLit)
					if !isCl || len(cl.Elts) != 2 {
						return false
					}
					ok4, ok6 := false, false
					for _, el := range cl.Elts {
						kv, isKV := el.(*ast.KeyValueExpr)
						if !isKV {
							return false
						}
						switch {
						case isObjNamed(f, "internal/ipfamily.IPv4")(kv.Key) && f.MatchWith("A.AggregationLength", kv.Value, chk.H("A", adv)) != nil:
							ok4 = true
						case isObjNamed(f, "internal/ipfamily.IPv6")(kv.Key) && f.MatchWith("A.AggregationLengthV6", kv.Value, chk.H("A", adv)) != nil:
							ok6 = true
						}
					}
					return ok4 && ok6
				}
				if len(defs) != 2 {
					return false
				}
				n4, n6 := 0, 0
				for _, d := range defs {
					as := d.(*ast.AssignStmt)
					site := g.Find(func(n ast.Node) bool { return n == ast.Node(as) })
					switch {
					case f.MatchWith("A.AggregationLength", as.Rhs[0], chk.H("A", adv)) != nil && chk.InBody(rs, as):
						// set anew for every group: a value carried over from the previous group (an IPv6 group visited
						// first - the groups are a map) would be compared with an IPv4 group
						n4++
					case f.MatchWith("A.AggregationLengthV6", as.Rhs[0], chk.H("A", adv)) != nil && len(site) == 1 &&
						g.Dominated(site[0], g.GPat(true, "G[0].IP.To4() == nil", chk.H("G", grp))):
						n6++
						for _, e := range g.EdgesImplying(g.GPat(true, "G[0].IP.To4() == nil", chk.H("G", grp))) {
							if g.BranchAlways(e, func(n ast.Node) bool { return n == ast.Node(as) }).Found {
								n6 = -10
							}
						}
					default:
						return false
					}
				}
				return n4 == 1 && n6 == 1
			}
			guard := chk.GAnyOf(
				g.GPat(false, "M < L", chk.H("M", maxLen), chk.H("L", func(e ast.Expr) bool {
					if definedBy(g, "lowestMask(G)", chk.H("G", grp))(e) {
						return true
					}
					if c08MinMaskInPlace(f, g, e, grp) {
						minInPlace = true
						return true
					}
					return false
				})),
				g.GPat(true, "len(G) == 0", chk.H("G", grp)))
			if len(nilRets) == 1 {
				whyA = forallBefore(f, g, rs, guard, nilRets[0])
				okA = whyA == ""
			} else {
				whyA = "expected one accepting return"
			}
		}
		x.Check("validateBGPAdvPerPool:aggregation-length-on-every-group", f.Pos(), okA, "", "an advertisement can be accepted although its aggregation length is shorter than the least specific network of an address group ("+whyA+")")
		okB, whyB := false, "no loop over pool.BGPAdvertisements"
		for _, rs := range f.RangeLoops(func(e ast.Expr) bool { return f.MatchWith("P.BGPAdvertisements", e, chk.H("P", pool)) != nil }) {
			other := rangeVal(f, rs)
			// the predicate may have been turned round (and renamed: the restored name then says the opposite of what it
			// answers): when its *true* edge always leaves with an error it answers "these two collide"
			compatPat := "advertisementsAreCompatible(A, B, P)"
			hs := []chk.HoleCheck{chk.H("A", adv), chk.H("B", other), chk.H("P", pool)}
			for _, e := range g.EdgesImplying(g.GPat(true, compatPat, hs...)) {
				if !g.BranchAlways(e, func(n ast.Node) bool { return isErrReturn(f, n) }).Found {
					c08PredicateNegated = true
				}
			}
			guard := chk.GAnyOf(
				g.GPat(false, "A.LocalPref != B.LocalPref", chk.H("A", adv), chk.H("B", other)),
				g.GPat(!c08PredicateNegated, compatPat, hs...))
			if len(nilRets) == 1 {
				whyB = forallBefore(f, g, rs, guard, nilRets[0])
				okB = whyB == ""
			} else {
				whyB = "expected one accepting return"
			}
		}
		x.Check("validateBGPAdvPerPool:localpref-against-every-attached", f.Pos(), okB, "", "two advertisements with different local preferences can be accepted on one pool without the compatibility test ("+whyB+")")
	}
	lm := p.LookupFunc(cfgPkg, "", "lowestMask")
	if lm == nil && minInPlace {
		x.OK("lowestMask:minimum-over-all", 0, "the minimum is computed in place in validateBGPAdvPerPool (decided there)")
	} else if lm == nil {
		lm = need(x, p, cfgPkg, "", "lowestMask")
	}
	if lm != nil {
		g := lm.Graph()
		ok := false
		list := isParamIdx(lm, 0)
		for _, rs := range lm.RangeLoops(func(e ast.Expr) bool {
			if list(e) {
				return true
			}
			// the elements after the first, when the running minimum starts as the first element's length
			if sl, isSl := ast.Unparen(e).(*ast.SliceExpr); isSl && list(sl.X) && sl.High == nil && sl.Max == nil && sl.Low != nil {
				if c := lm.ConstVal(sl.Low); c != nil && c.ExactString() == "1" {
					return len(g.FindPat("G[0].Mask.Size()", chk.H("G", list))) > 0
				}
			}
			return false
		}) {
			// lowest = s under lowest > s, for every element
			for _, s := range g.Find(lm.IsAssignPat("L", "S")) {
				if chk.InBody(rs, s.Node) {
					as := s.Node.(*ast.AssignStmt)
					lo, sz := as.Lhs[0], as.Rhs[0]
					ok = g.Dominated(s, g.GPat(true, "L > S", chk.H("L", func(e ast.Expr) bool { return lm.SameExpr(e, lo) }), chk.H("S", func(e ast.Expr) bool { return lm.SameExpr(e, sz) }))) &&
						!loopHasBreak(g, rs)
					if _, sliced := ast.Unparen(rs.X).(*ast.SliceExpr); sliced && ok {
						// the first element is the starting value of the very variable that is lowered
						ok = false
						if id, isId := ast.Unparen(lo).(*ast.Ident); isId {
							for _, d := range assignsTo(lm, lm.ObjOf(id)) {
								if as0, isAs := d.(*ast.AssignStmt); isAs && !chk.InBody(rs, as0) && len(as0.Rhs) == 1 && as0.Lhs[0] == ast.Expr(as0.Lhs[0]) &&
									lm.MatchWith("G[0].Mask.Size()", as0.Rhs[0], chk.H("G", list)) != nil {
									if l0, isL := as0.Lhs[0].(*ast.Ident); isL && lm.ObjOf(l0) == lm.ObjOf(id) {
										ok = true
									}
								}
							}
						}
					}
				}
			}
		}
		x.Check("lowestMask:minimum-over-all", lm.Pos(), ok, "", "lowestMask is not the minimum prefix length over all networks of the group")
	}
	ac := need(x, p, cfgPkg, "", "advertisementsAreCompatible")
	if ac != nil {
		g := ac.Graph()
		na, ad := isParamIdx(ac, 0), isParamIdx(ac, 1)
		diffLen := g.GPat(true, "isAggrLengthDifferent(A, B, P)", chk.H("A", na), chk.H("B", ad))
		bothPeers := g.GPat(true, "len(A.Peers) != 0 && len(B.Peers) != 0", chk.H("A", na), chk.H("B", ad))
		var eq types.Object
		for _, s := range g.Find(ac.IsAssignPat("E", "true")) {
			if rs, ok := ac.LoopOf(s.Node).(*ast.RangeStmt); ok && ac.MatchWith("A.Peers", rs.X, chk.H("A", na)) != nil &&
				g.Dominated(s, memberGuard(g, ac, func(e ast.Expr) bool { return ac.MatchWith("B.Peers", e, chk.H("B", ad)) != nil }, rangeVal(ac, rs))) {
				eq = ac.ObjOf(s.Node.(*ast.AssignStmt).Lhs[0])
			}
		}
		nt := 0
		yes := !c08PredicateNegated // the constant that says "compatible"
		for _, rt := range g.Returns() {
			rr := retResults(rt)
			if len(rr) != 1 {
				continue
			}
			switch {
			case ac.IsConstBool(rr[0], yes):
				nt++
				ok := g.Dominated(rt, diffLen)
				if !ok && eq != nil {
					ok = g.Dominated(rt, bothPeers) && g.Dominated(rt, chk.GBool(false, ac.IsObj(eq)))
				}
				if !ok {
					// having a node in common is symmetric: the two node sets held in two locals that start as
					// (A.Nodes, B.Nodes) in either order and are only ever exchanged with each other
					if x1, y1, isPair := nodeSetPair(ac, na, ad); isPair {
						for _, rs := range ac.RangeLoops(func(e ast.Expr) bool { o := ac.ObjOf(e); return o != nil && (o == x1 || o == y1) }) {
							other := y1
							if ac.ObjOf(rs.X) == y1 {
								other = x1
							}
							guard := g.GPat(false, "OK", chk.H("OK", definedBy(g, "M[N]", chk.H("M", ac.IsObj(other)), chk.H("N", rangeKey(ac, rs)))))
							if forallBefore(ac, g, rs, guard, rt) == "" {
								ok = true
							}
						}
					}
				}
				if !ok {
					for _, rs := range ac.RangeLoops(func(e ast.Expr) bool { return ac.MatchWith("A.Nodes", e, chk.H("A", na)) != nil }) {
						guard := g.GPat(false, "OK", chk.H("OK", definedBy(g, "B.Nodes[N]", chk.H("B", ad), chk.H("N", rangeKey(ac, rs)))))
						if forallBefore(ac, g, rs, guard, rt) == "" {
							ok = true
						}
					}
				}
				x.Check("advertisementsAreCompatible:true#"+itoa(nt), rt.Pos(), ok, "", "two advertisements can be declared compatible although they share aggregation lengths, a peer (an empty peer list means every peer) and a node")
			case ac.IsConstBool(rr[0], !yes):
				common := chk.GBool(true, definedBy(g, "B.Nodes[N]", chk.H("B", ad)))
				if x1, y1, isPair := nodeSetPair(ac, na, ad); isPair {
					common = chk.GOr(common, chk.GBool(true, definedBy(g, "M[N]", chk.H("M", func(e ast.Expr) bool { o := ac.ObjOf(e); return o != nil && (o == x1 || o == y1) }))))
				}
				x.Check("advertisementsAreCompatible:false-needs-common-node", rt.Pos(), g.Dominated(rt, common), "", "advertisements are declared incompatible without a common node")
			}
		}
		x.Check("advertisementsAreCompatible:shape", ac.Pos(), nt == 3 && eq != nil, "", "expected the aggregation-length, disjoint-peers and no-common-node arms")
	}
}

func c08Select(p *chk.Prog, r *chk.Report) {
	x := r.Rule("SELECT", "B path", "config.selectedNodes marks a node only behind len(labelSelectors) == 0 or s.Matches(labels of that node) for one of the advertisement's selectors; config.selectedPools appends a pool only behind s.Matches(labels of that pool); every selector of the resource is converted (conversion errors reject)", 4)
	sn := need(x, p, cfgPkg, "", "selectedNodes")
	if sn != nil {
		g := sn.Graph()
		n := 0
		for _, s := range g.Find(sn.IsAssignPat("R[N.Name]", "true")) {
			n++
			node := s.Node.(*ast.AssignStmt).Lhs[0].(*ast.IndexExpr).Index.(*ast.SelectorExpr).X
			same := func(e ast.Expr) bool { return sn.SameExpr(e, node) }
			ok := g.Dominated(s, g.GPat(true, "len(LS) == 0", chk.H("LS", func(e ast.Expr) bool {
				t := sn.Info().TypeOf(e)
				return t != nil && t.String() == "[]k8s.io/apimachinery/pkg/labels.Selector"
			})))
			matches := g.GPat(true, "S.Matches(L)", chk.H("L", definedBy(g, "labels.Set(N.Labels)", chk.H("N", same))))
			if !ok {
				ok = g.Dominated(s, matches)
			}
			if !ok {
				// one site for both reasons: `len(selectors) == 0 || <some selector matches>`
				ok = g.Dominated(s, chk.GOr(g.GPat(true, "len(LS) == 0", chk.H("LS", func(e ast.Expr) bool {
					t := sn.Info().TypeOf(e)
					return t != nil && t.String() == "[]k8s.io/apimachinery/pkg/labels.Selector"
				})), matches))
			}
			x.Check("selectedNodes:mark#"+itoa(n), s.Pos(), ok, "", "a node is selected without an empty selector list or a selector matching its labels")
		}
		x.Check("selectedNodes:marks", sn.Pos(), n >= 1, "", "expected the no-selector and the matching-selector site")
		// the converse: a node that some selector matches is marked, whichever selector it is - the selectors are
		// alternatives. From a matching selector the iteration over the selectors goes on (or ends) only with the node
		// marked, or with a flag set to true that nothing in the loop resets and that marks the node behind the loop
		marks := g.Find(sn.IsAssignPat("R[N.Name]", "true"))
		withInner := 0
		defer func() {
			x.Check("selectedNodes:selector-loop", sn.Pos(), withInner >= 1, "", "no loop over the nodes tries the selectors")
		}()
		for _, outer := range sn.RangeLoops(isParamIdx(sn, 0)) {
			var inner *ast.RangeStmt
			for _, rs := range sn.RangeLoops(chk.Any) {
				if rs != outer && chk.InBody(outer, rs) {
					inner = rs
				}
			}
			if inner == nil {
				// the loop of the no-selector case (every node is valid): entered only with an empty selector list
				noSel := g.GPat(true, "len(LS) == 0", chk.H("LS", func(e ast.Expr) bool {
					t := sn.Info().TypeOf(e)
					return t != nil && t.String() == "[]k8s.io/apimachinery/pkg/labels.Selector"
				}))
				if g.Dominated(g.FactSite(outer.X), noSel) {
					continue
				}
				x.Fail("selectedNodes:every-matching-node", outer.Pos(), "no loop over the selectors inside the loop over the nodes")
				continue
			}
			withInner++
			nodeV := rangeVal(sn, outer)
			noMatch := g.GPat(false, "S.Matches(L)", chk.H("S", rangeVal(sn, inner)), chk.H("L", definedBy(g, "labels.Set(N.Labels)", chk.H("N", nodeV))))
			marked := chk.GEvent(func(nd ast.Node) bool {
				for _, m := range marks {
					if nd == m.Top {
						return true
					}
				}
				return false
			})
			// sticky flags
			flags := map[types.Object]bool{}
			for _, a := range g.Find(sn.IsAssignPat("F", "true")) {
				if !chk.InBody(inner, a.Node) {
					continue
				}
				fo := sn.ObjOf(a.Node.(*ast.AssignStmt).Lhs[0])
				sticky := fo != nil
				for _, other := range assignsTo(sn, fo) {
					as, isAs := other.(*ast.AssignStmt)
					if !isAs || len(as.Rhs) != 1 {
						sticky = false
						continue
					}
					if chk.InBody(inner, as) && !sn.IsConstBool(as.Rhs[0], true) {
						sticky = false
					}
				}
				// the flag marks the node behind the loop
				leads := false
				for _, m := range marks {
					if chk.InBody(outer, m.Node) && !chk.InBody(inner, m.Node) && g.Dominated(m, chk.GBool(true, sn.IsObj(fo))) {
						leads = true
					}
				}
				if sticky && leads {
					flags[fo] = true
				}
			}
			flagged := chk.GEvent(func(nd ast.Node) bool {
				as, isAs := nd.(*ast.AssignStmt)
				return isAs && len(as.Lhs) == 1 && flags[sn.ObjOf(as.Lhs[0])] && len(as.Rhs) == 1 && sn.IsConstBool(as.Rhs[0], true)
			})
			outerHead, _, _ := g.RangeBlocks(outer)
			ok := true
			for _, e := range g.LoopIteration(inner, chk.GOr(noMatch, marked, flagged)) {
				if e.OK || (e.Break && e.EstablishedBefore(outerHead)) {
					continue
				}
				ok = false
			}
			x.Check("selectedNodes:every-matching-node", outer.Pos(), ok, "", "a node whose labels one selector matches can end up not selected (a later selector overrides the match, or a selector is skipped): the advertisement is silently not announced from that node")
		}
	}
	sp := need(x, p, cfgPkg, "", "selectedPools")
	if sp != nil {
		g := sp.Graph()
		n := 0
		for _, s := range g.Find(sp.IsAssignPat("R", "append(R, P.Name)")) {
			n++
			pool := s.Node.(*ast.AssignStmt).Rhs[0].(*ast.CallExpr).Args[1].(*ast.SelectorExpr).X
			same := func(e ast.Expr) bool { return sp.SameExpr(e, pool) }
			x.Check("selectedPools:append", s.Pos(), g.Dominated(s, g.GPat(true, "S.Matches(L)", chk.H("L", definedBy(g, "labels.Set(P.Labels)", chk.H("P", same))))), "", "a pool is selected without a selector matching its labels")
		}
		x.Check("selectedPools:appends", sp.Pos(), n == 1, "", "unexpected shape")
		// the converse: a pool that some selector matches is selected - a pool is passed over only after the selectors
		// were tried on it, and a selector is passed over only when it does not match
		apps := g.Find(sp.IsAssignPat("R", "append(R, P.Name)"))
		for _, outer := range sp.RangeLoops(isParamIdx(sp, 0)) {
			var inner *ast.RangeStmt
			for _, rs := range sp.RangeLoops(chk.Any) {
				if rs != outer && chk.InBody(outer, rs) {
					inner = rs
				}
			}
			if inner == nil || len(apps) != 1 {
				x.Fail("selectedPools:every-matching-pool", outer.Pos(), "no loop over the selectors inside the loop over the pools")
				continue
			}
			app := apps[0]
			tried := chk.GEvent(func(n ast.Node) bool { return n == ast.Node(inner.X) || n == app.Top })
			ok := true
			for _, e := range g.LoopIteration(outer, tried) {
				if !e.OK {
					ok = false
				}
			}
			pool := rangeVal(sp, outer)
			noMatch := g.GPat(false, "S.Matches(L)", chk.H("S", rangeVal(sp, inner)), chk.H("L", definedBy(g, "labels.Set(P.Labels)", chk.H("P", pool))))
			appended := chk.GEvent(func(n ast.Node) bool { return n == app.Top })
			outerHead, _, _ := g.RangeBlocks(outer)
			for _, e := range g.LoopIteration(inner, chk.GOr(noMatch, appended)) {
				if e.OK {
					continue
				}
				// the search form: the selector loop is left at the first match and the pool is appended behind it -
				// every feasible way from that exit to the next pool (or out of the function) passes the append
				if e.Break && e.EstablishedBefore(outerHead) {
					continue
				}
				ok = false
			}
			x.Check("selectedPools:every-matching-pool", outer.Pos(), ok, "", "a pool whose labels a selector matches can be left out (a pool skipped before the selectors are tried, or a selector skipped although it matches): the advertisement is silently not attached to it")
		}
	}
}

func c08For(p *chk.Prog, r *chk.Report) {
	x := r.Rule("FOR-ORDER", "B path", "config.For returns a non-nil configuration only behind validate(resources) == nil, poolsFor(resources) == nil (whose result becomes cfg.Pools) and validateConfig(cfg) == nil; poolsFor returns its pools only behind the two attach functions succeeding", 4)
	f := need(x, p, cfgPkg, "", "For")
	if f != nil {
		g := f.Graph()
		res := func(e ast.Expr) bool {
			// the resources themselves, or their address (helpers that take the large struct by pointer)
			if u, isU := ast.Unparen(e).(*ast.UnaryExpr); isU && u.Op == token.AND {
				e = u.X
			}
			return isParamIdx(f, 0)(e)
		}
		for _, rt := range g.Returns() {
			rr := retResults(rt)
			if len(rr) != 2 || !f.IsNilLit(rr[1]) {
				continue
			}
			cfg := rr[0]
			same := func(e ast.Expr) bool { return f.SameExpr(e, cfg) }
			x.Check("For:accept:validate", rt.Pos(), g.Dominated(rt, g.GErrNil(true, "V(R)", chk.H("V", isParamIdx(f, 1)), chk.H("R", res))), "", "a configuration can be returned without running the mode validation")
			x.Check("For:accept:poolsFor", rt.Pos(), g.Dominated(rt, g.GErrNil(true, "poolsFor(R)", chk.H("R", res))), "", "a configuration can be returned although poolsFor failed")
			x.Check("For:accept:validateConfig", rt.Pos(), g.Dominated(rt, g.GErrNil(true, "validateConfig(C)", chk.H("C", same))), "", "a configuration can be returned without validateConfig")
		}
	}
	pf := need(x, p, cfgPkg, "", "poolsFor")
	if pf != nil {
		g := pf.Graph()
		for _, rt := range g.Returns() {
			rr := retResults(rt)
			if len(rr) != 2 || !pf.IsNilLit(rr[1]) {
				continue
			}
			ok := g.Dominated(rt, g.GErrNil(true, "setBGPAdvertisementsToPools(ETC)")) && g.Dominated(rt, g.GErrNil(true, "setL2AdvertisementsToPools(ETC)"))
			x.Check("poolsFor:accept:advertisements-attached", rt.Pos(), ok, "", "pools are returned although attaching the advertisements failed")
		}
	}
}

// c08Dedup: an L2 advertisement is dropped as a duplicate of one already attached to the pool only if it is equal in
// everything that matters: all-interfaces flag, the node set (equality, not inclusion) and the interface set.
func c08Dedup(p *chk.Prog, r *chk.Report) {
	x := r.Rule("ADV-DEDUP", "B path", "config.containsAdvertisement returns true only for an attached advertisement with the same AllInterfaces, an equal node set (reflect.DeepEqual / maps.Equal of the two Nodes maps) and an equal interface set", 3)
	f := need(x, p, cfgPkg, "", "containsAdvertisement")
	if f == nil {
		return
	}
	g := f.Graph()
	t := isParamIdx(f, 1)
	el := elementOf(f, isParamIdx(f, 0))
	sameFlag := g.GPat(false, "A.AllInterfaces != T.AllInterfaces", chk.H("A", el), chk.H("T", t))
	sameNodes := chk.GOr(
		g.GPat(true, "reflect.DeepEqual(A.Nodes, T.Nodes)", chk.H("A", el), chk.H("T", t)), g.GPat(true, "reflect.DeepEqual(T.Nodes, A.Nodes)", chk.H("A", el), chk.H("T", t)),
		g.GPat(true, "maps.Equal(A.Nodes, T.Nodes)", chk.H("A", el), chk.H("T", t)), g.GPat(true, "maps.Equal(T.Nodes, A.Nodes)", chk.H("A", el), chk.H("T", t)))
	sameIfs := chk.GOr(
		g.GPat(true, "sets.New(A.Interfaces...).Equal(sets.New(T.Interfaces...))", chk.H("A", el), chk.H("T", t)),
		g.GPat(true, "sets.New(T.Interfaces...).Equal(sets.New(A.Interfaces...))", chk.H("A", el), chk.H("T", t)))
	n := 0
	for _, rt := range g.Returns() {
		rr := retResults(rt)
		if len(rr) != 1 || f.IsConstBool(rr[0], false) {
			continue
		}
		n++
		for _, c := range []struct {
			name string
			gd   chk.Guard
		}{{"all-interfaces-flag", sameFlag}, {"node-set-equal", sameNodes}, {"interface-set-equal", sameIfs}} {
			ok := g.Dominated(rt, c.gd)
			if !f.IsConstBool(rr[0], true) {
				ok = g.DominatedAssuming(rt, rr[0], true, c.gd)
			}
			x.Check("containsAdvertisement:true-needs:"+c.name, rt.Pos(), ok, "", "an advertisement can be treated as already attached although its "+c.name+" differs (it is then silently not attached: the pool is announced from fewer nodes / interfaces than selected)")
		}
	}
	x.Check("containsAdvertisement:has-true", f.Pos(), n > 0, "", "containsAdvertisement never reports a duplicate")
}

// c08MinMaskInPlace: e is a local that holds the smallest prefix length of the networks of the group: initialised with
// the length of one of them (an element of the group), and lowered inside a loop over the group (or the group without
// its first element) exactly when an element's length is smaller (`if s < lowest { lowest = s }`, either orientation);
// the loop has no break and ends before the use.
func c08MinMaskInPlace(f *chk.Fn, g *chk.Graph, e ast.Expr, grp func(ast.Expr) bool) bool {
	id, ok := ast.Unparen(e).(*ast.Ident)
	if !ok {
		return false
	}
	l := f.ObjOf(id)
	if _, isVar := l.(*types.Var); !isVar {
		return false
	}
	inGroup := func(x ast.Expr) bool {
		if grp(x) {
			return true
		}
		if sl, isSl := ast.Unparen(f.Resolve(x)).(*ast.SliceExpr); isSl && sl.High == nil && grp(sl.X) {
			return true // G[1:]: the first element is the initial value
		}
		return false
	}
	el := elementOf(f, grp)
	sizeOf := func(x ast.Expr, of func(ast.Expr) bool) bool {
		xid, isId := ast.Unparen(x).(*ast.Ident)
		if !isId {
			return false
		}
		rhs, idx := g.DefOf(xid, g.FactSite(xid))
		return rhs != nil && idx == 0 && f.MatchWith("C.Mask.Size()", rhs, chk.H("C", of)) != nil
	}
	nInit, nLower := 0, 0
	for _, n := range assignsTo(f, l) {
		as, isAs := n.(*ast.AssignStmt)
		if !isAs {
			return false
		}
		rs, _ := f.LoopOf(as).(*ast.RangeStmt)
		if rs != nil && inGroup(rs.X) {
			// lowering inside the loop
			if len(as.Lhs) != 1 || len(as.Rhs) != 1 || !sizeOf(as.Rhs[0], rangeVal(f, rs)) {
				return false
			}
			sites := g.Find(func(m ast.Node) bool { return m == ast.Node(as) })
			sz := as.Rhs[0]
			same := func(x ast.Expr) bool { return f.SameExpr(x, sz) }
			if len(sites) != 1 || loopHasBreak(g, rs) || rs.End() > id.Pos() ||
				!(g.Dominated(sites[0], g.GPat(true, "S < L", chk.H("S", same), chk.H("L", f.IsObj(l)))) &&
					!loopSkipsWithout(g, rs, func(m ast.Node) bool { return m == sites[0].Top }, g.GPat(false, "S < L", chk.H("S", same), chk.H("L", f.IsObj(l))))) {
				return false
			}
			nLower++
			continue
		}
		// initial value: the size of an element of the group
		if len(as.Rhs) != 1 || f.MatchWith("C.Mask.Size()", as.Rhs[0], chk.H("C", el)) == nil || as.Pos() > id.Pos() {
			return false
		}
		nInit++
	}
	return nInit == 1 && nLower == 1
}

// c08AggrDiff: two BGP advertisements never produce the same prefix on a pool exactly when their aggregation lengths
// differ for every address family the pool has.
func c08AggrDiff(p *chk.Prog, r *chk.Report) {
	x := r.Rule("AGGR-DIFF", "B path (truth table)", "config.isAggrLengthDifferent(new, adv, pool) is true exactly when the pool has no addresses, or the aggregation lengths differ for every family present in the pool: (IPv4 lengths differ and no IPv6), (IPv6 lengths differ and no IPv4), or both differ; hasV4 / hasV6 are set from ipfamily.ForCIDR of the first network of each address group", 3)
	f := need(x, p, cfgPkg, "", "isAggrLengthDifferent")
	if f == nil {
		return
	}
	g := f.Graph()
	a, b, pool := isParamIdx(f, 0), isParamIdx(f, 1), isParamIdx(f, 2)
	flag := func(fam string) types.Object {
		var out types.Object
		for _, rs := range f.RangeLoops(func(e ast.Expr) bool { return f.MatchWith("P.cidrsPerAddresses", e, chk.H("P", pool)) != nil }) {
			grp := rangeVal(f, rs)
			isFam := g.GPat(true, "F == V", chk.H("F", definedBy(g, "ipfamily.ForCIDR(G[0])", chk.H("G", grp))), chk.H("V", isObjNamed(f, "internal/ipfamily."+fam)))
			for _, s := range g.Find(f.IsAssignPat("H", "true")) {
				if chk.InBody(rs, s.Node) && g.Dominated(s, isFam) {
					o := f.ObjOf(s.Node.(*ast.AssignStmt).Lhs[0])
					// set whenever a group of that family is met, and only then
					if !loopSkipsWithout(g, rs, func(n ast.Node) bool { return n == s.Top }, chk.GNot(isFam)) && len(assignsTo(f, o)) == 1 {
						out = o
					}
				}
			}
		}
		return out
	}
	h4o, h6o := flag("IPv4"), flag("IPv6")
	x.Check("isAggrLengthDifferent:family-flags", f.Pos(), h4o != nil && h6o != nil && h4o != h6o, "", "the pool's address families are not determined from ipfamily.ForCIDR of each address group (one flag per family, set for every group of that family)")
	if h4o == nil || h6o == nil {
		return
	}
	has := func(o types.Object, v bool) chk.Guard { return chk.GBool(v, f.IsObj(o)) }
	differ := func(field string) chk.Guard {
		// one leaf for the comparison in either order and either polarity
		return chk.GFunc(func(ft chk.Fact) bool {
			for _, pat := range []string{"A." + field + " != B." + field, "B." + field + " != A." + field} {
				if f.MatchWith(pat, ft.E, chk.H("A", a), chk.H("B", b)) != nil {
					return ft.Val
				}
			}
			for _, pat := range []string{"A." + field + " == B." + field, "B." + field + " == A." + field} {
				if f.MatchWith(pat, ft.E, chk.H("A", a), chk.H("B", b)) != nil {
					return !ft.Val
				}
			}
			return false
		})
	}
	d4, d6 := differ("AggregationLength"), differ("AggregationLengthV6")
	spec := chk.GOr(
		chk.GAnd(has(h4o, false), has(h6o, false)),
		chk.GAnd(d4, has(h6o, false)),
		chk.GAnd(d6, has(h4o, false)),
		chk.GAnd(d4, d6))
	why := g.BoolResultIs(spec)
	x.Check("isAggrLengthDifferent:truth-table", f.Pos(), why == "", "", "two advertisements can be judged free of collisions although, for a family the pool has, their aggregation lengths are equal (the same prefix would be announced with two local preferences / community sets): "+why)
	for _, rs := range f.RangeLoops(func(e ast.Expr) bool { return f.MatchWith("P.cidrsPerAddresses", e, chk.H("P", pool)) != nil }) {
		// the only early exit of the scan is "both families seen"
		for _, e := range g.LoopIteration(rs, chk.GAnd(has(h4o, true), has(h6o, true))) {
			if e.Break && !e.OK {
				x.Fail("isAggrLengthDifferent:scan-complete", rs.Pos(), "the scan over the pool's address groups can stop before both families were seen")
			}
		}
	}
}

// c08NodeIPsTwoPhase: NodeIPsForFamily written as "collect every internal IP, then keep those of the family": the first
// list gains net.ParseIP(a.Address) for every InternalIP address of every node (nothing else is skipped, neither loop is
// left early); it is returned as it is only for the dual-stack request; the second list gains every element of the first
// whose family is the requested one, and is what the other returns hand back.
func c08NodeIPsTwoPhase(nf *chk.Fn, ng *chk.Graph) bool {
	apps := ng.Find(nf.IsAssignPat("R", "append(R, IP)"))
	if len(apps) != 2 {
		return false
	}
	var first, second *chk.Site
	for i := range apps {
		rs, _ := nf.LoopOf(apps[i].Node).(*ast.RangeStmt)
		if rs == nil {
			return false
		}
		if _, nested := nf.LoopOf(rs).(*ast.RangeStmt); nested {
			first = &apps[i]
		} else {
			second = &apps[i]
		}
	}
	if first == nil || second == nil {
		return false
	}
	l1 := nf.ObjOf(first.Node.(*ast.AssignStmt).Lhs[0])
	l2 := nf.ObjOf(second.Node.(*ast.AssignStmt).Lhs[0])
	if l1 == nil || l2 == nil || l1 == l2 || len(assignsTo(nf, l1)) != 1 || len(assignsTo(nf, l2)) != 1 {
		return false
	}
	fam := isParamIdx(nf, 1)
	// phase one
	in1, _ := nf.LoopOf(first.Node).(*ast.RangeStmt)
	out1, _ := nf.LoopOf(in1).(*ast.RangeStmt)
	internal := ng.GPat(true, "A.Type == T", chk.H("T", constStr(nf, "InternalIP")))
	notInternal := ng.GPat(false, "A.Type == T", chk.H("T", constStr(nf, "InternalIP")))
	if nf.MatchNew("net.ParseIP(A.Address)", ast.Unparen(nf.Resolve(first.Node.(*ast.AssignStmt).Rhs[0].(*ast.CallExpr).Args[1]))) == nil {
		return false
	}
	if loopSkipsWithout(ng, in1, func(n ast.Node) bool { return n == first.Top }, notInternal) || !ng.Dominated(*first, internal) || loopHasBreak(ng, in1) || loopHasBreak(ng, out1) ||
		loopSkipsWithout(ng, out1, func(n ast.Node) bool { return n == ast.Node(in1.X) }, chk.NoGuard) {
		return false
	}
	// phase two
	rs2, _ := nf.LoopOf(second.Node).(*ast.RangeStmt)
	if !nf.IsObj(l1)(rs2.X) || !ng.AfterLoop(chk.Site{G: ng, B: ng.FactSite(rs2.X).B, I: ng.FactSite(rs2.X).I, Top: ng.FactSite(rs2.X).Top, Node: rs2.X}, out1) {
		return false
	}
	el := rangeVal(nf, rs2)
	if !el(second.Node.(*ast.AssignStmt).Rhs[0].(*ast.CallExpr).Args[1]) {
		return false
	}
	other := chk.GSame(ng.GPat(false, "ipfamily.ForAddress(IP) == F", chk.H("IP", el), chk.H("F", fam)), ng.GPat(true, "ipfamily.ForAddress(IP) != F", chk.H("IP", el), chk.H("F", fam)))
	if loopSkipsWithout(ng, rs2, func(n ast.Node) bool { return n == second.Top }, other) || loopHasBreak(ng, rs2) {
		return false
	}
	// the returns
	dual := ng.GPat(true, "F == D", chk.H("F", fam), chk.H("D", isObjNamed(nf, "internal/ipfamily.DualStack")))
	n := 0
	for _, rt := range ng.Returns() {
		rr := retResults(rt)
		if len(rr) != 1 || chk.InBody(rs2, rt.Node) || chk.InBody(out1, rt.Node) {
			return false
		}
		n++
		switch nf.ObjOf(rr[0]) {
		case l1:
			if !ng.Dominated(rt, dual) || !ng.AfterLoop(rt, out1) {
				return false
			}
		case l2:
			if !ng.AfterLoop(rt, rs2) {
				return false
			}
		default:
			return false
		}
	}
	return n >= 1
}

// nodeSetPair finds two locals of the function that hold A.Nodes and B.Nodes (in either order) and are, apart from that
// first assignment, only ever exchanged with each other (`x, y = y, x`): whichever is which, the two are the two node sets.
func nodeSetPair(f *chk.Fn, a, b func(ast.Expr) bool) (types.Object, types.Object, bool) {
	var x, y types.Object
	ok := true
	nInit := 0
	ast.Inspect(f.Body, func(n ast.Node) bool {
		as, isAs := n.(*ast.AssignStmt)
		if !isAs || len(as.Lhs) != 2 || len(as.Rhs) != 2 {
			return true
		}
		l0, l1 := f.ObjOf(as.Lhs[0]), f.ObjOf(as.Lhs[1])
		if l0 == nil || l1 == nil {
			return true
		}
		isSel := func(e ast.Expr) bool { _, is := ast.Unparen(e).(*ast.SelectorExpr); return is }
		isA := func(e ast.Expr) bool { return isSel(e) && f.MatchWith("A.Nodes", e, chk.H("A", a)) != nil }
		isB := func(e ast.Expr) bool { return isSel(e) && f.MatchWith("B.Nodes", e, chk.H("B", b)) != nil }
		switch {
		case (isA(as.Rhs[0]) && isB(as.Rhs[1])) || (isB(as.Rhs[0]) && isA(as.Rhs[1])):
			x, y = l0, l1
			nInit++
		case x != nil && ((l0 == x && l1 == y) || (l0 == y && l1 == x)):
			r0, r1 := f.ObjOf(as.Rhs[0]), f.ObjOf(as.Rhs[1])
			if !(r0 == l1 && r1 == l0) {
				ok = false
			}
		}
		return true
	})
	if x == nil || nInit != 1 || !ok {
		return nil, nil, false
	}
	// no other assignment to either
	for _, o := range []types.Object{x, y} {
		for _, d := range assignsTo(f, o) {
			if as, isAs := d.(*ast.AssignStmt); !isAs || len(as.Lhs) != 2 {
				return nil, nil, false
			}
		}
	}
	return x, y, true
}

// c08Canonical: the overlap tests of the validation (cidrContainsCIDR / cidrsOverlap) compare networks of equal length
// by their base address, which is sound for networks in canonical form - host bits zero, mask of the address family -
// as net.ParseCIDR (its network result) and ipaddr.Summarize produce them. ParseCIDR hands out only those: it does
// not assemble a network of its own from a written address.
func c08Canonical(p *chk.Prog, r *chk.Report) {
	x := r.Rule("CIDR-CANONICAL", "D ownership / value flow", "config.ParseCIDR (helpers expanded) builds no net.IPNet of its own - no composite literal other than {IP: A.Mask(M), Mask: M} or the copy {IP: X.IP, Mask: X.Mask} of one network, no store to the IP or Mask of a network: what it returns are the networks of net.ParseCIDR and ipaddr.Summarize, whose base addresses the overlap tests compare", 1)
	f := need(x, p, cfgPkg, "", "ParseCIDR")
	if f == nil {
		return
	}
	isIPNet := func(t types.Type) bool {
		if t == nil {
			return false
		}
		if pt, ok := t.Underlying().(*types.Pointer); ok {
			t = pt.Elem()
		}
		return types.TypeString(t, nil) == "net.IPNet"
	}
	ok, at := true, f.Pos()
	chk.InspectNoLit(f.Body, func(n ast.Node) bool {
		switch v := n.(type) {
		case *ast.CompositeLit:
			if !isIPNet(f.Info().TypeOf(v)) {
				return true
			}
			var ip, mask ast.Expr
			for _, el := range v.Elts {
				if kv, isKV := el.(*ast.KeyValueExpr); isKV {
					if id, isId := kv.Key.(*ast.Ident); isId {
						switch id.Name {
						case "IP":
							ip = kv.Value
						case "Mask":
							mask = kv.Value
						}
					}
				}
			}
			canonical := false
			if ip != nil && mask != nil {
				if b := f.MatchNew("A.Mask(M)", ip); b != nil && f.SameExpr(b["M"], mask) {
					canonical = true
				}
				// a copy of another network (a prefix of ipaddr.Summarize): both parts of the same one
				if bi, bm := f.MatchNew("X.IP", ip), f.MatchNew("X.Mask", mask); bi != nil && bm != nil && f.SameExpr(bi["X"], bm["X"]) {
					canonical = true
				}
			}
			if !canonical {
				ok, at = false, v.Pos()
			}
		case *ast.AssignStmt:
			for _, l := range v.Lhs {
				if se, isSel := ast.Unparen(l).(*ast.SelectorExpr); isSel && (se.Sel.Name == "IP" || se.Sel.Name == "Mask") && isIPNet(f.Info().TypeOf(se.X)) {
					ok, at = false, v.Pos()
				}
			}
		}
		return true
	})
	x.Check("ParseCIDR:networks-not-assembled-by-hand", at, ok, "", "ParseCIDR assembles a net.IPNet itself (from the written address, say): a network whose base address keeps host bits is not recognised as overlapping an equal-length network on the same block, and two pools (or two entries of one pool) covering the same addresses are accepted")
}

// c08OwnNodes (shared with C10, C04): the node set of an advertisement is worked out from that advertisement's own
// selectors. A result remembered under a key derived from the selectors (their printed forms joined, say) can belong
// to a different selector list that prints the same - an OR of two selectors and one selector with both requirements.
func c08OwnNodes(p *chk.Prog, r *chk.Report) {
	x := r.Rule("ADV-NODES-OWN", "B value flow", "in config.l2AdvertisementFromCR and config.bgpAdvertisementFromCR (helpers expanded) whatever is stored in the advertisement's Nodes field is, on every path, the result of selectedNodes(.., crdAd.Spec.NodeSelectors) for the resource being converted (possibly copied with maps.Clone) - never a value looked up in a table of earlier results", 2)
	for _, name := range []string{"l2AdvertisementFromCR", "bgpAdvertisementFromCR"} {
		f := need(x, p, cfgPkg, "", name)
		if f == nil {
			continue
		}
		g := f.Graph()
		cr := isParamIdx(f, 0)
		var leafOK func(e ast.Expr, at chk.Site, depth int) bool
		leafOK = func(e ast.Expr, at chk.Site, depth int) bool {
			e = ast.Unparen(e)
			if depth <= 0 || e == nil {
				return false
			}
			if b := f.MatchNew("maps.Clone(M)", e); b != nil {
				return leafOK(b["M"], at, depth-1)
			}
			if b := f.MatchWith("selectedNodes(N, CR.Spec.NodeSelectors)", e, chk.H("CR", cr)); b != nil {
				return true
			}
			id, isId := e.(*ast.Ident)
			if !isId {
				return false
			}
			vals, okv := g.ReachingValues(id, at)
			if !okv || len(vals) == 0 {
				return false
			}
			for _, v := range vals {
				rhs := v.Rhs
				if rhs == nil {
					// first result of a two-valued call
					if as, isAs := v.Def.Node.(*ast.AssignStmt); isAs && len(as.Rhs) == 1 && len(as.Lhs) == 2 && f.ObjOf(as.Lhs[0]) == f.ObjOf(id) {
						rhs = as.Rhs[0]
					}
				}
				if rhs == nil || !leafOK(rhs, v.Def, depth-1) {
					return false
				}
			}
			return true
		}
		n := 0
		ok, at := true, f.Pos()
		judge := func(e ast.Expr, node ast.Node) {
			n++
			sites := g.Find(func(nd ast.Node) bool { return nd == node })
			if len(sites) == 0 {
				// a literal inside a larger statement: the statement that holds it
				sites = g.Find(func(nd ast.Node) bool { return nd.Pos() <= node.Pos() && node.End() <= nd.End() })
			}
			if len(sites) == 0 || !leafOK(e, sites[len(sites)-1], 5) {
				ok, at = false, node.Pos()
			}
		}
		chk.InspectNoLit(f.Body, func(nd ast.Node) bool {
			switch v := nd.(type) {
			case *ast.KeyValueExpr:
				if id, isId := v.Key.(*ast.Ident); isId && id.Name == "Nodes" {
					judge(v.Value, v)
				}
			case *ast.AssignStmt:
				for i, l := range v.Lhs {
					if se, isSel := ast.Unparen(l).(*ast.SelectorExpr); isSel && se.Sel.Name == "Nodes" {
						switch {
						case len(v.Rhs) == len(v.Lhs):
							judge(v.Rhs[i], v)
						case len(v.Rhs) == 1 && i == 0:
							// `ad.Nodes, err = selectedNodes(..)`: the first result of the call
							judge(v.Rhs[0], v)
						}
					}
				}
			}
			return true
		})
		x.Check(name+":nodes-from-own-selectors", at, ok && n >= 1, "", "the advertisement's node set can come from somewhere else than selectedNodes applied to its own node selectors (a table of earlier results keyed by something derived from the selectors): two selector lists that share the key get each other's nodes, and the advertisement applies on nodes its selectors do not match")
	}
}
