package rules

import (
	"fmt"
	"go/ast"
	"go/types"
	"os"
	"testing"

	"verif/mlbcheck/chk"
)

func TestDbgGate(t *testing.T) {
	if os.Getenv("DBG") == "" {
		t.Skip()
	}
	p, err := chk.LoadNormalised(chk.LoadOpts{}, nil)
	if err != nil {
		t.Fatal(err)
	}
	fn := p.LookupFunc(ctrlPkg, "ServiceReconciler", "reprocessAll")
	g := fn.Graph()
	loop := c06HandlerLoop(fn)
	isRes := func(e ast.Expr) bool {
		c, ok := ast.Unparen(fn.Resolve(e)).(*ast.CallExpr)
		return ok && fn.MatchWith("RECV.Handler(ETC)", c) != nil
	}
	handled := chk.GEvent(fn.ContainsPat("RECV.Handler(ETC)"))
	noErr := g.GPat(false, "T == C", chk.H("T", isRes), chk.H("C", isObjNamed(fn, ctrlPkg+".SyncStateError")))
	noRe := g.GPat(false, "T == C", chk.H("T", isRes), chk.H("C", isObjNamed(fn, ctrlPkg+".SyncStateReprocessAll")))
	filtered := g.GPat(true, "filterByLoadBalancerClass(&S, RECV.LoadBalancerClass)", chk.H("S", rangeVal(fn, loop)))
	var retry types.Object
	ast.Inspect(loop.Body, func(n ast.Node) bool {
		if as, ok := n.(*ast.AssignStmt); ok && len(as.Lhs) == 1 {
			if id, ok := as.Lhs[0].(*ast.Ident); ok && id.Name == "retry" {
				retry = fn.ObjOf(id)
			}
		}
		return true
	})
	fmt.Println("retry", retry)
	isF := fn.IsObj(retry)
	all := chk.GOr(filtered, chk.GAnd(handled, noErr, noRe))
	for _, e := range g.LoopIteration(loop, chk.GOr(all, chk.GBool(true, isF))) {
		fmt.Println("all|retry end break=", e.Break, "ok=", e.OK)
	}
	for _, e := range g.LoopIteration(loop, chk.GOr(chk.GAnd(noErr, noRe), chk.GBool(true, isF))) {
		fmt.Println("(noErr&noRe)|retry end break=", e.Break, "ok=", e.OK)
	}
	for _, e := range g.LoopIteration(loop, chk.GOr(noErr, chk.GBool(true, isF))) {
		fmt.Println("noErr|retry end break=", e.Break, "ok=", e.OK)
	}
	fmt.Println("entry", g.LoopEntryDominated(loop, chk.GBool(false, isF)))
	for name, gd := range map[string]chk.Guard{"filtered": filtered, "handled": handled, "noErr": noErr, "noRe": noRe,
		"f|h": chk.GOr(filtered, handled), "f|(h&noErr)": chk.GOr(filtered, chk.GAnd(handled, noErr)), "all": chk.GOr(filtered, chk.GAnd(handled, noErr, noRe))} {
		for _, e := range g.LoopIteration(loop, gd) {
			fmt.Println(name, "end break=", e.Break, "ok=", e.OK)
		}
	}
}
