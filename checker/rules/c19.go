package rules

import (
	"fmt"
	"go/ast"
	"go/token"
	"go/types"
	"os"
	"strings"

	"verif/mlbcheck/chk"
)

func init() {
	register(&Prop{
		ID: "C19",
		Explanation: "Decided (on all paths of the debouncer goroutines and of every submitter): in frr.debouncer the pending configuration variable is assigned only " +
			"from a received non-re-apply event, on every path that is not one of the two ignore cases (re-apply with nothing stored; identical configuration), and " +
			"at the end of the receive case a timer is armed (DEBOUNCE-STORE, DEBOUNCE-ARM); the timeout case hands exactly that variable to the reload action, a " +
			"failing action re-arms the timer with the retry interval and keeps it set, only success clears it (DEBOUNCE-RETRY); every function of the frr session " +
			"manager that changes sessions, advertisements, BFD profiles or extra configuration regenerates the configuration after the change and submits it on " +
			"every successful return (SUBMIT); generateAndReloadConfigFile always renders, writes and signals the reloader, returning each error (GENERATE); nothing " +
			"reachable from the debouncer goroutine or the reload action takes the session manager's mutex, so submitters holding it cannot deadlock against it " +
			"(LOCK-NOREACH); validateReload requests a re-apply only for a new `failure` status (REAPPLY); in frr-k8s mode the desired configuration is stored " +
			"under the reconciler's lock before the debouncer is signalled, its debouncer forwards one event per burst, and Reconcile returns every API error so the " +
			"request is re-queued (K8S-DELIVER); the reload action replaces the whole file and stores nothing through the configuration it is handed, " +
			"which the debouncer keeps for its retries (GENERATE, ACTION-READONLY).",
		NotDecided: "Liveness and timing over all arrival patterns (that the timer eventually fires, durations); behaviour of the external FRR reloader; controller-runtime's " +
			"re-queue semantics.",
		Run: runC19,
		Mutants: []Mutant{
			{Name: "reload-signalled-without-writing-the-file", File: "internal/bgp/frr/config.go",
				Old: "func generateAndReloadConfigFile(config *frrConfig, l log.Logger) error {\n", New: "func generateAndReloadConfigFile(config *frrConfig, l log.Logger) error {\n\tif config != nil && len(config.Routers) == 0 {\n\t\terr := reloadConfig()\n\t\treturn err\n\t}\n", Expect: "GENERATE"},
			{Name: "update-dropped-before-it-is-stored", File: "internal/k8s/controllers/frrk8s_config_controller.go",
				Old: "\tr.desiredConfiguration = desired.DeepCopy()\n\tr.configChangedChan <- struct{}{}", New: "\tif r.desiredConfiguration != nil && len(desired.Spec.BGP.Routers) == 0 {\n\t\treturn\n\t}\n\tr.desiredConfiguration = desired.DeepCopy()\n\tr.configChangedChan <- struct{}{}", Expect: "every-update-stored"},
			{Name: "k8s-debounce-timer-restarted-by-every-notification", File: "internal/k8s/controllers/frrk8s_config_controller.go",
				Old: "\t\t\t\tif !timerSet {\n\t\t\t\t\ttimeOut = time.After(reloadInterval)\n\t\t\t\t\ttimerSet = true\n\t\t\t\t}\n", New: "\t\t\t\tif !timerSet || cap(in) == 0 {\n\t\t\t\t\ttimeOut = time.After(reloadInterval)\n\t\t\t\t\ttimerSet = true\n\t\t\t\t}\n", Expect: "armed-once-per-burst"},
			{Name: "submit-after-unlock", File: "internal/bgp/frr/frr.go",
				Old: "\tsm.Lock()\n\tdefer sm.Unlock()\n\tsm.extraConfig = extraInfo\n\tfrrConfig, err := sm.createConfig()\n", New: "\tsm.Lock()\n\tsm.extraConfig = extraInfo\n\tfrrConfig, err := sm.createConfig()\n\tsm.Unlock()\n", Expect: "SUBMIT-UNDER-LOCK"},
			{Name: "create-not-found-not-retried", File: "internal/k8s/controllers/frrk8s_config_controller.go",
				Old: "\"event\", \"failed to create frr8s configuration\")\n\t\treturn ctrl.Result{}, err", New: "\"event\", \"failed to create frr8s configuration\")\n\t\treturn ctrl.Result{}, client.IgnoreNotFound(err)", Expect: "K8S-DELIVER"},
			{Name: "first-routerless-configuration-skipped", File: "internal/bgp/frr/frr.go",
				Old: "\treload := func(config *frrConfig) error {\n\t\treturn generateAndReloadConfigFile(config, l)\n\t}\n\n\tdebouncer(reload, res.reloadConfig, debounceTimeout, failureTimeout, l)\n\n\treloadValidator(l, res.reloadConfig)\n\n\treturn res\n}\n\nfunc mockNewSessionManager",
				New: "\tconfigured := false\n\treload := func(config *frrConfig) error {\n\t\tif !configured && len(config.Routers) == 0 {\n\t\t\treturn nil\n\t\t}\n\t\tconfigured = true\n\t\treturn generateAndReloadConfigFile(config, l)\n\t}\n\n\tdebouncer(reload, res.reloadConfig, debounceTimeout, failureTimeout, l)\n\n\treloadValidator(l, res.reloadConfig)\n\n\treturn res\n}\n\nfunc mockNewSessionManager", Expect: "action-is-the-reload"},
			{Name: "config-file-not-truncated", File: "internal/bgp/frr/config.go",
				Old: "\treturn os.WriteFile(filename, []byte(config), 0600)",
				New: "\tf, err := os.OpenFile(filename, os.O_WRONLY|os.O_CREATE, 0600)\n\tif err != nil {\n\t\treturn err\n\t}\n\tdefer f.Close()\n\t_, err = f.WriteString(config)\n\treturn err", Expect: "replaces-the-whole-file"},
			{Name: "action-blanks-passwords-in-place", File: "internal/bgp/frr/config.go",
				Old: "\tconfigString, err := templateConfig(config)\n",
				New: "\tfor _, r := range config.Routers {\n\t\tfor _, n := range r.Neighbors {\n\t\t\tn.Password = \"\"\n\t\t}\n\t}\n\tconfigString, err := templateConfig(config)\n", Expect: "ACTION-READONLY"},
			{Name: "missing-pid-file-counts-as-reloaded", File: "internal/bgp/frr/config.go",
				Old: "\tpid, err := os.ReadFile(reloaderPidFileName)\n", New: "\tpid, err := os.ReadFile(reloaderPidFileName)\n\tif os.IsNotExist(err) {\n\t\treturn nil\n\t}\n", Expect: "GENERATE"},
			{Name: "reapply-before-first-config-ends-debouncer", File: "internal/bgp/frr/config.go",
				Old: "\t\t\t\t\tcontinue // just ignore the event\n", New: "\t\t\t\t\treturn\n", Expect: "DEBOUNCE-STORE"},
			{Name: "timer-armed-only-for-first-config", File: "internal/bgp/frr/config.go",
				Old: "\t\t\t\tif !timerSet {\n\t\t\t\t\ttimeOut = time.After(reloadInterval)", New: "\t\t\t\tif !timerSet && config == newCfg.config {\n\t\t\t\t\ttimeOut = time.After(reloadInterval)", Expect: "DEBOUNCE-ARM"},
			{Name: "timerset-cleared-on-failure", File: "internal/bgp/frr/config.go",
				Old: "\t\t\t\t\ttimeOut = time.After(failureRetryInterval)\n\t\t\t\t\ttimerSet = true\n\t\t\t\t\tcontinue", New: "\t\t\t\t\ttimeOut = time.After(failureRetryInterval)\n\t\t\t\t\ttimerSet = false\n\t\t\t\t\tcontinue", Expect: "DEBOUNCE-RETRY"},
			{Name: "old-config-kept-while-timer-armed", File: "internal/bgp/frr/config.go",
				Old: "\t\t\t\tif !newCfg.useOld {\n\t\t\t\t\tconfig = newCfg.config\n\t\t\t\t}", New: "\t\t\t\tif !newCfg.useOld && !timerSet {\n\t\t\t\t\tconfig = newCfg.config\n\t\t\t\t}", Expect: "DEBOUNCE-STORE"},
			{Name: "reload-sent-before-mutation", File: "internal/bgp/frr/frr.go",
				Old: "\tsm.extraConfig = extraInfo\n\tfrrConfig, err := sm.createConfig()\n\tif err != nil {\n\t\treturn err\n\t}\n", New: "\tfrrConfig, err := sm.createConfig()\n\tif err != nil {\n\t\treturn err\n\t}\n\tsm.extraConfig = extraInfo\n", Expect: "SUBMIT"},
			{Name: "reapply-reverts-to-applied", File: "internal/bgp/frr/config.go",
				Old: "\t\t\t\tif !newCfg.useOld {\n\t\t\t\t\tconfig = newCfg.config\n\t\t\t\t}", New: "\t\t\t\tif !newCfg.useOld {\n\t\t\t\t\tconfig = newCfg.config\n\t\t\t\t} else if timerSet {\n\t\t\t\t\tconfig = nil\n\t\t\t\t}", Expect: "DEBOUNCE-STORE"},
			{Name: "skip-reload-when-file-unchanged", File: "internal/bgp/frr/config.go",
				Old: "\terr = writeConfig(configString, configFileName)\n", New: "\tif old, rerr := os.ReadFile(configFileName); rerr == nil && string(old) == configString {\n\t\treturn nil\n\t}\n\terr = writeConfig(configString, configFileName)\n", Expect: "GENERATE"},
			{Name: "close-without-submit", File: "internal/bgp/frr/frr.go",
				Old: "\tfrrConfig, err := s.sessionManager.createConfig()\n\tif err != nil {\n\t\treturn err\n\t}\n\n\ts.sessionManager.reloadConfig <- reloadEvent{config: frrConfig}\n\treturn nil\n}\n\n// NewSession()", New: "\tfrrConfig, err := s.sessionManager.createConfig()\n\tif err != nil {\n\t\treturn err\n\t}\n\t_ = frrConfig\n\treturn nil\n}\n\n// NewSession()", Expect: "SUBMIT"},
			{Name: "reload-action-takes-manager-lock", File: "internal/bgp/frr/frr.go",
				Old: "\treload := func(config *frrConfig) error {\n\t\treturn generateAndReloadConfigFile(config, l)\n\t}\n\n\tdebouncer(reload, res.reloadConfig, debounceTimeout, failureTimeout, l)\n\n\treloadValidator(l, res.reloadConfig)\n\n\treturn res\n}\n\nfunc mockNewSessionManager",
				New: "\treload := func(config *frrConfig) error {\n\t\tres.Lock()\n\t\tdefer res.Unlock()\n\t\treturn generateAndReloadConfigFile(config, l)\n\t}\n\n\tdebouncer(reload, res.reloadConfig, debounceTimeout, failureTimeout, l)\n\n\treloadValidator(l, res.reloadConfig)\n\n\treturn res\n}\n\nfunc mockNewSessionManager", Expect: "LOCK-NOREACH"},
			{Name: "reapply-on-any-status", File: "internal/bgp/frr/frr.go",
				Old: "\tif strings.Compare(status, \"failure\") == 0 {", New: "\tif strings.Compare(status, \"success\") != 0 || len(status) > 0 {", Expect: "REAPPLY"},
			{Name: "k8s-reconcile-swallows-error", File: "internal/k8s/controllers/frrk8s_config_controller.go",
				Old: "\t\tlevel.Info(r.Logger).Log(\"controller\", \"FRRConfiguration\", \"event\", \"failed to create frr8s configuration\")\n\t\treturn ctrl.Result{}, err", New: "\t\tlevel.Info(r.Logger).Log(\"controller\", \"FRRConfiguration\", \"event\", \"failed to create frr8s configuration\")\n\t\treturn ctrl.Result{}, nil", Expect: "K8S-DELIVER"},
			{Name: "different-variable-applied", File: "internal/bgp/frr/config.go",
				Old: "\t\t\t\terr := body(config)\n", New: "\t\t\t\tapplied := config\n\t\t\t\tif timerSet && applied != nil {\n\t\t\t\t\tapplied = &frrConfig{Hostname: config.Hostname}\n\t\t\t\t}\n\t\t\t\terr := body(applied)\n", Expect: "DEBOUNCE-RETRY"},
		},
	})
}

func runC19(p *chk.Prog, r *chk.Report) {
	// the configuration kept for the next reconcile is not edited by the dump (DUMP-COPY, shared with C15)
	c15Dump(p, r)
	c19SubmitUnderLock(p, r)
	scratchRule(p, r, frrPkg, "internal/k8s/controllers")
	c19Debouncer(p, r)
	c19Submit(p, r)
	c19NoReach(p, r)
	c19K8s(p, r)
}

// selectCases returns the comm clauses of the (single) select statement of lf.
func selectCases(lf *chk.Fn) (recv, timeout *ast.CommClause) {
	ast.Inspect(lf.Body, func(n ast.Node) bool {
		sel, ok := n.(*ast.SelectStmt)
		if !ok {
			return true
		}
		for _, c := range sel.Body.List {
			cc := c.(*ast.CommClause)
			switch s := cc.Comm.(type) {
			case *ast.AssignStmt:
				recv = cc
			case *ast.ExprStmt:
				_ = s
				timeout = cc
			}
		}
		return false
	})
	return
}

func caseBlock(g *chk.Graph, cc *ast.CommClause) *cfgBlock {
	for _, b := range g.Blocks {
		if b.Stmt == ast.Stmt(cc) && b.Kind.String() == "SelectCaseBody" {
			return b
		}
	}
	return nil
}

// startedAsGoroutine: f has callers and each of them calls it in a go statement.
func startedAsGoroutine(p *chk.Prog, f *chk.Fn) bool {
	cs := p.CallersOf(f)
	for _, c := range cs {
		if gs, isGo := p.Parent(c.Call).(*ast.GoStmt); !isGo || gs.Call != c.Call {
			return false
		}
	}
	return len(cs) > 0
}

// goLit finds the function literal started as a goroutine inside f.
func goLit(f *chk.Fn) *ast.FuncLit {
	var lit *ast.FuncLit
	ast.Inspect(f.Body, func(n ast.Node) bool {
		if gs, ok := n.(*ast.GoStmt); ok {
			if l, ok := gs.Call.Fun.(*ast.FuncLit); ok {
				// the goroutine of the function itself, not one started from inside it
				if lit == nil || !chk.Encloses(lit, l) {
					lit = l
				}
				return false
			}
		}
		return true
	})
	return lit
}

func c19Debouncer(p *chk.Prog, r *chk.Report) {
	st := r.Rule("DEBOUNCE-STORE", "B typestate", "in the goroutine of frr.debouncer the pending-configuration variable is assigned only `config = newCfg.config`, dominated by !newCfg.useOld; in the receive case every `continue` before that store is dominated by one of the two ignore conditions (useOld && config == nil; !useOld && reflect.DeepEqual(newCfg.config, config)); on every other path with !useOld the store is executed", 4)
	arm := r.Rule("DEBOUNCE-ARM", "B typestate", "every path through the receive case that is not an ignore-continue reaches the end of the case with the timer armed: behind the false edge of `timerSet` nothing is needed, behind the true edge of `!timerSet` both timeOut = time.After(reloadInterval) and timerSet = true are executed; the `if !timerSet` test itself is on every such path", 2)
	rt := r.Rule("DEBOUNCE-RETRY", "B typestate", "the timeout case calls body(config) with the pending-configuration variable; on an error it always re-arms timeOut = time.After(failureRetryInterval), leaves timerSet true and skips the clearing; timerSet = false is dominated by body(config) == nil", 4)
	f := need(st, p, frrPkg, "", "debouncer")
	if f == nil {
		return
	}
	lit := goLit(f)
	if lit == nil {
		st.Fail("debouncer:goroutine", f.Pos(), "no goroutine literal")
		return
	}
	lf := f.LitFn(lit)
	g := lf.Graph()
	recv, timeout := selectCases(lf)
	if recv == nil || timeout == nil {
		st.Fail("debouncer:select", f.Pos(), "no select with a receive case and a timeout case")
		return
	}
	// the loop waits for submissions and for its timer, nothing else: the reload action completes inside the timeout
	// case, so the timer flag it leaves behind describes a state in which nothing is in flight
	nCases, asyncBody := 0, false
	ast.Inspect(lf.Body, func(n ast.Node) bool {
		switch y := n.(type) {
		case *ast.SelectStmt:
			nCases += len(y.Body.List)
		case *ast.GoStmt:
			ast.Inspect(y, func(m ast.Node) bool {
				if c, isCall := m.(*ast.CallExpr); isCall {
					if id, isId := ast.Unparen(c.Fun).(*ast.Ident); isId && isParamIdx(f, 0)(id) {
						asyncBody = true
					}
				}
				return true
			})
		}
		return true
	})
	rt.Check("debouncer:action-completes-in-the-timeout-case", f.Pos(), nCases == 2 && !asyncBody, "", "the reload action is started aside (or the loop waits for more than submissions and its timer): a configuration submitted while an attempt is in flight finds the timer flag set and arms nothing, and when the in-flight attempt of the older configuration succeeds the flag is cleared - the newest configuration is never applied")
	if nCases != 2 || asyncBody {
		return
	}
	ev := func(e ast.Expr) bool {
		as := recv.Comm.(*ast.AssignStmt)
		return lf.ObjOf(e) == lf.ObjOf(as.Lhs[0]) && lf.ObjOf(e) != nil
	}
	// the pending variable: the argument of body(...)
	var cfgObj types.Object
	bodyCalls := g.FindPat("BODY(C)", chk.H("BODY", isParamIdx(f, 0)))
	for _, c := range bodyCalls {
		cfgObj = lf.ObjOf(c.Node.(*ast.CallExpr).Args[0])
	}
	rt.Check("debouncer:body-call", f.Pos(), len(bodyCalls) == 1 && cfgObj != nil && chk.Encloses(timeout, bodyCalls[0].Node), "", "the timeout case does not call the reload action exactly once")
	if cfgObj == nil {
		return
	}
	isCfg := lf.IsObj(cfgObj)
	// (1) assignments to config
	notOld := g.GPat(false, "EV.useOld", chk.H("EV", ev))
	nStore := 0
	for _, a := range assignsTo(lf, cfgObj) {
		as, ok := a.(*ast.AssignStmt)
		if !ok {
			st.Fail("debouncer:config-assign-shape", a.Pos(), "unexpected update of the pending configuration")
			continue
		}
		sites := g.Find(func(n ast.Node) bool { return n == ast.Node(as) })
		ok = len(sites) == 1 && len(as.Rhs) == 1 && lf.MatchWith("EV.config", as.Rhs[0], chk.H("EV", ev)) != nil && g.Dominated(sites[0], notOld) && chk.Encloses(recv, as)
		nStore++
		st.Check("debouncer:config-assigned-only-from-new-event#"+itoa(nStore), as.Pos(), ok, "", "the pending configuration is overwritten with something other than a newly submitted configuration (an older or empty configuration could be applied after a newer one was submitted)")
	}
	st.Check("debouncer:store-site", f.Pos(), nStore == 1, "", "expected exactly one store of the pending configuration")
	// (2) continues before the store are the two ignore cases
	ignore := chk.GAnyOf(
		g.GPat(true, "EV.useOld && C == nil", chk.H("EV", ev), chk.H("C", isCfg)),
		g.GPat(true, "!EV.useOld && reflect.DeepEqual(EV.config, C)", chk.H("EV", ev), chk.H("C", isCfg)))
	cb := caseBlock(g, recv)
	if cb == nil {
		st.Fail("debouncer:receive-case-block", recv.Pos(), "receive case not found in the control-flow graph")
		return
	}
	// walk the case: with the ignore edges and the closed-channel return cut, every path with !useOld passes the store
	okVar := func(e ast.Expr) bool {
		as := recv.Comm.(*ast.AssignStmt)
		return len(as.Lhs) == 2 && lf.ObjOf(e) != nil && lf.ObjOf(e) == lf.ObjOf(as.Lhs[1])
	}
	closed := chk.GBool(false, okVar)
	// the goroutine ends only when the channel was closed: any other return leaves every later submitter blocked for ever
	okEnd := true
	endPos := recv.Pos()
	for _, rt := range g.Returns() {
		if !g.Dominated(rt, closed) {
			okEnd, endPos = false, rt.Pos()
		}
	}
	st.Check("debouncer:ends-only-when-channel-closed", endPos, okEnd, "", "the debouncer goroutine can end although the reload channel is still open (the channel is unbuffered: the next submitter blocks for ever, holding the session manager's lock)")
	store := func(n ast.Node) bool {
		as, ok := n.(*ast.AssignStmt)
		return ok && len(as.Lhs) == 1 && lf.ObjOf(as.Lhs[0]) == cfgObj
	}
	// every way out of the receive case has stored the new configuration, unless the event is a re-apply, one of
	// the two ignore cases, or the closing of the channel (the case is analysed in isolation, path by path: the
	// spelling of the conditions - nested, merged, inverted - is free)
	useOld := g.GPat(true, "EV.useOld", chk.H("EV", ev))
	okStore, where := true, recv.Pos()
	endsS := g.RegionEnds(cb, recv, chk.GOr(chk.GEvent(store), ignore, closed, useOld))
	for _, e := range endsS {
		if !e.OK {
			okStore = false
			if e.From != nil && len(e.From.Nodes) > 0 {
				where = e.From.Nodes[len(e.From.Nodes)-1].Pos()
			}
		}
	}
	st.Check("debouncer:new-config-always-stored", where, okStore && len(endsS) > 0, "", "a newly submitted, different configuration can pass through the receive case without becoming the pending one (the last applied configuration is then not the most recently submitted)")
	st.OK("debouncer:ignore-cases-only", recv.Pos(), "")
	// (3) timer armed at the end of the receive case
	var timerSet types.Object
	for _, s := range g.Find(lf.IsAssignPat("T", "true")) {
		if chk.Encloses(recv, s.Node) {
			timerSet = lf.ObjOf(s.Node.(*ast.AssignStmt).Lhs[0])
		}
	}
	if timerSet == nil {
		// no flag: the timer channel itself says whether a timer runs - nil (never ready in the select) while nothing
		// is pending, the channel of time.After while one is
		var toObj types.Object
		if es, isES := timeout.Comm.(*ast.ExprStmt); isES {
			if u, isU := ast.Unparen(es.X).(*ast.UnaryExpr); isU && u.Op == token.ARROW {
				toObj = lf.ObjOf(u.X)
			}
		}
		if toObj == nil {
			arm.Fail("debouncer:timer-flag", recv.Pos(), "the receive case never sets the timer flag")
			return
		}
		isTO := lf.IsObj(toObj)
		running := g.GExprNil(false, isTO)
		idle := g.GExprNil(true, isTO)
		armChan := lf.IsAssignPat("TO", "time.After(D)", chk.H("TO", isTO), chk.H("D", isParamIdx(f, 2)))
		armed := chk.GOr(chk.GEvent(armChan), running, ignore, closed)
		okArmed, whereA := true, recv.Pos()
		endsA := g.RegionEnds(cb, recv, armed)
		for _, e := range endsA {
			if !e.OK {
				okArmed = false
				if e.From != nil && len(e.From.Nodes) > 0 {
					whereA = e.From.Nodes[len(e.From.Nodes)-1].Pos()
				}
			}
		}
		arm.Check("debouncer:receive-arms-timer", whereA, okArmed && len(endsA) > 0, "", "the receive case can end with a pending configuration and no timer armed with the reload interval (the configuration is never applied unless another event arrives)")
		okPair := true
		for _, s := range g.Find(func(n ast.Node) bool {
			as, isAs := n.(*ast.AssignStmt)
			return isAs && len(as.Lhs) == 1 && isTO(as.Lhs[0]) && chk.Encloses(recv, n)
		}) {
			if !armChan(s.Node) || !g.Dominated(s, idle) {
				okPair = false
			}
		}
		arm.Check("debouncer:arm-sets-channel-and-flag", recv.Pos(), okPair, "", "the timer is re-armed although it is already running (a steady stream of submissions would postpone the reload forever)")
		for _, s := range g.Find(lf.IsAssignPat("TO", "nil", chk.H("TO", isTO))) {
			if !chk.Encloses(timeout, s.Node) {
				rt.Fail("debouncer:timer-cleared-outside-timeout", s.Pos(), "the timer flag is cleared outside the timeout case")
			}
		}
		okBody := g.GErrNil(true, "BODY(C)", chk.H("C", isCfg))
		failBody := g.GErrNil(false, "BODY(C)", chk.H("C", isCfg))
		rearm := lf.IsAssignPat("TO", "time.After(D)", chk.H("TO", isTO), chk.H("D", isParamIdx(f, 3)))
		endState := chk.GOr(chk.GAnd(okBody, idle), chk.GAnd(failBody, running, chk.GEvent(rearm)))
		tb := caseBlock(g, timeout)
		okEnd, whereT, nEnd := tb != nil, timeout.Pos(), 0
		if tb != nil {
			for _, e := range g.RegionEnds(tb, timeout, endState) {
				nEnd++
				if !e.OK {
					okEnd = false
					if e.From != nil && len(e.From.Nodes) > 0 {
						whereT = e.From.Nodes[len(e.From.Nodes)-1].Pos()
					}
				}
			}
		}
		rt.Check("debouncer:timeout-case-end-state", whereT, okEnd && nEnd > 0, "", "the timeout case can end with the timer flag clear although the reload action failed (no retry without a new submission), with the flag set after a success, or without the timer re-armed with the retry interval after a failure")
		for _, c := range bodyCalls {
			_, isID := ast.Unparen(c.Node.(*ast.CallExpr).Args[0]).(*ast.Ident)
			rt.Check("debouncer:applies-the-pending-variable", c.Pos(), isID && isCfg(c.Node.(*ast.CallExpr).Args[0]) && declaredOutsideLoop(lf, cfgObj), "", "the configuration applied is not the pending-configuration variable that the receive case stores into")
		}
		return
	}
	isTS := lf.IsObj(timerSet)
	setTS := lf.IsAssignPat("T", "true", chk.H("T", isTS))
	armChan := lf.IsAssignPat("TO", "time.After(D)", chk.H("D", isParamIdx(f, 2)))
	armed := chk.GOr(chk.GAnd(chk.GEvent(setTS), chk.GEvent(armChan)), chk.GBool(true, isTS), ignore, closed)
	okArmed, whereA := true, recv.Pos()
	endsA := g.RegionEnds(cb, recv, armed)
	for _, e := range endsA {
		if os.Getenv("MLB_DEBUG_RULE") != "" && e.From != nil && len(e.From.Nodes) > 0 {
			fmt.Fprintln(os.Stderr, "DEBUG endA", lf.Prog.Rel(e.From.Nodes[len(e.From.Nodes)-1].Pos()), e.OK, e.Break)
		}
		if !e.OK {
			okArmed = false
			if e.From != nil && len(e.From.Nodes) > 0 {
				whereA = e.From.Nodes[len(e.From.Nodes)-1].Pos()
			}
		}
	}
	arm.Check("debouncer:receive-arms-timer", whereA, okArmed && len(endsA) > 0, "", "the receive case can end with a pending configuration and no timer armed with the reload interval (the configuration is never applied unless another event arrives)")
	// the flag is set only together with the channel
	okPair := true
	for _, s := range g.Find(setTS) {
		if chk.Encloses(recv, s.Node) && !g.Dominated(s, chk.GBool(false, isTS)) {
			okPair = false
		}
	}
	arm.Check("debouncer:arm-sets-channel-and-flag", recv.Pos(), okPair, "", "the timer is re-armed although it is already running (a steady stream of submissions would postpone the reload forever)")
	// (4) timeout case
	okBody := g.GErrNil(true, "BODY(C)", chk.H("C", isCfg))
	for _, s := range g.Find(lf.IsAssignPat("T", "false", chk.H("T", isTS))) {
		if s.Node.(*ast.AssignStmt).Tok.String() == ":=" {
			continue // the initial declaration
		}
		if !chk.Encloses(timeout, s.Node) {
			rt.Fail("debouncer:timer-cleared-outside-timeout", s.Pos(), "the timer flag is cleared outside the timeout case")
			continue
		}
		_ = okBody
	}
	// the timeout case ends in one of two states: the reload succeeded and the timer flag is clear; or it failed, the
	// timer was armed again with the retry interval and the flag is set (the order of clearing, applying and re-arming
	// is free: the case is analysed path by path with the flag tracked)
	failBody := g.GErrNil(false, "BODY(C)", chk.H("C", isCfg))
	rearm := lf.IsAssignPat("TO", "time.After(D)", chk.H("D", isParamIdx(f, 3)))
	endState := chk.GOr(
		chk.GAnd(okBody, chk.GBool(false, isTS)),
		chk.GAnd(failBody, chk.GBool(true, isTS), chk.GEvent(rearm)))
	tb := caseBlock(g, timeout)
	okEnd, whereT, nEnd := tb != nil, timeout.Pos(), 0
	if tb != nil {
		for _, e := range g.RegionEnds(tb, timeout, endState) {
			nEnd++
			if !e.OK {
				okEnd = false
				if e.From != nil && len(e.From.Nodes) > 0 {
					whereT = e.From.Nodes[len(e.From.Nodes)-1].Pos()
				}
			}
		}
	}
	rt.Check("debouncer:timeout-case-end-state", whereT, okEnd && nEnd > 0, "", "the timeout case can end with the timer flag clear although the reload action failed (no retry without a new submission), with the flag set after a success, or without the timer re-armed with the retry interval after a failure")
	// body is called with the variable itself (not a derived value)
	for _, c := range bodyCalls {
		_, isID := ast.Unparen(c.Node.(*ast.CallExpr).Args[0]).(*ast.Ident)
		defs := 0
		for range assignsTo(lf, cfgObj) {
			defs++
		}
		rt.Check("debouncer:applies-the-pending-variable", c.Pos(), isID && isCfg(c.Node.(*ast.CallExpr).Args[0]) && declaredOutsideLoop(lf, cfgObj), "", "the configuration applied is not the pending-configuration variable that the receive case stores into")
	}
}

// declaredOutsideLoop: the variable is declared before the for/select loop (its
// value survives iterations).
func declaredOutsideLoop(lf *chk.Fn, o types.Object) bool {
	// declared in the function (or literal) but in none of its loops: the value survives from one event to the next
	ok := false
	ast.Inspect(lf.Body, func(n ast.Node) bool {
		if id, isID := n.(*ast.Ident); isID && lf.Info().Defs[id] == o {
			ok = lf.LoopOf(id) == nil
			return false
		}
		return true
	})
	return ok
}

func c19Submit(p *chk.Prog, r *chk.Report) {
	x := r.Rule("SUBMIT", "B path", "in package frr every function that writes sessionManager.sessions / bfdProfiles / extraConfig or session.advertised (Set, Close and NewSession through the (un)registration of the session, SyncExtraInfo, SyncBFDProfiles) calls createConfig after the write and, on every nil-error return, has sent reloadEvent{config: <that result>} on sm.reloadConfig", 10)
	targets := []struct{ recv, name string }{{"session", "Set"}, {"session", "Close"}, {"sessionManager", "NewSession"}, {"sessionManager", "SyncExtraInfo"}, {"sessionManager", "SyncBFDProfiles"}}
	for _, t := range targets {
		f := need(x, p, frrPkg, t.recv, t.name)
		if f == nil {
			continue
		}
		g := f.Graph()
		cfgCall := "SM.createConfig()"
		created := definedBy(g, cfgCall)
		isSend := func(n ast.Node) bool {
			ss, ok := n.(*ast.SendStmt)
			if !ok || f.MatchNew("SM.reloadConfig", ss.Chan) == nil {
				return false
			}
			b := f.MatchNew("reloadEvent{config: C}", ss.Value)
			return b != nil && created(b["C"])
		}
		okRet := func(n ast.Node) bool {
			rs, ok := n.(*ast.ReturnStmt)
			if !ok || len(rs.Results) == 0 {
				return false
			}
			return f.IsNilLit(rs.Results[len(rs.Results)-1])
		}
		w := g.MustPass(chk.Site{}, okRet, false, isSend)
		okSub, wherePos := !w.Found, posOf(w, f)
		{
			// decided again path by path: a return hands back nil only behind the send, and whatever else it returns is
			// not nil unless the send happened (a helper expanded in place returns its error through a variable)
			okSub = true
			sent := chk.GEvent(isSend)
			for _, rt := range g.Returns() {
				rs := rt.Node.(*ast.ReturnStmt)
				if len(rs.Results) == 0 {
					continue
				}
				res := rs.Results[len(rs.Results)-1]
				var need chk.Guard
				switch {
				case f.IsNilLit(res):
					need = sent
				case f.KnownNonNil(res):
					continue
				default:
					r0 := res
					need = chk.GOr(sent, g.GExprNil(false, func(e ast.Expr) bool { return f.SameExpr(e, r0) }))
				}
				if !g.Dominated(rt, need) {
					okSub, wherePos = false, rs.Pos()
				}
			}
		}
		x.Check(t.name+":submit-on-success", wherePos, okSub, "", t.name+" can return success without submitting the regenerated configuration to the reloader")
		// the mutation precedes createConfig
		isMut := func(n ast.Node) bool {
			switch s := n.(type) {
			case *ast.AssignStmt:
				for _, l := range s.Lhs {
					if f.MatchNew("SM.extraConfig", l) != nil || f.MatchNew("SM.bfdProfiles", l) != nil || f.MatchNew("S.advertised", l) != nil {
						return true
					}
				}
			}
			// registering / unregistering a session (the two one-purpose helpers that do it are expanded by the
			// normalisation)
			if as, ok := n.(*ast.AssignStmt); ok {
				for _, l := range as.Lhs {
					if f.MatchNew("SM.sessions[K]", l) != nil {
						return true
					}
				}
			}
			if es, ok := n.(*ast.ExprStmt); ok && f.MatchNew("delete(SM.sessions, K)", es.X) != nil {
				return true
			}
			return false
		}
		muts := g.Find(func(n ast.Node) bool {
			_, isStmt := n.(ast.Stmt)
			return isStmt && isMut(n)
		})
		x.Check(t.name+":has-mutation", f.Pos(), len(muts) >= 1, "", "no state change found")
		gens := g.FindPat(cfgCall)
		okOrder := len(gens) >= 1
		for _, gen := range gens {
			// every path from the entry to the generation passes a mutation, and no mutation follows the generation before the send
			w1 := g.MustPass(chk.Site{}, func(n ast.Node) bool { return n == gen.Top }, false, isMut)
			if w1.Found && g.Dominated(gen, chk.GEvent(isMut)) {
				w1.Found = false // the paths around the change are infeasible (an argument check that cannot fail here, or it returns first)
			}
			w2 := (&chk.Walk{G: g, From: gen, Stop: isSend, Hit: func(n ast.Node) bool {
				if !isMut(n) {
					return false
				}
				// the rollback on the error path is not a forward mutation
				site := g.FactSite(firstExprOf(n))
				return !g.Dominated(site, g.GErrNil(false, cfgCall))
			}}).Run()
			if w1.Found || w2.Found {
				okOrder = false
			}
		}
		x.Check(t.name+":generated-after-the-change", f.Pos(), okOrder, "", "the configuration that is submitted was generated before the state change it is supposed to carry (the change is applied only by some later submission)")
	}
	gen := r.Rule("GENERATE", "B path", "generateAndReloadConfigFile returns nil only after templateConfig(config), writeConfig(<that text>, configFileName) and reloadConfig() all succeeded, and returns each error; there is no path that skips the write or the reload signal", 3)
	gf := need(gen, p, frrPkg, "", "generateAndReloadConfigFile")
	if gf != nil {
		g := gf.Graph()
		nilRet := func(n ast.Node) bool {
			rs, ok := n.(*ast.ReturnStmt)
			return ok && len(rs.Results) == 1 && gf.IsNilLit(rs.Results[0])
		}
		for _, step := range []string{"templateConfig(C)", "writeConfig(S, configFileName)", "reloadConfig()"} {
			if inPlace := "os.WriteFile(configFileName, []byte(S), M)"; strings.HasPrefix(step, "writeConfig") && len(g.FindPat(step)) == 0 && len(g.FindPat(inPlace)) > 0 {
				// the one-line writeConfig written out where it was called
				step = inPlace
			}
			w := g.MustPass(chk.Site{}, nilRet, false, gf.ContainsPat(step))
			okErr := true
			for _, rt := range g.Find(nilRet) {
				if !g.Dominated(rt, g.GErrNil(true, step)) {
					okErr = false
				}
			}
			// a return of something that may be nil (the error variable of the last step, or the last step's call itself)
			// says "success" when it is: the same holds for it unless it is known not to be nil
			for _, rt := range g.Returns() {
				rs := rt.Node.(*ast.ReturnStmt)
				if len(rs.Results) != 1 || gf.IsNilLit(rs.Results[0]) || gf.KnownNonNil(rs.Results[0]) {
					continue
				}
				res := rs.Results[0]
				if gf.MatchNew(step, ast.Unparen(res)) != nil {
					continue // the step's own verdict is what is returned
				}
				sameRes := func(e ast.Expr) bool { return gf.SameExpr(e, res) }
				if !g.Dominated(rt, chk.GOr(g.GErrNil(true, step), g.GExprNil(false, sameRes))) {
					okErr = false
				}
			}
			gen.Check("generateAndReloadConfigFile:"+step, posOf(w, gf), !w.Found && okErr, "", "a reload can report success without "+step+" having run successfully (e.g. skipped because the file looks unchanged: a failed signal or a re-apply request is then never retried)")
		}
	}
	// the action leaves the configuration it is given as it is: the debouncer keeps that object as the latest submission
	// and hands it to every retry
	if gf != nil {
		ro := r.Rule("ACTION-READONLY", "D ownership (effects)", "generateAndReloadConfigFile and the functions of package frr it calls (templateConfig, writeConfig, helpers) store nothing through what they were handed: no assignment, ++/--, delete, in-place sort or set mutation whose target is reached from a parameter through a pointer, map or slice (a copy of the top-level struct still shares the routers and neighbours)", 2)
		fns, _ := p.Closure(gf)
		for _, cf := range fns {
			if cf.Decl == nil || cf.Pkg.PkgPath != chk.Module+"/"+frrPkg {
				continue
			}
			stores := storesThroughHanded(cf, true, nil)
			what, pos := "", cf.Pos()
			for _, st := range stores {
				what += st.What + "; "
				pos = st.Node.Pos()
			}
			ro.Check(cf.Decl.Name.Name+":no-store-through-its-arguments", pos, len(stores) == 0, "", cf.Decl.Name.Name+" stores through what it was handed ("+what+"a copy of the top-level struct still shares the routers and neighbours): the configuration is the debouncer's stored latest submission, and a retry or a re-apply request then applies the changed object, not what was submitted")
		}
	}
	// the file that the reloader is told to load holds the submitted text and nothing else
	if wf := p.LookupFunc(frrPkg, "", "writeConfig"); wf != nil {
		wg := wf.Graph()
		cfgP, fnP := isParamIdx(wf, 0), isParamIdx(wf, 1)
		how := ""
		switch {
		case len(wg.FindPat("os.WriteFile(FN, []byte(C), M)", chk.H("FN", fnP), chk.H("C", cfgP))) > 0:
			how = "os.WriteFile (truncates)"
		case len(wg.FindPat("os.Create(FN)", chk.H("FN", fnP))) > 0:
			how = "os.Create (truncates)"
		case len(wg.FindPat("os.Rename(T, FN)", chk.H("FN", fnP))) > 0:
			how = "written aside and renamed over the file"
		default:
			for _, o := range wg.FindPat("os.OpenFile(FN, FL, M)", chk.H("FN", fnP)) {
				fl, okc := constInt(wf, wf.MatchNew("os.OpenFile(FN, FL, M)", o.Node.(ast.Expr))["FL"])
				if okc && fl&os.O_TRUNC != 0 && fl&os.O_APPEND == 0 {
					how = "os.OpenFile with O_TRUNC"
				}
			}
		}
		gen.Check("writeConfig:replaces-the-whole-file", wf.Pos(), how != "", how, "the configuration file is not replaced as a whole (no os.WriteFile / os.Create / O_TRUNC / rename): when the new text is shorter than the old one the tail of the old configuration stays in the file the reloader loads")
	}
	// the action handed to the debouncer is the reload itself: it reports success only through generateAndReloadConfigFile
	// of the configuration it was given (no "nothing to do yet" shortcut: a restarted speaker must replace the stale file)
	if nf0 := need(gen, p, frrPkg, "", "NewSessionManager"); nf0 != nil {
		// the wiring is in NewSessionManager itself or in a constructor helper of the package that it calls
		nf := nf0
		if len(nf.Graph().FindPat("debouncer(ACT, ETC)")) == 0 {
			cl, _ := p.Closure(nf0)
			for _, cf := range cl {
				if cf.Decl != nil && cf.Pkg.PkgPath == chk.Module+"/"+frrPkg && cf != nf0 && len(cf.Graph().FindPat("debouncer(ACT, ETC)")) > 0 {
					nf = cf
				}
			}
		}
		ng := nf.Graph()
		okAct, nAct := true, 0
		for _, ds := range ng.FindPat("debouncer(ACT, ETC)") {
			nAct++
			act := throughLocals(ng, ds.Node.(*ast.CallExpr).Args[0])
			lit, isLit := unconv(nf, act).(*ast.FuncLit)
			if !isLit {
				// the reload function itself (same signature) handed over directly
				okAct = okAct && nf.MatchNew("generateAndReloadConfigFile", act) != nil
				continue
			}
			lf := nf.LitFn(lit)
			lg := lf.Graph()
			call := "generateAndReloadConfigFile(C, L)"
			cfg := chk.H("C", isParamIdx(lf, 0))
			for _, rt := range lg.Returns() {
				rr := retResults(rt)
				if len(rr) != 1 {
					okAct = false
					continue
				}
				switch {
				case lf.MatchWith(call, rr[0], cfg) != nil, definedBy(lg, call, cfg)(rr[0]):
				case lf.IsNilLit(rr[0]):
					okAct = okAct && lg.Dominated(rt, lg.GErrNil(true, call, cfg))
				default:
					okAct = okAct && lg.Dominated(rt, lg.GErrNil(false, call, cfg))
				}
			}
		}
		gen.Check("NewSessionManager:action-is-the-reload", nf.Pos(), okAct && nAct == 1, "", "the action the debouncer runs can report success without generateAndReloadConfigFile having run on the configuration it was given (a skipped first configuration leaves the stale file of the previous speaker in force, and nothing retries)")
	}
	// the reload signal itself: success means the reloader was signalled
	rc := need(gen, p, frrPkg, "", "reloadConfig")
	if rc != nil {
		g := rc.Graph()
		kill := "syscall.Kill(P, syscall.SIGHUP)"
		signalled := g.GErrNil(true, kill)
		okSig, nRet := true, 0
		for _, rt := range g.Returns() {
			rs := rt.Node.(*ast.ReturnStmt)
			if len(rs.Results) != 1 {
				continue
			}
			nRet++
			res := rs.Results[0]
			switch {
			case rc.MatchNew(kill, res) != nil, rc.KnownNonNil(res):
			case rc.IsNilLit(res):
				if !g.Dominated(rt, signalled) {
					okSig = false
				}
			default:
				r0 := res
				if !g.Dominated(rt, chk.GOr(signalled, g.GExprNil(false, func(e ast.Expr) bool { return rc.SameExpr(e, r0) }))) {
					okSig = false
				}
			}
		}
		gen.Check("reloadConfig:success-means-signalled", rc.Pos(), okSig && nRet > 0 && len(g.FindPat(kill)) == 1, "", "reloadConfig can report success without having sent SIGHUP to the reloader (e.g. when its pid file is missing): the debouncer takes the configuration for applied and never retries")
	}
	rp := r.Rule("REAPPLY", "B path", "frr.validateReload sends reloadEvent{useOld: true} only behind a status file with two fields whose time stamp differs from the previous one and whose status is `failure`", 1)
	vf := need(rp, p, frrPkg, "", "validateReload")
	if vf != nil {
		g := vf.Graph()
		n := 0
		isFailure := chk.GOr(g.GPat(true, `strings.Compare(ST, "failure") == 0`), g.GPat(true, `ST == "failure"`), g.GPat(true, `strings.Compare("failure", ST) == 0`))
		// the request: the send itself, or - when the function only decides and its caller sends - the `return true`
		var reqs []ast.Node
		ast.Inspect(vf.Body, func(nd ast.Node) bool {
			if ss, ok := nd.(*ast.SendStmt); ok && vf.MatchNew("reloadEvent{useOld: true}", ss.Value) != nil {
				reqs = append(reqs, ss)
			}
			return true
		})
		if len(reqs) == 0 {
			for _, rt := range g.Returns() {
				if rr := retResults(rt); len(rr) == 1 && vf.IsConstBool(rr[0], true) {
					reqs = append(reqs, rt.Node)
				}
			}
			// every caller sends the re-apply request exactly when the answer is yes
			okCallers, nc := len(reqs) > 0, 0
			for _, cs := range p.CallersOf(vf) {
				nc++
				cf := cs.Fn
				for q := p.Parent(cs.Call); q != nil; q = p.Parent(q) {
					if lit, isLit := q.(*ast.FuncLit); isLit {
						if lf := cs.Fn.LitFn(lit); lf != nil {
							cf = lf // the call sits in a goroutine literal of the caller
						}
						break
					}
				}
				cg := cf.Graph()
				yes := chk.GBool(true, func(e ast.Expr) bool { return ast.Unparen(e) == ast.Expr(cs.Call) })
				es := cg.EdgesImplying(yes)
				if len(es) == 0 {
					okCallers = false
				}
				for _, e := range es {
					if cg.BranchAlways(e, func(m ast.Node) bool {
						ss, isS := m.(*ast.SendStmt)
						return isS && cf.MatchNew("reloadEvent{useOld: true}", ss.Value) != nil
					}).Found {
						okCallers = false
					}
				}
			}
			if len(reqs) > 0 {
				rp.Check("validateReload:callers-send-on-yes", vf.Pos(), okCallers && nc > 0, "", "validateReload only reports that a re-apply is due, and a caller does not send reloadEvent{useOld: true} on every yes")
			}
		}
		// the time stamp seen last, kept in a field of the object the validator runs on (`c.last = ts` through the pointer
		// receiver / a pointer parameter): compared with the new one like the pointed-to string of the confirmed tree
		var kept []ast.Expr
		for _, st := range g.Find(func(m ast.Node) bool {
			as, ok := m.(*ast.AssignStmt)
			if !ok || as.Tok != token.ASSIGN || len(as.Lhs) != 1 || len(as.Rhs) != 1 {
				return false
			}
			se, isSel := ast.Unparen(as.Lhs[0]).(*ast.SelectorExpr)
			if !isSel {
				return false
			}
			if _, isId := ast.Unparen(as.Rhs[0]).(*ast.Ident); !isId {
				return false
			}
			root, isRoot := ast.Unparen(se.X).(*ast.Ident)
			if !isRoot {
				return false
			}
			v, isVar := vf.ObjOf(root).(*types.Var)
			if !isVar {
				return false
			}
			_, isPtr := v.Type().Underlying().(*types.Pointer)
			isPar := false
			for i := 0; i < 4; i++ {
				if pv := vf.Param(i); pv != nil && pv == v {
					isPar = true
				}
			}
			if rv := vf.Recv(); rv != nil && rv == v {
				isPar = true
			}
			return isPtr && isPar
		}) {
			kept = append(kept, st.Node.(*ast.AssignStmt).Lhs[0])
		}
		isKept := func(e ast.Expr) bool {
			for _, k := range kept {
				if vf.SameExpr(e, k) {
					return true
				}
			}
			return false
		}
		for _, rq := range reqs {
			rq := rq
			n++
			sites := g.Find(func(m ast.Node) bool { return m == rq })
			okk := len(sites) == 1 &&
				g.Dominated(sites[0], isFailure) &&
				g.Dominated(sites[0], chk.GSame(g.GPat(false, "TS == *PREV"), g.GPat(false, "*PREV == TS"),
					g.GPat(false, "TS == PREV", chk.H("PREV", isParamIdx(vf, 1))), g.GPat(false, "PREV == TS", chk.H("PREV", isParamIdx(vf, 1))),
					g.GPat(false, "TS == KEPT", chk.H("KEPT", isKept)), g.GPat(false, "KEPT == TS", chk.H("KEPT", isKept))))
			if okk {
				// and a newly reported failure always asks for the re-apply: from the edge that establishes it every
				// path to the end of the function passes the request
				es := g.EdgesImplying(isFailure)
				okk = len(es) > 0
				for _, e := range es {
					w := (&chk.Walk{G: g, From: chk.Site{G: g, B: e.B.Succs[e.K], I: 0}, Inclusive: true, HitExit: true,
						Stop: func(m ast.Node) bool { return m == rq }}).Run()
					if w.Found {
						okk = false
					}
				}
			}
			rp.Check("validateReload:reapply-only-on-new-failure", rq.Pos(), okk, "", "a re-apply is requested for a status other than a newly reported `failure`")
		}
		rp.Check("validateReload:send-site", vf.Pos(), n == 1, "", "expected one re-apply send")
	}
}

func firstExprOf(n ast.Node) ast.Expr {
	var e ast.Expr
	ast.Inspect(n, func(m ast.Node) bool {
		if e != nil {
			return false
		}
		if x, ok := m.(ast.Expr); ok {
			e = x
			return false
		}
		return true
	})
	return e
}

func c19NoReach(p *chk.Prog, r *chk.Report) {
	x := r.Rule("LOCK-NOREACH", "C locks + call-graph reachability", "no function reachable (statically resolved calls, function literals included) from the debouncer goroutine, from the reload action registered in NewSessionManager / mockNewSessionManager, or from the reload validator takes frr.sessionManager's mutex: submitters send on the unbuffered reloadConfig channel while holding it", 3)
	lock := p.LockField(frrPkg, "sessionManager", "")
	if lock == nil {
		x.Undecided("anchor:sessionManager-lock", "UNDECIDED anchor missing")
		return
	}
	var roots []*chk.Fn
	for _, n := range []string{"debouncer", "generateAndReloadConfigFile", "reloadValidator", "validateReload"} {
		if f := p.LookupFunc(frrPkg, "", n); f != nil {
			roots = append(roots, f)
		}
	}
	fns, _ := p.Closure(roots...)
	takes := func(f *chk.Fn, body ast.Node) ast.Node {
		var bad ast.Node
		ast.Inspect(body, func(n ast.Node) bool {
			if c, ok := n.(*ast.CallExpr); ok {
				if lk, op := f.LockOp(c); lk == lock && (op == "Lock" || op == "RLock") {
					bad = c
				}
			}
			return true
		})
		return bad
	}
	for _, f := range fns {
		bad := takes(f, f.Body)
		pos := f.Pos()
		if bad != nil {
			pos = bad.Pos()
		}
		x.Check("reachable:"+f.Name(), pos, bad == nil, "", "a function reachable from the debouncer goroutine takes the session manager's mutex: a submitter holding it while sending on reloadConfig deadlocks the speaker")
	}
	// the reload action literals handed to debouncer
	for _, cs := range p.CallSites(frrPkg + ".debouncer") {
		arg := unconv(cs.Fn, cs.Call.Args[0])
		var lit *ast.FuncLit
		if l, ok := arg.(*ast.FuncLit); ok {
			lit = l
		} else if id, ok := arg.(*ast.Ident); ok {
			for _, a := range assignsTo(cs.Fn, cs.Fn.ObjOf(id)) {
				if as, ok := a.(*ast.AssignStmt); ok && len(as.Rhs) == 1 {
					lit, _ = unconv(cs.Fn, as.Rhs[0]).(*ast.FuncLit)
				}
			}
		}
		if lit == nil {
			x.Fail("reload-action@"+cs.Fn.Name(), cs.Call.Pos(), "the reload action handed to the debouncer cannot be resolved")
			continue
		}
		bad := takes(cs.Fn, lit.Body)
		pos := lit.Pos()
		if bad != nil {
			pos = bad.Pos()
		}
		x.Check("reload-action@"+cs.Fn.Name(), pos, bad == nil, "", "the reload action run by the debouncer goroutine takes the session manager's mutex (deadlock with a submitter that holds it while sending)")
	}
	x.Check("coverage", 0, len(fns) >= 6, "", "fewer functions reachable than on the confirmed tree")
}

func c19K8s(p *chk.Prog, r *chk.Report) {
	x := r.Rule("K8S-DELIVER", "B path", "FRRK8sReconciler.UpdateConfig stores a deep copy of the new configuration under the lock before sending on configChangedChan; the controllers.debouncer goroutine arms its timer on a receive unless already armed and on timeout clears the flag and emits exactly one reconcile event; Reconcile returns the error of Get (unless not-found), of CreateOrUpdate and of Delete (nil only through IgnoreNotFound), so failed applications are re-queued; it applies r.desiredConfiguration.Spec", 6)
	uc := need(x, p, ctrlPkg, "FRRK8sReconciler", "UpdateConfig")
	if uc != nil {
		g := uc.Graph()
		st := g.Find(uc.IsAssignPat("RECV.desiredConfiguration", "V", chk.H("V", definedBy(g, "D.DeepCopy()"))))
		ok := len(st) == 1
		if ok {
			w := g.MustPass(chk.Site{}, func(n ast.Node) bool { _, isSend := n.(*ast.SendStmt); return isSend }, false, func(n ast.Node) bool { return n == st[0].Top })
			ok = !w.Found
			// and a send follows on every path to the exit
			w2 := g.MustPass(st[0], nil, true, func(n ast.Node) bool {
				ss, isSend := n.(*ast.SendStmt)
				return isSend && uc.MatchNew("RECV.configChangedChan", ss.Chan) != nil
			})
			ok = ok && !w2.Found
		}
		x.Check("UpdateConfig:store-then-signal", uc.Pos(), ok, "", "the new configuration is not stored before, and signalled after, every update")
		// ... every update: no return comes before the store (a shortcut "the cluster has this already" compares with
		// what was applied last, not with what is pending - the pending configuration of a change that was taken back
		// inside the debounce window is then written although it is no longer wanted)
		if len(st) == 1 {
			w3 := g.MustPass(chk.Site{}, func(n ast.Node) bool { _, isRet := n.(*ast.ReturnStmt); return isRet }, false, func(n ast.Node) bool { return n == st[0].Top })
			x.Check("UpdateConfig:every-update-stored", posOf(w3, uc), !w3.Found, "", "UpdateConfig can return without replacing the desired configuration: what the speaker asked for last is not what is written when the timer fires")
		}
	}
	df := p.LookupFunc(ctrlPkg, "", "debouncer")
	if df == nil {
		// under another name, or as a method that takes the two channels from the reconciler: the one function of the
		// package whose goroutine selects between a receive and a time.After channel and sends a reconcile event
		var cands []*chk.Fn
		for _, cf := range p.FuncsIn(ctrlPkg) {
			if cf.Body == nil || cf.Lit != nil {
				continue
			}
			lit := goLit(cf)
			var lf *chk.Fn
			if lit != nil {
				lf = cf.LitFn(lit)
			} else if startedAsGoroutine(p, cf) {
				lf = cf
			}
			if lf == nil {
				continue
			}
			rc, to := selectCases(lf)
			if rc == nil || to == nil || len(lf.Graph().FindPat("time.After(D)")) == 0 {
				continue
			}
			sendsEvent := false
			ast.Inspect(lf.Body, func(n ast.Node) bool {
				if ss, isSend := n.(*ast.SendStmt); isSend {
					if t := lf.Info().TypeOf(ss.Value); t != nil && strings.HasSuffix(t.String(), "event.GenericEvent") {
						sendsEvent = true
					}
				}
				return true
			})
			if sendsEvent {
				cands = append(cands, cf)
			}
		}
		if len(cands) == 1 {
			df = cands[0]
		}
	}
	if df == nil {
		df = need(x, p, ctrlPkg, "", "debouncer")
	}
	if df != nil {
		r.Saw(df)
		// the roles of the parameters of the confirmed tree: the channel the events go out on and the interval
		isOut := func(e ast.Expr) bool {
			if isParamIdx(df, 1)(e) && df.Recv() == nil {
				return true
			}
			if df.MatchNew("RECV.reconcileChan", e) != nil {
				return true
			}
			if id, isId := ast.Unparen(e).(*ast.Ident); isId {
				if rhs, _ := df.Graph().DefOf(id, df.Graph().FactSite(id)); rhs != nil && df.MatchNew("RECV.reconcileChan", rhs) != nil {
					return true
				}
				// a channel the debouncer makes itself and hands back to its caller (who stores the receiving end)
				if o := df.ObjOf(id); o != nil {
					made, returned := false, false
					for _, as := range assignsTo(df, o) {
						if a, isAs := as.(*ast.AssignStmt); isAs && len(a.Lhs) == len(a.Rhs) {
							for i, l := range a.Lhs {
								if df.ObjOf(l) == o && df.MatchNew("make(T)", a.Rhs[i]) != nil {
									made = true
								}
							}
						}
					}
					ast.Inspect(df.Body, func(n ast.Node) bool {
						if fl, isLit := n.(*ast.FuncLit); isLit && fl != nil {
							return false
						}
						if rs, isRet := n.(*ast.ReturnStmt); isRet {
							for _, res := range rs.Results {
								if df.ObjOf(res) == o {
									returned = true
								}
							}
						}
						return true
					})
					if made && returned && len(assignsTo(df, o)) == 1 {
						return true
					}
				}
				// captured by the goroutine literal from the enclosing function
				for _, as := range assignsTo(df, df.ObjOf(id)) {
					if a, isAs := as.(*ast.AssignStmt); isAs && a.Tok == token.DEFINE && len(a.Lhs) == len(a.Rhs) {
						for i, l := range a.Lhs {
							if df.ObjOf(l) == df.ObjOf(id) && df.MatchNew("RECV.reconcileChan", a.Rhs[i]) != nil && len(assignsTo(df, df.ObjOf(id))) == 1 {
								return true
							}
						}
					}
				}
			}
			return false
		}
		isInterval := func(e ast.Expr) bool {
			if df.Recv() == nil && isParamIdx(df, 2)(e) {
				return true
			}
			id, isId := ast.Unparen(e).(*ast.Ident)
			if !isId {
				return false
			}
			for i := 0; i < 4; i++ {
				if pv := df.Param(i); pv != nil && df.ObjOf(id) == types.Object(pv) && pv.Type().String() == "time.Duration" {
					return true
				}
			}
			return false
		}
		lit := goLit(df)
		ok := lit != nil
		var lf *chk.Fn
		if ok {
			lf = df.LitFn(lit)
		} else if startedAsGoroutine(p, df) {
			// the loop is the function's own body and every caller starts it with `go debouncer(..)`
			lf, ok = df, true
		}
		if ok {
			g := lf.Graph()
			recv, timeout := selectCases(lf)
			ok = recv != nil && timeout != nil
			if ok {
				var ts types.Object
				for _, s := range g.Find(lf.IsAssignPat("T", "true")) {
					ts = lf.ObjOf(s.Node.(*ast.AssignStmt).Lhs[0])
				}
				isTS := lf.IsObj(ts)
				// every way out of the receive case leaves a timer armed: it was armed already, or both the channel and
				// the flag were set (or the input was closed)
				okVar := func(e ast.Expr) bool {
					as, isAs := recv.Comm.(*ast.AssignStmt)
					return isAs && len(as.Lhs) == 2 && lf.ObjOf(e) != nil && lf.ObjOf(e) == lf.ObjOf(as.Lhs[1])
				}
				armedG := chk.GOr(chk.GBool(true, isTS), chk.GBool(false, okVar),
					chk.GAnd(chk.GEvent(lf.IsAssignPat("TO", "time.After(D)", chk.H("D", isInterval))), chk.GEvent(lf.IsAssignPat("T", "true", chk.H("T", isTS)))))
				// the armed state kept in the timer channel itself: nil = not armed (a nil channel is never selected)
				var toObj types.Object
				if ts == nil {
					for _, s := range g.Find(lf.IsAssignPat("TO", "time.After(D)", chk.H("D", isInterval))) {
						toObj = lf.ObjOf(s.Node.(*ast.AssignStmt).Lhs[0])
					}
					if toObj != nil && timeout != nil {
						// ... and it is the channel the timeout case receives from
						if ue, isU := firstExprOf(timeout.Comm).(*ast.UnaryExpr); !isU || lf.ObjOf(ue.X) != toObj {
							toObj = nil
						}
					}
					if toObj != nil {
						isTO := lf.IsObj(toObj)
						armedG = chk.GOr(g.GPat(false, "TO == nil", chk.H("TO", isTO)), chk.GBool(false, okVar),
							chk.GEvent(lf.IsAssignPat("TO", "time.After(D)", chk.H("TO", isTO), chk.H("D", isInterval))))
					}
				}
				endsR := g.RegionEnds(caseBlock(g, recv), recv, armedG)
				okArm := len(endsR) > 0
				for _, e := range endsR {
					if !e.OK {
						okArm = false
					}
				}
				cb := caseBlock(g, timeout)
				okOut := false
				if cb != nil {
					w1 := (&chk.Walk{G: g, From: chk.Site{G: g, B: cb, I: -1}, Stop: func(n ast.Node) bool {
						ss, isSend := n.(*ast.SendStmt)
						return isSend && isOut(ss.Chan)
					}, Hit: func(n ast.Node) bool { return !chk.Encloses(timeout, n) }, HitExit: true}).Run()
					disarm := lf.IsAssignPat("T", "false", chk.H("T", isTS))
					if toObj != nil {
						disarm = lf.IsAssignPat("TO", "nil", chk.H("TO", lf.IsObj(toObj)))
					}
					w2 := (&chk.Walk{G: g, From: chk.Site{G: g, B: cb, I: -1}, Stop: disarm, Hit: func(n ast.Node) bool { return !chk.Encloses(timeout, n) }, HitExit: true}).Run()
					okOut = !w1.Found && !w2.Found
				}
				ok = (ts != nil || toObj != nil) && okArm && okOut
				// the timer is started by the first notification of a burst and left alone by the following ones: a timer
				// restarted on every notification never fires while notifications keep coming
				notArmed := chk.GBool(false, isTS)
				if toObj != nil {
					notArmed = g.GExprNil(true, lf.IsObj(toObj))
				}
				okOnce := true
				for _, s := range g.Find(lf.IsAssignPat("TO", "time.After(D)", chk.H("D", isInterval))) {
					if chk.Encloses(recv, s.Node) && !g.Dominated(s, notArmed) {
						okOnce = false
					}
				}
				x.Check("controllers.debouncer:armed-once-per-burst", recv.Pos(), okOnce, "", "the frr-k8s debouncer restarts its timer on a notification that arrives while the timer is running: under a steady stream of configuration changes the reconcile event is postponed for ever")
			}
		}
		x.Check("controllers.debouncer:arm-and-emit", df.Pos(), ok, "", "the frr-k8s debouncer does not arm a timer for every burst and emit one reconcile event (clearing the flag) when it fires")
	}
	rf := need(x, p, ctrlPkg, "FRRK8sReconciler", "Reconcile")
	if rf != nil {
		g := rf.Graph()
		n := 0
		for _, call := range []string{"RECV.Get(ETC)", "controllerutil.CreateOrUpdate(ETC)"} {
			okc := g.GErrNil(true, call)
			for _, e := range g.EdgesImplying(g.GErrNil(false, call)) {
				n++
				// on the error edge every return carries the error, except the not-found refinement for Get
				start := chk.Site{G: g, B: e.B.Succs[e.K], I: -1}
				region := g.Region(e)
				w := (&chk.Walk{G: g, From: start, Hit: func(nd ast.Node) bool {
					if as, isAs := nd.(*ast.AssignStmt); isAs && chk.Encloses(region, nd) && as.Tok == token.ASSIGN && len(as.Lhs) == len(as.Rhs) {
						// the result of the expanded helper that Reconcile hands back
						for i, l := range as.Lhs {
							if id, isId := l.(*ast.Ident); isId && inlineResult.MatchString(id.Name) && isErrorTyped(rf, l) && rf.IsNilLit(as.Rhs[i]) {
								return true
							}
						}
					}
					rs, isRet := nd.(*ast.ReturnStmt)
					if isRet && chk.Encloses(region, nd) && len(rs.Results) == 2 && call != "RECV.Get(ETC)" && rf.MatchNew("client.IgnoreNotFound(E)", ast.Unparen(rs.Results[1])) != nil {
						return true // a create that fails with not-found (no namespace yet) produces no event to retry on
					}
					return isRet && chk.Encloses(region, nd) && len(rs.Results) == 2 && rf.IsNilLit(rs.Results[1])
				}}).Run()
				x.Check("Reconcile:error-returned("+call+")", posOf(w, rf), !w.Found, "", "an API error while applying the configuration is swallowed: the request is not re-queued and the latest configuration is never applied")
			}
			_ = okc
		}
		x.Check("Reconcile:error-branches", rf.Pos(), n >= 2, "", "errors of Get / CreateOrUpdate are not tested")
		okDel := false
		for _, ex := range errorExits(rf, g, 1) {
			if rf.MatchWith("client.IgnoreNotFound(E)", ex.Expr, chk.H("E", definedBy(g, "RECV.Delete(ETC)"))) != nil {
				okDel = g.Dominated(ex.Site, g.GPat(true, "RECV.desiredConfiguration == nil"))
			}
		}
		x.Check("Reconcile:delete-error-returned", rf.Pos(), okDel, "", "with no desired configuration the resource is not deleted with the error returned")
		okSpec := false
		ast.Inspect(rf.Body, func(nd ast.Node) bool {
			if c, isCall := nd.(*ast.CallExpr); isCall && rf.MatchNew("RECV.desiredConfiguration.Spec.DeepCopyInto(&T.Spec)", c) != nil {
				okSpec = true
			}
			// ... or assigned from a deep copy of it
			if as, isAs := nd.(*ast.AssignStmt); isAs && len(as.Lhs) == 1 && len(as.Rhs) == 1 && rf.MatchNew("T.Spec", as.Lhs[0]) != nil &&
				(rf.MatchNew("*RECV.desiredConfiguration.Spec.DeepCopy()", ast.Unparen(as.Rhs[0])) != nil || rf.MatchNew("*(RECV.desiredConfiguration.Spec.DeepCopy())", ast.Unparen(as.Rhs[0])) != nil ||
					rf.MatchNew("RECV.desiredConfiguration.DeepCopy().Spec", ast.Unparen(as.Rhs[0])) != nil) {
				okSpec = true
			}
			return true
		})
		x.Check("Reconcile:applies-desired-spec", rf.Pos(), okSpec, "", "the spec applied is not the stored desired configuration")
		// success is reported only after the write was attempted: a `return …, nil` with a desired configuration has
		// passed CreateOrUpdate - or skips it because a record of what was *successfully* applied equals the desired
		// spec (a record written only behind CreateOrUpdate's nil error, outside its mutate callback)
		written := chk.GEvent(rf.ContainsPat("controllerutil.CreateOrUpdate(ETC)"))
		noDesired := g.GPat(true, "RECV.desiredConfiguration == nil")
		okWrite := true
		for _, rt := range g.Returns() {
			rr := retResults(rt)
			if len(rr) != 2 || !rf.IsNilLit(rr[1]) {
				continue
			}
			if g.Dominated(rt, chk.GOr(noDesired, written)) {
				continue
			}
			// what the API server holds (just read with Get) already is the desired spec
			fetched := func(e ast.Expr) bool {
				for _, c := range g.FindPat("RECV.Get(_, _, &X)") {
					if rf.SameExpr(c.Node.(*ast.CallExpr).Args[2].(*ast.UnaryExpr).X, e) {
						return true
					}
				}
				return false
			}
			if g.Dominated(rt, g.GPat(true, "reflect.DeepEqual(X.Spec, RECV.desiredConfiguration.Spec)", chk.H("X", fetched))) {
				continue
			}
			// the cache exemption
			okCache := false
			for _, e := range g.DirectEdgesImplying(g.GPat(true, "reflect.DeepEqual(RECV.F.Spec, RECV.desiredConfiguration.Spec)")) {
				cond := g.EdgeCondExpr(e.B, e.K)
				var fld string
				ast.Inspect(cond, func(m ast.Node) bool {
					if b := rf.MatchNew("reflect.DeepEqual(RECV.F.Spec, RECV.desiredConfiguration.Spec)", asExpr(m)); b != nil {
						if sel, ok := ast.Unparen(b["F"]).(*ast.Ident); ok {
							fld = sel.Name
						}
					}
					return true
				})
				if fld == "" || fld == "desiredConfiguration" {
					continue
				}
				safe := true
				nw := 0
				ast.Inspect(rf.Body, func(m ast.Node) bool {
					as, isAs := m.(*ast.AssignStmt)
					if !isAs {
						return true
					}
					for _, l := range as.Lhs {
						if sel, isSel := ast.Unparen(l).(*ast.SelectorExpr); isSel && sel.Sel.Name == fld && isRecv(rf)(sel.X) {
							nw++
							inLit := false
							for pn := p.Parent(as); pn != nil; pn = p.Parent(pn) {
								if _, isL := pn.(*ast.FuncLit); isL {
									inLit = true
								}
							}
							sites := g.Find(func(k ast.Node) bool { return k == ast.Node(as) })
							if inLit || len(sites) != 1 || !g.Dominated(sites[0], g.GErrNil(true, "controllerutil.CreateOrUpdate(ETC)")) {
								safe = false
							}
						}
					}
					return true
				})
				if safe && nw > 0 {
					okCache = true
				}
			}
			if !okCache {
				okWrite = false
				x.Fail("Reconcile:success-needs-write", rt.Pos(), "Reconcile can report success for a desired configuration without having written it (a shortcut on a record that is set before the write is known to have succeeded): after a failed write the retry does nothing and the latest configuration is never applied")
			}
		}
		if okWrite {
			x.OK("Reconcile:success-needs-write", rf.Pos(), "")
		}
	}
}

// c19SubmitUnderLock: in FRR mode building the configuration and handing it to the debouncer is one step under the
// session manager's lock. The debouncer takes the last configuration it receives for the newest; a hand-over outside
// the lock can be overtaken by a newer one and arrive last.
func c19SubmitUnderLock(p *chk.Prog, r *chk.Report) {
	x := r.Rule("SUBMIT-UNDER-LOCK", "C locks (must-hold lockset dataflow)", "every send on frr.sessionManager.reloadConfig made by a method of the session manager or of a session (the submitters) executes with the session manager's mutex held - the mutex under which createConfig built what is sent", 4)
	lock := p.LockField(frrPkg, "sessionManager", "")
	if lock == nil {
		x.Undecided("anchor:sessionManager-lock", "UNDECIDED anchor missing")
		return
	}
	la := locksOf(p)
	n := 0
	for _, f := range p.FuncsIn(frrPkg) {
		if f.Body == nil || f.Lit != nil || f.Recv() == nil {
			continue
		}
		ast.Inspect(f.Body, func(nd ast.Node) bool {
			if _, isLit := nd.(*ast.FuncLit); isLit {
				return false
			}
			ss, ok := nd.(*ast.SendStmt)
			if !ok {
				return true
			}
			se, isSel := ast.Unparen(ss.Chan).(*ast.SelectorExpr)
			if !isSel || se.Sel.Name != "reloadConfig" {
				return true
			}
			n++
			r.Saw(f)
			h := la.HeldAt(f, ss)
			_, held := h[lock]
			x.Check("submit@"+f.Name(), ss.Pos(), h == nil || held, "", "a configuration is handed to the debouncer after the session manager's lock was released: a newer configuration, built and submitted by another handler in between, is then replaced by this older one - the last configuration applied is not the most recently submitted")
			return true
		})
	}
	x.Check("submit-sites", 0, n >= 4, "", "fewer submit sites than on the confirmed tree")
}
