package rules

import (
	"go/ast"
	"go/token"
	"go/types"
	"strings"

	"verif/mlbcheck/chk"
)

func init() {
	register(&Prop{
		ID: "C13",
		Explanation: "Decided (on all paths): the ARP responder replies only to ARP *requests* addressed to broadcast or to its own MAC for which the announcer " +
			"says dropReasonNone for the requested address on the responder's own interface, and replies with its own MAC for that address; the NDP responder " +
			"advertises only for neighbor solicitations carrying a source link-layer option under the same announcer verdict (REPLY-GUARDS); " +
			"Announce.shouldAnnounce says None only for an advertisement whose address equals the requested one and whose interface set covers the interface, " +
			"after examining every advertisement of every service (no early negative answer), and matchInterface is true only for all-interfaces or a listed " +
			"interface (VERDICT); in SetBalancer an advertisement is appended exactly on the paths that increment the address's reference count once, the " +
			"override of an already announced address writes the stored element and does neither; DeleteBalancer / DeleteBalancerIP decrement once per removed " +
			"advertisement; NDP groups are joined on 0->1 and left on 1->0 (REFCOUNT); unsolicited announcements are sent only while the reference count is " +
			"positive and only on covered interfaces (GRATUITOUS); all announcer state is accessed under its RWMutex and the spam channel is never written under " +
			"it (LOCK-GUARDED, LOCK-NOBLOCK, LOCK-LEAK as in C20, restricted to layer2).",
		NotDecided: "Packet-level behaviour of the arp/ndp libraries; an ndpResponder created after an address was announced does not join its multicast group " +
			"(environmental, noted in DESIGN.md); timing of the spam loop.",
		Run: runC13,
		Mutants: []Mutant{
			{Name: "short-read-ends-the-responder", File: "internal/layer2/arp.go",
				Old: "\t\tif errors.Is(err, io.EOF) {\n\t\t\treturn dropReasonClosed", New: "\t\tif errors.Is(err, io.EOF) || errors.Is(err, io.ErrUnexpectedEOF) {\n\t\t\treturn dropReasonClosed", Expect: "KEEPS-SERVING"},
			{Name: "arp-probes-dropped", File: "internal/layer2/arp.go",
				Old: "\t// Ignore ARP requests that the announcer tells us to ignore.\n", New: "\tif pkt.SenderIP.IsUnspecified() {\n\t\treturn dropReasonError\n\t}\n\t// Ignore ARP requests that the announcer tells us to ignore.\n", Expect: "no-other-drop"},
			{Name: "entry-dropped-by-service-count", File: "internal/layer2/announcer.go",
				Old: "\t\tif len(advs) == 1 {\n\t\t\tdelete(a.ips, name)", New: "\t\tif len(a.ips) == 1 {\n\t\t\tdelete(a.ips, name)", Expect: "entry-dropped-only-with-last-advertisement"},
			{Name: "group-counter-read-by-address", File: "internal/layer2/ndp.go",
				Old: "\tn.solicitedNodeGroups[group.String()]--\n\tif n.solicitedNodeGroups[group.String()] == 0 {",
				New: "\tn.solicitedNodeGroups[group.String()]--\n\tif n.solicitedNodeGroups[ip.String()] == 0 {", Expect: "GROUP-REFCOUNT"},
			{Name: "shared-address-exit-before-removal", File: "internal/layer2/announcer.go",
				Old: "\t\tif len(advs) == 1 {\n\t\t\tdelete(a.ips, name)", New: "\t\tif a.ipRefcnt[cur.ip.String()] > 1 {\n\t\t\ta.ipRefcnt[cur.ip.String()]--\n\t\t\treturn true\n\t\t}\n\t\tif len(advs) == 1 {\n\t\t\tdelete(a.ips, name)", Expect: "REFCOUNT"},
			{Name: "answer-arp-replies-too", File: "internal/layer2/arp.go",
				Old: "\tif pkt.Operation != arp.OperationRequest {\n\t\treturn dropReasonARPReply\n\t}\n", New: "", Expect: "REPLY-GUARDS"},
			{Name: "refcount-on-override-path", File: "internal/layer2/announcer.go",
				Old: "\t\t\t\ta.ips[name][i] = adv // override in case the interface list changed\n\t\t\t\treturn", New: "\t\t\t\ta.ips[name][i] = adv // override in case the interface list changed\n\t\t\t\ta.ipRefcnt[adv.ip.String()]++\n\t\t\t\treturn", Expect: "REFCOUNT"},
			{Name: "read-ips-without-lock", File: "internal/layer2/announcer.go",
				Old: "func (a *Announce) AnnounceName(name string) bool {\n\ta.RLock()\n\tdefer a.RUnlock()\n", New: "func (a *Announce) AnnounceName(name string) bool {\n", Expect: "LOCK-GUARDED"},
			{Name: "early-negative-verdict", File: "internal/layer2/announcer.go",
				Old: "\t\t\t\tipFound = true\n\t\t\t\tif i.matchInterface(intf) {\n\t\t\t\t\treturn dropReasonNone\n\t\t\t\t}\n", New: "\t\t\t\tif i.matchInterface(intf) {\n\t\t\t\t\treturn dropReasonNone\n\t\t\t\t}\n\t\t\t\treturn dropReasonNotMatchInterface\n", Expect: "VERDICT"},
			{Name: "override-writes-range-copy", File: "internal/layer2/announcer.go",
				Old: "\t\tfor i := range ipAdvertisements {\n\t\t\tif adv.ip.Equal(a.ips[name][i].ip) {\n\t\t\t\ta.ips[name][i] = adv // override in case the interface list changed\n\t\t\t\treturn\n\t\t\t}\n\t\t}",
				New: "\t\tfor _, cur := range ipAdvertisements {\n\t\t\tif adv.ip.Equal(cur.ip) {\n\t\t\t\tcur = adv // override in case the interface list changed\n\t\t\t\t_ = cur\n\t\t\t\treturn\n\t\t\t}\n\t\t}", Expect: "REFCOUNT"},
			{Name: "gratuitous-ignores-refcount", File: "internal/layer2/announcer.go",
				Old: "\tif a.ipRefcnt[ip.String()] <= 0 {\n\t\t// We've lost control of the IP, someone else is\n\t\t// doing announcements.\n\t\treturn\n\t}\n", New: "", Expect: "GRATUITOUS"},
			{Name: "destination-check-dropped", File: "internal/layer2/arp.go",
				Old: "\tif !bytes.Equal(eth.Destination, ethernet.Broadcast) && !bytes.Equal(eth.Destination, a.hardwareAddr) {", New: "\tif !bytes.Equal(eth.Destination, ethernet.Broadcast) && !bytes.Equal(eth.Destination, a.hardwareAddr) && len(eth.Destination) != 6 {", Expect: "REPLY-GUARDS"},
			{Name: "delete-decrements-only-first", File: "internal/layer2/announcer.go",
				Old: "\tfor _, cur := range advs {\n\t\ta.ipRefcnt[cur.ip.String()]--\n\t\tif a.ipRefcnt[cur.ip.String()] > 0 {\n\t\t\t// Another service is still using this IP, don't touch any\n\t\t\t// more things.\n\t\t\tcontinue\n\t\t}", New: "\tfor _, cur := range advs {\n\t\ta.ipRefcnt[cur.ip.String()]--\n\t\tif a.ipRefcnt[cur.ip.String()] > 0 {\n\t\t\t// Another service is still using this IP, don't touch any\n\t\t\t// more things.\n\t\t\tbreak\n\t\t}", Expect: "REFCOUNT"},
			{Name: "matchinterface-empty-set-matches", File: "internal/layer2/ip_advertisement.go",
				Old: "\treturn i.interfaces.Has(intf)\n}", New: "\treturn i.interfaces.Has(intf) || i.interfaces.Len() == 0\n}", Expect: "VERDICT"},
			{Name: "ndp-answers-without-source-ll", File: "internal/layer2/ndp.go",
				Old: "\tif nsLLAddr == nil {\n\t\treturn dropReasonNoSourceLL\n\t}\n", New: "\t_ = nsLLAddr\n", Expect: "REPLY-GUARDS"},
			{Name: "ndp-leave-group-while-watched", File: "internal/layer2/ndp.go",
				Old: "\tn.solicitedNodeGroups[group.String()]--\n\tif n.solicitedNodeGroups[group.String()] == 0 {", New: "\tn.solicitedNodeGroups[group.String()]--\n\tif n.solicitedNodeGroups[group.String()] <= 1 {", Expect: "REFCOUNT"},
		},
	})
}

func runC13(p *chk.Prog, r *chk.Report) {
	c13SpamScope(p, r)
	c13Reply(p, r)
	c13KeepsServing(p, r)
	c13Verdict(p, r)
	c13Refcount(p, r)
	c13Gratuitous(p, r)
	c13Groups(p, r)
	x := r.Rule("LOCK-GUARDED", "C locks (must-hold lockset dataflow)", "every access to Announce.{nodeInterfaces,arps,ndps,ips,ipRefcnt} and ndpResponder.solicitedNodeGroups is made with Announce's RWMutex held (write mode for writes)", 25)
	guardedRule(x, p, []guardRow{guardTable[2], guardTable[3]})
	y := r.Rule("LOCK-NOBLOCK", "C locks (defers in LIFO order)", "Announce.doSpam (the only sender on spamCh) never executes while the announcer lock is held; gratuitous(), which takes the lock itself, is never entered with it held", 3)
	lock := p.LockField("internal/layer2", "Announce", "")
	if lock == nil {
		y.Undecided("anchor:Announce-lock", "UNDECIDED anchor missing")
		return
	}
	sites, bad := callsHeld(p, "internal/layer2", lock, func(f *chk.Fn, c *ast.CallExpr) bool { return f.MatchNew("RECV.doSpam(ETC)", c) != nil })
	y.Check("Announce.doSpam:never-under-lock", firstPos(bad), len(bad) == 0 && sites >= 1, "", "doSpam can run while the announcer lock is held (the code comment on spamCh forbids it: deadlock with the spam loop when the channel is full)")
	la := locksOf(p)
	for _, name := range []string{"doSpam", "gratuitous", "shouldAnnounce"} {
		if f := p.LookupFunc("internal/layer2", "Announce", name); f != nil {
			_, h := la.Entry(f)[lock]
			y.Check("Announce."+name+":entered-without-lock", f.Pos(), !h, "", name+" is entered with the announcer lock already held")
		}
	}
}

func c13Reply(p *chk.Prog, r *chk.Report) {
	x := r.Rule("REPLY-GUARDS", "B path", "arpResponder.processRequest calls conn.Reply(pkt, a.hardwareAddr, pkt.TargetIP) only behind pkt.Operation == arp.OperationRequest, the false edge of `!Equal(eth.Destination, Broadcast) && !Equal(eth.Destination, a.hardwareAddr)` and a.announce(pkt.TargetIP, a.intf) == dropReasonNone; ndpResponder.processRequest calls n.advertise(src, ns.TargetAddress, false) only for a *ndp.NeighborSolicitation with a source link-layer address under n.announce(ns.TargetAddress, n.intf) == dropReasonNone", 7)
	f := need(x, p, "internal/layer2", "arpResponder", "processRequest")
	if f != nil {
		g := f.Graph()
		replies := g.FindPat("RECV.conn.Reply(PKT, RECV.hardwareAddr, PKT.TargetIP)", chk.H("RECV", isRecv(f)))
		x.Check("arp:reply-site", f.Pos(), len(replies) == 1, "", "expected one conn.Reply(pkt, own MAC, requested address)")
		for _, s := range replies {
			pkt := s.Node.(*ast.CallExpr).Args[0]
			same := func(e ast.Expr) bool { return f.SameExpr(e, pkt) }
			verdict := definedBy(g, "RECV.announce(PKT.TargetIP, RECV.intf)", chk.H("PKT", same))
			x.Check("arp:reply:only-requests", s.Pos(), g.Dominated(s, g.GPat(false, "PKT.Operation != arp.OperationRequest", chk.H("PKT", same))), "", "ARP packets that are not requests (e.g. replies) can be answered")
			x.Check("arp:reply:addressed-to-us", s.Pos(), g.Dominated(s, g.GPat(false, "!bytes.Equal(ETH.Destination, ethernet.Broadcast) && !bytes.Equal(ETH.Destination, RECV.hardwareAddr)")), "", "requests addressed neither to broadcast nor to this node can be answered")
			x.Check("arp:reply:announcer-verdict", s.Pos(), g.Dominated(s, g.GPat(false, "V != dropReasonNone", chk.H("V", verdict))), "", "a request can be answered although the announcer did not say dropReasonNone for that address on this interface")
			// the converse: a request is left unanswered only for one of those three reasons or a failed read - whoever
			// asks (an address probe with sender 0.0.0.0, a gratuitous request, ...) gets the owner's answer
			readFailed := g.GErrNil(false, "RECV.conn.Read()", chk.H("RECV", isRecv(f)))
			notRequest := g.GPat(true, "PKT.Operation != arp.OperationRequest", chk.H("PKT", same))
			notForUs := g.GPat(true, "!bytes.Equal(ETH.Destination, ethernet.Broadcast) && !bytes.Equal(ETH.Destination, RECV.hardwareAddr)")
			// decided on what is returned (an answer handed over through result variables of an expanded helper is
			// followed back): a constant reason stands under the test that justifies it; anything else is the announcer's
			// own verdict; dropReasonNone is the answer after the reply
			okDrop, at := true, f.Pos()
			nRet := 0
			for _, rt := range g.Returns() {
				res := retResults(rt)
				if len(res) != 1 {
					continue
				}
				for _, form := range valueForms(g, f, res[0], rt, 4) {
					nRet++
					e := form.E
					switch {
					case form.At.B != nil && g.Dominated(form.At, readFailed):
						// nothing was read: whatever reason is reported (worked out by a helper, say), no request is dropped
					case e == nil:
						okDrop, at = false, rt.Pos()
					case verdict(e):
					case isObjNamed(f, "internal/layer2.dropReasonNone")(e):
					case isObjNamed(f, "internal/layer2.dropReasonClosed")(e), isObjNamed(f, "internal/layer2.dropReasonError")(e):
						if !g.Dominated(form.At, readFailed) {
							okDrop, at = false, form.At.Pos()
						}
					case isObjNamed(f, "internal/layer2.dropReasonARPReply")(e):
						if !g.Dominated(form.At, notRequest) {
							okDrop, at = false, form.At.Pos()
						}
					case isObjNamed(f, "internal/layer2.dropReasonEthernetDestination")(e):
						if !g.Dominated(form.At, notForUs) {
							okDrop, at = false, form.At.Pos()
						}
					default:
						okDrop, at = false, form.At.Pos()
					}
				}
			}
			x.Check("arp:no-other-drop", at, okDrop && nRet >= 5, "", "a well-formed request for an address the announcer answers for can be dropped for a further reason (a filter on the sender, say): address probes and duplicate-address detection of the clients go unanswered, and a second owner of the address is not noticed")
		}
	}
	n := need(x, p, "internal/layer2", "ndpResponder", "processRequest")
	if n != nil {
		g := n.Graph()
		advs := g.FindPat("RECV.advertise(SRC, NS.TargetAddress, false)", chk.H("RECV", isRecv(n)))
		nsOf, dstOf := map[ast.Node]ast.Expr{}, map[ast.Node]ast.Expr{}
		for _, s := range advs {
			call := s.Node.(*ast.CallExpr)
			nsOf[s.Node], dstOf[s.Node] = call.Args[1].(*ast.SelectorExpr).X, call.Args[0]
		}
		if len(advs) == 0 {
			// the solicited advertisement built and written in place (the sending helper specialised and expanded):
			// conn.WriteTo(m, nil, dst) of a NeighborAdvertisement for NS.TargetAddress marked Solicited and not Override
			for _, s := range g.FindPat("RECV.conn.WriteTo(M, nil, DST)", chk.H("RECV", isRecv(n))) {
				call := s.Node.(*ast.CallExpr)
				lit := throughLocals(g, call.Args[0])
				if u, isU := ast.Unparen(lit).(*ast.UnaryExpr); isU && u.Op == token.AND {
					lit = u.X
				}
				cl, isCl := ast.Unparen(lit).(*ast.CompositeLit)
				if !isCl || !strings.HasSuffix(types.TypeString(n.Info().TypeOf(cl), nil), "ndp.NeighborAdvertisement") {
					continue
				}
				var ns ast.Expr
				solicited, override := false, false
				for _, el := range cl.Elts {
					kv, isKV := el.(*ast.KeyValueExpr)
					if !isKV {
						continue
					}
					switch kv.Key.(*ast.Ident).Name {
					case "TargetAddress":
						if sel, isSel := ast.Unparen(kv.Value).(*ast.SelectorExpr); isSel && sel.Sel.Name == "TargetAddress" {
							ns = sel.X
						}
					case "Solicited":
						solicited = n.IsConstBool(kv.Value, true)
					case "Override":
						override = !n.IsConstBool(kv.Value, false)
					}
				}
				// fields set after the literal, before the write
				if mid, isId := ast.Unparen(call.Args[0]).(*ast.Ident); isId {
					for _, d := range assignsToField(n, n.ObjOf(mid)) {
						switch d.field {
						case "Solicited":
							solicited = n.IsConstBool(d.value, true)
						case "Override":
							override = !n.IsConstBool(d.value, false)
						}
					}
				}
				if ns != nil && solicited && !override {
					nsOf[s.Node], dstOf[s.Node] = ns, call.Args[2]
					advs = append(advs, s)
				}
			}
		}
		x.Check("ndp:advertise-site", n.Pos(), len(advs) == 1, "", "expected one solicited advertise(src, target, false)")
		for _, s := range advs {
			ns := nsOf[s.Node]
			same := func(e ast.Expr) bool { return n.SameExpr(e, ns) }
			verdict := definedBy(g, "RECV.announce(NS.TargetAddress, RECV.intf)", chk.H("NS", same))
			x.Check("ndp:reply:only-solicitations", s.Pos(), definedBy(g, "MSG.(*ndp.NeighborSolicitation)")(ns) && g.Dominated(s, chk.GBool(true, func(e ast.Expr) bool {
				id, ok := ast.Unparen(e).(*ast.Ident)
				if !ok {
					return false
				}
				rhs, idx := g.DefOf(id, g.FactSite(id))
				_, isTA := ast.Unparen(rhs).(*ast.TypeAssertExpr)
				return rhs != nil && idx == 1 && isTA
			})), "", "messages that are not neighbor solicitations can be answered")
			x.Check("ndp:reply:source-link-layer", s.Pos(), g.Dominated(s, g.GPat(false, "LL == nil", chk.H("LL", func(e ast.Expr) bool {
				t := n.Info().TypeOf(e)
				return t != nil && t.String() == "net.HardwareAddr"
			}))), "", "a solicitation without a source link-layer address option can be answered")
			x.Check("ndp:reply:announcer-verdict", s.Pos(), g.Dominated(s, g.GPat(false, "V != dropReasonNone", chk.H("V", verdict))), "", "a solicitation can be answered although the announcer did not say dropReasonNone for that address on this interface")
			x.Check("ndp:reply:to-the-solicitor", s.Pos(), definedBy(g, "RECV.conn.ReadFrom()")(dstOf[s.Node]), "", "the advertisement is not sent to the solicitor")
		}
	}
}

func c13Verdict(p *chk.Prog, r *chk.Report) {
	x := r.Rule("VERDICT", "B path", "Announce.shouldAnnounce returns dropReasonNone only behind i.ip.Equal(ip) and i.matchInterface(intf) for an advertisement i of some service; every other return is reached only after the loops over all services and all their advertisements ran to exhaustion; IPAdvertisement.matchInterface returns true only behind allInterfaces, otherwise interfaces.Has(intf)", 5)
	f := need(x, p, "internal/layer2", "Announce", "shouldAnnounce")
	if f != nil {
		g := f.Graph()
		ip, intf := isParamIdx(f, 0), isParamIdx(f, 1)
		var outer, inner *ast.RangeStmt
		for _, rs := range f.RangeLoops(func(e ast.Expr) bool { return f.MatchWith("RECV.ips", e, chk.H("RECV", isRecv(f))) != nil }) {
			outer = rs
		}
		if outer != nil {
			for _, rs := range f.RangeLoops(rangeVal(f, outer)) {
				inner = rs
			}
		}
		if outer == nil || inner == nil {
			x.Fail("shouldAnnounce:loops", f.Pos(), "no nested loops over all services and their advertisements")
		} else {
			adv := rangeVal(f, inner)
			none := isObjNamed(f, "internal/layer2.dropReasonNone")
			n := 0
			outerHead, _, _ := g.RangeBlocks(outer)
			exhaust := func(b *cfgBlock, k int) bool { return b == outerHead && k == 1 }
			for _, rt := range g.Returns() {
				rr := retResults(rt)
				if len(rr) != 1 {
					continue
				}
				// what this return can yield: the expression itself, or (single exit) the values assigned to the result
				// variable, each judged where it was assigned
				for _, form := range resultForms(g, f, rt, 0) {
					if form.E != nil && none(form.E) {
						n++
						at := form.At
						ok := g.Dominated(at, g.GPat(true, "I.ip.Equal(IP)", chk.H("I", adv), chk.H("IP", ip))) && g.Dominated(at, c13CoversInterface(g, adv, intf))
						x.Check("shouldAnnounce:none-needs-matching-advertisement", at.Pos(), ok, "", "a request can be accepted without an advertisement holding that address on that interface")
					}
				}
				// a negative verdict needs the full scan: on the paths that reach this return without exhausting the
				// outer loop the value returned is the accepting one
				okNeg := true
				if id, isId := ast.Unparen(rr[0]).(*ast.Ident); isId && !none(rr[0]) && f.LocalDef(id) == nil {
					if _, isVar := f.ObjOf(id).(*types.Var); isVar {
						defs, entry := g.ReachingDefsAvoiding(id, rt, exhaust)
						if entry {
							okNeg = false
						}
						onlyNone := func(defs []ast.Node) bool {
							for _, d := range defs {
								as, isAs := d.(*ast.AssignStmt)
								if !isAs || len(as.Lhs) != 1 || len(as.Rhs) != 1 || !none(as.Rhs[0]) {
									return false
								}
							}
							return true
						}
						okNeg = okNeg && onlyNone(defs)
						// the advertisements of one service are left early (break, continue of the outer loop) only with
						// the accepting value
						innerHead, _, _ := g.RangeBlocks(inner)
						for _, b := range g.Blocks {
							if chk.BlockOutside(b, inner.Body) {
								continue
							}
							for _, sb := range b.Succs {
								if sb == innerHead || !chk.BlockOutside(sb, inner.Body) {
									continue
								}
								d2, entry2 := g.ReachingDefsAvoiding(id, chk.Site{G: g, B: b, I: len(b.Nodes)}, nil)
								if entry2 || !onlyNone(d2) {
									okNeg = false
								}
							}
						}
						x.Check("shouldAnnounce:negative-only-after-full-scan#"+types.ExprString(rr[0]), rt.Pos(), okNeg, "", "a negative verdict is possible before every advertisement of every service was examined (another service may hold the address on this interface)")
						continue
					}
				}
				if !none(rr[0]) {
					x.Check("shouldAnnounce:negative-only-after-full-scan#"+types.ExprString(rr[0]), rt.Pos(), g.AfterLoop(rt, outer) && !loopHasBreak(g, outer) && !loopHasBreak(g, inner), "", "a negative verdict is possible before every advertisement of every service was examined (another service may hold the address on this interface)")
				}
			}
			x.Check("shouldAnnounce:has-none", f.Pos(), n >= 1, "", "expected an accepting return")
		}
	}
	m := p.LookupFunc("internal/layer2", "IPAdvertisement", "matchInterface")
	if m == nil {
		// folded into its users: "all interfaces, or listed" is decided where it is spelt (VERDICT / GRATUITOUS above)
		x.OK("matchInterface:all-or-listed", 0, "decided in place at the users of the advertisement")
	}
	if m != nil {
		g := m.Graph()
		// the result is exactly `i != nil && (i.allInterfaces || i.interfaces.Has(intf))`, however it is spelt
		spec := chk.GAnd(g.GPat(false, "RECV == nil", chk.H("RECV", isRecv(m))),
			chk.GOr(g.GPat(true, "RECV.allInterfaces", chk.H("RECV", isRecv(m))),
				g.GPat(true, "RECV.interfaces.Has(IF)", chk.H("RECV", isRecv(m)), chk.H("IF", isParamIdx(m, 0)))))
		why := g.BoolResultIs(spec)
		ok, n := why == "", 2
		x.Check("matchInterface:all-or-listed", m.Pos(), ok && n == 2, "", "matchInterface can be true for an interface that is not listed although the advertisement is not for all interfaces")
	}
}

func c13Refcount(p *chk.Prog, r *chk.Report) {
	x := r.Rule("REFCOUNT", "B path", "in Announce.SetBalancer: the paths that append adv to a.ips[name] are exactly the paths that execute a.ipRefcnt[adv.ip.String()]++ once; the override path stores into the element a.ips[name][i] itself and returns before both; NDP Watch is reached only behind refcount <= 1; DeleteBalancer decrements once for every removed advertisement (no break) and Unwatches only behind refcount <= 0; DeleteBalancerIP removes exactly the matching advertisement, decrements once, Unwatches only at zero; ndpResponder.Watch joins the group only when its count is 0 and always increments; Unwatch always decrements and leaves exactly at 0", 10)
	f := need(x, p, "internal/layer2", "Announce", "SetBalancer")
	if f != nil {
		g := f.Graph()
		name, adv := isParamIdx(f, 0), isParamIdx(f, 1)
		app := f.IsAssignPat("RECV.ips[N]", "append(RECV.ips[N], A)", chk.H("N", name), chk.H("A", adv))
		inc := isIncDec(f, "RECV.ipRefcnt[A.ip.String()]", token.INC, chk.H("A", adv))
		apps, incs := g.Find(app), g.Find(inc)
		x.Check("SetBalancer:append-and-increment-sites", f.Pos(), len(apps) == 1 && len(incs) == 1, "", "expected one append to a.ips[name] and one increment of the address's reference count")
		if len(apps) == 1 && len(incs) == 1 {
			// every path through the append passes the increment before exit, and vice versa
			// the two go together, in either order: whoever comes first is always followed by the other, whoever comes
			// second is only reached through the first
			w1 := g.MustPass(apps[0], nil, true, inc)
			w2 := g.MustPass(chk.Site{}, func(n ast.Node) bool { return n == incs[0].Top }, false, app)
			if w1.Found || w2.Found {
				w1 = g.MustPass(incs[0], nil, true, app)
				w2 = g.MustPass(chk.Site{}, func(n ast.Node) bool { return n == apps[0].Top }, false, inc)
			}
			x.Check("SetBalancer:append-iff-increment", apps[0].Pos(), !w1.Found && !w2.Found, "", "an advertisement can be stored without counting the address, or the address counted without storing the advertisement")
			// at most once: no loop contains them
			x.Check("SetBalancer:counted-once", incs[0].Pos(), f.LoopOf(incs[0].Node) == nil && f.LoopOf(apps[0].Node) == nil, "", "the reference count can be incremented more than once per call")
		}
		// override path
		ov := g.Find(f.IsAssignPat("RECV.ips[N][I]", "A", chk.H("N", name), chk.H("A", adv)))
		okOv := len(ov) == 1
		if len(ov) == 0 {
			// the stored element replaced through a pointer to it: p := &L[i] with L the service's list (a.ips[name]
			// itself or the slice value read from it, which shares its elements); *p = adv
			isList := func(e ast.Expr) bool {
				return f.MatchWith("RECV.ips[N]", e, chk.H("N", name)) != nil || definedBy(g, "RECV.ips[N]", chk.H("N", name))(e)
			}
			ovp := g.Find(func(n ast.Node) bool {
				as, isAs := n.(*ast.AssignStmt)
				if !isAs || len(as.Lhs) != 1 || len(as.Rhs) != 1 || !adv(as.Rhs[0]) {
					return false
				}
				st, isStar := ast.Unparen(as.Lhs[0]).(*ast.StarExpr)
				return isStar && definedBy(g, "&L[I]", chk.H("L", isList))(st.X)
			})
			if len(ovp) == 1 {
				ptr := ovp[0].Node.(*ast.AssignStmt).Lhs[0].(*ast.StarExpr).X
				samePtr := func(e ast.Expr) bool { return f.SameExpr(e, ptr) }
				okp := g.Dominated(ovp[0], chk.GAnyOf(g.GPat(true, "A.ip.Equal(EL.ip)", chk.H("A", adv), chk.H("EL", samePtr)), g.GPat(true, "EL.ip.Equal(A.ip)", chk.H("A", adv), chk.H("EL", samePtr))))
				w := (&chk.Walk{G: g, From: ovp[0], Hit: func(n ast.Node) bool { return app(n) || inc(n) }}).Run()
				x.Check("SetBalancer:override-updates-stored-element", f.Pos(), okp && !w.Found, "", "re-announcing an address the service already holds does not replace the stored advertisement (a changed interface set is ignored) or is counted again")
				okOv = true
				ov = nil
			}
		}
		if okOv && len(ov) == 1 {
			stored := elementOf(f, func(e ast.Expr) bool { return f.MatchWith("RECV.ips[N]", e, chk.H("N", name)) != nil })
			sameIP := func(el func(ast.Expr) bool) chk.Guard {
				return chk.GAnyOf(g.GPat(true, "A.ip.Equal(EL.ip)", chk.H("A", adv), chk.H("EL", el)), g.GPat(true, "EL.ip.Equal(A.ip)", chk.H("A", adv), chk.H("EL", el)))
			}
			okOv = g.Dominated(ov[0], sameIP(stored))
			if !okOv {
				// the element found by a search for the same address (slices.IndexFunc + `idx >= 0`)
				ixe := ov[0].Node.(*ast.AssignStmt).Lhs[0].(*ast.IndexExpr).Index
				okOv = foundIndex(f, g, ixe, ov[0], func(e ast.Expr) bool { return f.MatchWith("RECV.ips[N]", e, chk.H("N", name)) != nil }, sameIP)
			}
			// from the override, the function returns without append / increment
			w := (&chk.Walk{G: g, From: ov[0], Hit: func(n ast.Node) bool { return app(n) || inc(n) }}).Run()
			okOv = okOv && !w.Found
			// the index is the loop variable of a loop over the service's advertisements
		}
		if len(ov) == 1 || !okOv {
			x.Check("SetBalancer:override-updates-stored-element", f.Pos(), okOv, "", "re-announcing an address the service already holds does not replace the stored advertisement (a changed interface set is ignored) or is counted again")
		}
		// append only when no equal address is stored: the append is after the loop
		if len(apps) == 1 {
			okScan := false
			for _, rs := range f.RangeLoops(chk.Any) {
				if g.AfterLoop(apps[0], rs) || !chk.InBody(rs, apps[0].Node) {
					okScan = true
				}
			}
			x.Check("SetBalancer:append-after-duplicate-scan", apps[0].Pos(), okScan, "", "the advertisement is appended before the scan for an already announced address")
		}
		for _, c := range g.FindPat("C.Watch(A.ip)", chk.H("A", adv)) {
			x.Check("SetBalancer:watch-only-first-user", c.Pos(), g.Dominated(c, g.GPat(false, "RECV.ipRefcnt[A.ip.String()] > 1", chk.H("A", adv))), "", "the NDP group is joined again although the address is already in use")
		}
	}
	d := need(x, p, "internal/layer2", "Announce", "DeleteBalancer")
	if d != nil {
		g := d.Graph()
		name := isParamIdx(d, 0)
		advs := definedBy(g, "RECV.ips[N]", chk.H("N", name))
		ok := false
		for _, rs := range d.RangeLoops(advs) {
			cur := rangeVal(d, rs)
			dec := isIncDec(d, "RECV.ipRefcnt[C.ip.String()]", token.DEC, chk.H("C", cur))
			ok = !loopSkipsWithout(g, rs, dec, chk.NoGuard) && !loopLeavesEarly(d, g, rs) && len(g.Find(dec)) == 1
			for _, c := range g.FindPat("CL.Unwatch(C.ip)", chk.H("C", cur)) {
				x.Check("DeleteBalancer:unwatch-only-last-user", c.Pos(), g.Dominated(c, g.GPat(false, "RECV.ipRefcnt[C.ip.String()] > 0", chk.H("C", cur))), "", "the NDP group is left while another service still uses the address")
			}
		}
		x.Check("DeleteBalancer:decrement-every-removed", d.Pos(), ok, "", "withdrawing a service does not decrement the reference count of every address it announced exactly once")
		dl := g.FindPat("delete(RECV.ips, N)", chk.H("N", name))
		x.Check("DeleteBalancer:forgets-service", d.Pos(), len(dl) == 1, "", "the service's advertisements are not removed")
	}
	di := need(x, p, "internal/layer2", "Announce", "DeleteBalancerIP")
	if di != nil {
		g := di.Graph()
		name, ip := isParamIdx(di, 0), isParamIdx(di, 1)
		advs := definedBy(g, "RECV.ips[N]", chk.H("N", name))
		ok := false
		for _, rs := range di.RangeLoops(advs) {
			cur := rangeVal(di, rs)
			match := g.GPat(false, "!C.ip.Equal(IP)", chk.H("C", cur), chk.H("IP", ip))
			decs := g.Find(isIncDec(di, "RECV.ipRefcnt[C.ip.String()]", token.DEC, chk.H("C", cur)))
			ok = len(decs) == 1 && g.Dominated(decs[0], match)
			if ok {
				// after the decrement the loop is left (return): at most one removal
				w := (&chk.Walk{G: g, From: decs[0], Hit: func(n ast.Node) bool { return n == decs[0].Top }}).Run()
				ok = !w.Found
				// the stored list is replaced without the element, or the service forgotten
				rm := append(g.FindPat("delete(RECV.ips, N)", chk.H("N", name)), g.Find(di.IsAssignPat("RECV.ips[N]", "R", chk.H("N", name)))...)
				ok = ok && len(rm) == 2
				for _, s := range rm {
					if !g.Dominated(s, match) {
						ok = false
					}
				}
			}
			for _, c := range g.FindPat("CL.Unwatch(C.ip)", chk.H("C", cur)) {
				x.Check("DeleteBalancerIP:unwatch-only-last-user", c.Pos(), g.Dominated(c, g.GPat(false, "RECV.ipRefcnt[C.ip.String()] > 0", chk.H("C", cur))), "", "the NDP group is left while another service still uses the address")
			}
		}
		if !ok {
			// the search form: cur := advs[i] with i the index found for the address (slices.IndexFunc + `i >= 0`)
			sameIP := func(el func(ast.Expr) bool) chk.Guard {
				return chk.GAnyOf(g.GPat(true, "EL.ip.Equal(IP)", chk.H("EL", el), chk.H("IP", ip)), g.GPat(true, "IP.Equal(EL.ip)", chk.H("EL", el), chk.H("IP", ip)))
			}
			var idx ast.Expr
			cur := func(e ast.Expr) bool {
				ix, isIx := ast.Unparen(di.Resolve(e)).(*ast.IndexExpr)
				if !isIx || !(advs(ix.X) || advs(di.Resolve(ix.X))) {
					return false
				}
				if _, isId := ast.Unparen(e).(*ast.Ident); isId && idx == nil {
					idx = ix.Index
				}
				return true
			}
			found := func(s chk.Site) bool { return idx != nil && foundIndex(di, g, idx, s, advs, sameIP) }
			decs := g.Find(isIncDec(di, "RECV.ipRefcnt[C.ip.String()]", token.DEC, chk.H("C", cur)))
			if len(decs) == 1 && di.LoopOf(decs[0].Node) == nil && found(decs[0]) {
				rm := append(g.FindPat("delete(RECV.ips, N)", chk.H("N", name)), g.Find(di.IsAssignPat("RECV.ips[N]", "R", chk.H("N", name)))...)
				ok = len(rm) == 2
				for _, s := range rm {
					if !found(s) || di.LoopOf(s.Node) != nil {
						ok = false
					}
				}
				for _, c := range g.FindPat("CL.Unwatch(C.ip)", chk.H("C", cur)) {
					x.Check("DeleteBalancerIP:unwatch-only-last-user", c.Pos(), g.Dominated(c, g.GPat(false, "RECV.ipRefcnt[C.ip.String()] > 0", chk.H("C", cur))), "", "the NDP group is left while another service still uses the address")
				}
			}
		}
		// whoever is told "withdrawn" (true) has had the advertisement removed from the service's list first: an early
		// "another service still uses the address" exit must come after the removal, or the withdrawn service's
		// advertisement - with its old interface selection - keeps answering, and a later DeleteBalancer counts it again
		{
			isRm := func(n ast.Node) bool {
				return di.ContainsPat("delete(RECV.ips, N)", chk.H("N", name))(n) || di.IsAssignPat("RECV.ips[N]", "R", chk.H("N", name))(n)
			}
			w := g.MustPass(chk.Site{}, func(n ast.Node) bool {
				rt, isRet := n.(*ast.ReturnStmt)
				return isRet && len(rt.Results) == 1 && di.IsConstBool(rt.Results[0], true)
			}, false, isRm)
			x.Check("DeleteBalancerIP:true-means-removed", posOf(w, di), !w.Found, "", "DeleteBalancerIP can report the address withdrawn while the service's advertisement for it is still stored: "+describe(di, w))
		}
		// the service's whole entry goes only with its last advertisement: the count that decides is the one of this
		// service's advertisements, nothing else (the other addresses of the service stay announced)
		for _, s := range g.FindPat("delete(RECV.ips, N)", chk.H("N", name)) {
			last := chk.GSame(g.GPat(true, "len(A) == 1", chk.H("A", advs)), g.GPat(true, "len(A) <= 1", chk.H("A", advs)), g.GPat(false, "len(A) > 1", chk.H("A", advs)),
				g.GPat(true, "len(A) < 2", chk.H("A", advs)), g.GPat(false, "len(A) >= 2", chk.H("A", advs)), g.GPat(false, "len(A) != 1", chk.H("A", advs)),
				g.GPat(true, "len(RECV.ips[N]) == 1", chk.H("N", name)))
			// ... or the list that remains after the removal is empty
			rest := chk.GBool(true, func(e ast.Expr) bool {
				b := di.MatchNew("len(R) == 0", e)
				if b == nil {
					return false
				}
				return len(g.Find(di.IsAssignPat("RECV.ips[N]", "R", chk.H("N", name), chk.H("R", func(x ast.Expr) bool { return di.SameExpr(x, b["R"]) })))) > 0
			})
			x.Check("DeleteBalancerIP:entry-dropped-only-with-last-advertisement", s.Pos(), g.Dominated(s, chk.GOr(last, rest)), "", "the service's whole entry is dropped although it holds other advertisements (the test is not on the number of this service's advertisements): the node stops answering for addresses the service still announces")
		}
		x.Check("DeleteBalancerIP:removes-and-decrements-once", di.Pos(), ok, "", "withdrawing one address of a service does not remove exactly that advertisement and decrement its reference count once")
	}
	w := need(x, p, "internal/layer2", "ndpResponder", "Watch")
	if w != nil {
		g := w.Graph()
		for _, c := range g.FindPat("RECV.conn.JoinGroup(G)") {
			x.Check("ndp.Watch:join-on-first", c.Pos(), g.Dominated(c, g.GPat(true, "RECV.solicitedNodeGroups[K] == 0")), "", "the multicast group is joined although it is already watched")
		}
		incs := c13CounterSteps(w, g, token.INC)
		okk := len(incs) == 1
		if okk {
			// every nil return for an IPv6 address passes the increment
			ww := (&chk.Walk{G: g, Stop: func(n ast.Node) bool { return n == incs[0].Top }, Hit: func(n ast.Node) bool {
				rs, ok := n.(*ast.ReturnStmt)
				return ok && len(rs.Results) == 1 && w.IsNilLit(rs.Results[0])
			}, Cut: func(b *cfgBlock, k int) bool { return g.EdgeImplies(b, k, g.GPat(true, "IP.To4() != nil")) }}).Run()
			okk = !ww.Found
		}
		x.Check("ndp.Watch:counts", w.Pos(), okk, "", "Watch can succeed for an IPv6 address without counting the watcher")
	}
	u := need(x, p, "internal/layer2", "ndpResponder", "Unwatch")
	if u != nil {
		g := u.Graph()
		for _, c := range g.FindPat("RECV.conn.LeaveGroup(G)") {
			decs := c13CounterSteps(u, g, token.DEC)
			// the count after the decrement is zero: read back from the table, or the decremented value held in the local
			// that was stored
			zero := g.GPat(true, "RECV.solicitedNodeGroups[K] == 0")
			if len(decs) == 1 {
				if as, isAs := decs[0].Node.(*ast.AssignStmt); isAs && len(as.Rhs) == 1 {
					if vid, isId := ast.Unparen(as.Rhs[0]).(*ast.Ident); isId && len(assignsTo(u, u.ObjOf(vid))) == 1 {
						stored := u.IsObj(u.ObjOf(vid))
						zero = chk.GOr(zero, g.GPat(true, "V == 0", chk.H("V", stored)), g.GPat(true, "0 == V", chk.H("V", stored)))
					}
				}
			}
			x.Check("ndp.Unwatch:leave-on-last", c.Pos(), g.Dominated(c, zero), "", "the multicast group is left while it is still watched")
			okk := len(decs) == 1 && !g.MustPass(chk.Site{}, func(n ast.Node) bool { return n == c.Top || chk.Encloses(n, c.Node) }, false, func(n ast.Node) bool { return n == decs[0].Top }).Found
			x.Check("ndp.Unwatch:decrement-before-test", c.Pos(), okk, "", "the group count is not decremented before the leave test")
		}
	}
}

func c13Gratuitous(p *chk.Prog, r *chk.Report) {
	x := r.Rule("GRATUITOUS", "B path", "in Announce.gratuitous every client.Gratuitous(ip) is dominated by the false edge of a.ipRefcnt[ip.String()] <= 0 and by adv.matchInterface(client.intf); ARP clients are used for IPv4 addresses and NDP clients for IPv6", 4)
	f := need(x, p, "internal/layer2", "Announce", "gratuitous")
	if f == nil {
		return
	}
	g := f.Graph()
	adv := isParamIdx(f, 0)
	sites := g.FindPat("CL.Gratuitous(IP)")
	x.Check("gratuitous:send-sites", f.Pos(), len(sites) == 2, "", "expected the ARP and the NDP send site")
	for _, s := range sites {
		cl := ast.Unparen(s.Node.(*ast.CallExpr).Fun).(*ast.SelectorExpr).X
		ip := s.Node.(*ast.CallExpr).Args[0]
		sameCl := func(e ast.Expr) bool { return f.SameExpr(e, cl) }
		ipOK := definedBy(g, "A.ip", chk.H("A", adv))(ip)
		kind := "ndp"
		rs, _ := f.LoopOf(s.Node).(*ast.RangeStmt)
		v4 := g.GPat(true, "IP.To4() != nil", chk.H("IP", func(e ast.Expr) bool { return f.SameExpr(e, ip) }))
		famOK := false
		if rs != nil && f.MatchNew("RECV.arps", rs.X) != nil {
			kind = "arp"
			famOK = g.Dominated(s, v4)
		} else if rs != nil && f.MatchNew("RECV.ndps", rs.X) != nil {
			famOK = g.Dominated(s, g.GPat(false, "IP.To4() != nil", chk.H("IP", func(e ast.Expr) bool { return f.SameExpr(e, ip) })))
		}
		x.Check("gratuitous("+kind+"):still-announced", s.Pos(), ipOK && g.Dominated(s, g.GPat(false, "RECV.ipRefcnt[IP.String()] <= 0", chk.H("IP", func(e ast.Expr) bool { return f.SameExpr(e, ip) }))), "", "unsolicited announcements can be sent for an address that is no longer announced")
		x.Check("gratuitous("+kind+"):covered-interface-and-family", s.Pos(), famOK && g.Dominated(s, c13CoversInterface(g, adv, func(e ast.Expr) bool { return f.MatchWith("CL.intf", e, chk.H("CL", sameCl)) != nil })), "", "unsolicited announcements can be sent on an interface the advertisement does not cover, or with the wrong protocol for the address family")
	}
}

// c13CoversInterface: the advertisement covers the interface - i.matchInterface(intf), or what that helper is: the
// all-interfaces flag or membership in the advertisement's interface set.
func c13CoversInterface(g *chk.Graph, adv, intf func(ast.Expr) bool) chk.Guard {
	return chk.GOr(
		g.GPat(true, "I.matchInterface(IF)", chk.H("I", adv), chk.H("IF", intf)),
		g.GPat(true, "I.allInterfaces", chk.H("I", adv)),
		g.GPat(true, "I.interfaces.Has(IF)", chk.H("I", adv), chk.H("IF", intf)))
}

// c13CounterSteps: the statements that move a solicited-node group count by one in the given direction: M[K]++ / M[K]--,
// M[K] += 1 / -= 1, or M[K] = E where E - locals assigned once replaced by their values - is M[K] + 1 / M[K] - 1 for the
// same key (the count read into a local first and written back).
func c13CounterSteps(f *chk.Fn, g *chk.Graph, dir token.Token) []chk.Site {
	isTable := func(e ast.Expr) bool { return f.MatchNew("RECV.solicitedNodeGroups", e) != nil }
	op, opAssign := "+", token.ADD_ASSIGN
	if dir == token.DEC {
		op, opAssign = "-", token.SUB_ASSIGN
	}
	return g.Find(func(n ast.Node) bool {
		switch s := n.(type) {
		case *ast.IncDecStmt:
			ix, ok := ast.Unparen(s.X).(*ast.IndexExpr)
			return ok && s.Tok == dir && isTable(ix.X)
		case *ast.AssignStmt:
			if len(s.Lhs) != 1 || len(s.Rhs) != 1 {
				return false
			}
			ix, ok := ast.Unparen(s.Lhs[0]).(*ast.IndexExpr)
			if !ok || !isTable(ix.X) {
				return false
			}
			if s.Tok == opAssign {
				return f.IsConstInt(s.Rhs[0], 1)
			}
			if s.Tok != token.ASSIGN {
				return false
			}
			sameKey := func(e ast.Expr) bool { return f.SameExpr(e, ix.Index) || f.SameExpr(f.Expand(e), f.Expand(ix.Index)) }
			e := f.Expand(s.Rhs[0])
			if b := f.MatchWith("M[K] "+op+" 1", e, chk.H("M", isTable), chk.H("K", sameKey)); b != nil {
				return true
			}
			if dir == token.INC {
				return f.MatchWith("1 + M[K]", e, chk.H("M", isTable), chk.H("K", sameKey)) != nil
			}
		}
		return false
	})
}

// c13Groups: the solicited-node multicast group of an address is joined while at least one announced address needs it
// and left only when the last one is gone: the per-group counter is read and written under one key, the group's own
// string - never the address's (addresses with the same low 24 bits share a group).
func c13Groups(p *chk.Prog, r *chk.Report) {
	x := r.Rule("GROUP-REFCOUNT", "B path", "in ndpResponder.Watch / Unwatch every index of solicitedNodeGroups is G.String() for G = ndp.SolicitedNodeMulticast(ip); JoinGroup(G) is called behind counter == 0 before the increment, LeaveGroup(G) behind counter == 0 after the decrement", 4)
	for _, name := range []string{"Watch", "Unwatch"} {
		f := need(x, p, "internal/layer2", "ndpResponder", name)
		if f == nil {
			continue
		}
		g := f.Graph()
		grp := definedByIdx(g, f, "ndp.SolicitedNodeMulticast(IP)", 0, chk.H("IP", isParamIdx(f, 0)))
		okKeys, n := true, 0
		ast.Inspect(f.Body, func(nd ast.Node) bool {
			ix, ok := nd.(*ast.IndexExpr)
			if !ok || f.MatchNew("RECV.solicitedNodeGroups", ix.X) == nil {
				return true
			}
			n++
			if f.MatchWith("G.String()", throughLocals(g, ix.Index), chk.H("G", grp)) == nil {
				okKeys = false
			}
			return true
		})
		x.Check(name+":counter-keyed-by-the-group", f.Pos(), okKeys && n >= 2, "", "the per-group counter is indexed by something other than the group's own string (the address, say): the group is left while another announced address still needs it, and solicitations for that address are no longer received")
		op := "JoinGroup"
		if name == "Unwatch" {
			op = "LeaveGroup"
		}
		calls := g.FindPat("RECV.conn."+op+"(G)", chk.H("G", grp))
		okCall := len(calls) == 1
		for _, c := range calls {
			// the counter read in place, or through a local that holds it (after the decrement in Unwatch)
			cnt := func(e ast.Expr) bool {
				return definedBy(g, "RECV.solicitedNodeGroups[K]")(e) || definedBy(g, "RECV.solicitedNodeGroups[K] - 1")(e)
			}
			okCall = okCall && g.Dominated(c, chk.GSame(g.GPat(true, "RECV.solicitedNodeGroups[K] == 0"), g.GPat(true, "W == 0", chk.H("W", cnt))))
		}
		x.Check(name+":"+op+"-at-zero", f.Pos(), okCall, "", op+" is not called exactly when the group's counter is zero")
	}
}

// c13SpamScope: the unsolicited announcements of an address go out with the interface scope of its *latest*
// announcement. Every event taken from spamCh replaces the queued entry of that address with the advertisement just
// received (an entry that only has its deadline pushed keeps the scope of the first announcement of the burst: a
// re-announcement on fewer interfaces keeps being advertised on the old ones for five seconds).
func c13SpamScope(p *chk.Prog, r *chk.Report) {
	x := r.Rule("SPAM-SCOPE", "B path", "in Announce.spamLoop every way through the case that receives from spamCh stores, under the address's key, an entry built from the advertisement just received", 1)
	f := need(x, p, "internal/layer2", "Announce", "spamLoop")
	if f == nil {
		return
	}
	g := f.Graph()
	var cc *ast.CommClause
	var recvObj types.Object
	ast.Inspect(f.Body, func(n ast.Node) bool {
		c, ok := n.(*ast.CommClause)
		if !ok {
			return true
		}
		if as, isAs := c.Comm.(*ast.AssignStmt); isAs && len(as.Lhs) >= 1 && len(as.Rhs) == 1 {
			if u, isU := ast.Unparen(as.Rhs[0]).(*ast.UnaryExpr); isU && u.Op == token.ARROW && f.MatchNew("RECV.spamCh", u.X) != nil {
				cc = c
				recvObj = f.ObjOf(as.Lhs[0])
			}
		}
		return true
	})
	if cc == nil || recvObj == nil {
		x.Fail("spamLoop:receive-case", f.Pos(), "no case receiving from spamCh into a variable")
		return
	}
	cb := caseBlock(g, cc)
	if cb == nil {
		x.Fail("spamLoop:receive-case-block", cc.Pos(), "receive case not found in the control-flow graph")
		return
	}
	mentions := func(e ast.Expr) bool {
		found := false
		ast.Inspect(e, func(m ast.Node) bool {
			if id, isId := m.(*ast.Ident); isId && f.ObjOf(id) == recvObj {
				// the value itself, not one field of it
				if sel, isSel := f.Prog.Parent(id).(*ast.SelectorExpr); isSel && sel.X == ast.Expr(id) {
					return true
				}
				found = true
			}
			return !found
		})
		return found
	}
	store := func(n ast.Node) bool {
		as, ok := n.(*ast.AssignStmt)
		if !ok || len(as.Lhs) != 1 || len(as.Rhs) != 1 {
			return false
		}
		ix, isIx := ast.Unparen(as.Lhs[0]).(*ast.IndexExpr)
		if !isIx {
			return false
		}
		if _, isMap := f.Info().TypeOf(ix.X).Underlying().(*types.Map); !isMap {
			return false
		}
		return mentions(as.Rhs[0])
	}
	ends := g.RegionEnds(cb, cc, chk.GEvent(store))
	ok, pos := len(ends) > 0, cc.Pos()
	for _, e := range ends {
		if !e.OK {
			ok = false
			if e.From != nil && len(e.From.Nodes) > 0 {
				pos = e.From.Nodes[len(e.From.Nodes)-1].Pos()
			}
		}
	}
	x.Check("spamLoop:queued-entry-replaced-by-the-latest-advertisement", pos, ok, "", "an event for an address that is already queued can leave the queued advertisement as it was (only its deadline moves): the gratuitous announcements keep the interface scope of an earlier announcement")
}

// c13KeepsServing: a responder's run loop ends on dropReasonClosed and nothing starts it again while the interface
// stays, so processRequest may answer dropReasonClosed only when the responder was closed (the receive from its
// `closed` channel) or the socket reported io.EOF - not for any other failed read (a truncated frame that the parser
// reports as io.ErrUnexpectedEOF, say): one such frame would silence the node for every address it announces.
func c13KeepsServing(p *chk.Prog, r *chk.Report) {
	x := r.Rule("KEEPS-SERVING", "B path", "arpResponder.processRequest and ndpResponder.processRequest answer dropReasonClosed (which ends the responder's run loop for good) only in the select case that receives from the responder's closed channel, or behind errors.Is(err, io.EOF) / err == io.EOF alone for the error of the read (also when the classification is made by a helper that is handed the channel and the error)", 2)
	for _, typ := range []string{"arpResponder", "ndpResponder"} {
		f := need(x, p, "internal/layer2", typ, "processRequest")
		if f == nil {
			continue
		}
		n := 0
		ok, at := true, f.Pos()
		var judge func(f *chk.Fn, isClosed func(ast.Expr) bool, depth int)
		judge = func(f *chk.Fn, isClosed func(ast.Expr) bool, depth int) {
			g := f.Graph()
			var closedCases []*ast.CommClause
			ast.Inspect(f.Body, func(nd ast.Node) bool {
				cc, isCC := nd.(*ast.CommClause)
				if !isCC || cc.Comm == nil {
					return true
				}
				var rx ast.Expr
				switch c := cc.Comm.(type) {
				case *ast.ExprStmt:
					rx = c.X
				case *ast.AssignStmt:
					if len(c.Rhs) == 1 {
						rx = c.Rhs[0]
					}
				}
				if u, isU := ast.Unparen(rx).(*ast.UnaryExpr); isU && u.Op == token.ARROW && (isClosed(u.X) || isClosed(f.Resolve(u.X))) {
					closedCases = append(closedCases, cc)
				}
				return true
			})
			eof := chk.GAnyOf(g.GPat(true, "errors.Is(ERR, io.EOF)"), g.GPat(true, "ERR == io.EOF"))
			for _, rt := range g.Returns() {
				res := retResults(rt)
				if len(res) != 1 {
					continue
				}
				for _, form := range valueForms(g, f, res[0], rt, 4) {
					if form.E == nil {
						continue
					}
					// the classification handed to a helper of the package together with the channel: judged there
					if call, isCall := ast.Unparen(form.E).(*ast.CallExpr); isCall && depth > 0 {
						if fo, _ := f.Callee(call).(*types.Func); fo != nil {
							if cf := p.FnOf(fo.Origin()); cf != nil && cf.Body != nil && cf.Decl != nil && cf.Decl.Recv == nil {
								for i, arg := range call.Args {
									if isClosed(arg) || isClosed(f.Resolve(arg)) {
										r.Saw(cf)
										judge(cf, isParamIdx(cf, i), depth-1)
									}
								}
							}
						}
						continue
					}
					if !isObjNamed(f, "internal/layer2.dropReasonClosed")(form.E) {
						continue
					}
					n++
					node := rt.Node
					site := rt
					if form.At.B != nil {
						node, site = form.At.Node, form.At
					}
					inClosed := false
					for _, cc := range closedCases {
						if node != nil && cc.Pos() <= node.Pos() && node.End() <= cc.End() {
							inClosed = true
						}
					}
					if !inClosed && !g.Dominated(site, eof) {
						ok, at = false, site.Pos()
					}
				}
			}
		}
		judge(f, func(e ast.Expr) bool { return e != nil && f.MatchWith("RECV.closed", e, chk.H("RECV", isRecv(f))) != nil }, 2)
		x.Check(typ+".processRequest:closed-only-when-closed-or-eof", at, ok && n >= 1, "", "the responder can report dropReasonClosed - and its run loop end for good - for a failed read that is neither the responder being closed nor io.EOF (a malformed frame, say): the node then stops answering for every address it announces on that interface")
	}
}
