package rules

import (
	"go/ast"
	"go/token"
	"go/types"
	"sort"
	"strings"

	"verif/mlbcheck/chk"
)

const ctrlPkg = "internal/k8s/controllers"

func init() {
	register(&Prop{
		ID: "C06",
		Explanation: "Decided (on all paths): per-service events are not handled before the initial full pass completed (GATE); the gate is set only by " +
			"reprocessAll, only to true, after the handler loop and never on the retry path (GATE-WRITE); the full pass hands services to the handler in " +
			"the order produced by a comparator that puts more recorded addresses first (ORDER, SORT-IDX); every SyncState switch maps SyncStateError to a " +
			"retry and SyncStateReprocessAll to a reload (SYNCSTATE); controller.SetBalancer does nothing before pools are known, maps a failed " +
			"UpdateStatus to SyncStateError and does not touch the allocator on that path (HANDLER-ERR); in convergeBalancer every path to allocateIPs " +
			"passed clearServiceState, an empty recorded status always clears, and clearServiceState releases the service's own allocation and resets status " +
			"and annotation (CLEAR-BEFORE-ALLOC) - so an address chosen but not persisted is dropped before a new one is chosen; the k8s client's UpdateStatus " +
			"answers nil only when the API accepted the write, and the full pass lists the Services in one call without list options (WRITE-ERR).",
		NotDecided: "End-to-end restart behaviour over all crash points and delivery orders (needs histories); that the API server's list is complete; " +
			"controller-runtime's retry/backoff semantics.",
		Run: runC06,
		Mutants: []Mutant{
			{Name: "pool-asked-before-readoption", File: "controller/service.go",
				Old: "\tif len(lbIPs) != 0 {\n\t\t// This assign is idempotent", New: "\tif len(lbIPs) != 0 && c.ips.Pool(key) == \"\" && valueForAnnotation(svc.Annotations, AnnotationAddressPool, DeprecatedAnnotationAddressPool) != \"\" {\n\t\tc.clearServiceState(key, svc)\n\t\tlbIPs = []net.IP{}\n\t}\n\tif len(lbIPs) != 0 {\n\t\t// This assign is idempotent", Expect: "allocator-asked-after-readoption"},
			{Name: "pass-ends-at-first-failure", File: "internal/k8s/controllers/service_controller_reload.go",
				Old: "\"event\", \"failed to handle service, retry\")\n\t\t\tretry = true", New: "\"event\", \"failed to handle service, retry\")\n\t\t\treturn ctrl.Result{}, errRetry", Expect: "PASS-COMPLETE"},
			{Name: "sharing-key-dropped-with-its-allocation", File: "internal/allocator/allocator.go",
				Old: "\t\tif len(a.portsInUse[ip.String()]) == 0 {\n\t\t\tdelete(a.portsInUse, ip.String())\n\t\t\tdelete(a.sharingKeyForIP, ip.String())\n\t\t}\n",
				New: "\t\tif len(a.portsInUse[ip.String()]) == 0 {\n\t\t\tdelete(a.portsInUse, ip.String())\n\t\t}\n\t\tif a.sharingKeyForIP[ip.String()] == &al.key {\n\t\t\tdelete(a.sharingKeyForIP, ip.String())\n\t\t}\n", Expect: "KEY-LIFETIME"},
			{Name: "status-write-failure-swallowed", File: "internal/k8s/k8s.go",
				Old: "\t_, err := c.client.CoreV1().Services(svc.Namespace).UpdateStatus(context.TODO(), svc, metav1.UpdateOptions{})\n\treturn err",
				New: "\t_, err := c.client.CoreV1().Services(svc.Namespace).UpdateStatus(context.TODO(), svc, metav1.UpdateOptions{})\n\tif err != nil && len(svc.Status.LoadBalancer.Ingress) == 0 {\n\t\treturn nil\n\t}\n\treturn err", Expect: "WRITE-ERR"},
			{Name: "full-pass-lists-piecewise", File: "internal/k8s/controllers/service_controller_reload.go",
				Old: "\tif err := r.List(ctx, &services); err != nil {",
				New: "\tfor page := 0; page < 1; page++ {\n\t\tif err := r.List(ctx, &services); err != nil {\n\t\t\treturn ctrl.Result{}, err\n\t\t}\n\t}\n\tif err := error(nil); err != nil {", Expect: "lists-every-service"},
			{Name: "early-validation-before-readoption", File: "controller/service.go",
				Old: "\tif len(lbIPs) != 0 {\n\t\t// This assign is idempotent if the config is consistent,", New: "\tif len(lbIPs) != 0 {\n\t\tif _, _, err := getDesiredLbIPs(svc); err != nil {\n\t\t\treturn ErrConverge\n\t\t}\n\t\t// This assign is idempotent if the config is consistent,", Expect: "READOPT-EXIT"},
			{Name: "unchanged-revision-skipped", File: "internal/k8s/controllers/service_controller.go",
				Old: "\tepSlices := []discovery.EndpointSlice{}\n\tif r.Endpoints {\n\t\tepSlices, err = epSlicesForService(ctx, r, req.NamespacedName)", New: "\tif service != nil && service.ResourceVersion == r.LoadBalancerClass {\n\t\treturn ctrl.Result{}, nil\n\t}\n\tepSlices := []discovery.EndpointSlice{}\n\tif r.Endpoints {\n\t\tepSlices, err = epSlicesForService(ctx, r, req.NamespacedName)", Expect: "EVERY-EVENT"},
			{Name: "handler-before-gate", File: "internal/k8s/controllers/service_controller.go",
				Old: "\tif !r.initialLoadPerformed {\n", New: "\tif !r.initialLoadPerformed && r.LoadBalancerClass != \"\" {\n", Expect: "GATE"},
			{Name: "gate-set-on-retry-path", File: "internal/k8s/controllers/service_controller_reload.go",
				Old: "\tif retry {\n", New: "\tr.initialLoadPerformed = true\n\tif retry {\n", Expect: "GATE-WRITE"},
			{Name: "sort-ascending", File: "internal/k8s/controllers/service_controller_reload.go",
				Old: "return len(sortedServices[i].Status.LoadBalancer.Ingress) > len(sortedServices[j].Status.LoadBalancer.Ingress)", New: "return len(sortedServices[i].Status.LoadBalancer.Ingress) < len(sortedServices[j].Status.LoadBalancer.Ingress)", Expect: "ORDER"},
			{Name: "error-treated-as-success-in-reload", File: "internal/k8s/controllers/service_controller_reload.go",
				Old: "\t\t\tlevel.Error(r.Logger).Log(\"controller\", \"ServiceReconciler - reprocessAll\", \"name\", serviceName, \"service\", dumpResource(service), \"endpoints\", dumpResource(eps), \"event\", \"failed to handle service, retry\")\n\t\t\tretry = true\n",
				New: "\t\t\tlevel.Error(r.Logger).Log(\"controller\", \"ServiceReconciler - reprocessAll\", \"name\", serviceName, \"service\", dumpResource(service), \"endpoints\", dumpResource(eps), \"event\", \"failed to handle service, retry\")\n", Expect: "SYNCSTATE"},
			{Name: "empty-status-skips-clear", File: "controller/service.go",
				Old: "\tif len(lbIPs) == 0 {\n\t\tc.clearServiceState(key, svc)\n\t} else {", New: "\tif len(lbIPs) == 0 {\n\t\tsvc.Status.LoadBalancer = v1.LoadBalancerStatus{}\n\t} else {", Expect: "CLEAR-BEFORE-ALLOC"},
			{Name: "updatestatus-error-ignored", File: "controller/main.go",
				Old: "\t\t\tlevel.Error(l).Log(\"op\", \"updateServiceStatus\", \"error\", err, \"msg\", \"failed to update service\")\n\t\t\treturn controllers.SyncStateError\n", New: "\t\t\tlevel.Error(l).Log(\"op\", \"updateServiceStatus\", \"error\", err, \"msg\", \"failed to update service\")\n\t\t\treturn syncStateRes\n", Expect: "HANDLER-ERR"},
			{Name: "sort-other-slice", File: "internal/k8s/controllers/service_controller_reload.go",
				Old: "\tfor _, service := range sortedServices {", New: "\tfor _, service := range append([]v1.Service{}, services.Items[len(services.Items)/2:]...) {", Expect: "ORDER"},
			{Name: "clear-does-not-unassign", File: "controller/service.go",
				Old: "\tc.ips.Unassign(key)\n\tdelete(svc.Annotations, AnnotationIPAllocateFromPool)", New: "\tdelete(svc.Annotations, AnnotationIPAllocateFromPool)", Expect: "CLEAR-BEFORE-ALLOC"},
			{Name: "reprocess-maps-to-nothing-in-node", File: "internal/k8s/controllers/node_controller.go",
				Old: "\t\tlevel.Info(r.Logger).Log(\"controller\", \"NodeReconciler\", \"event\", \"force service reload\")\n\t\tr.ForceReload()\n", New: "\t\tlevel.Info(r.Logger).Log(\"controller\", \"NodeReconciler\", \"event\", \"force service reload\")\n", Expect: "SYNCSTATE"},
			{Name: "failed-write-releases-address", File: "controller/main.go",
				Old: "\t\t\tlevel.Error(l).Log(\"op\", \"updateServiceStatus\", \"error\", err, \"msg\", \"failed to update service\")\n", New: "\t\t\tlevel.Error(l).Log(\"op\", \"updateServiceStatus\", \"error\", err, \"msg\", \"failed to update service\")\n\t\t\tc.ips.Unassign(name)\n", Expect: "HANDLER-ERR"},
		},
	})
}

func runC06(p *chk.Prog, r *chk.Report) {
	// re-registration of recorded addresses checks every one of them (GUARD-SHARE, shared with C01)
	c01GuardShare(p, r)
	// what is re-adopted at a restart is kept: the family test, the happy path and the request tests of convergeBalancer
	// (FAMILY-KEPT, HAPPY-PATH, REQUEST-CHANGE, shared with C02, C03) - a spurious clear is harmless while the allocator
	// remembers the address and moves the Service after a restart
	c02FamilyChanged(p, r)
	c03Converge(p, r)
	c02Annotation(p, r)
	// the pools reach the allocator and the controller together (SETPOOLS-REPROCESS, shared with C07)
	setPoolsRule(p, r)
	c06ReloadOnly(p, r)
	fetchCheckedRule(p, r)
	c06Gate(p, r)
	c06Order(p, r)
	syncStateRule(p, r)
	c06Handler(p, r)
	c06Clear(p, r)
	c06ReadoptFirst(p, r)
	releaseOnExitRule(p, r)
	// a request refused after its addresses were assigned gives them back (REQUEST-IPS, shared with C02): otherwise the
	// allocator's memory holds an address that no status records, and a restarted controller disagrees with the running one
	c02Requests(p, r)
	// no exit of convergeBalancer before the recorded addresses are re-adopted or dropped (READOPT-EXIT, shared with C03, C01)
	readoptBeforeExitRule(p, r)
	c06EveryEvent(p, r)
	passCompleteRule(p, r)
	c06WriteErr(p, r)
	// releasing a Service whose status write failed leaves the sharing key of an address that others still hold
	// (KEY-LIFETIME, shared with C01): otherwise the address looks free and is recorded for a second Service
	c01KeyLifetime(p, r)
}

// c06WriteErr: the failed-write leg of the property rests on the failure being reported: the controller's UpdateStatus
// (k8s.Client) answers nil only when the API accepted the write. A swallowed conflict leaves the allocator holding an
// address that no status records, with nothing re-queued.
func c06WriteErr(p *chk.Prog, r *chk.Report) {
	x := r.Rule("WRITE-ERR", "B path (error discipline)", "(*k8s.Client).UpdateStatus returns the error of the UpdateStatus call on the API client: nil only behind that error being nil (no class of API errors - conflict, not found - is turned into success); reprocessAll lists the Services without any list option (no limit, selector or namespace), so the first full pass sees every recorded address", 2)
	f := need(x, p, "internal/k8s", "Client", "UpdateStatus")
	if f != nil {
		g := f.Graph()
		const call = "X.UpdateStatus(_, S, _)"
		svc := chk.H("S", isParamIdx(f, 0))
		okAll, n := len(g.FindPat(call, svc)) == 1, 0
		for _, rt := range g.Returns() {
			res := retResults(rt)
			if len(res) != 1 {
				continue
			}
			n++
			switch {
			case f.IsNilLit(res[0]):
				if !g.Dominated(rt, g.GErrNil(true, call, svc)) {
					okAll = false
				}
			case definedByIdx(g, f, call, 1, svc)(res[0]):
			default:
				if !f.KnownNonNil(res[0]) && !g.Dominated(rt, g.GErrNil(false, call, svc)) {
					okAll = false
				}
			}
		}
		x.Check("UpdateStatus:nil-only-when-the-api-accepted", f.Pos(), okAll && n > 0, "", "a status write that the API refused can be reported as success (the controller then neither retries nor releases the address it chose)")
	}
	ra := need(x, p, ctrlPkg, "ServiceReconciler", "reprocessAll")
	if ra != nil {
		g := ra.Graph()
		lists := g.FindPat("X.List(ETC)")
		okL, nL := true, 0
		for _, l := range lists {
			c := l.Node.(*ast.CallExpr)
			if len(c.Args) < 2 || !strings.HasSuffix(types.TypeString(ra.Info().TypeOf(c.Args[1]), nil), "k8s.io/api/core/v1.ServiceList") {
				continue // another listing (the endpoint slices of one Service)
			}
			nL++
			if len(c.Args) != 2 || c.Ellipsis.IsValid() || ra.LoopOf(c) != nil {
				okL = false
			}
		}
		x.Check("reprocessAll:lists-every-service", ra.Pos(), okL && nL == 1, "", "the full pass lists the Services with list options or piecewise (limit / continue, selectors): the cache-backed reader truncates or restricts such a listing, and the gate opens over addresses that were never re-adopted")
	}
}

func c06Gate(p *chk.Prog, r *chk.Report) {
	x := r.Rule("GATE", "B path", "in (*ServiceReconciler).reconcileService the handler call is dominated by r.initialLoadPerformed (false edge of `!r.initialLoadPerformed`)", 1)
	f := need(x, p, ctrlPkg, "ServiceReconciler", "reconcileService")
	if f != nil {
		g := f.Graph()
		calls := g.FindPat("RECV.Handler(ETC)", chk.H("RECV", isRecv(f)))
		x.Check("reconcileService:handler-call", f.Pos(), len(calls) == 1, "", "expected one handler call")
		for _, c := range calls {
			x.Check("reconcileService:handler-behind-gate", c.Pos(), g.Dominated(c, g.GPat(true, "RECV.initialLoadPerformed", chk.H("RECV", isRecv(f)))), "", "a per-service event can reach the handler before the initial full pass completed")
		}
	}
	y := r.Rule("GATE-WRITE", "D ownership + B path", "ServiceReconciler.initialLoadPerformed is written only in reprocessAll, only to true, after the handler loop ran to exhaustion and only on the false edge of `if retry`", 3)
	fld := p.LookupField(ctrlPkg, "ServiceReconciler", "initialLoadPerformed")
	if fld == nil {
		y.Undecided("anchor:initialLoadPerformed", "UNDECIDED anchor missing: ServiceReconciler.initialLoadPerformed")
		return
	}
	for _, a := range p.FieldAccesses(fld) {
		if !a.IsWrite() {
			continue
		}
		fn := a.Fn
		okOwner := fn.Name() == "(*"+ctrlPkg+".ServiceReconciler).reprocessAll"
		y.Check("initialLoadPerformed@"+fn.Name(), a.Sel.Pos(), okOwner, "", "the restart gate is written outside reprocessAll")
		if !okOwner {
			continue
		}
		g := fn.Graph()
		as, _ := a.Stmt.(*ast.AssignStmt)
		y.Check("reprocessAll:gate-set-to-true", a.Sel.Pos(), as != nil && len(as.Rhs) == 1 && fn.IsConstBool(as.Rhs[0], true), "", "the gate is set to something other than true")
		sites := g.Find(func(n ast.Node) bool { return n == ast.Node(as) })
		if len(sites) != 1 {
			y.Fail("reprocessAll:gate-site", a.Sel.Pos(), "gate write not found in the control-flow graph")
			continue
		}
		// the gate opens only if every service of the pass was class-filtered or handed to the handler with a result
		// that is neither SyncStateError nor SyncStateReprocessAll (for-all idiom: early exit, or a retry flag)
		loop := c06HandlerLoop(fn)
		if loop == nil {
			y.Fail("reprocessAll:gate-after-loop", a.Sel.Pos(), "no loop handing services to the handler")
			continue
		}
		isRes := func(e ast.Expr) bool {
			c, ok := ast.Unparen(fn.Resolve(e)).(*ast.CallExpr)
			return ok && fn.MatchWith("RECV.Handler(ETC)", c) != nil
		}
		handled := chk.GEvent(fn.ContainsPat("RECV.Handler(ETC)"))
		noErr := g.GPat(false, "T == C", chk.H("T", isRes), chk.H("C", isObjNamed(fn, ctrlPkg+".SyncStateError")))
		noRe := g.GPat(false, "T == C", chk.H("T", isRes), chk.H("C", isObjNamed(fn, ctrlPkg+".SyncStateReprocessAll")))
		filtered := g.GPat(true, "filterByLoadBalancerClass(&S, RECV.LoadBalancerClass)", chk.H("S", rangeVal(fn, loop)))
		why := forallBefore(fn, g, loop, chk.GOr(filtered, chk.GAnd(handled, noErr, noRe)), sites[0])
		y.Check("reprocessAll:gate-not-on-retry-path", a.Sel.Pos(), why == "", "", "the gate can be opened although a service failed / a re-sync was requested / a service was not handled in the full pass: "+why)
		y.OK("reprocessAll:gate-after-loop", a.Sel.Pos(), "")
	}
}

// c06RetryVar finds the boolean local that is set to true in the SyncStateError
// case of the handler switch.
func c06RetryVar(f *chk.Fn, g *chk.Graph) types.Object {
	return syncRetryFlag(f, g)
}

func c06HandlerLoop(f *chk.Fn) *ast.RangeStmt {
	var out *ast.RangeStmt
	for _, rs := range f.RangeLoops(chk.Any) {
		if len(f.CallsIn(rs.Body)) >= 0 {
			found := false
			chk.InspectNoLit(rs.Body, func(n ast.Node) bool {
				if e, ok := n.(ast.Expr); ok && f.MatchWith("RECV.Handler(ETC)", e, chk.H("RECV", isRecv(f))) != nil {
					found = true
				}
				return true
			})
			if found {
				out = rs
			}
		}
	}
	return out
}

func c06Order(p *chk.Prog, r *chk.Report) {
	x := r.Rule("ORDER", "A' comparator", "in reprocessAll the slice ranged by the handler loop is the slice sorted (before the loop) by a comparator that indexes only that slice and orders by descending len(x.Status.LoadBalancer.Ingress); other returns of the comparator are reachable only for equal counts; every element reaches the handler unless filtered by load-balancer class", 5)
	f := need(x, p, ctrlPkg, "ServiceReconciler", "reprocessAll")
	if f == nil {
		return
	}
	g := f.Graph()
	loop := c06HandlerLoop(f)
	if loop == nil {
		x.Fail("reprocessAll:handler-loop", f.Pos(), "no loop handing services to the handler")
		return
	}
	var sc *chk.SortCall
	for _, c := range p.SortCalls() {
		if c.Fn == f {
			c := c
			sc = &c
		}
	}
	if sc == nil || sc.Less == nil {
		x.Fail("reprocessAll:sort-call", f.Pos(), "no sort.Slice with a literal comparator before the handler loop")
		return
	}
	// the ranged slice is the sorted one, itself or handed over through result variables / locals of an expanded helper
	// (a nil list on the helper's error path aside)
	var flows func(e ast.Expr, at chk.Site, depth int) bool
	flows = func(e ast.Expr, at chk.Site, depth int) bool {
		if f.SameExpr(e, sc.Slice) {
			return true
		}
		id, isId := ast.Unparen(e).(*ast.Ident)
		if !isId || depth <= 0 || f.IsNilLit(e) {
			return false
		}
		vals, okv := g.ReachingValues(id, at)
		if !okv || len(vals) == 0 {
			return false
		}
		some := false
		for _, v := range vals {
			switch {
			case v.Rhs == nil:
				return false
			case f.IsNilLit(v.Rhs):
			case flows(v.Rhs, v.Def, depth-1):
				some = true
			default:
				return false
			}
		}
		return some
	}
	sameSlice := f.SameExpr(loop.X, sc.Slice)
	if !sameSlice {
		if xs := g.Find(func(n ast.Node) bool { return n == ast.Node(loop.X) }); len(xs) == 1 {
			sameSlice = flows(loop.X, xs[0], 4)
		}
	}
	x.Check("reprocessAll:loop-ranges-sorted-slice", loop.Pos(), sameSlice, "", "the handler loop does not range over the slice that was sorted")
	ss := g.Find(func(n ast.Node) bool { return n == ast.Node(sc.Call) })
	w := g.MustPass(chk.Site{}, func(n ast.Node) bool { return n == ast.Node(loop.X) }, false, func(n ast.Node) bool { return len(ss) == 1 && n == ss[0].Top })
	if w.Found && len(ss) == 1 {
		// decided again with the values set on the way: the path around the sort is the expanded helper's error path,
		// which leaves before the loop
		if xs := g.Find(func(n ast.Node) bool { return n == ast.Node(loop.X) }); len(xs) == 1 && g.Dominated(xs[0], chk.GEvent(func(n ast.Node) bool { return n == ss[0].Top })) {
			w.Found = false
		}
	}
	x.Check("reprocessAll:sorted-before-loop", loop.Pos(), len(ss) == 1 && !w.Found, "", "the handler loop can start before the services are sorted")
	// the sorted slice is the complete list
	x.Check("reprocessAll:sorted-slice-is-full-list", sc.Call.Pos(), definedBy(g, "L.Items")(sc.Slice) || f.MatchNew("L.Items", sc.Slice) != nil, "", "the sorted slice is not the listed services")
	ok, bad := sc.IndexesOnlySorted()
	pos := sc.Call.Pos()
	if bad != nil {
		pos = bad.Pos()
	}
	x.Check("reprocessAll:SORT-IDX", pos, ok, "", "the comparator indexes something other than the slice being sorted")
	// comparator direction
	lf := f.LitFn(sc.Less)
	lg := lf.Graph()
	isCount := func(idx types.Object) func(ast.Expr) bool {
		direct := func(e ast.Expr) bool {
			b := lf.MatchNew("len(X[I].Status.LoadBalancer.Ingress)", e)
			return b != nil && lf.ObjOf(b["I"]) == idx && lf.SameExpr(b["X"], sc.Slice)
		}
		return func(e ast.Expr) bool {
			if direct(e) {
				return true
			}
			if id, ok := ast.Unparen(e).(*ast.Ident); ok {
				rhs, _ := lg.DefOf(id, lg.FactSite(id))
				return rhs != nil && direct(rhs)
			}
			return false
		}
	}
	ci, cj := isCount(sc.I), isCount(sc.J)
	eq := func(s chk.Site) bool {
		if lg.Dominated(s, lg.GPat(true, "A == B", chk.H("A", ci), chk.H("B", cj))) {
			return true
		}
		return lg.Dominated(s, lg.GPat(false, "A > B", chk.H("A", ci), chk.H("B", cj))) && lg.Dominated(s, lg.GPat(false, "A < B", chk.H("A", ci), chk.H("B", cj)))
	}
	desc := 0
	good := true
	var badPos = sc.Less.Pos()
	for _, rt := range lg.Returns() {
		ret := rt.Node.(*ast.ReturnStmt)
		if len(ret.Results) != 1 {
			good = false
			continue
		}
		e := ret.Results[0]
		if b := lf.MatchWith("A > B", e, chk.H("A", ci), chk.H("B", cj)); b != nil {
			desc++
			continue
		}
		if lf.IsConstBool(e, true) && lg.Dominated(rt, lg.GPat(true, "A > B", chk.H("A", ci), chk.H("B", cj))) {
			desc++
			continue
		}
		if lf.IsConstBool(e, false) && lg.Dominated(rt, lg.GPat(true, "A < B", chk.H("A", ci), chk.H("B", cj))) {
			continue
		}
		if eq(rt) {
			continue // tie-break among equal counts
		}
		good = false
		badPos = ret.Pos()
	}
	x.Check("reprocessAll:assigned-first-comparator", badPos, good && desc > 0, "", "the comparator does not order services with more recorded addresses first (a return that is neither `count[i] > count[j]` nor restricted to equal counts)")
	// every element reaches the handler unless class-filtered or the pass aborts
	isHandler := lf.ContainsPat("RECV.Handler(ETC)")
	_ = isHandler
	handler := f.ContainsPat("RECV.Handler(L, N, &S, E)", chk.H("S", rangeVal(f, loop)))
	filtered := g.GPat(true, "filterByLoadBalancerClass(&S, RECV.LoadBalancerClass)", chk.H("S", rangeVal(f, loop)))
	skip := false
	ends := g.LoopIteration(loop, chk.GOr(filtered, chk.GEvent(handler)))
	for _, e := range ends {
		if !e.OK {
			skip = true
		}
	}
	x.Check("reprocessAll:every-service-handled", loop.Pos(), !skip && len(ends) > 0, "", "a service can be skipped by the full pass (or the pass left early) for a reason other than the load-balancer class filter")
}

// loopSkipsWithout: some path through the loop body reaches the loop head
// without passing `must`, other than through an edge implying `except`.
func loopSkipsWithout(g *chk.Graph, rs *ast.RangeStmt, must func(ast.Node) bool, except chk.Guard) bool {
	loop, body, _ := g.RangeBlocks(rs)
	if body == nil {
		return true
	}
	seen := map[*cfgBlock]bool{}
	var dfs func(b *cfgBlock) bool
	dfs = func(b *cfgBlock) bool {
		for _, n := range b.Nodes {
			if must(n) {
				return false
			}
		}
		for k, s := range b.Succs {
			if !except.IsNone() && g.EdgeImplies(b, k, except) {
				continue
			}
			if s == loop {
				return true
			}
			if !seen[s] {
				seen[s] = true
				if dfs(s) {
					return true
				}
			}
		}
		return false
	}
	if !dfs(body) {
		return false
	}
	// a path found without regard to feasibility: decide it again with the conditions and flags on the way (a helper
	// expanded in place leaves `r = err; goto L; L: if r != nil { return }` shapes whose skipping path cannot be taken)
	guard := chk.GEvent(must)
	if !except.IsNone() {
		guard = chk.GOr(guard, except)
	}
	ends := g.LoopIteration(rs, guard)
	if len(ends) == 0 {
		return true
	}
	for _, e := range ends {
		if !e.Break && !e.OK {
			return true
		}
	}
	return false
}

// syncStateRule is shared by C06 and C07: every switch over the handler's
// SyncState result maps Error to a retry and ReprocessAll to a reload.
func syncStateRule(p *chk.Prog, r *chk.Report) {
	x := r.Rule("SYNCSTATE", "E sibling", "every switch over a handler's SyncState result (package internal/k8s/controllers) maps SyncStateError to a retry (return …, errRetry, or a flag that forces `return …, errRetry` and keeps the gate closed) and SyncStateReprocessAll to a reload (forceReload()/ForceReload(), or the same retry flag)", 10)
	n := 0
	for _, f := range p.FuncsIn(ctrlPkg) {
		g := f.Graph()
		// the places where a handler's SyncState result is obtained (switch or if-chain: the form is free)
		var calls []chk.Site
		for _, c := range g.FindPat("RECV.Handler(ETC)") {
			if t := f.Info().TypeOf(c.Node.(ast.Expr)); t != nil && t.String() == chk.Module+"/"+ctrlPkg+".SyncState" {
				calls = append(calls, c)
			}
		}
		for _, hc := range calls {
			n++
			r.Saw(f)
			call := hc.Node.(*ast.CallExpr)
			isRes := func(e ast.Expr) bool {
				e = ast.Unparen(e)
				if e == ast.Expr(call) {
					return true
				}
				return ast.Unparen(f.Resolve(e)) == ast.Expr(call)
			}
			inspected := g.EdgeImpliesAny(g.GPat(true, "T == C", chk.H("T", isRes), chk.H("C", isObjNamed(f, ctrlPkg+".SyncStateError")))) ||
				g.EdgeImpliesAny(g.GPat(false, "T == C", chk.H("T", isRes), chk.H("C", isObjNamed(f, ctrlPkg+".SyncStateError"))))
			x.Check("switch@"+f.Name()+":tag-is-handler-result", call.Pos(), inspected, "", "the handler's result is not inspected")
			reload := func(nd ast.Node) bool {
				return f.ContainsPat("RECV.forceReload()")(nd) || f.ContainsPat("RECV.ForceReload()")(nd) ||
					isReloadSend(f, nd)
			}
			// a result without an error (`return …, nil`) that is reachable from the handler call needs: the result was
			// not SyncStateError, and it was not SyncStateReprocessAll unless the reload was requested - for every
			// element when the handler is called in a loop (early exit or retry flag), else on every path
			noErr := g.GPat(false, "T == C", chk.H("T", isRes), chk.H("C", isObjNamed(f, ctrlPkg+".SyncStateError")))
			noRe := g.GPat(false, "T == C", chk.H("T", isRes), chk.H("C", isObjNamed(f, ctrlPkg+".SyncStateReprocessAll")))
			for _, want := range []struct {
				cst   string
				guard chk.Guard
				what  string
			}{
				{"SyncStateError", noErr, "a retry"},
				{"SyncStateReprocessAll", chk.GOr(noRe, chk.GEvent(reload)), "a reload of all services"},
			} {
				if !g.EdgeImpliesAny(g.GPat(true, "T == C", chk.H("T", isRes), chk.H("C", isObjNamed(f, ctrlPkg+"."+want.cst)))) &&
					!g.EdgeImpliesAny(g.GPat(false, "T == C", chk.H("T", isRes), chk.H("C", isObjNamed(f, ctrlPkg+"."+want.cst)))) {
					x.Fail("switch@"+f.Name()+":"+want.cst+":case", call.Pos(), "no case for "+want.cst)
					continue
				}
				ok, where := true, call.Pos()
				loop, _ := f.LoopOf(call).(*ast.RangeStmt)
				for _, rt := range g.Returns() {
					rr := retResults(rt)
					if len(rr) != 2 || !f.IsNilLit(rr[1]) {
						continue
					}
					node := rt.Node
					if w := (&chk.Walk{G: g, From: hc, Hit: func(m ast.Node) bool { return m == node }}).Run(); !w.Found {
						continue // not reachable from the handler call
					}
					if loop != nil && !chk.InBody(loop, rt.Node) {
						called := chk.GEvent(func(m ast.Node) bool { return chk.Encloses(m, call) })
						if why := forallBefore(f, g, loop, chk.GOr(chk.GNot(called), want.guard), rt); why != "" {
							ok, where = false, rt.Pos()
						}
					} else if !g.Dominated(rt, want.guard) {
						ok, where = false, rt.Pos()
					}
				}
				x.Check("switch@"+f.Name()+":"+want.cst, where, ok, "", want.cst+" does not lead to "+want.what+": a result without an error is reachable")
			}
		}
	}
	x.Check("switches-found", 0, n >= 5, "", "fewer places that inspect a handler's SyncState result than on the confirmed tree (5)")
}

// syncRetryFlag returns the boolean local set in a case of the switch and
// tested afterwards (reprocessAll's `retry`), or nil.
func syncRetryFlag(f *chk.Fn, g *chk.Graph) types.Object {
	// a handler result of this function
	isRes := func(e ast.Expr) bool {
		c, ok := ast.Unparen(f.Resolve(e)).(*ast.CallExpr)
		if !ok {
			return false
		}
		t := f.Info().TypeOf(c)
		return t != nil && t.String() == chk.Module+"/"+ctrlPkg+".SyncState" && f.MatchWith("RECV.Handler(ETC)", c) != nil
	}
	failed := chk.GOr(g.GPat(true, "T == C", chk.H("T", isRes), chk.H("C", isObjNamed(f, ctrlPkg+".SyncStateError"))),
		g.GPat(true, "T == C", chk.H("T", isRes), chk.H("C", isObjNamed(f, ctrlPkg+".SyncStateReprocessAll"))))
	var flag types.Object
	for _, s := range g.Find(f.IsAssignPat("R", "true")) {
		as := s.Node.(*ast.AssignStmt)
		if as.Tok.String() != "=" {
			continue
		}
		o := f.ObjOf(as.Lhs[0])
		if v, ok := o.(*types.Var); ok && !v.IsField() && g.Dominated(s, failed) && g.EdgeImpliesAny(chk.GBool(true, f.IsObj(o))) {
			flag = o
		}
	}
	return flag
}

// c06EveryEvent: a per-service event is never dropped silently. The retry of a failed status write is such an event
// for an unchanged object: a short-cut that recognises "nothing new" from the object alone (same resourceVersion, same
// generation, equal to a remembered copy) loses it, the chosen address stays in memory only and the next instance
// decides differently.
func c06EveryEvent(p *chk.Prog, r *chk.Report) {
	x := r.Rule("EVERY-EVENT", "B path", "in (*ServiceReconciler).reconcileService the only returns with a nil error before the handler call are the initial-load gate (!r.initialLoadPerformed) and the load-balancer-class filter; every other event reaches the handler or is requeued with its error", 1)
	f := need(x, p, ctrlPkg, "ServiceReconciler", "reconcileService")
	if f == nil {
		return
	}
	g := f.Graph()
	isHandler := f.ContainsPat("RECV.Handler(ETC)", chk.H("RECV", isRecv(f)))
	allowed := chk.GAnyOf(g.GPat(false, "RECV.initialLoadPerformed", chk.H("RECV", isRecv(f))),
		g.GPat(true, "filterByLoadBalancerClass(S, RECV.LoadBalancerClass)", chk.H("RECV", isRecv(f))))
	w := (&chk.Walk{G: g, Stop: isHandler, Hit: func(n ast.Node) bool {
		rs, ok := n.(*ast.ReturnStmt)
		return ok && len(rs.Results) == 2 && f.IsNilLit(rs.Results[1])
	}, Cut: func(b *cfgBlock, k int) bool { return g.EdgeImplies(b, k, allowed) }}).Run()
	x.Check("reconcileService:no-silent-drop", posOf(w, f), !w.Found && len(g.Find(isHandler)) >= 1, "", "an event can be acknowledged without reaching the handler for a reason other than the initial-load gate and the class filter (a retry of a failed status write carries an unchanged object): "+describe(f, w))
}

// passCompleteRule (shared by C09, C06, C07): a full pass hands every Service to the handler. One Service's failure
// asks for the pass to be repeated - it does not end it: the Services listed after a persistently failing one would
// never be looked at again, whatever configuration or node change the pass was meant to apply to them.
func passCompleteRule(p *chk.Prog, r *chk.Report) {
	x := r.Rule("PASS-COMPLETE", "B path", "in (*ServiceReconciler).reprocessAll the loop over the Services is never left (return / break) on a path that has called the handler in that iteration: whatever the handler answers, the remaining Services are still processed in this pass", 1)
	f := need(x, p, ctrlPkg, "ServiceReconciler", "reprocessAll")
	if f == nil {
		return
	}
	g := f.Graph()
	isHandler := f.ContainsPat("RECV.Handler(ETC)", chk.H("RECV", isRecv(f)))
	n := 0
	for _, rs := range f.RangeLoops(chk.Any) {
		has := false
		for _, h := range g.Find(isHandler) {
			if chk.InBody(rs, h.Node) {
				has = true
			}
		}
		if !has {
			continue
		}
		n++
		ok, pos := true, rs.Pos()
		// path by path (the answer of an expanded helper travels through result variables: `err = nil` on the paths
		// behind the handler makes the later `if err != nil { return }` unreachable from them)
		notHandled := chk.GNot(chk.GEvent(func(n ast.Node) bool { return chk.InBody(rs, n) && isHandler(n) }))
		for _, e := range g.LoopIterationWithReturns(rs, notHandled) {
			if e.Break && !e.OK {
				ok = false
				if e.From != nil && len(e.From.Nodes) > 0 {
					pos = e.From.Nodes[len(e.From.Nodes)-1].Pos()
				}
			}
		}
		x.Check("reprocessAll:handler-answer-never-ends-the-pass", pos, ok, "", "the pass over the Services can end right after the handler answered for one of them (fail-fast): the Services sorted after a failing one are not re-evaluated by this pass, nor by its retries while the failure lasts")
	}
	x.Check("reprocessAll:handler-loop", f.Pos(), n >= 1, "", "no loop that hands the Services to the handler")
}

func c06Handler(p *chk.Prog, r *chk.Report) {
	x := r.Rule("HANDLER-ERR", "B path", "in controller.SetBalancer convergeBalancer is dominated by the pools-known guard (false edge of `c.pools == nil || c.pools.ByName == nil`); a failed UpdateStatus always returns SyncStateError and that branch calls no allocator mutator (the chosen address stays recorded in memory until the retry re-decides it)", 3)
	f := need(x, p, "controller", "controller", "SetBalancer")
	if f == nil {
		return
	}
	g := f.Graph()
	for _, c := range g.FindPat("RECV.convergeBalancer(ETC)") {
		x.Check("SetBalancer:converge-behind-pools-known", c.Pos(), g.Dominated(c, g.GPat(false, "RECV.pools == nil || RECV.pools.ByName == nil")), "", "convergeBalancer can run before any pool configuration was received")
	}
	es := g.DirectEdgesImplying(g.GErrNil(false, "RECV.client.UpdateStatus(_)"))
	if len(es) != 1 {
		x.Fail("SetBalancer:updatestatus-error-branch", f.Pos(), "the error of UpdateStatus is not checked")
		return
	}
	isErrRet := func(n ast.Node) bool {
		rs, ok := n.(*ast.ReturnStmt)
		return ok && len(rs.Results) == 1 && isObjNamed(f, ctrlPkg+".SyncStateError")(rs.Results[0])
	}
	w := g.BranchAlways(es[0], isErrRet)
	okRet := !w.Found
	if !okRet {
		// the write moved into a step of its own that hands the error back (expanded in place: `_inlNrK = err; goto L; L: err :=
		// _inlNrK; if err != nil { return SyncStateError }`): on the branch the error is handed to a result variable whose
		// non-nil value always returns SyncStateError
		handed := map[types.Object]bool{}
		w1 := g.BranchAlways(es[0], func(n ast.Node) bool {
			if as, isAs := n.(*ast.AssignStmt); isAs && as.Tok == token.ASSIGN && len(as.Lhs) == len(as.Rhs) {
				for i, l := range as.Lhs {
					if id, isId := l.(*ast.Ident); isId && inlineResult.MatchString(id.Name) && !f.IsNilLit(as.Rhs[i]) && isErrorTyped(f, as.Rhs[i]) {
						handed[f.ObjOf(id)] = true
						return true
					}
				}
			}
			return isErrRet(n)
		})
		okRet = !w1.Found && len(handed) > 0
		for o := range handed {
			o := o
			nonNil := chk.GFunc(func(ft chk.Fact) bool {
				xx, yy, eq, ok := chk.EqParts(ft)
				if !ok || eq {
					return false
				}
				other := xx
				if f.IsNilLit(xx) {
					other = yy
				} else if !f.IsNilLit(yy) {
					return false
				}
				id, isId := ast.Unparen(other).(*ast.Ident)
				if !isId {
					return false
				}
				if f.ObjOf(id) == o {
					return true
				}
				rhs, _ := g.DefOf(id, g.FactSite(id))
				rid, isR := ast.Unparen(rhs).(*ast.Ident)
				return rhs != nil && isR && f.ObjOf(rid) == o
			})
			es2 := g.DirectEdgesImplying(nonNil)
			if len(es2) == 0 {
				okRet = false
			}
			for _, e2 := range es2 {
				if g.BranchAlways(e2, isErrRet).Found {
					okRet = false
				}
			}
		}
	}
	x.Check("SetBalancer:failed-write-returns-SyncStateError", posOf(w, f), okRet, "", "a failed status write does not return SyncStateError (no retry)")
	mut := f.ContainsCallTo(allocA+"Unassign", allocA+"Assign", allocA+"Allocate", allocA+"AllocateFromPool", allocA+"AllocateFromPoolForAdditionalFamily", allocA+"SetPools")
	start := chk.Site{G: g, B: es[0].B.Succs[es[0].K], I: 0}
	w2 := (&chk.Walk{G: g, From: start, Inclusive: true, Hit: mut}).Run()
	x.Check("SetBalancer:failed-write-keeps-allocator-memory", posOf(w2, f), !w2.Found, "", "the allocator is modified on the failed-write path")
}

// releaseOnExitRule (shared by C06, C07, C11): a Service that stops being entitled to an address gives back what the
// allocator remembers for it, whatever its status says - the status can lag behind the allocator after a failed write,
// and the API server clears it on a type change.
func releaseOnExitRule(p *chk.Prog, r *chk.Report) {
	x := r.Rule("RELEASE-ON-EXIT", "B path", "in controller.convergeBalancer each of the exits `not a LoadBalancer`, `no pools`, `no cluster IPs`, `RequireDualStack without two cluster IPs` passes clearServiceState(key, svc) on every feasible path before the function is left (no shortcut that trusts the recorded status)", 4)
	f := need(x, p, "controller", "controller", "convergeBalancer")
	if f == nil {
		return
	}
	g := f.Graph()
	svc, key := isParam(f, "svc"), isParam(f, "key")
	isClear := f.ContainsPat("RECV.clearServiceState(K, S)", chk.H("K", key), chk.H("S", svc))
	policy := func(e ast.Expr) bool {
		return definedBy(g, "*(S.Spec.IPFamilyPolicy)", chk.H("S", svc))(e) || flowsFromPolicy(f, g, e, svc)
	}
	exits := []struct {
		name string
		gd   chk.Guard
	}{
		{"not-a-load-balancer", g.GPat(true, "S.Spec.Type != T", chk.H("S", svc), chk.H("T", constStr(f, "LoadBalancer")))},
		{"no-pools", g.GPat(true, "len(RECV.pools.ByName) == 0")},
		{"no-cluster-ips", g.GPat(true, `len(S.Spec.ClusterIPs) == 0 && S.Spec.ClusterIP == ""`, chk.H("S", svc))},
		{"dual-stack-required", g.GPat(true, "P == R && len(S.Spec.ClusterIPs) < 2", chk.H("S", svc), chk.H("P", policy), chk.H("R", constStr(f, "RequireDualStack")))},
	}
	for _, ex := range exits {
		es := g.DirectEdgesImplying(ex.gd)
		if len(es) == 0 {
			x.Fail("converge:exit:"+ex.name+":branch", f.Pos(), "the exit is not found (its condition changed): cannot decide that it releases the allocation")
			continue
		}
		for _, e := range es {
			esc := g.FeasibleEscape(e, isClear, nil, nil)
			x.Check("converge:exit:"+ex.name+":releases", e.B.Nodes[len(e.B.Nodes)-1].Pos(), !esc, "", "a Service that is "+ex.name+" can leave convergeBalancer without clearServiceState: an address the allocator still holds for it (a failed status write, a status cleared by the API server) stays reserved")
		}
	}
}

// flowsFromPolicy: e is the local that holds the Service's IP family policy (default SingleStack, overwritten by
// *svc.Spec.IPFamilyPolicy when set).
func flowsFromPolicy(f *chk.Fn, g *chk.Graph, e ast.Expr, svc func(ast.Expr) bool) bool {
	id, ok := ast.Unparen(e).(*ast.Ident)
	if !ok {
		return false
	}
	o := f.ObjOf(id)
	if o == nil {
		return false
	}
	for _, a := range assignsTo(f, o) {
		as, isAs := a.(*ast.AssignStmt)
		if !isAs || len(as.Rhs) != 1 {
			continue
		}
		if f.MatchWith("*(S.Spec.IPFamilyPolicy)", as.Rhs[0], chk.H("S", svc)) != nil {
			return true
		}
	}
	return false
}

func c06Clear(p *chk.Prog, r *chk.Report) {
	x := r.Rule("CLEAR-BEFORE-ALLOC", "B typestate", "in controller.convergeBalancer every path to allocateIPs passed clearServiceState (path-sensitive on the emptiness of the held-address list), the branch `len(lbIPs) == 0` after parsing the status always clears, and clearServiceState calls c.ips.Unassign(key) for its own key and resets annotation and status", 5)
	f := need(x, p, "controller", "controller", "convergeBalancer")
	if f == nil {
		return
	}
	g := f.Graph()
	svc, key := isParam(f, "svc"), isParam(f, "key")
	assignSites := g.FindPat("RECV.ips.Assign(K, S, IPS, ETC)", chk.H("K", key), chk.H("S", svc))
	if len(assignSites) != 1 {
		x.Fail("converge:held-list", f.Pos(), "cannot identify the held-address list")
		return
	}
	lbIPs := f.ObjOf(assignSites[0].Node.(*ast.CallExpr).Args[2])
	isClear := f.ContainsPat("RECV.clearServiceState(K, S)", chk.H("K", key), chk.H("S", svc))
	tr, rf := g.EmptinessTracker(f.IsObj(lbIPs))
	for _, a := range g.FindPat("RECV.allocateIPs(ETC)") {
		w := (&chk.StateWalk{G: g, Init: chk.EmpUnknown, Transfer: tr, Refine: rf,
			Stop: func(n ast.Node, _ int) bool { return isClear(n) },
			Hit:  func(n ast.Node, _ int) bool { return n == a.Top }}).Run()
		x.Check("converge:clear-before-allocate", a.Pos(), !w.Found, "", "allocateIPs is reachable without clearServiceState first (a previously chosen, unpersisted address is not released)")
	}
	// the first emptiness test after parsing the status
	es := g.EdgesImplying(g.GPat(true, "len(L) == 0", chk.H("L", f.IsObj(lbIPs))))
	cleared := 0
	for _, e := range es {
		if _, isIf := e.B.Succs[0].Stmt.(*ast.IfStmt); !isIf {
			continue
		}
		ifs := e.B.Succs[0].Stmt.(*ast.IfStmt)
		if ifs.Else == nil {
			continue // the later `if len(lbIPs) == 0 { allocate }`
		}
		w := g.BranchAlways(e, isClear)
		x.Check("converge:empty-status-clears", ifs.Pos(), !w.Found, "", "an empty recorded status does not release what the allocator still remembers for the service")
		cleared++
	}
	x.Check("converge:empty-status-branch", f.Pos(), cleared == 1, "", "the `if len(lbIPs) == 0 { clear } else { … }` test on the parsed status is missing")
	cf := need(x, p, "controller", "controller", "clearServiceState")
	if cf != nil {
		cg := cf.Graph()
		k, s := isParamIdx(cf, 0), isParamIdx(cf, 1)
		for _, c := range []struct {
			name string
			via  func(ast.Node) bool
		}{
			{"unassigns-own-key", cf.ContainsPat("RECV.ips.Unassign(K)", chk.H("K", k))},
			{"drops-pool-annotation", cf.ContainsPat("delete(S.Annotations, A)", chk.H("S", s), chk.H("A", constStr(cf, "metallb.io/ip-allocated-from-pool")))},
			{"resets-status", cf.IsAssignPat("S.Status.LoadBalancer", "v1.LoadBalancerStatus{}", chk.H("S", s))},
		} {
			w := cg.MustPass(chk.Site{}, nil, true, c.via)
			x.Check("clearServiceState:"+c.name, posOf(w, cf), !w.Found, "", "clearServiceState can return without this step")
		}
	}
}

// isReloadSend: `X.Reload <- NewReloadEvent()` (forceReload written in place).
func isReloadSend(f *chk.Fn, nd ast.Node) bool {
	found := false
	chk.InspectNoLit(nd, func(m ast.Node) bool {
		if ss, ok := m.(*ast.SendStmt); ok && f.MatchNew("R.Reload", ss.Chan) != nil && f.MatchNew("NewReloadEvent()", ss.Value) != nil {
			found = true
		}
		return true
	})
	return found
}

// c06ReadoptFirst (shared with C03): the first full pass re-adopts every recorded address before any Service is given a
// fresh one. The pass orders the Services by the number of recorded addresses, but it hands each of them to the one
// handler that re-adopts *and* allocates: a Service of the "assigned" group that needs a fresh address (its recorded one is
// no longer in a pool; a PreferDualStack Service holding one address while a second is free) is served from what looks
// free at that moment, i.e. including the recorded addresses of the Services behind it in the list.
func c06ReadoptFirst(p *chk.Prog, r *chk.Report) {
	x := r.Rule("READOPT-FIRST", "B path + call graph", "in (*ServiceReconciler).reprocessAll the loop that hands Services to r.Handler (the handler that may allocate fresh addresses: controller.SetBalancer -> convergeBalancer -> allocateIPs / AllocateFromPoolForAdditionalFamily) runs only after a complete earlier pass over the same Services that re-adopts their recorded addresses without allocating", 1)
	f := need(x, p, ctrlPkg, "ServiceReconciler", "reprocessAll")
	sb := need(x, p, "controller", "controller", "SetBalancer")
	if f == nil || sb == nil {
		return
	}
	g := f.Graph()
	// the handler allocates: SetBalancer reaches the allocating entry points of the allocator
	closure, _ := p.Closure(sb)
	var allocs []string
	for _, cf := range closure {
		switch cf.Name() {
		case "(*internal/allocator.Allocator).AllocateFromPool", "(*internal/allocator.Allocator).Allocate", "(*internal/allocator.Allocator).AllocateFromPoolForAdditionalFamily":
			allocs = append(allocs, cf.Name())
		}
	}
	sort.Strings(allocs)
	calls := g.FindPat("RECV.Handler(ETC)", chk.H("RECV", isRecv(f)))
	if len(calls) == 0 {
		x.Fail("reprocessAll:handler-call", f.Pos(), "no handler call")
		return
	}
	ok := len(allocs) == 0
	for _, c := range calls {
		hl, _ := f.LoopOf(c.Node).(*ast.RangeStmt)
		if hl == nil {
			continue
		}
		// an earlier complete pass over the same list that calls a hook of the reconciler other than Handler
		for _, rs := range f.RangeLoops(func(e ast.Expr) bool { return f.SameExpr(e, hl.X) || f.SameValue(f.Resolve(e), f.Resolve(hl.X)) }) {
			if rs == hl || !g.AfterLoop(c, rs) || loopHasBreak(g, rs) {
				continue
			}
			hook := false
			ast.Inspect(rs.Body, func(n ast.Node) bool {
				if call, isCall := n.(*ast.CallExpr); isCall {
					if b := f.MatchWith("RECV.F(ETC)", call, chk.H("RECV", isRecv(f))); b != nil && f.MatchWith("RECV.Handler(ETC)", call, chk.H("RECV", isRecv(f))) == nil {
						hook = true
					}
				}
				return true
			})
			if hook {
				ok = true
			}
		}
	}
	x.Check("reprocessAll:readopt-pass-before-allocating-pass", calls[0].Pos(), ok, "", "the first full pass hands every Service to the allocating handler ("+strings.Join(allocs, ", ")+" are reachable from it) while recorded addresses of later Services are not yet re-adopted: a Service that needs a fresh address during that pass can be given an address another Service records")
}

// c06ReloadOnly (shared with C03): the pass that opens the restart gate runs only for a reload request. In the
// controller reload requests come from the pool reconciler after SetPools, so the first full pass always sees the
// pools; a full pass started from a per-Service event can run while no pool is known - every handler answers success
// without registering anything - and opens the gate over an empty allocator.
func c06ReloadOnly(p *chk.Prog, r *chk.Report) {
	x := r.Rule("RELOAD-ONLY", "D who-may-call + B path", "(*ServiceReconciler).reprocessAll is called only from (*ServiceReconciler).Reconcile, where the choice between it and reconcileService reads nothing but the request (the receiver occurs in Reconcile only as the receiver of those two calls, and the full pass is conditional); nothing takes it as a function value", 1)
	f := need(x, p, ctrlPkg, "ServiceReconciler", "reprocessAll")
	if f == nil {
		return
	}
	n := 0
	for _, cs := range p.CallersOf(f) {
		n++
		cf := cs.Fn
		okCaller := cf.Name() == "(*"+ctrlPkg+".ServiceReconciler).Reconcile"
		g := cf.Graph()
		sites := g.Find(func(nd ast.Node) bool { return nd == ast.Node(cs.Call) })
		okGuard := false
		if okCaller && len(sites) == 1 {
			// the choice between the full pass and the per-Service path is a function of the request alone: Reconcile
			// reads nothing of the reconciler's state - the receiver occurs only as the receiver of the two calls - and
			// the full pass is not unconditional. However the reload marker is spelt (two string comparisons, a comparison
			// of the namespaced name with a package-level key, a helper), per-Service requests cannot reach it by way of
			// what the reconciler has seen so far.
			recv := cf.Recv()
			okGuard = recv != nil
			ast.Inspect(cf.Body, func(nd ast.Node) bool {
				id, isId := nd.(*ast.Ident)
				if !isId || recv == nil || cf.ObjOf(id) != types.Object(recv) {
					return true
				}
				sel, isSel := p.Parent(id).(*ast.SelectorExpr)
				call, isCall := p.Parent(sel).(*ast.CallExpr)
				if !isSel || !isCall || ast.Unparen(call.Fun) != ast.Expr(sel) || (sel.Sel.Name != "reprocessAll" && sel.Sel.Name != "reconcileService") {
					okGuard = false
				}
				return true
			})
			// some request does not start the full pass
			if !g.MustPass(chk.Site{}, nil, true, func(nd ast.Node) bool { return nd == sites[0].Top }).Found {
				okGuard = false
			}
			// ... and it is the request being reconciled that is handed on
			if len(cs.Call.Args) != 2 || !isParamIdx(cf, 1)(cs.Call.Args[1]) {
				okGuard = false
			}
		}
		x.Check("reprocessAll:called-for-reload-requests-only@"+cf.Name(), cs.Call.Pos(), okCaller && okGuard, "", "the full pass over all Services (which opens the restart gate) can be started by something other than a reload request: before the pools were delivered it registers nothing, reports success and lets per-Service events allocate addresses that unprocessed Services record")
	}
	x.Check("reprocessAll:callers", f.Pos(), n >= 1 && len(p.FuncValueUses(chk.ObjName(f.Obj))) == 0, "", "reprocessAll has no caller, or is passed around as a value")
}
