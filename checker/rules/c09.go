package rules

import (
	"go/ast"
	"go/token"
	"go/types"

	"verif/mlbcheck/chk"
)

const spc = "(*speaker.controller)."

func init() {
	register(&Prop{
		ID: "C09",
		Explanation: "Decided (on all paths): every exit of speaker.(*controller).SetBalancer passed deleteBalancer or the per-protocol handleService loop, except " +
			"before any configuration was received (EXIT-WITHDRAWS); a changed address set (compareIPs = same length and every address found) withdraws first " +
			"(IP-CHANGE); in handleService a refusal reason reaches deleteBalancerProtocol and a failing SetBalancer returns SyncStateError before the service is " +
			"marked announced (HANDLE); deleteBalancerProtocol calls the protocol's DeleteBalancer before forgetting the service and keeps its bookkeeping on error " +
			"(DELETE-ORDER); announced/svcIPs are written only by those two functions (OWN); each Protocol.SetBalancer establishes the state of every address it is " +
			"given - BGP resets svcAds[name] before rebuilding, layer 2 calls an announcer mutator for the address on every path of its per-address loop (REBUILD); " +
			"protocol DeleteBalancers remove the service's state (PROTO-DELETE); SetConfig installs the configuration only behind the orphan check and then " +
			"answers ReprocessAll; SetNode compares availability before overwriting the node and answers ReprocessAll when it changed, for any node (RESYNC).",
		NotDecided: "Equality with a freshly started speaker for every history (needs executions); start-up ordering effects (which nodes are known when a service is " +
			"first evaluated); a node seen for the first time requests no re-sync.",
		Run: runC09,
		Mutants: []Mutant{
			{Name: "pool-remembered-per-service", File: "speaker/main.go",
				Old: "\tpoolName := poolFor(c.config.Pools, lbIPs)\n", New: "\tpoolName := svc.Annotations[\"metallb.io/ip-allocated-from-pool\"]\n\tif poolName == \"\" {\n\t\tpoolName = poolFor(c.config.Pools, lbIPs)\n\t}\n", Expect: "POOL-CURRENT"},
			{Name: "orphan-refusal-not-retried", File: "speaker/main.go",
				Old: "\"msg\", \"new configuration rejected\")\n\t\t\treturn controllers.SyncStateError", New: "\"msg\", \"new configuration rejected\")\n\t\t\treturn controllers.SyncStateErrorNoRetry", Expect: "REFUSAL-RETRIED"},
			{Name: "membership-event-dropped-for-updates", File: "internal/speakerlist/speakerlist.go",
				Old: "\t\t\tsl.client.ForceSync()\n\t\tcase <-sl.stopCh:", New: "\t\t\tif e.Event != memberlist.NodeUpdate {\n\t\t\t\tsl.client.ForceSync()\n\t\t\t}\n\t\tcase <-sl.stopCh:", Expect: "MEMBERSHIP"},
			{Name: "withdraw-list-capped", File: "internal/bgp/native/messages.go",
				Old: "func sendWithdraw(w io.Writer, prefixes []*net.IPNet) error {\n\tvar b bytes.Buffer\n", New: "func sendWithdraw(w io.Writer, prefixes []*net.IPNet) error {\n\tvar b bytes.Buffer\n\tif len(prefixes) > 800 {\n\t\tprefixes = prefixes[:800]\n\t}\n", Expect: "WHOLE-WITHDRAW"},
			{Name: "node-update-filter-needs-condition-on-both-sides", File: "internal/k8s/controllers/node_controller.go",
				Old: "\t\t\tif k8snodes.IsNetworkUnavailable(oldNode) != k8snodes.IsNetworkUnavailable(newNode) {\n\t\t\t\treturn true\n\t\t\t}\n",
				New: "\t\t\tif len(oldNode.Status.Conditions) > 0 && k8snodes.IsNetworkUnavailable(oldNode) != k8snodes.IsNetworkUnavailable(newNode) {\n\t\t\t\treturn true\n\t\t\t}\n", Expect: "NODE-EVENTS"},
			{Name: "new-session-not-republished", File: "speaker/bgp_controller.go",
				Old: "\t\t\t\tp.session = s\n\t\t\t\tneedUpdateAds = true",
				New: "\t\t\t\tp.session = s", Expect: "REPUBLISH"},
			{Name: "interfaces-gone-stops-at-first-address", File: "speaker/layer2_controller.go",
				Old: "\t\t\tif c.announcer.DeleteBalancerIP(name, lbIP) {\n\t\t\t\tupdateStatus = true\n\t\t\t}\n\t\t\tcontinue", New: "\t\t\tif c.announcer.DeleteBalancerIP(name, lbIP) {\n\t\t\t\tupdateStatus = true\n\t\t\t}\n\t\t\tbreak", Expect: "REBUILD"},
			{Name: "invalid-ip-returns-success", File: "speaker/main.go",
				Old: "\t\t\treturn c.deleteBalancer(l, name, \"invalidIP\")", New: "\t\t\treturn controllers.SyncStateSuccess", Expect: "EXIT-WITHDRAWS"},
			{Name: "notowner-skips-delete", File: "speaker/main.go",
				Old: "\t\treturn c.deleteBalancerProtocol(l, protocol, name, deleteReason)\n", New: "\t\tif deleteReason != \"notOwner\" {\n\t\t\treturn c.deleteBalancerProtocol(l, protocol, name, deleteReason)\n\t\t}\n\t\treturn controllers.SyncStateSuccess\n", Expect: "HANDLE"},
			{Name: "bgp-no-reset-before-rebuild", File: "speaker/bgp_controller.go",
				Old: "\tc.svcAds[name] = nil\n\tfor _, lbIP := range lbIPs {", New: "\tfor _, lbIP := range lbIPs {", Expect: "REBUILD"},
			{Name: "setconfig-returns-success", File: "speaker/main.go",
				Old: "\tc.config = cfg\n\n\treturn controllers.SyncStateReprocessAll", New: "\tc.config = cfg\n\n\treturn controllers.SyncStateSuccess", Expect: "RESYNC"},
			{Name: "compareips-subset", File: "speaker/main.go",
				Old: "\tif len(ips1) != len(ips2) {\n\t\treturn false\n\t}\n\n\tfor _, ip1 := range ips1 {", New: "\tfor _, ip1 := range ips1 {", Expect: "IP-CHANGE"},
			{Name: "setnode-only-own-node", File: "speaker/main.go",
				Old: "\tnodeAvailabilityChanged := isNodeAvailableChanged(c.nodes, node)", New: "\tnodeAvailabilityChanged := node.Name == c.myNode && isNodeAvailableChanged(c.nodes, node)", Expect: "RESYNC"},
			{Name: "l2-mismatch-leaves-stale-adv", File: "speaker/layer2_controller.go",
				Old: "\t\t\tif c.announcer.DeleteBalancerIP(name, lbIP) {\n\t\t\t\tupdateStatus = true\n\t\t\t}\n", New: "", Expect: "REBUILD"},
			{Name: "forget-before-protocol-delete", File: "speaker/main.go",
				Old: "\tannounced := c.announced[protocol][name]\n\tif !announced {\n\t\treturn controllers.SyncStateSuccess\n\t}\n", New: "\tannounced := c.announced[protocol][name]\n\tif !announced {\n\t\treturn controllers.SyncStateSuccess\n\t}\n\tdelete(c.announced[protocol], name)\n", Expect: "DELETE-ORDER"},
			{Name: "node-compared-after-overwrite", File: "speaker/main.go",
				Old: "\tnodeAvailabilityChanged := isNodeAvailableChanged(c.nodes, node)\n\tc.nodes[node.Name] = node\n", New: "\tc.nodes[node.Name] = node\n\tnodeAvailabilityChanged := isNodeAvailableChanged(c.nodes, node)\n", Expect: "RESYNC"},
			{Name: "announced-before-setbalancer-ok", File: "speaker/main.go",
				Old: "\tif err := handler.SetBalancer(l, name, lbIPs, pool, c.client, svc); err != nil {\n\t\tlevel.Error(l).Log(\"op\", \"setBalancer\", \"error\", err, \"msg\", \"failed to announce service\")\n\t\treturn controllers.SyncStateError\n\t}\n",
				New: "\tif err := handler.SetBalancer(l, name, lbIPs, pool, c.client, svc); err != nil {\n\t\tlevel.Error(l).Log(\"op\", \"setBalancer\", \"error\", err, \"msg\", \"failed to announce service\")\n\t}\n", Expect: "HANDLE"},
			{Name: "bgp-delete-without-republish", File: "speaker/bgp_controller.go",
				Old: "\tdelete(c.svcAds, name)\n\treturn c.updateAds()", New: "\tdelete(c.svcAds, name)\n\treturn nil", Expect: "PROTO-DELETE"},
			{Name: "exclusion-change-ignored", File: "speaker/main.go",
				Old: "\tif k8snodes.IsNodeExcludedFromBalancers(oldNode) != k8snodes.IsNodeExcludedFromBalancers(newNode) {\n\t\treturn true\n\t}\n", New: "", Expect: "RESYNC"},
		},
	})
}

func runC09(p *chk.Prog, r *chk.Report) {
	// a configuration the speaker refused is offered again (COMPARE-BEFORE-APPLY, shared with C18)
	c18Compare(p, r)
	// in frr-k8s mode what the sessions were last set to is what reaches the cluster (K8S-DELIVER, shared with C19)
	c19K8s(p, r)
	c09PoolCurrent(p, r)
	// a configuration or node change is applied by a pass over every Service (PASS-COMPLETE, shared with C06)
	passCompleteRule(p, r)
	// a Set always replaces the pending set (PENDING, shared with C17)
	c17Pending(p, r)
	handlerReadonlyRule(p, r)
	c17WholeWithdraw(p, r)
	membershipRule(p, r)
	c09RefusalRetried(p, r)
	peersConservedRule(p, r)
	c05Publish(p, r)
	c13Refcount(p, r)
	c09Exit(p, r)
	c09Handle(p, r)
	c09Delete(p, r)
	c09Rebuild(p, r)
	c09Resync(p, r)
	c09NodeLabels(p, r)
	// native mode: what reaches the peer is the difference between the requested and the advertised set, withdrawals
	// included, whatever the sizes of the two sets (DIFF / FULL-RESEND, shared with C17)
	c17Diff(p, r)
	// a session that comes up outside a configuration change (node labels) is offered the current advertisements
	// (REPUBLISH, shared with C05)
	c05Republish(p, r)
	// ... and a node event reaches the speaker at all (NODE-EVENTS, shared with C10)
	nodeEventsRule(p, r)
}

// c09NodeLabels (shared with C05): the peers' node selectors are evaluated against the labels cached by
// (*bgpController).SetNode; the cache and the sessions follow every change of the local node's label set.
func c09NodeLabels(p *chk.Prog, r *chk.Report) {
	x := r.Rule("LABEL-RESYNC", "B path", "in (*bgpController).SetNode, for the local node, every path to a return stores the node's label set in c.nodeLabels and then calls c.syncPeers, except behind labels.Equals(c.nodeLabels, <the new set>) - equality of the whole sets, nothing weaker", 2)
	f := need(x, p, "speaker", "bgpController", "SetNode")
	if f == nil {
		return
	}
	g := f.Graph()
	node := isParamIdx(f, 1)
	newSet := func(e ast.Expr) bool {
		r := f.Resolve(e)
		b := f.MatchNew("labels.Set(L)", r)
		if b == nil {
			return false
		}
		// L is the node's labels, or the local that holds them (replaced by an empty map when nil)
		if f.MatchWith("N.Labels", f.Resolve(b["L"]), chk.H("N", node)) != nil || f.MatchWith("N.Labels", b["L"], chk.H("N", node)) != nil {
			return true
		}
		if id, isId := ast.Unparen(b["L"]).(*ast.Ident); isId {
			for _, d := range assignsTo(f, f.ObjOf(id)) {
				if as, isAs := d.(*ast.AssignStmt); isAs && len(as.Rhs) == 1 && f.MatchWith("N.Labels", as.Rhs[0], chk.H("N", node)) != nil {
					return true
				}
			}
		}
		return false
	}
	same := chk.GSame(g.GPat(true, "labels.Equals(RECV.nodeLabels, S)", chk.H("S", newSet)), g.GPat(true, "labels.Equals(S, RECV.nodeLabels)", chk.H("S", newSet)),
		g.GPat(true, "reflect.DeepEqual(RECV.nodeLabels, S)", chk.H("S", newSet)), g.GPat(true, "maps.Equal(RECV.nodeLabels, S)", chk.H("S", newSet)))
	notMine := chk.GSame(g.GPat(true, "RECV.myNode != N.Name", chk.H("N", node)), g.GPat(false, "RECV.myNode == N.Name", chk.H("N", node)))
	sync := f.ContainsPat("RECV.syncPeers(_)")
	store := f.IsAssignPat("RECV.nodeLabels", "S", chk.H("S", newSet))
	cut := func(b *cfgBlock, k int) bool { return g.EdgeImplies(b, k, same) || g.EdgeImplies(b, k, notMine) }
	w := (&chk.Walk{G: g, HitExit: true, Stop: sync, Cut: cut}).Run()
	x.Check("SetNode:labels-changed-resyncs-peers", posOf(w, f), !w.Found && len(g.Find(sync)) >= 1, "", "the local node's labels can change (a key added, removed or revalued) without the BGP peers being re-selected: a session that no longer selects the node stays open with its routes, or one that should exist is missing")
	w2 := g.MustPass(chk.Site{}, sync, false, store)
	x.Check("SetNode:labels-stored-before-resync", posOf(w2, f), !w2.Found, "", "the peers are re-selected against the previous label set")
}

func c09Exit(p *chk.Prog, r *chk.Report) {
	x := r.Rule("EXIT-WITHDRAWS", "B path", "in speaker.(*controller).SetBalancer every path from the entry to a return passes c.deleteBalancer(l, name, …) or reaches the loop over c.protocols whose body always calls c.handleService(l, name, lbIPs, svc, pool, epSlices, protocol), except through the edge c.config == nil", 3)
	f := need(x, p, "speaker", "controller", "SetBalancer")
	if f == nil {
		return
	}
	g := f.Graph()
	name := isParam(f, "name")
	isDel := f.ContainsPat("RECV.deleteBalancer(_, N, _)", chk.H("N", name))
	var loop *ast.RangeStmt
	for _, rs := range f.RangeLoops(func(e ast.Expr) bool { return f.MatchNew("RECV.protocols", e) != nil }) {
		loop = rs
	}
	okLoop := false
	var lbIPs types.Object
	if loop != nil {
		h := f.ContainsPat("RECV.handleService(_, N, IPS, S, P, E, PR)", chk.H("N", name), chk.H("S", isParam(f, "svc")), chk.H("E", isParam(f, "epSlices")), chk.H("PR", rangeVal(f, loop)))
		okLoop = !loopCanSkip(g, loop, h)
		for _, c := range g.FindPat("RECV.handleService(_, N, IPS, ETC)") {
			lbIPs = f.ObjOf(f.Resolve(c.Node.(*ast.CallExpr).Args[2]))
		}
	}
	x.Check("SetBalancer:handle-loop", f.Pos(), okLoop, "", "the loop over c.protocols does not hand the service to handleService for every protocol")
	noCfg := g.GPat(true, "RECV.config == nil")
	w := (&chk.Walk{G: g, HitExit: true,
		Stop: func(n ast.Node) bool { return isDel(n) || (loop != nil && n == ast.Node(loop.X)) },
		Cut:  func(b *cfgBlock, k int) bool { return g.EdgeImplies(b, k, noCfg) }}).Run()
	x.Check("SetBalancer:every-exit-withdraws-or-handles", posOf(w, f), !w.Found, "", "a return is reachable without withdrawing the service and without evaluating it: "+describe(f, w))
	// the addresses handed on are the ones parsed from the status, all of them
	okIPs := false
	if lbIPs != nil {
		// the list handed on, and the locals it is a plain copy of (a list built by a helper arrives through the
		// helper's result)
		srcs := map[types.Object]bool{lbIPs: true}
		for round := 0; round < 4; round++ {
			for o := range srcs {
				for _, d := range assignsTo(f, o) {
					as, isAs := d.(*ast.AssignStmt)
					if !isAs || len(as.Lhs) != len(as.Rhs) {
						continue
					}
					for i, l := range as.Lhs {
						if id, isId := l.(*ast.Ident); isId && f.ObjOf(id) == o {
							if r, isR := ast.Unparen(as.Rhs[i]).(*ast.Ident); isR && f.ObjOf(r) != nil && !f.IsNilLit(r) {
								if _, isVar := f.ObjOf(r).(*types.Var); isVar {
									srcs[f.ObjOf(r)] = true
								}
							}
						}
					}
				}
			}
		}
		isList := func(e ast.Expr) bool {
			id, isId := ast.Unparen(e).(*ast.Ident)
			return isId && srcs[f.ObjOf(id)]
		}
		var handle []chk.Site
		if loop != nil {
			handle = g.Find(func(n ast.Node) bool { return n == ast.Node(loop.X) })
		}
		for _, rs := range f.RangeLoops(func(e ast.Expr) bool {
			return f.MatchWith("S.Status.LoadBalancer.Ingress", e, chk.H("S", isParam(f, "svc"))) != nil
		}) {
			isApp := f.IsAssignPat("L", "append(L, IP)", chk.H("L", isList), chk.H("IP", definedBy(g, "net.ParseIP(EL.IP)", chk.H("EL", rangeVal(f, rs)))))
			// every iteration appends, and an iteration that leaves the loop early never gets to the protocols
			okIPs = len(handle) == 1 && forallBefore(f, g, rs, chk.GEvent(isApp), handle[0]) == ""
		}
	}
	x.Check("SetBalancer:addresses-are-the-status", f.Pos(), okIPs, "", "the addresses evaluated are not exactly those recorded in the Service status")

	y := r.Rule("IP-CHANGE", "B path", "in speaker.(*controller).SetBalancer the branch `known addresses differ` (c.svcIPs[name] present && !compareIPs(lbIPs, svcIPs)) always calls deleteBalancer before the handlers run; compareIPs is true only for equal length and every address of the first list found in the second", 3)
	es := g.EdgesImplying(g.GPat(true, "OK && !compareIPs(L, S)", chk.H("L", f.IsObj(lbIPs)), chk.H("S", definedBy(g, "RECV.svcIPs[N]", chk.H("N", name)))))
	y.Check("SetBalancer:changed-addresses-branch", f.Pos(), len(es) == 1, "", "no test of the parsed addresses against the addresses announced so far")
	for _, e := range es {
		w := g.BranchAlways(e, isDel)
		y.Check("SetBalancer:changed-addresses-withdraw-first", posOf(w, f), !w.Found, "", "a changed address set does not withdraw the old announcement first")
		// ... and a withdrawal that failed is reported (the reconciler retries): going on to the handlers leaves what was
		// not withdrawn in place - the layer-2 handler adds to what it announces, it does not replace it - and nothing
		// asks for another sync
		failed := g.GPat(true, "ST == controllers.SyncStateError", chk.H("ST", definedBy(g, "RECV.deleteBalancer(L, N, R)")))
		fes := g.EdgesImplying(failed)
		okFail := len(fes) >= 1
		for _, fe := range fes {
			if w3 := g.BranchAlways(fe, func(n ast.Node) bool {
				rs, isRet := n.(*ast.ReturnStmt)
				if !isRet || len(rs.Results) != 1 {
					return false
				}
				return isObjNamed(f, ctrlPkg+".SyncStateError")(rs.Results[0]) || definedBy(g, "RECV.deleteBalancer(L, N, R)")(rs.Results[0])
			}); w3.Found {
				okFail = false
			}
		}
		y.Check("SetBalancer:failed-withdrawal-is-reported", f.Pos(), okFail, "", "a failed withdrawal of the previous addresses is not returned as SyncStateError: the old address stays announced next to the new one and no retry is scheduled")
		if loop != nil {
			w2 := g.MustPass(chk.Site{}, func(n ast.Node) bool { return n == ast.Node(loop.X) }, false, func(n ast.Node) bool {
				return len(e.B.Nodes) > 0 && n == e.B.Nodes[len(e.B.Nodes)-1]
			})
			y.Check("SetBalancer:change-test-before-handlers", posOf(w2, f), !w2.Found, "", "the handlers can run before the change test")
		}
	}
	cf := need(y, p, "speaker", "", "compareIPs")
	if cf != nil {
		cg := cf.Graph()
		why := allFoundShape(cf, 0, 1, false)
		if why == "" {
			for _, rt := range cg.Returns() {
				res := retResults(rt)
				if len(res) == 1 && cf.IsConstBool(res[0], true) && !cg.Dominated(rt, cg.GPat(false, "len(A) != len(B)", chk.H("A", isParamIdx(cf, 0)), chk.H("B", isParamIdx(cf, 1)))) {
					why = "lists of different length can compare equal (a shrunk address set looks unchanged)"
				}
			}
		}
		y.Check("compareIPs:same-set", cf.Pos(), why == "", "", "compareIPs: "+why)
	}
}

func c09Handle(p *chk.Prog, r *chk.Report) {
	x := r.Rule("HANDLE", "B path", "in speaker.(*controller).handleService: the handler is c.protocolHandlers[protocol]; a non-empty ShouldAnnounce(l, name, lbIPs, pool, svc, eps, c.nodes) reason always returns deleteBalancerProtocol(l, protocol, name, reason); `announced[protocol][name] = true` and `svcIPs[name] = lbIPs` are dominated by a nil error of handler.SetBalancer(l, name, lbIPs, pool, …) whose failure returns SyncStateError", 5)
	f := need(x, p, "speaker", "controller", "handleService")
	if f == nil {
		return
	}
	g := f.Graph()
	name, proto, ips := isParam(f, "name"), isParam(f, "protocol"), isParam(f, "lbIPs")
	h := definedBy(g, "RECV.protocolHandlers[P]", chk.H("P", proto))
	reason := definedBy(g, "H.ShouldAnnounce(_, N, IPS, POOL, S, E, RECV.nodes)", chk.H("H", h), chk.H("N", name), chk.H("IPS", ips), chk.H("POOL", isParam(f, "pool")), chk.H("S", isParam(f, "svc")), chk.H("E", isParam(f, "eps")))
	es := g.EdgesImplying(g.GPat(true, `R != ""`, chk.H("R", reason)))
	x.Check("handleService:refusal-branch", f.Pos(), len(es) == 1, "", "the result of the protocol's ShouldAnnounce (for this service, these addresses and the controller's nodes) is not tested")
	for _, e := range es {
		w := g.BranchAlways(e, func(n ast.Node) bool {
			rs, ok := n.(*ast.ReturnStmt)
			return ok && len(rs.Results) == 1 && f.MatchWith("RECV.deleteBalancerProtocol(_, P, N, R)", rs.Results[0], chk.H("P", proto), chk.H("N", name)) != nil
		})
		x.Check("handleService:refusal-withdraws", posOf(w, f), !w.Found, "", "a refusal reason does not always withdraw the service from this protocol")
	}
	setOK := g.GErrNil(true, "H.SetBalancer(_, N, IPS, POOL, ETC)", chk.H("H", h), chk.H("N", name), chk.H("IPS", ips), chk.H("POOL", isParam(f, "pool")))
	marks := g.Find(f.IsAssignPat("RECV.announced[P][N]", "true", chk.H("P", proto), chk.H("N", name)))
	x.Check("handleService:mark-site", f.Pos(), len(marks) == 1, "", "expected one `c.announced[protocol][name] = true`")
	for _, m := range marks {
		x.Check("handleService:marked-only-after-successful-SetBalancer", m.Pos(), g.Dominated(m, setOK), "", "a service is marked announced although the protocol's SetBalancer failed or was not called")
		x.Check("handleService:marked-only-when-allowed", m.Pos(), g.Dominated(m, g.GPat(false, `R != ""`, chk.H("R", reason))), "", "a service is marked announced although ShouldAnnounce refused")
	}
	for _, e := range g.EdgesImplying(g.GErrNil(false, "H.SetBalancer(ETC)", chk.H("H", h))) {
		w := g.BranchAlways(e, func(n ast.Node) bool {
			rs, ok := n.(*ast.ReturnStmt)
			return ok && len(rs.Results) == 1 && isObjNamed(f, ctrlPkg+".SyncStateError")(rs.Results[0])
		})
		x.Check("handleService:setbalancer-error-retries", posOf(w, f), !w.Found, "", "a failing SetBalancer does not return SyncStateError")
	}
	sv := g.Find(f.IsAssignPat("RECV.svcIPs[N]", "IPS", chk.H("N", name), chk.H("IPS", ips)))
	x.Check("handleService:records-announced-addresses", f.Pos(), len(sv) == 1 && g.Dominated(sv[0], setOK), "", "the announced addresses are not recorded (they drive the change test and the orphan check)")

	y := r.Rule("OWN", "D ownership", "controller.announced and controller.svcIPs are written only in handleService, deleteBalancerProtocol and newController", 4)
	ownRule(y, p, "speaker", "controller", "announced", spc+"handleService", spc+"deleteBalancerProtocol", "speaker.newController")
	ownRule(y, p, "speaker", "controller", "svcIPs", spc+"handleService", spc+"deleteBalancerProtocol", "speaker.newController")
}

func c09Delete(p *chk.Prog, r *chk.Report) {
	x := r.Rule("DELETE-ORDER", "B path", "in speaker.(*controller).deleteBalancerProtocol: the early Success return needs !announced[protocol][name]; delete(c.announced[protocol], name) is dominated by a nil error of c.protocolHandlers[protocol].DeleteBalancer(l, name, reason), whose failure returns SyncStateError; delete(c.svcIPs, name) is reached only when no protocol still announces the service; deleteBalancer visits every protocol", 5)
	f := need(x, p, "speaker", "controller", "deleteBalancerProtocol")
	if f == nil {
		return
	}
	g := f.Graph()
	name, proto := isParam(f, "name"), isParam(f, "protocol")
	delOK := g.GErrNil(true, "RECV.protocolHandlers[P].DeleteBalancer(_, N, _)", chk.H("P", proto), chk.H("N", name))
	forget := g.FindPat("delete(RECV.announced[P], N)", chk.H("P", proto), chk.H("N", name))
	x.Check("deleteBalancerProtocol:forget-site", f.Pos(), len(forget) == 1, "", "expected one delete(c.announced[protocol], name)")
	for _, s := range forget {
		x.Check("deleteBalancerProtocol:forget-after-protocol-delete", s.Pos(), g.Dominated(s, delOK), "", "the service is forgotten before (or without) the protocol's DeleteBalancer succeeding: a stale announcement can survive")
	}
	for _, e := range g.EdgesImplying(g.GErrNil(false, "RECV.protocolHandlers[P].DeleteBalancer(ETC)")) {
		w := g.BranchAlways(e, func(n ast.Node) bool {
			rs, ok := n.(*ast.ReturnStmt)
			return ok && len(rs.Results) == 1 && isObjNamed(f, ctrlPkg+".SyncStateError")(rs.Results[0])
		})
		x.Check("deleteBalancerProtocol:error-retries", posOf(w, f), !w.Found, "", "a failing DeleteBalancer does not return SyncStateError")
	}
	// early success only when not announced
	ann := definedBy(g, "RECV.announced[P][N]", chk.H("P", proto), chk.H("N", name))
	first := true
	for _, rt := range g.Returns() {
		res := retResults(rt)
		if len(res) == 1 && isObjNamed(f, ctrlPkg+".SyncStateSuccess")(res[0]) && !g.Dominated(rt, delOK) {
			x.Check("deleteBalancerProtocol:early-success-needs-not-announced", rt.Pos(), g.Dominated(rt, chk.GBool(false, ann)), "", "deleteBalancerProtocol can return Success without withdrawing an announced service")
			first = false
		}
	}
	_ = first
	for _, s := range g.FindPat("delete(RECV.svcIPs, N)", chk.H("N", name)) {
		// dominated by the loop over protocols that returns if any still announces
		ok := false
		for _, rs := range f.RangeLoops(func(e ast.Expr) bool { return f.MatchNew("RECV.protocols", e) != nil }) {
			guard := g.GPat(false, "RECV.announced[P][N]", chk.H("P", rangeVal(f, rs)), chk.H("N", name))
			if forallBefore(f, g, rs, guard, s) == "" {
				ok = true
			}
		}
		x.Check("deleteBalancerProtocol:addresses-forgotten-only-when-unannounced", s.Pos(), ok, "", "the recorded addresses are dropped while another protocol still announces the service")
	}
	d := need(x, p, "speaker", "controller", "deleteBalancer")
	if d != nil {
		dg := d.Graph()
		ok := false
		for _, rs := range d.RangeLoops(func(e ast.Expr) bool { return d.MatchNew("RECV.protocols", e) != nil }) {
			call := d.ContainsPat("RECV.deleteBalancerProtocol(_, P, N, R)", chk.H("P", rangeVal(d, rs)), chk.H("N", isParam(d, "name")))
			ok = !loopCanSkip(dg, rs, call) && !loopHasBreak(dg, rs)
		}
		x.Check("deleteBalancer:every-protocol", d.Pos(), ok, "", "deleteBalancer does not withdraw the service from every protocol")
	}
}

func c09Rebuild(p *chk.Prog, r *chk.Report) {
	x := r.Rule("REBUILD", "B path", "each Protocol.SetBalancer establishes the state of every address it is given: (*bgpController).SetBalancer assigns c.svcAds[name] = nil before the first append and republishes; (*layer2Controller).SetBalancer calls announcer.SetBalancer(name, …) or announcer.DeleteBalancerIP(name, lbIP) on every path through its loop over lbIPs", 3)
	b := need(x, p, "speaker", "bgpController", "SetBalancer")
	if b != nil {
		g := b.Graph()
		name := isParam(b, "name")
		reset := b.IsAssignPat("RECV.svcAds[N]", "nil", chk.H("N", name))
		app := b.IsAssignPat("RECV.svcAds[N]", "append(RECV.svcAds[N], A)", chk.H("N", name))
		var ipLoop *ast.RangeStmt
		for _, l := range b.RangeLoops(isParam(b, "lbIPs")) {
			ipLoop = l
		}
		if apps, local := bgpAdAppends(b, g, name, ipLoop); local && len(apps) >= 1 {
			// the list is built in a local that starts empty and replaces c.svcAds[name] in one assignment; that
			// assignment must be passed before the lists are published
			store := b.IsAssignPat("RECV.svcAds[N]", "L", chk.H("N", name))
			w := g.MustPass(chk.Site{}, b.ContainsPat("RECV.updateAds()"), false, store)
			x.Check("bgp.SetBalancer:reset-before-rebuild", posOf(w, b), !w.Found, "", "the rebuilt list is not stored into c.svcAds[name] before the advertisements are published")
		} else {
			w := g.MustPass(chk.Site{}, app, false, reset)
			x.Check("bgp.SetBalancer:reset-before-rebuild", posOf(w, b), !w.Found && len(g.Find(app)) >= 1, "", "advertisements of a previous evaluation accumulate (svcAds[name] is appended to without being reset first)")
		}
		w2 := g.MustPass(chk.Site{}, func(n ast.Node) bool {
			rs, ok := n.(*ast.ReturnStmt)
			return ok && len(rs.Results) == 1 && b.IsNilLit(rs.Results[0])
		}, false, b.ContainsPat("RECV.updateAds()"))
		x.Check("bgp.SetBalancer:republish", posOf(w2, b), !w2.Found, "", "the rebuilt advertisements are not published to the sessions before returning success")
	}
	l := need(x, p, "speaker", "layer2Controller", "SetBalancer")
	if l != nil {
		g := l.Graph()
		name := isParam(l, "name")
		ok := false
		for _, rs := range l.RangeLoops(isParam(l, "lbIPs")) {
			ip := rangeVal(l, rs)
			mut := func(n ast.Node) bool {
				return l.ContainsPat("RECV.announcer.SetBalancer(N, ADV)", chk.H("N", name), chk.H("ADV", definedBy(g, "ipAdvertisementFor(IP, RECV.myNode, POOL.L2Advertisements)", chk.H("IP", ip), chk.H("POOL", isParam(l, "pool")))))(n) ||
					l.ContainsPat("RECV.announcer.DeleteBalancerIP(N, IP)", chk.H("N", name), chk.H("IP", ip))(n)
			}
			ok = !loopCanSkip(g, rs, mut)
			// ... for every address: the loop is not left before the last one
			if bad := scanLeftEarly(l, rs); bad != nil {
				if _, isRet := bad.(*ast.ReturnStmt); !isRet {
					ok = false
				} else if rr := bad.(*ast.ReturnStmt); len(rr.Results) != 1 || l.IsNilLit(rr.Results[0]) {
					ok = false // leaving with success before the last address
				}
			}
		}
		x.Check("layer2.SetBalancer:every-address-established", l.Pos(), ok, "", "an address of the service can be left in whatever state a previous configuration put it (neither announced anew nor withdrawn)")
	}
	y := r.Rule("PROTO-DELETE", "B path", "(*bgpController).DeleteBalancer deletes svcAds[name] and republishes whenever the service has advertisements; (*layer2Controller).DeleteBalancer calls announcer.DeleteBalancer(name) whenever the announcer knows the name", 2)
	bd := need(y, p, "speaker", "bgpController", "DeleteBalancer")
	if bd != nil {
		g := bd.Graph()
		name := isParam(bd, "name")
		present := definedBy(g, "RECV.svcAds[N]", chk.H("N", name))
		w := (&chk.Walk{G: g, HitExit: true, Stop: func(n ast.Node) bool {
			rs, ok := n.(*ast.ReturnStmt)
			return ok && len(rs.Results) == 1 && bd.MatchNew("RECV.updateAds()", rs.Results[0]) != nil
		}, Cut: func(b *cfgBlock, k int) bool { return g.EdgeImplies(b, k, chk.GBool(false, present)) }}).Run()
		del := g.FindPat("delete(RECV.svcAds, N)", chk.H("N", name))
		okk := !w.Found && len(del) == 1
		if okk {
			w2 := g.MustPass(del[0], nil, true, bd.ContainsPat("RECV.updateAds()"))
			okk = !w2.Found
		}
		if !okk && len(del) == 1 {
			// decided again with the values set on the way (the removal inside an expanded helper that answers whether there
			// was anything to remove): a return that does not republish is reached only with the service unknown, and
			// never with the deletion behind it
			isUpd := bd.ContainsPat("RECV.updateAds()")
			isDel := func(n ast.Node) bool { return n == del[0].Top }
			okk = len(g.Returns()) > 0
			for _, rt := range g.Returns() {
				if isUpd(rt.Node) {
					continue
				}
				if !g.Dominated(rt, chk.GBool(false, present)) || !g.Dominated(rt, chk.GOr(chk.GNot(chk.GEvent(isDel)), chk.GEvent(isUpd))) {
					okk = false
				}
			}
		}
		y.Check("bgp.DeleteBalancer:delete-and-republish", bd.Pos(), okk, "", "a withdrawn service's advertisements are not removed and republished")
	}
	ld := need(y, p, "speaker", "layer2Controller", "DeleteBalancer")
	if ld != nil {
		g := ld.Graph()
		name := isParam(ld, "name")
		w := (&chk.Walk{G: g, HitExit: true, Stop: ld.ContainsPat("RECV.announcer.DeleteBalancer(N)", chk.H("N", name)),
			Cut: func(b *cfgBlock, k int) bool {
				return g.EdgeImplies(b, k, g.GPat(false, "RECV.announcer.AnnounceName(N)", chk.H("N", name)))
			}}).Run()
		y.Check("layer2.DeleteBalancer:announcer-delete", posOf(w, ld), !w.Found, "", "a withdrawn service stays in the layer-2 announcer")
	}
}

func c09Resync(p *chk.Prog, r *chk.Report) {
	x := r.Rule("RESYNC", "B path", "speaker.(*controller).SetConfig writes c.config = cfg only after every recorded service still has a pool under the new configuration and every protocol accepted it, and then returns SyncStateReprocessAll; SetNode computes isNodeAvailableChanged(c.nodes, node) before overwriting c.nodes[node.Name] and returns ReprocessAll on every path where it is true; isNodeAvailableChanged is true when the network-unavailable condition or the exclusion label differ between the stored and the new node", 7)
	f := need(x, p, "speaker", "controller", "SetConfig")
	if f != nil {
		g := f.Graph()
		cfg := isParam(f, "cfg")
		ws := g.Find(f.IsAssignPat("RECV.config", "C", chk.H("C", cfg)))
		x.Check("SetConfig:install-site", f.Pos(), len(ws) == 1, "", "expected one `c.config = cfg`")
		for _, s := range ws {
			w := (&chk.Walk{G: g, From: s, HitExit: true, Stop: func(n ast.Node) bool {
				rs, ok := n.(*ast.ReturnStmt)
				return ok && len(rs.Results) == 1 && isObjNamed(f, ctrlPkg+".SyncStateReprocessAll")(rs.Results[0])
			}}).Run()
			x.Check("SetConfig:install-then-reprocess", posOf(w, f), !w.Found, "", "a new configuration is installed without requesting a re-sync of all services")
			ok := false
			for _, rs := range f.RangeLoops(func(e ast.Expr) bool { return f.MatchNew("RECV.svcIPs", e) != nil }) {
				guard := g.GPat(false, `P == ""`, chk.H("P", definedBy(g, "poolFor(C.Pools, IP)", chk.H("C", cfg), chk.H("IP", rangeVal(f, rs)))))
				if forallBefore(f, g, rs, guard, s) == "" {
					ok = true
				}
			}
			x.Check("SetConfig:orphan-check", s.Pos(), ok, "", "a configuration under which an announced service has no pool can be installed")
			ok2 := false
			for _, rs := range f.RangeLoops(func(e ast.Expr) bool { return f.MatchNew("RECV.protocolHandlers", e) != nil }) {
				guard := g.GErrNil(true, "H.SetConfig(_, C)", chk.H("H", rangeVal(f, rs)), chk.H("C", cfg))
				if forallBefore(f, g, rs, guard, s) == "" {
					ok2 = true
				}
			}
			x.Check("SetConfig:protocols-accepted", s.Pos(), ok2, "", "the configuration is installed although a protocol handler rejected it")
		}
	}
	sn := need(x, p, "speaker", "controller", "SetNode")
	if sn != nil {
		g := sn.Graph()
		node := isParam(sn, "node")
		changed := definedBy(g, "isNodeAvailableChanged(RECV.nodes, N)", chk.H("N", node))
		compared := sn.ContainsPat("isNodeAvailableChanged(RECV.nodes, N)", chk.H("N", node))
		if len(g.FindPat("isNodeAvailableChanged(RECV.nodes, N)", chk.H("N", node))) == 0 {
			// the lookup of the stored node made by the caller: `old, known := c.nodes[node.Name]` and
			// `known && isNodeAvailableChanged(old, node)` (a node seen for the first time is no change, as before)
			oldN := definedByIdx(g, sn, "RECV.nodes[N.Name]", 0, chk.H("N", node))
			known := definedByIdx(g, sn, "RECV.nodes[N.Name]", 1, chk.H("N", node))
			changed = func(e ast.Expr) bool {
				return definedBy(g, "K && isNodeAvailableChanged(O, N)", chk.H("K", known), chk.H("O", oldN), chk.H("N", node))(e) ||
					definedBy(g, "isNodeAvailableChanged(O, N) && K", chk.H("K", known), chk.H("O", oldN), chk.H("N", node))(e)
			}
			compared = func(n ast.Node) bool {
				as, ok := n.(*ast.AssignStmt)
				return ok && len(as.Lhs) == 2 && len(as.Rhs) == 1 && sn.MatchWith("RECV.nodes[N.Name]", as.Rhs[0], chk.H("N", node)) != nil
			}
		}
		es := g.EdgesImplying(chk.GBool(true, changed))
		x.Check("SetNode:availability-branch", sn.Pos(), len(es) == 1, "", "the result of isNodeAvailableChanged(c.nodes, node) - for any node, not only the local one - does not decide the re-sync")
		// the answer prepared in a local (`onSuccess := Success; if changed { onSuccess = ReprocessAll }; ..; return
		// onSuccess`): in the executions in which the availability changed, the only values that reach the return are
		// ReprocessAll (or the error of a failed handler)
		unchangedEdge := func(b *cfgBlock, k int) bool { return g.EdgeImplies(b, k, chk.GBool(false, changed)) }
		viaLocal := func(rt chk.Site) bool {
			res := retResults(rt)
			if len(res) != 1 {
				return false
			}
			id, isId := ast.Unparen(res[0]).(*ast.Ident)
			if !isId || sn.ConstVal(id) != nil {
				return false
			}
			if v, isVar := sn.ObjOf(id).(*types.Var); !isVar || v.IsField() || v.Pkg() == nil || v.Parent() == v.Pkg().Scope() {
				return false
			}
			defs, entry := g.ReachingDefsUnder(id, rt, unchangedEdge)
			if entry || len(defs) == 0 {
				return false
			}
			for _, d := range defs {
				as, isAs := d.(*ast.AssignStmt)
				if !isAs || len(as.Lhs) != 1 || len(as.Rhs) != 1 || !isObjNamed(sn, ctrlPkg+".SyncStateReprocessAll", ctrlPkg+".SyncStateError")(as.Rhs[0]) {
					return false
				}
			}
			return true
		}
		for _, e := range es {
			w := g.BranchAlways(e, func(n ast.Node) bool {
				rs, ok := n.(*ast.ReturnStmt)
				return ok && len(rs.Results) == 1 && isObjNamed(sn, ctrlPkg+".SyncStateReprocessAll")(rs.Results[0])
			})
			okRe := !w.Found
			if !okRe {
				okRe = true
				for _, rt := range g.Returns() {
					res := retResults(rt)
					if len(res) == 1 && isObjNamed(sn, ctrlPkg+".SyncStateReprocessAll", ctrlPkg+".SyncStateError")(res[0]) {
						continue
					}
					if !viaLocal(rt) && !g.Dominated(rt, chk.GBool(false, changed)) {
						okRe = false
					}
				}
			}
			x.Check("SetNode:changed-availability-reprocesses", posOf(w, sn), okRe, "", "a changed node availability does not request a re-sync")
		}
		store := g.Find(sn.IsAssignPat("RECV.nodes[N.Name]", "N", chk.H("N", node)))
		x.Check("SetNode:stores-node", sn.Pos(), len(store) == 1, "", "the node is not stored")
		if len(store) == 1 {
			w := g.MustPass(chk.Site{}, func(n ast.Node) bool { return n == store[0].Top }, false, compared)
			x.Check("SetNode:compare-before-overwrite", posOf(w, sn), !w.Found, "", "the node is overwritten before its availability is compared with the stored one (the comparison then sees no change)")
		}
		// conversely, a result other than ReprocessAll (or the error of a failed handler) needs availability unchanged:
		// an extra condition on the re-sync (only the local node, only some label) is a lost re-sync
		for _, rt := range g.Returns() {
			res := retResults(rt)
			if len(res) != 1 || isObjNamed(sn, ctrlPkg+".SyncStateReprocessAll", ctrlPkg+".SyncStateError")(res[0]) {
				continue
			}
			x.Check("SetNode:other-result-needs-unchanged-availability", rt.Pos(), g.Dominated(rt, chk.GBool(false, changed)) || viaLocal(rt), "",
				"SetNode can answer without a re-sync although isNodeAvailableChanged(c.nodes, node) is true (extra condition on the re-sync)")
		}
	}
	ic := need(x, p, "speaker", "", "isNodeAvailableChanged")
	if ic != nil {
		g := ic.Graph()
		old := definedBy(g, "M[N.Name]", chk.H("M", isParamIdx(ic, 0)), chk.H("N", isParamIdx(ic, 1)))
		nw := isParamIdx(ic, 1)
		if pv := ic.Param(0); pv != nil {
			if _, isMap := pv.Type().Underlying().(*types.Map); !isMap {
				old = isParamIdx(ic, 0) // the stored node itself, looked up by the caller
			}
		}
		// the stored node is unknown (comma-ok of the map lookup is false)
		unknown := chk.GBool(false, func(e ast.Expr) bool {
			id, ok := ast.Unparen(e).(*ast.Ident)
			if !ok {
				return false
			}
			rhs, idx := g.DefOf(id, g.FactSite(id))
			return rhs != nil && idx == 1 && ic.MatchWith("M[N.Name]", rhs, chk.H("M", isParamIdx(ic, 0)), chk.H("N", isParamIdx(ic, 1))) != nil
		})
		for _, pred := range []string{"IsNetworkUnavailable", "IsNodeExcludedFromBalancers"} {
			same := g.GPat(false, "k8snodes."+pred+"(O) != k8snodes."+pred+"(N)", chk.H("O", old), chk.H("N", nw))
			// a result of false needs the attribute unchanged (or a node that was not known before)
			need := chk.GOr(unknown, same)
			ok, n := true, 0
			for _, rt := range g.Returns() {
				rr := retResults(rt)
				if len(rr) != 1 {
					continue
				}
				n++
				switch {
				case ic.IsConstBool(rr[0], true):
				case ic.IsConstBool(rr[0], false):
					ok = ok && g.Dominated(rt, need)
				default:
					ok = ok && g.DominatedAssuming(rt, rr[0], false, need)
				}
			}
			x.Check("isNodeAvailableChanged:"+pred, ic.Pos(), ok && n > 0 && len(g.FindPat("k8snodes."+pred+"(O)", chk.H("O", old))) > 0, "", "a change of "+pred+" between the stored and the new node is not reported")
		}
	}
}

// membershipRule (shared by C04, C09, C12): the election runs over the speakers memberlist reports alive, and every
// change of that membership is followed by a resync.
func membershipRule(p *chk.Prog, r *chk.Report) {
	x := r.Rule("MEMBERSHIP", "B path", "speakerlist.(*SpeakerList).UsableSpeakers reports Disabled only behind sl.ml == nil; otherwise Nodes holds the name of every member of sl.ml.Members() (a loop that is neither cut short nor skips a member) and Disabled is false; in memberlistWatchEvents every event received from sl.mlEventCh reaches sl.client.ForceSync() before the next one is awaited", 4)
	f := need(x, p, "internal/speakerlist", "SpeakerList", "UsableSpeakers")
	if f != nil {
		g := f.Graph()
		// "memberlist does not run", also spelt through the Disabled field of a local answer record that was set from that
		// very test (`info := SpeakerListInfo{Disabled: sl.ml == nil}; if info.Disabled`)
		disabledFlag := func(e ast.Expr) bool {
			se, isSel := ast.Unparen(e).(*ast.SelectorExpr)
			if !isSel || se.Sel.Name != "Disabled" {
				return false
			}
			o := f.RootObj(se.X)
			if v, isVar := o.(*types.Var); !isVar || v.IsField() || v.Pkg() == nil || v.Parent() == v.Pkg().Scope() {
				return false
			}
			n, okDef := 0, false
			for _, d := range storesRootedAt(f, o) {
				as, isAs := d.(*ast.AssignStmt)
				if !isAs || len(as.Lhs) != len(as.Rhs) {
					return false
				}
				for i, l := range as.Lhs {
					if f.RootObj(l) != o {
						continue
					}
					if ls, isS := ast.Unparen(l).(*ast.SelectorExpr); isS && ls.Sel.Name == "Disabled" {
						n++
						okDef = f.MatchNew("RECV.ml == nil", ast.Unparen(as.Rhs[i])) != nil
					} else if lit, isLit := ast.Unparen(as.Rhs[i]).(*ast.CompositeLit); isLit {
						for _, el := range lit.Elts {
							if k, ok := el.(*ast.KeyValueExpr); ok && k.Key.(*ast.Ident).Name == "Disabled" {
								n++
								okDef = f.MatchNew("RECV.ml == nil", ast.Unparen(k.Value)) != nil
							}
						}
					}
				}
			}
			return n == 1 && okDef
		}
		noML := chk.GSame(g.GPat(true, "RECV.ml == nil"), chk.GBool(true, disabledFlag))
		nRet := 0
		hasML := chk.GSame(g.GPat(false, "RECV.ml == nil"), chk.GBool(false, disabledFlag))
		for _, rt := range g.Returns() {
			rr := retResults(rt)
			if len(rr) != 1 {
				continue
			}
			nRet++
			// the two components of the answer: from the literal returned, or from the local record that is returned
			// (its literal plus the stores into its fields)
			var dis, nodes ast.Expr
			okShape := true
			if lit, isLit := ast.Unparen(rr[0]).(*ast.CompositeLit); isLit {
				for _, el := range lit.Elts {
					if k, ok := el.(*ast.KeyValueExpr); ok {
						switch k.Key.(*ast.Ident).Name {
						case "Disabled":
							dis = k.Value
						case "Nodes":
							nodes = k.Value
						}
					}
				}
			} else if id, isId := ast.Unparen(rr[0]).(*ast.Ident); isId && f.ObjOf(id) != nil {
				o := f.ObjOf(id)
				nDis := 0
				for _, d := range storesRootedAt(f, o) {
					as, isAs := d.(*ast.AssignStmt)
					if !isAs || len(as.Lhs) != len(as.Rhs) {
						okShape = false
						continue
					}
					for i, l := range as.Lhs {
						if f.RootObj(l) != o {
							continue
						}
						if se, isSel := ast.Unparen(l).(*ast.SelectorExpr); isSel {
							switch se.Sel.Name {
							case "Disabled":
								dis = as.Rhs[i]
								nDis++
							case "Nodes":
								nodes = se
							}
							continue
						}
						if _, isIx := ast.Unparen(l).(*ast.IndexExpr); isIx {
							continue // an insertion into the record's node set
						}
						lit, isLit := ast.Unparen(as.Rhs[i]).(*ast.CompositeLit)
						if !isLit {
							okShape = false
							continue
						}
						for _, el := range lit.Elts {
							if k, ok := el.(*ast.KeyValueExpr); ok {
								switch k.Key.(*ast.Ident).Name {
								case "Disabled":
									dis = k.Value
									nDis++
								case "Nodes":
									nodes = k.Value
								}
							}
						}
					}
				}
				if nDis > 1 {
					okShape = false
				}
			} else {
				okShape = false
			}
			if !okShape {
				x.Fail("UsableSpeakers:result-literal", rt.Pos(), "the result is not a SpeakerListInfo literal (or a local record built from one)")
				continue
			}
			isNoML := func(e ast.Expr) bool {
				return e != nil && (f.MatchNew("RECV.ml == nil", ast.Unparen(f.Resolve(e))) != nil || f.MatchNew("RECV.ml == nil", ast.Unparen(e)) != nil)
			}
			switch {
			case g.Dominated(rt, noML):
				// the answer without memberlist: every known node is a candidate
				x.Check("UsableSpeakers:disabled-without-memberlist", rt.Pos(), dis != nil && (f.IsConstBool(dis, true) || isNoML(dis)), "", "without memberlist the answer does not say that membership tracking is disabled: nobody is a candidate")
			case g.Dominated(rt, hasML):
				okDis := dis == nil || f.IsConstBool(dis, false) || isNoML(dis)
				x.Check("UsableSpeakers:disabled-only-without-memberlist", rt.Pos(), okDis, "", "membership tracking is reported as disabled although memberlist runs: the election then runs over every known node, including nodes whose speaker is dead, and the lone live speaker defers to a node nobody answers for")
				okAll := false
				if nodes != nil {
					isM := func(e ast.Expr) bool { return f.SameExpr(e, nodes) }
					for _, rs := range f.RangeLoops(func(e ast.Expr) bool {
						return f.MatchNew("RECV.ml.Members()", e) != nil || definedBy(g, "RECV.ml.Members()")(e)
					}) {
						ins := g.Find(func(nd ast.Node) bool {
							return chk.InBody(rs, nd) && f.IsAssignPat("M[N.Name]", "true", chk.H("M", isM), chk.H("N", rangeVal(f, rs)))(nd)
						})
						if len(ins) == 1 && !loopCanSkip(g, rs, func(nd ast.Node) bool { return nd == ins[0].Top }) && !loopHasBreak(g, rs) && g.AfterLoop(rt, rs) {
							okAll = true
							for _, r2 := range g.Returns() {
								if chk.InBody(rs, r2.Node) {
									okAll = false
								}
							}
						}
					}
					// nothing is taken out again
					if len(g.FindPat("delete(M, K)", chk.H("M", isM))) > 0 {
						okAll = false
					}
				}
				x.Check("UsableSpeakers:every-member-is-usable", rt.Pos(), okAll, "", "with memberlist running the usable speakers are not exactly the names of all current members")
			default:
				okDis := dis == nil || f.IsConstBool(dis, false)
				x.Check("UsableSpeakers:disabled-only-without-memberlist", rt.Pos(), okDis, "", "membership tracking is reported as disabled although memberlist runs: the election then runs over every known node, including nodes whose speaker is dead, and the lone live speaker defers to a node nobody answers for")
				x.Check("UsableSpeakers:answer-decided-by-memberlist", rt.Pos(), false, "", "an answer is given that is neither the one without memberlist nor the one with it")
			}
		}
		x.Check("UsableSpeakers:answers", f.Pos(), nRet >= 2, "", "expected the disabled and the enabled answer")
	}
	w := need(x, p, "internal/speakerlist", "SpeakerList", "memberlistWatchEvents")
	if w != nil {
		g := w.Graph()
		n := 0
		ast.Inspect(w.Body, func(nd ast.Node) bool {
			cc, ok := nd.(*ast.CommClause)
			if !ok || cc.Comm == nil {
				return true
			}
			recv := false
			ast.Inspect(cc.Comm, func(m ast.Node) bool {
				if u, isU := m.(*ast.UnaryExpr); isU && u.Op == token.ARROW && w.MatchNew("RECV.mlEventCh", u.X) != nil {
					recv = true
				}
				return true
			})
			if !recv {
				return true
			}
			n++
			ends := g.RegionEnds(caseBlock(g, cc), cc, chk.GEvent(w.ContainsPat("RECV.client.ForceSync()")))
			okSync := len(ends) > 0
			for _, e := range ends {
				if !e.OK {
					okSync = false
				}
			}
			x.Check("memberlistWatchEvents:every-event-forces-a-sync", cc.Pos(), okSync, "", "a membership event can be consumed without forcing a resync (a join of a member seen before, say): the survivors keep announcing what the returning speaker now also announces, or nobody takes over")
			return true
		})
		x.Check("memberlistWatchEvents:event-case", w.Pos(), n == 1, "", "expected one receive from sl.mlEventCh")
	}
}

// c09RefusalRetried: a configuration the speaker refuses because of what it currently announces is asked for again.
func c09RefusalRetried(p *chk.Prog, r *chk.Report) {
	x := r.Rule("REFUSAL-RETRIED", "B path", "in speaker.(*controller).SetConfig every return that is not preceded by `c.config = cfg` reports an error state; the refusal that depends on the announced addresses (behind poolFor(cfg.Pools, ip) == \"\") reports SyncStateError - the one state on which the ConfigReconciler forgets the configuration it remembered and retries", 2)
	f := need(x, p, "speaker", "controller", "SetConfig")
	if f == nil {
		return
	}
	g := f.Graph()
	cfg := isParamIdx(f, 1)
	stored := chk.GEvent(f.IsAssignPat("RECV.config", "C", chk.H("C", cfg)))
	orphan := chk.GSame(g.GPat(true, `poolFor(C.Pools, IP) == ""`, chk.H("C", cfg)), g.GPat(true, `P == ""`, chk.H("P", definedBy(g, "poolFor(C.Pools, IP)", chk.H("C", cfg)))))
	nOrphan := 0
	for _, rt := range g.Returns() {
		rr := retResults(rt)
		if len(rr) != 1 {
			continue
		}
		isErr := isObjNamed(f, ctrlPkg+".SyncStateError")(rr[0])
		isNoRetry := isObjNamed(f, ctrlPkg+".SyncStateErrorNoRetry")(rr[0])
		if g.Dominated(rt, orphan) {
			nOrphan++
			x.Check("SetConfig:orphan-refusal-is-retried", rt.Pos(), isErr, "", "the configuration refused because an announced address would lose its pool is not reported as SyncStateError: the reconciler keeps it as the current one, drops every later identical configuration as unchanged, and the speaker stays on the old pools and peers for good")
			continue
		}
		if !g.Dominated(rt, stored) {
			x.Check("SetConfig:not-applied-is-an-error", rt.Pos(), isErr || isNoRetry, "", "SetConfig reports success without having stored the configuration")
		}
	}
	x.Check("SetConfig:orphan-refusal", f.Pos(), nOrphan >= 1, "", "no refusal behind poolFor(cfg.Pools, ip) == \"\"")
}

// storesRootedAt lists the assignments (outside function literals) one of whose targets is the variable itself, a field
// of it or an element reached through it.
func storesRootedAt(f *chk.Fn, o types.Object) []ast.Node {
	var out []ast.Node
	if o == nil {
		return nil
	}
	chk.InspectNoLit(f.Body, func(n ast.Node) bool {
		if as, ok := n.(*ast.AssignStmt); ok {
			for _, l := range as.Lhs {
				if f.RootObj(l) == o {
					out = append(out, as)
					break
				}
			}
		}
		return true
	})
	return out
}

// c09PoolCurrent (shared with C05, C04): the pool a Service is announced for - its advertisements, its node selectors -
// is the pool that owns the Service's current addresses under the current configuration, looked up afresh on every
// sync. A remembered pool survives a configuration that moved the addresses to another pool.
func c09PoolCurrent(p *chk.Prog, r *chk.Report) {
	x := r.Rule("POOL-CURRENT", "B path", "in speaker (*controller).SetBalancer the pool handed to handleService is c.config.Pools.ByName[poolFor(c.config.Pools, lbIPs)] (or the pool poolFor itself returns) for the very addresses handed with it: every definition of the name reaches it from that call, none from remembered state", 1)
	f := need(x, p, "speaker", "controller", "SetBalancer")
	if f == nil {
		return
	}
	g := f.Graph()
	n := 0
	for _, hs := range g.FindPat("RECV.handleService(L, N, IPS, S, POOL, ETC)", chk.H("RECV", isRecv(f))) {
		n++
		call := hs.Node.(*ast.CallExpr)
		ips, pool := call.Args[2], call.Args[4]
		// (through plain copies: a record of the call's operands taken apart again)
		ipsObj := f.ObjOf(ast.Unparen(f.Resolve(ips)))
		sameIPs := func(e ast.Expr) bool { return ipsObj != nil && f.ObjOf(ast.Unparen(f.Resolve(e))) == ipsObj }
		fromPoolFor := definedBy(g, "poolFor(RECV.config.Pools, IPS)", chk.H("IPS", sameIPs))
		ok := fromPoolFor(pool) || definedBy(g, "RECV.config.Pools.ByName[N]", chk.H("N", fromPoolFor))(pool)
		x.Check("SetBalancer:pool-of-the-current-addresses", hs.Pos(), ok, "", "the pool the Service is announced for does not come, on every path, from poolFor(c.config.Pools, <the addresses announced>): a pool remembered from an earlier sync keeps its advertisements and node selectors in force after the configuration moved the addresses elsewhere")
	}
	x.Check("SetBalancer:handleService", f.Pos(), n >= 1, "", "no handleService call found")
}

// peersConservedRule (shared with C05, C10): bgpController.SetConfig carries a known peer over (with its session) or
// closes it. A peer that drops out of the books with its session open is never Set again and never closed: whatever
// it was last offered stays in the neighbour's table. Peers are told apart by their whole configuration; `id` is the
// address alone (two peers behind one address differ by port or VRF), so an index of the existing peers by such a key
// loses all but one of the peers that share it.
func peersConservedRule(p *chk.Prog, r *chk.Report) {
	x := r.Rule("PEERS-CONSERVED", "D ownership / value flow", "in (*bgpController).SetConfig no element of c.peers is put into a map under a key derived from it, except the peer's unique configuration name: an index by `id` (the address alone) or by any other attribute can hold one peer per key only, and the peers it drops are neither kept nor closed", 1)
	f := need(x, p, "speaker", "bgpController", "SetConfig")
	if f == nil {
		return
	}
	isPeers := func(e ast.Expr) bool {
		return f.MatchWith("RECV.peers", f.Resolve(e), chk.H("RECV", isRecv(f))) != nil || f.MatchWith("RECV.peers", e, chk.H("RECV", isRecv(f))) != nil
	}
	loops := f.RangeLoops(isPeers)
	ok, at := true, f.Pos()
	for _, rs := range loops {
		ep := rangeVal(f, rs)
		ast.Inspect(rs.Body, func(n ast.Node) bool {
			as, isAs := n.(*ast.AssignStmt)
			if !isAs || len(as.Lhs) != len(as.Rhs) {
				return true
			}
			for i, l := range as.Lhs {
				ix, isIx := ast.Unparen(l).(*ast.IndexExpr)
				if !isIx {
					continue
				}
				if _, isMap := f.Info().TypeOf(ix.X).Underlying().(*types.Map); !isMap {
					continue
				}
				rhs := ast.Unparen(as.Rhs[i])
				if u, isU := rhs.(*ast.UnaryExpr); isU && u.Op == token.AND {
					rhs = ast.Unparen(u.X)
				}
				if !ep(rhs) {
					continue
				}
				// the peer itself as the key, or its configuration name, identify it; anything else may be shared
				if ep(ix.Index) || f.MatchWith("P.cfg.Name", ix.Index, chk.H("P", ep)) != nil {
					continue
				}
				ok, at = false, as.Pos()
			}
			return true
		})
	}
	x.Check("SetConfig:known-peers-not-indexed-by-a-shared-key", at, ok && len(loops) >= 1, "", "the known peers are indexed by a key that several of them can share (id is the peer's address alone): the index keeps one of them, the others drop out of c.peers with their sessions still open - never Set again, never closed - and go on offering what they were last given")
}
