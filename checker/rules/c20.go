package rules

import (
	"go/ast"
	"go/token"
	"go/types"
	"regexp"
	"strings"

	"verif/mlbcheck/chk"
)

func init() {
	register(&Prop{
		ID: "C20",
		Explanation: "Decided (lock discipline on all paths; mutual exclusion is the premise from which serial equivalence follows): the handlers stored in " +
			"k8s.Listener are invoked only by the four Listener.*Handler wrappers with the Listener mutex held, k8s.New registers only those wrappers with the " +
			"reconcilers, and the state-touching methods of the controller / speaker objects escape as values only into a Listener literal or as one of the three " +
			"self-locking fetchers (LOCK-ENTRY); every access to a field of the guarded-by table is made with its lock held, in write mode for writes, with the " +
			"caller-holds locksets of unexported helpers computed as a fixed point over their call sites (LOCK-GUARDED); the notification callbacks and the " +
			"gratuitous-announcement channel send execute with the fine-grained lock released, defers modelled in LIFO order (LOCK-NOBLOCK); no method hands out " +
			"guarded storage that is later mutated in place: results are copies made under the lock, or the storage is only ever replaced wholesale (LOCK-LEAK); the status reconcilers only read what the " +
			"fetchers hand out (FETCHED-READONLY).",
		NotDecided: "Serial equivalence of results as values (a consequence of mutual exclusion under one global lock, argued not checked); races inside third-party " +
			"libraries; which lock *instance* is held (no pointer analysis: a guarded structure is reached through its owning receiver).",
		Run:      runC20,
		Thorough: thoroughC20,
		Mutants: []Mutant{
			{Name: "responder-maps-ranged-after-unlock", File: "internal/layer2/announcer.go",
				Old: "func (a *Announce) gratuitous(adv IPAdvertisement) {\n\ta.RLock()\n\tdefer a.RUnlock()\n\n\tip := adv.ip\n\tif a.ipRefcnt[ip.String()] <= 0 {\n\t\t// We've lost control of the IP, someone else is\n\t\t// doing announcements.\n\t\treturn\n\t}\n\n\tif ip.To4() != nil {\n\t\tfor _, client := range a.arps {", New: "func (a *Announce) gratuitous(adv IPAdvertisement) {\n\ta.RLock()\n\tip := adv.ip\n\tif a.ipRefcnt[ip.String()] <= 0 {\n\t\ta.RUnlock()\n\t\treturn\n\t}\n\tarps := a.arps\n\ta.RUnlock()\n\n\tif ip.To4() != nil {\n\t\tfor _, client := range arps {", Expect: "LOCK-GUARDED"},
			{Name: "hold-time-truncated-in-place", File: "internal/bgp/native/native.go",
				Old: "\tret := &session{\n\t\tSessionParameters: sessionsParams,",
				New: "\t*sessionsParams.HoldTime = sessionsParams.HoldTime.Truncate(time.Second)\n\tret := &session{\n\t\tSessionParameters: sessionsParams,", Expect: "store-through-field"},
			{Name: "status-query-widens-announcer-interfaces", File: "internal/k8s/controllers/layer2_status_controller.go",
				Old: "\tadv := advertisements[0]\n",
				New: "\tadv := advertisements[0]\n\tadv.GetInterfaces().Insert(\"lo\")\n", Expect: "FETCHED-READONLY"},
			{Name: "close-joins-the-receive-loop", File: "internal/layer2/arp.go",
				Old: "func (a *arpResponder) Close() error {\n\tclose(a.closed)\n\treturn a.conn.Close()", New: "func (a *arpResponder) Close() error {\n\tclose(a.closed)\n\terr := a.conn.Close()\n\t<-a.closed\n\treturn err", Expect: "LOCK-NOBLOCK"},
			{Name: "status-copy-made-after-unlock", File: "internal/layer2/announcer.go",
				Old: "\ta.RLock()\n\tdefer a.RUnlock()\n\tadvs := a.ips[meta.String()]\n", New: "\ta.RLock()\n\tadvs := a.ips[meta.String()]\n\ta.RUnlock()\n", Expect: "LOCK-LEAK"},
			{Name: "register-raw-handler", File: "internal/k8s/k8s.go",
				Old: "\t\t\tHandler:           cfg.ServiceHandler,", New: "\t\t\tHandler:           cfg.ServiceChanged,", Expect: "LOCK-ENTRY"},
			{Name: "wrapper-without-unlock-defer", File: "internal/k8s/listener.go",
				Old: "func (l *Listener) NodeHandler(logger log.Logger, node *v1.Node) controllers.SyncState {\n\tl.Lock()\n\tdefer l.Unlock()\n", New: "func (l *Listener) NodeHandler(logger log.Logger, node *v1.Node) controllers.SyncState {\n", Expect: "LOCK-ENTRY"},
			{Name: "counters-read-without-lock", File: "internal/allocator/allocator.go",
				Old: "\ta.countersMutex.RLock()\n\tdefer a.countersMutex.RUnlock()\n\treturn a.poolToCounters[name]", New: "\treturn a.poolToCounters[name]", Expect: "LOCK-GUARDED"},
			{Name: "callback-inside-critical-section", File: "internal/allocator/allocator.go",
				Old: "\t\tAssignedIPv6:  int64(len(a.poolIPV6InUse[p.Name])),\n\t}\n}", New: "\t\tAssignedIPv6:  int64(len(a.poolIPV6InUse[p.Name])),\n\t}\n\ta.countersChangedCallback(p.Name)\n}", Expect: "LOCK-NOBLOCK"},
			{Name: "getstatus-returns-internal-slice", File: "internal/layer2/announcer.go",
				Old: "\tadvs := a.ips[meta.String()]\n\tif advs == nil {\n\t\treturn nil\n\t}\n\tres := make([]IPAdvertisement, len(advs))\n\tcopy(res, advs)\n\treturn res", New: "\treturn a.ips[meta.String()]", Expect: "LOCK-LEAK"},
			{Name: "swapped-defers-in-announce-setbalancer", File: "internal/layer2/announcer.go",
				Old: "\tdefer a.doSpam(adv)\n\ta.Lock()\n\tdefer a.Unlock()\n", New: "\ta.Lock()\n\tdefer a.Unlock()\n\tdefer a.doSpam(adv)\n", Expect: "LOCK-NOBLOCK"},
			{Name: "pool-gone-branch-writes-counters-unlocked", File: "internal/allocator/allocator.go",
				Old: "\t\tdeleteStatsFor(al.pool)\n\t\treturn\n", New: "\t\tdeleteStatsFor(al.pool)\n\t\tdelete(a.poolToCounters, al.pool)\n\t\treturn\n", Expect: "LOCK-GUARDED"},
			{Name: "activeads-sets-mutated-in-place", File: "speaker/bgp_controller.go",
				Old: "\tc.activeAds = newActiveAds\n}", New: "\tfor k, v := range newActiveAds {\n\t\tif old, ok := c.activeAds[k]; ok {\n\t\t\told.Clear().Insert(v.UnsortedList()...)\n\t\t\tnewActiveAds[k] = old\n\t\t}\n\t}\n\tc.activeAds = newActiveAds\n}", Expect: "LOCK-LEAK"},
			{Name: "extra-goroutine-calls-handler", File: "controller/main.go",
				Old: "\tbgpType, present := os.LookupEnv(\"METALLB_BGP_TYPE\")\n", New: "\tresync := c.SetPools\n\t_ = resync\n\tbgpType, present := os.LookupEnv(\"METALLB_BGP_TYPE\")\n", Expect: "LOCK-ENTRY"},
			{Name: "ads-callback-before-unlock", File: "speaker/bgp_controller.go",
				Old: "\tchangedSvcs := []string{} // the services that their advs changed\n\tdefer func() {\n\t\tfor _, k := range changedSvcs {\n\t\t\tc.adsChangedCallback(k)\n\t\t}\n\t}()\n\n\tc.activeAdsMutex.Lock()\n\tdefer c.activeAdsMutex.Unlock()\n",
				New: "\tchangedSvcs := []string{} // the services that their advs changed\n\tc.activeAdsMutex.Lock()\n\tdefer c.activeAdsMutex.Unlock()\n\tdefer func() {\n\t\tfor _, k := range changedSvcs {\n\t\t\tc.adsChangedCallback(k)\n\t\t}\n\t}()\n\n", Expect: "LOCK-NOBLOCK"},
			{Name: "D16-cursor-on-the-shared-network", File: "internal/allocator/allocator.go",
				Old: "\treturn ipaddr.NewCursor([]ipaddr.Prefix{*ipaddr.NewPrefix(&net.IPNet{IP: cidr.IP, Mask: cidr.Mask})})", New: "\treturn ipaddr.NewCursor([]ipaddr.Prefix{*ipaddr.NewPrefix(cidr)})", Expect: "SHARED-CONFIG"},
			{Name: "handler-sorts-configuration-slice", File: "internal/allocator/allocator.go",
				Old: "\ta.pools = pools\n\n\t// Need to rearrange existing pool mappings and counts", New: "\ta.pools = pools\n\tfor _, pl := range pools.ByName {\n\t\tsort.Slice(pl.CIDR, func(i, j int) bool { return pl.CIDR[i].String() < pl.CIDR[j].String() })\n\t}\n\n\t// Need to rearrange existing pool mappings and counts", Expect: "SHARED-CONFIG"},
			{Name: "interfaces-read-under-no-lock", File: "internal/layer2/announcer.go",
				Old: "func (a *Announce) GetInterfaces() []string {\n\ta.Lock()\n\tdefer a.Unlock()\n", New: "func (a *Announce) GetInterfaces() []string {\n", Expect: "LOCK-GUARDED"},
		},
	})
}

func runC20(p *chk.Prog, r *chk.Report) {
	// a Set is never dropped on the strength of what another goroutine has sent so far (PENDING, shared with C17)
	c17Pending(p, r)
	c05Build(p, r)
	c20Entry(p, r)
	x := r.Rule("LOCK-GUARDED", "C locks (must-hold lockset dataflow)", "every access to a field of the frozen guarded-by table (Allocator.poolToCounters / countersMutex; bgpController.activeAds / activeAdsMutex; Announce.{nodeInterfaces,arps,ndps,ips,ipRefcnt} and ndpResponder.solicitedNodeGroups / Announce's RWMutex; SpeakerList.mlSpeakerIPs / mlMux) is made with the lock held, in write mode for writes; constructors are exempt until the object is shared", 40)
	guardedRule(x, p, guardTable)
	// the reconciler's desired configuration, written by the BGP handlers through UpdateConfig and read by the worker (row shared with C15)
	y := r.Rule("LOCK-GUARDED-K8S", "C locks (must-hold lockset dataflow)", "FRRK8sReconciler.desiredConfiguration is accessed only under the reconciler's mutex", 2)
	guardedRule(y, p, []guardRow{c19Table[2]})
	c20NoBlock(p, r)
	c20Leak(p, r)
	c20Reentrant(p, r)
	c20Fetchers(p, r)
	c20FetchedReadOnly(p, r)
	sharedConfigRule(p, r)
}

// c20Reentrant: no mutex is acquired again while it is certainly held (directly, or through a method called on the
// same receiver): sync.Mutex / RWMutex are not re-entrant - a nested RLock deadlocks as soon as a writer queues between
// the two acquisitions, and every handler then stops because the blocked one keeps the Listener mutex.
func c20Reentrant(p *chk.Prog, r *chk.Report) {
	x := r.Rule("LOCK-REENTRANT", "C locks (must-hold lockset dataflow)", "no Lock/RLock of a mutex that the must-hold lockset already contains, neither in the same function nor through a method of the same receiver that (transitively) acquires it", 1)
	la := locksOf(p)
	n := 0
	for _, ra := range la.Reacquires() {
		n++
		x.Fail("reacquire:"+ra.Fn.Name()+":"+ra.Lock.Name(), ra.Call.Pos(), ra.Op+" of "+ra.Lock.Name()+" while it is already held (not re-entrant: deadlock)")
	}
	for _, ra := range la.ReentrantCalls(lockPkgs...) {
		n++
		callee := ""
		if fn, ok := ra.Fn.Callee(ra.Call).(*types.Func); ok {
			callee = fn.Name()
		}
		x.Fail("reentrant-call:"+ra.Fn.Name()+"->"+callee, ra.Call.Pos(), ra.Fn.Name()+" calls "+callee+" on its own receiver while holding "+ra.Lock.Name()+", which "+callee+" acquires again ("+ra.Op+"): sync mutexes are not re-entrant, a writer arriving in between deadlocks every handler")
	}
	if n == 0 {
		x.OK("no-reentrant-acquisition", 0, "")
	}
}

// c20Fetchers: the status fetchers run on other goroutines than the serialised handlers; they may touch only the
// fields their own mutex guards (everything else of the receiver belongs to the handlers).
func c20Fetchers(p *chk.Prog, r *chk.Report) {
	x := r.Rule("FETCHER-SCOPE", "D ownership", "the self-locking status fetchers read only the state their own mutex guards: Allocator.CountersForPool {countersMutex, poolToCounters}; bgpController.PeersForService {activeAdsMutex, activeAds}; Announce.GetStatus {its RWMutex, ips, nodeInterfaces}", 3)
	rows := []struct {
		pkg, typ, fn string
		allowed      map[string]bool
	}{
		{"internal/allocator", "Allocator", "CountersForPool", map[string]bool{"countersMutex": true, "poolToCounters": true}},
		{"speaker", "bgpController", "PeersForService", map[string]bool{"activeAdsMutex": true, "activeAds": true}},
		{"internal/layer2", "Announce", "GetStatus", map[string]bool{"RWMutex": true, "ips": true, "nodeInterfaces": true, "logger": true}},
	}
	for _, row := range rows {
		f := need(x, p, row.pkg, row.typ, row.fn)
		if f == nil {
			continue
		}
		recv := f.Recv()
		ok, bad := true, f.Pos()
		ast.Inspect(f.Body, func(n ast.Node) bool {
			sel, isSel := n.(*ast.SelectorExpr)
			if !isSel || recv == nil || f.ObjOf(sel.X) != types.Object(recv) {
				return true
			}
			if s := f.Info().Selections[sel]; s != nil && s.Kind() == types.FieldVal && !row.allowed[sel.Sel.Name] {
				ok, bad = false, sel.Pos()
			}
			return true
		})
		x.Check(row.fn+":reads-only-its-guarded-state", bad, ok, "", row.typ+"."+row.fn+" runs outside the handlers' serialisation and reads a field that its own mutex does not guard (unsynchronised access to handler-private state)")
	}
}

// c20FetchedReadOnly: what the self-locking fetchers hand out still shares maps with the state behind their lock
// (Announce.GetStatus copies the advertisements shallowly: their interface sets are the announcer's own). The status
// reconcilers run on their own workers, outside the handlers' serialisation and without the fetcher's lock: they may
// read what they fetched, never write through it.
func c20FetchedReadOnly(p *chk.Prog, r *chk.Report) {
	x := r.Rule("FETCHED-READONLY", "D ownership (effects)", "in the methods of the status reconcilers (Layer2StatusReconciler, ServiceBGPStatusReconciler, PoolStatusReconciler) nothing is stored, deleted, sorted in place or inserted through a value obtained from the fetcher fields (StatusFetcher, PeersFetcher, CountersFetcher) or handed down from such a call as a parameter", 6)
	n := 0
	for _, f := range p.FuncsIn(ctrlPkg) {
		rv := f.Recv()
		if rv == nil || f.Decl == nil || f.Body == nil {
			continue
		}
		t := rv.Type()
		if pt, isP := t.(*types.Pointer); isP {
			t = pt.Elem()
		}
		nt, isN := t.(*types.Named)
		if !isN {
			continue
		}
		switch nt.Obj().Name() {
		case "Layer2StatusReconciler", "ServiceBGPStatusReconciler", "PoolStatusReconciler":
		default:
			continue
		}
		n++
		f := f
		isFetch := func(c *ast.CallExpr) bool {
			sel, isSel := ast.Unparen(c.Fun).(*ast.SelectorExpr)
			if !isSel || f.ObjOf(sel.X) != types.Object(rv) {
				return false
			}
			fld, isF := f.ObjOf(sel.Sel).(*types.Var)
			return isF && fld.IsField() && strings.HasSuffix(fld.Name(), "Fetcher")
		}
		// parameters of the module's own data types (what a fetcher returned, handed down), not the framework's
		// request / object arguments that the reconciler owns
		stores := storesThroughHanded(f, false, isFetch)
		for _, st := range storesThroughHandedParams(f, func(pv *types.Var) bool {
			return strings.Contains(pv.Type().String(), chk.Module+"/internal/layer2.") || strings.Contains(pv.Type().String(), chk.Module+"/internal/allocator.")
		}) {
			stores = append(stores, st)
		}
		what, pos := "", f.Pos()
		for _, st := range stores {
			what += st.What + "; "
			pos = st.Node.Pos()
		}
		x.Check(nt.Obj().Name()+"."+f.Decl.Name.Name+":fetched-state-is-only-read", pos, len(stores) == 0, "", "the status reconciler writes through what a fetcher handed out ("+what+"): the fetched advertisements share their interface sets with the announcer, which reads them under its own lock on other goroutines (data race, and the announcer's state changes behind its back)")
	}
	r.CallSites += n
}

var deferTemp = regexp.MustCompile(`^_dfr[0-9]+$`)

func c20Entry(p *chk.Prog, r *chk.Report) {
	x := r.Rule("LOCK-ENTRY", "C locks + D who-may-call", "the func-typed fields of k8s.Listener are called only from the Listener.*Handler wrapper of the same event kind, with the Listener mutex held (Lock + deferred Unlock); every `Handler:` of a reconciler literal in k8s.New is the matching wrapper's method value; a method value of a state-touching type (controller.controller, speaker.controller, allocator.Allocator, speaker.bgpController, speaker.layer2Controller) is taken only inside a k8s.Listener literal, or is one of the self-locking fetchers CountersForPool / PeersForService", 14)
	la := locksOf(p)
	lock := p.LockField("internal/k8s", "Listener", "")
	if lock == nil {
		x.Undecided("anchor:Listener-mutex", "UNDECIDED anchor missing: embedded mutex of k8s.Listener")
		return
	}
	pairs := map[string]string{"ServiceChanged": "ServiceHandler", "ConfigChanged": "ConfigHandler", "PoolChanged": "PoolHandler", "NodeChanged": "NodeHandler"}
	for fldName, wrapper := range pairs {
		fld := p.LookupField("internal/k8s", "Listener", fldName)
		if fld == nil {
			x.Undecided("anchor:Listener."+fldName, "UNDECIDED anchor missing: k8s.Listener."+fldName)
			continue
		}
		calls := 0
		for _, f := range p.Funcs() {
			ast.Inspect(f.Body, func(n ast.Node) bool {
				call, ok := n.(*ast.CallExpr)
				if !ok {
					return true
				}
				sel, ok := ast.Unparen(call.Fun).(*ast.SelectorExpr)
				if !ok || !f.IsField(sel, fld) {
					return true
				}
				calls++
				r.CallSites++
				want := "(*internal/k8s.Listener)." + wrapper
				held := la.HeldAt(f, call)
				_, h := held[lock]
				okk := f.Name() == want && h
				// the lock stays held until the call returned: the unlock is deferred
				if okk {
					okk = false
					for _, d := range f.Defers() {
						if lk, op := f.LockOp(d.Call); lk == lock && op == "Unlock" {
							okk = true
						}
					}
					// ... or it was deferred in a locking helper whose body the normalisation expanded here: the deferred call
					// is then written out behind the result temporary `_dfrN := <call>` that only chk/deferres.go creates. (An
					// unlock written out by hand is not accepted: a panicking handler - the reconcilers recover panics -
					// would leave the mutex locked and stop every other handler for good.)
					fromDefer := false
					if as, isAs := p.Parent(call).(*ast.AssignStmt); isAs && len(as.Lhs) == 1 {
						if id, isId := as.Lhs[0].(*ast.Ident); isId && deferTemp.MatchString(id.Name) {
							fromDefer = true
						}
					} else if pe, isP := p.Parent(call).(*ast.ParenExpr); isP {
						if as, isAs := p.Parent(pe).(*ast.AssignStmt); isAs && len(as.Lhs) == 1 {
							if id, isId := as.Lhs[0].(*ast.Ident); isId && deferTemp.MatchString(id.Name) {
								fromDefer = true
							}
						}
					}
					if !okk && fromDefer {
						g := f.Graph()
						unlocks := func(n ast.Node) bool {
							found := false
							chk.InspectNoLit(n, func(m ast.Node) bool {
								if c, isC := m.(*ast.CallExpr); isC {
									if lk, op := f.LockOp(c); lk == lock && op == "Unlock" {
										found = true
									}
								}
								return !found
							})
							return found
						}
						okk = !g.MustPass(g.FactSite(call), nil, true, unlocks).Found
					}
					// or the call sits in a function literal that a locking helper runs with the mutex held around
					// the whole invocation (l.locked(func() { return l.XChanged(...) }))
					if !okk {
						for q := p.Parent(call); q != nil && q != ast.Node(f.Body); q = p.Parent(q) {
							if lit, isLit := q.(*ast.FuncLit); isLit {
								if _, entryHeld := la.LitEntry(f, lit)[lock]; entryHeld {
									okk = true
								}
								break
							}
						}
					}
				}
				x.Check("Listener."+fldName+"@"+f.Name(), call.Pos(), okk, "", "the "+fldName+" handler is invoked outside "+wrapper+" or without the Listener mutex held for the whole call: two reconcilers could run handlers concurrently")
				return true
			})
		}
		x.Check("Listener."+fldName+":invoked", 0, calls == 1, "", "expected exactly one invocation site")
	}
	// registrations in k8s.New
	nf := p.LookupFunc("internal/k8s", "", "New")
	if x.Need(nf, "internal/k8s.New") {
		want := map[string]string{"ConfigReconciler": "ConfigHandler", "PoolReconciler": "PoolHandler", "NodeReconciler": "NodeHandler", "ServiceReconciler": "ServiceHandler"}
		found := map[string]bool{}
		ast.Inspect(nf.Body, func(n ast.Node) bool {
			cl, ok := n.(*ast.CompositeLit)
			if !ok {
				return true
			}
			t := nf.Info().TypeOf(cl)
			named, ok := t.(*types.Named)
			if !ok {
				return true
			}
			w, ok := want[named.Obj().Name()]
			if !ok || named.Obj().Pkg().Path() != chk.Module+"/"+ctrlPkg {
				return true
			}
			for _, e := range cl.Elts {
				kv, ok := e.(*ast.KeyValueExpr)
				if !ok || kv.Key.(*ast.Ident).Name != "Handler" {
					continue
				}
				found[named.Obj().Name()] = true
				o, _ := nf.ObjOf(kv.Value).(*types.Func)
				x.Check("New:"+named.Obj().Name()+".Handler", kv.Pos(), o != nil && chk.ObjName(o) == "(*internal/k8s.Listener)."+w, "", "the "+named.Obj().Name()+" is given a handler that does not take the Listener mutex")
			}
			return true
		})
		for k := range want {
			if !found[k] {
				x.Fail("New:"+k+".Handler", nf.Pos(), "no Handler registration found for "+k)
			}
		}
	}
	// method values of state-touching types
	stateTypes := map[string]bool{"controller.controller": true, "speaker.controller": true, "internal/allocator.Allocator": true,
		"speaker.bgpController": true, "speaker.layer2Controller": true}
	// layer2.Announce is not in this list: it is self-locking (every access to its state is under its own RWMutex, LOCK-GUARDED),
	// so its method values (shouldAnnounce for the responders, GetStatus for the status reconciler) may be called from any goroutine.
	fetchers := map[string]bool{"(*internal/allocator.Allocator).CountersForPool": true, "(*speaker.bgpController).PeersForService": true, "(*internal/layer2.Announce).GetStatus": true}
	listenerT := p.LookupType("internal/k8s", "Listener")
	nvals := 0
	for _, f := range p.Funcs() {
		info := f.Info()
		ast.Inspect(f.Body, func(n ast.Node) bool {
			sel, ok := n.(*ast.SelectorExpr)
			if !ok {
				return true
			}
			s := info.Selections[sel]
			if s == nil || s.Kind() != types.MethodVal {
				return true
			}
			par := p.Parent(sel)
			if c, ok := par.(*ast.CallExpr); ok && ast.Unparen(c.Fun) == ast.Expr(sel) {
				return true // a call, not a value
			}
			m := s.Obj().(*types.Func)
			rt := s.Recv()
			if pt, ok := rt.(*types.Pointer); ok {
				rt = pt.Elem()
			}
			named, ok := rt.(*types.Named)
			if !ok || named.Obj().Pkg() == nil {
				return true
			}
			tn := strings.TrimPrefix(named.Obj().Pkg().Path(), chk.Module+"/") + "." + named.Obj().Name()
			if !stateTypes[tn] {
				return true
			}
			nvals++
			name := chk.ObjName(m)
			okk := fetchers[name]
			if !okk {
				// inside a k8s.Listener literal
				if kv, ok := par.(*ast.KeyValueExpr); ok {
					if cl, ok := p.Parent(kv).(*ast.CompositeLit); ok && listenerT != nil && types.Identical(info.TypeOf(cl), listenerT) {
						okk = true
					}
				}
			}
			if !okk {
				// handed to a function of this module that only calls it, at once and on this goroutine (a predicate passed
				// to a search helper): it runs where the caller runs, under whatever lock the caller holds
				if c, ok := par.(*ast.CallExpr); ok {
					for i, a := range c.Args {
						if ast.Unparen(a) == ast.Expr(sel) && !c.Ellipsis.IsValid() {
							if callee, _ := f.Callee(c).(*types.Func); callee != nil {
								if cf := p.FnOf(callee); cf != nil && paramOnlyCalled(p, cf, i, 0) {
									if _, isGo := p.Parent(c).(*ast.GoStmt); !isGo {
										if _, isDefer := p.Parent(c).(*ast.DeferStmt); !isDefer {
											okk = true
										}
									}
								}
							}
						}
					}
				}
			}
			x.Check("method-value:"+name+"@"+f.Name(), sel.Pos(), okk, "", "a state-touching method is taken as a value outside a k8s.Listener literal: whoever calls it bypasses the global handler lock")
			return true
		})
	}
	x.Check("method-values-found", 0, nvals >= 7, "", "fewer method values than on the confirmed tree (5 handlers + 2 fetchers)")
	// goroutines in the handler packages must not call state-touching methods
	for _, pk := range []string{"controller", "speaker"} {
		for _, f := range p.FuncsIn(pk) {
			ast.Inspect(f.Body, func(n ast.Node) bool {
				gs, ok := n.(*ast.GoStmt)
				if !ok {
					return true
				}
				bad := false
				ast.Inspect(gs.Call, func(m ast.Node) bool {
					c, ok := m.(*ast.CallExpr)
					if !ok {
						return true
					}
					if fn, ok := f.Callee(c).(*types.Func); ok {
						if sig, ok := fn.Type().(*types.Signature); ok && sig.Recv() != nil {
							t := sig.Recv().Type()
							if pt, ok := t.(*types.Pointer); ok {
								t = pt.Elem()
							}
							if nt, ok := t.(*types.Named); ok && nt.Obj().Pkg() != nil {
								tn := strings.TrimPrefix(nt.Obj().Pkg().Path(), chk.Module+"/") + "." + nt.Obj().Name()
								if stateTypes[tn] && !fetchers[chk.ObjName(fn)] {
									bad = true
								}
							}
						}
					}
					return true
				})
				x.Check("goroutine@"+f.Name(), gs.Pos(), !bad, "", "a goroutine started in package "+pk+" calls a state-touching method without the Listener mutex")
				return true
			})
		}
	}
}

func c20NoBlock(p *chk.Prog, r *chk.Report) {
	x := r.Rule("LOCK-NOBLOCK", "C locks (defers in LIFO order)", "the operations whose consumer may need the same lock never execute while it is held: Allocator.countersChangedCallback under countersMutex; bgpController.adsChangedCallback under activeAdsMutex; Announce.doSpam / a send on Announce.spamCh under Announce's RWMutex (the code comment requires it); deferred calls are evaluated at their position in the LIFO exit sequence", 7)
	rows := []struct {
		pkg, typ, lockField, what string
		isOp                      func(f *chk.Fn, call *ast.CallExpr) bool
		floor                     int
	}{
		{"internal/allocator", "Allocator", "countersMutex", "countersChangedCallback", func(f *chk.Fn, c *ast.CallExpr) bool {
			return f.MatchNew("RECV.countersChangedCallback(ETC)", c) != nil
		}, 3},
		{"speaker", "bgpController", "activeAdsMutex", "adsChangedCallback", func(f *chk.Fn, c *ast.CallExpr) bool { return f.MatchNew("RECV.adsChangedCallback(ETC)", c) != nil }, 1},
		{"internal/layer2", "Announce", "", "doSpam", func(f *chk.Fn, c *ast.CallExpr) bool { return f.MatchNew("RECV.doSpam(ETC)", c) != nil }, 1},
	}
	for _, row := range rows {
		lock := p.LockField(row.pkg, row.typ, row.lockField)
		if lock == nil {
			x.Undecided("anchor:"+row.typ, "UNDECIDED anchor missing: lock of "+row.typ)
			continue
		}
		sites, bad := callsHeld(p, row.pkg, lock, row.isOp)
		x.Check(row.typ+"."+row.what+":never-under-"+lock.Name(), firstPos(bad), len(bad) == 0 && sites >= row.floor, "", row.what+" can execute while "+row.typ+"'s "+lock.Name()+" is held (the notified side reads under the same lock; with an unbuffered or full channel this deadlocks, and the notification reports a state that is not yet published)")
		r.CallSites += sites
	}
	// nothing waits for another goroutine while the announcer lock is held: the responders' receive loops take the
	// read lock for every request (shouldAnnounce), so a Close that joins the loop (WaitGroup.Wait, a receive from a
	// done channel) under the write lock never returns once a request is in flight - and every handler behind the
	// Listener mutex stops with it
	if lk := p.LockField("internal/layer2", "Announce", ""); lk != nil {
		waits := func(f *chk.Fn, c *ast.CallExpr) bool { return c20Joins(p, f, c, 0) }
		_, bad := callsHeld(p, "internal/layer2", lk, waits)
		x.Check("Announce:no-join-under-lock", firstPos(bad), len(bad) == 0, "", "a call that waits for another goroutine (sync.WaitGroup.Wait / a channel receive, directly or inside the callee) runs while the announcer lock is held: the goroutine waited for needs the read lock (shouldAnnounce) - deadlock")
	}
	// channel send on spamCh
	lock := p.LockField("internal/layer2", "Announce", "")
	la := locksOf(p)
	spam := p.LookupField("internal/layer2", "Announce", "spamCh")
	if lock != nil && spam != nil {
		n := 0
		for _, f := range p.FuncsIn("internal/layer2") {
			ast.Inspect(f.Body, func(nd ast.Node) bool {
				ss, ok := nd.(*ast.SendStmt)
				if !ok || !f.IsField(ss.Chan, spam) {
					return true
				}
				n++
				held := la.HeldAt(f, ss)
				_, h := held[lock]
				x.Check("Announce.spamCh-send@"+f.Name(), ss.Pos(), !h, "", "a send on spamCh happens with the announcer lock held (the spam loop needs the lock in gratuitous(): deadlock when the channel is full)")
				return true
			})
		}
		x.Check("Announce.spamCh-send:found", 0, n == 1, "", "expected one send site")
		// doSpam (the only sender) must have an empty entry lockset w.r.t. the announcer lock
		if ds := p.LookupFunc("internal/layer2", "Announce", "doSpam"); ds != nil {
			_, h := la.Entry(ds)[lock]
			x.Check("Announce.doSpam:callers-released-lock", ds.Pos(), !h, "", "every caller of doSpam holds the announcer lock")
		}
	}
	// gratuitous takes the lock itself: its callers (spam loop) must not hold it (RWMutex is not reentrant)
	if gf := p.LookupFunc("internal/layer2", "Announce", "gratuitous"); gf != nil && lock != nil {
		_, h := la.Entry(gf)[lock]
		x.Check("Announce.gratuitous:not-reentrant", gf.Pos(), !h, "", "gratuitous() re-acquires a lock its caller already holds")
	}
}

func c20Leak(p *chk.Prog, r *chk.Report) {
	x := r.Rule("LOCK-LEAK", "C locks + D ownership", "a function that returns (a reference to) guarded storage of slice/map type returns a fresh copy made under the lock, unless that storage is never mutated in place anywhere (whole-value replacement only): Announce.GetStatus / GetInterfaces copy; bgpController.PeersForService may return activeAds[key] because activeAds and its sets are only replaced; Allocator.CountersForPool returns a struct by value", 4)
	type leakRow struct {
		pkg, typ, field string
		replacedOnly    bool
	}
	for _, row := range []leakRow{
		{"internal/layer2", "Announce", "ips", false},
		{"internal/layer2", "Announce", "nodeInterfaces", false},
		{"speaker", "bgpController", "activeAds", true},
		{"internal/allocator", "Allocator", "poolToCounters", false},
	} {
		fld := p.LookupField(row.pkg, row.typ, row.field)
		if fld == nil {
			x.Undecided("anchor:"+row.typ+"."+row.field, "UNDECIDED anchor missing")
			continue
		}
		inPlace := false
		var inPlacePos ast.Node
		for _, a := range p.FieldAccesses(fld) {
			if a.Kind == "elem" || a.Kind == "delete" || a.Kind == "incdec" || (strings.HasPrefix(a.Kind, "method:") && mutatingMethod(a.Kind[7:])) {
				if a.Fn != nil && !strings.HasSuffix(a.Fn.Name(), ".New") && a.Fn.Name() != "speaker.newController" {
					inPlace = true
					inPlacePos = a.Sel
				}
			}
		}
		// element values obtained from the field and mutated through a method (sets)
		if row.replacedOnly {
			for _, f := range p.FuncsIn(row.pkg) {
				ast.Inspect(f.Body, func(n ast.Node) bool {
					call, ok := n.(*ast.CallExpr)
					if !ok {
						return true
					}
					sel, ok := call.Fun.(*ast.SelectorExpr)
					if !ok || !mutatingMethod(sel.Sel.Name) {
						return true
					}
					recv := ast.Unparen(sel.X)
					// chained: x.Clear().Insert(...)
					for {
						if c, ok := recv.(*ast.CallExpr); ok {
							if s2, ok := c.Fun.(*ast.SelectorExpr); ok {
								recv = ast.Unparen(s2.X)
								continue
							}
						}
						break
					}
					if derivesFromField(f, recv, fld) {
						inPlace = true
						inPlacePos = call
					}
					return true
				})
			}
		}
		// functions returning the storage
		for _, f := range p.FuncsIn(row.pkg) {
			if f.Decl == nil {
				continue
			}
			g := f.Graph()
			for _, rt := range g.Returns() {
				for _, e := range retResults(rt) {
					t := f.Info().TypeOf(e)
					if t == nil {
						continue
					}
					switch t.Underlying().(type) {
					case *types.Slice, *types.Map:
					default:
						continue
					}
					if !derivesFromField(f, e, fld) {
						continue
					}
					ok := !inPlace
					why := "the returned value aliases " + row.typ + "." + row.field + ", which is mutated in place"
					if inPlacePos != nil {
						why += " at " + p.Rel(inPlacePos.Pos())
					}
					x.Check("returns-guarded-storage:"+row.typ+"."+row.field+"@"+f.Name(), rt.Pos(), ok, "", why+": the caller reads it after the lock was released (data race)")
				}
			}
		}
		if row.replacedOnly {
			pos := fld.Pos()
			if inPlacePos != nil {
				pos = inPlacePos.Pos()
			}
			x.Check("replaced-wholesale-only:"+row.typ+"."+row.field, pos, !inPlace, "", row.typ+"."+row.field+" (or one of its element sets) is mutated in place although references to it are handed out")
		}
	}
	// the copying getters really copy under the lock
	for _, c := range []struct{ recv, name, field string }{{"Announce", "GetStatus", "ips"}, {"Announce", "GetInterfaces", "nodeInterfaces"}} {
		f := need(x, p, "internal/layer2", c.recv, c.name)
		if f == nil {
			continue
		}
		g := f.Graph()
		fld := p.LookupField("internal/layer2", c.recv, c.field)
		ok := false
		for _, rt := range g.Returns() {
			rr := retResults(rt)
			if len(rr) != 1 || f.IsNilLit(rr[0]) {
				continue
			}
			res := f.ObjOf(rr[0])
			cp := g.Find(func(n ast.Node) bool {
				call, okk := n.(*ast.CallExpr)
				if !okk {
					return false
				}
				b := f.MatchNew("copy(R, SRC)", call)
				return b != nil && f.ObjOf(b["R"]) == res && derivesFromField(f, b["SRC"], fld)
			})
			ok = len(cp) == 1 && definedBy(g, "make(T, len(SRC))")(rr[0])
			var copyNode ast.Node
			if ok {
				copyNode = cp[0].Node
			}
			if !ok {
				// the library spellings of "a fresh slice with the same elements"
				val := f.Resolve(rr[0])
				for _, pat := range []string{"slices.Clone(SRC)", "append(T(nil), SRC...)", "append(T{}, SRC...)"} {
					if b := f.MatchNew(pat, val); b != nil && derivesFromField(f, b["SRC"], fld) {
						ok = true
						copyNode = val
					}
				}
			}
			// the elements are read while the lock is held (a slice header fetched under the lock still shares its
			// elements with the guarded storage, which handlers rewrite in place)
			if ok && copyNode != nil {
				if lk := p.LockField("internal/layer2", c.recv, ""); lk != nil {
					if _, held := locksOf(p).HeldAt(f, copyNode)[lk]; !held {
						ok = false
					}
				}
			}
		}
		x.Check(c.recv+"."+c.name+":returns-copy", f.Pos(), ok, "", c.name+" does not return a fresh copy of "+c.field+" made while the lock is held")
	}
}

// derivesFromField: e is a selector of the field, an index/slice of it, or a
// local variable defined from such an expression.
func derivesFromField(f *chk.Fn, e ast.Expr, fld *types.Var) bool {
	return derivesFromFieldN(f, e, fld, 0)
}

func derivesFromFieldN(f *chk.Fn, e ast.Expr, fld *types.Var, rec int) bool {
	if rec > 3 {
		return false
	}
	for depth := 0; depth < 4; depth++ {
		e = ast.Unparen(e)
		switch x := e.(type) {
		case *ast.SelectorExpr:
			return f.IsField(x, fld)
		case *ast.IndexExpr:
			e = x.X
			continue
		case *ast.SliceExpr:
			e = x.X
			continue
		case *ast.Ident:
			g := f.Graph()
			rhs, _ := g.DefOf(x, g.FactSite(x))
			if rhs == nil {
				// range value variable over the field
				o := f.ObjOf(x)
				for _, rs := range f.RangeLoops(func(y ast.Expr) bool { return derivesFromFieldN(f, y, fld, rec+1) }) {
					if v, ok := rs.Value.(*ast.Ident); ok && f.ObjOf(v) == o {
						return true
					}
				}
				return false
			}
			e = rhs
			continue
		}
		return false
	}
	return false
}

func firstPos(ps []token_Pos) token_Pos {
	if len(ps) > 0 {
		return ps[0]
	}
	return 0
}

// thoroughC20 infers, for every struct of the module that contains a mutex,
// which fields are accessed both with and without it, and prints the
// differences from the frozen table as candidates for review (information only).
func thoroughC20(p *chk.Prog, r *chk.Report) {
	la := locksOf(p)
	tabled := map[*types.Var]bool{}
	for _, row := range guardTable {
		for _, fn := range row.fields {
			if v := p.LookupField(row.pkg, row.typ, fn); v != nil {
				tabled[v] = true
			}
		}
	}
	for _, row := range append(append(append([]guardRow{}, c17Table...), c19Table...), c14Table...) {
		for _, fn := range row.fields {
			if v := p.LookupField(row.pkg, row.typ, fn); v != nil {
				tabled[v] = true
			}
		}
	}
	var cands []string
	structs := 0
	for _, pkg := range p.Pkgs {
		scope := pkg.Types.Scope()
		for _, nm := range scope.Names() {
			tn, ok := scope.Lookup(nm).(*types.TypeName)
			if !ok {
				continue
			}
			st, ok := tn.Type().Underlying().(*types.Struct)
			if !ok {
				continue
			}
			var locks []*types.Var
			for i := 0; i < st.NumFields(); i++ {
				if nt, ok := st.Field(i).Type().(*types.Named); ok && nt.Obj().Pkg() != nil && nt.Obj().Pkg().Path() == "sync" && (nt.Obj().Name() == "Mutex" || nt.Obj().Name() == "RWMutex") {
					locks = append(locks, st.Field(i))
				}
			}
			if len(locks) == 0 {
				continue
			}
			structs++
			rel := strings.TrimPrefix(pkg.PkgPath, chk.Module+"/")
			for i := 0; i < st.NumFields(); i++ {
				fld := st.Field(i)
				if tabled[fld] {
					continue
				}
				with, without := 0, 0
				for _, a := range p.FieldAccesses(fld) {
					if a.Fn == nil {
						continue
					}
					held := la.HeldAt(a.Fn, a.Sel)
					h := false
					for _, l := range locks {
						if _, ok := held[l]; ok {
							h = true
						}
					}
					if h {
						with++
					} else {
						without++
					}
				}
				if with > 0 && without > 0 {
					cands = append(cands, rel+"."+nm+"."+fld.Name()+": "+itoa2(with)+" accesses under a lock of the struct, "+itoa2(without)+" without (not in the guarded-by table)")
				}
			}
		}
	}
	r.Extra["thorough_structs_with_mutex"] = structs
	r.Extra["thorough_lock_inference_candidates"] = cands
}

func itoa2(i int) string {
	if i < 10 {
		return itoa(i)
	}
	return itoa(i/10) + itoa(i%10)
}

// paramOnlyCalled: the i-th parameter (a function value) of f is only ever called in f's own body - not stored, not
// returned, not captured by a function literal, not started with go or deferred - or handed to a function of this
// module that treats it the same way.
func paramOnlyCalled(p *chk.Prog, f *chk.Fn, i int, depth int) bool {
	pv := f.Param(i)
	if pv == nil || f.Body == nil || depth > 2 {
		return false
	}
	if sig, ok := f.Obj.Type().(*types.Signature); ok && sig.Variadic() && i >= sig.Params().Len()-1 {
		return false
	}
	ok := true
	var walk func(n ast.Node, inLit bool)
	walk = func(root ast.Node, inLit bool) {
		ast.Inspect(root, func(n ast.Node) bool {
			if !ok {
				return false
			}
			if lit, isLit := n.(*ast.FuncLit); isLit && n != root {
				walk(lit, true)
				return false
			}
			id, isId := n.(*ast.Ident)
			if !isId || f.Info().Uses[id] != types.Object(pv) {
				return true
			}
			if inLit {
				ok = false
				return false
			}
			par := p.Parent(id)
			for {
				if pe, isParen := par.(*ast.ParenExpr); isParen {
					par = p.Parent(pe)
					continue
				}
				break
			}
			c, isCall := par.(*ast.CallExpr)
			if !isCall {
				ok = false
				return false
			}
			switch p.Parent(c).(type) {
			case *ast.GoStmt, *ast.DeferStmt:
				ok = false
				return false
			}
			if ast.Unparen(c.Fun) == ast.Expr(id) {
				return true // called
			}
			for k, a := range c.Args {
				if ast.Unparen(a) == ast.Expr(id) {
					callee, _ := f.Callee(c).(*types.Func)
					if callee == nil || c.Ellipsis.IsValid() {
						ok = false
						return false
					}
					cf := p.FnOf(callee)
					if cf == nil || !paramOnlyCalled(p, cf, k, depth+1) {
						ok = false
						return false
					}
				}
			}
			return true
		})
	}
	walk(f.Body, false)
	return ok
}

// c20Joins: the call waits for another goroutine: (*sync.WaitGroup).Wait, or a function of this module whose body
// (callees included, three levels) contains such a wait or a channel receive outside a select with a default.
func c20Joins(p *chk.Prog, f *chk.Fn, c *ast.CallExpr, depth int) bool {
	fn, _ := f.Callee(c).(*types.Func)
	if fn == nil {
		// a method called through an interface of this module: every implementation counts
		if sel, ok := ast.Unparen(c.Fun).(*ast.SelectorExpr); ok {
			if s := f.Info().Selections[sel]; s != nil && s.Kind() == types.MethodVal {
				if m, isFn := s.Obj().(*types.Func); isFn {
					fn = m
				}
			}
		}
		if fn == nil {
			return false
		}
	}
	if fn.FullName() == "(*sync.WaitGroup).Wait" {
		return true
	}
	if depth >= 3 {
		return false
	}
	var bodies []*chk.Fn
	if cf := p.FnOf(fn); cf != nil && cf.Body != nil {
		bodies = append(bodies, cf)
	} else if sig, ok := fn.Type().(*types.Signature); ok && sig.Recv() != nil {
		if _, isIface := sig.Recv().Type().Underlying().(*types.Interface); isIface {
			for _, cand := range p.Funcs() {
				if cand.Decl != nil && cand.Decl.Recv != nil && cand.Decl.Name.Name == fn.Name() && cand.Pkg != nil && strings.HasPrefix(cand.Pkg.PkgPath, chk.Module) && cand.Body != nil {
					bodies = append(bodies, cand)
				}
			}
		}
	}
	for _, cf := range bodies {
		found := false
		chk.InspectNoLit(cf.Body, func(n ast.Node) bool {
			if found {
				return false
			}
			switch y := n.(type) {
			case *ast.SelectStmt:
				return false // a select is the callee's own way of not blocking for ever; not followed
			case *ast.UnaryExpr:
				if y.Op == token.ARROW {
					found = true
				}
			case *ast.CallExpr:
				if c20Joins(p, cf, y, depth+1) {
					found = true
				}
			}
			return true
		})
		if found {
			return true
		}
	}
	return false
}
