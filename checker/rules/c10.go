package rules

import (
	"go/ast"
	"go/token"
	"go/types"
	"strings"

	"verif/mlbcheck/chk"
)

func init() {
	register(&Prop{
		ID: "C10",
		Explanation: "Decided (the only-if direction, on all paths): (*bgpController).ShouldAnnounce returns \"\" only behind poolMatchesNodeBGP(pool, c.myNode), " +
			"!IsNetworkUnavailable(nodes[c.myNode]), the false edge of `!c.ignoreExcludeLB && IsNodeExcludedFromBalancers(nodes[c.myNode])`, " +
			"hasHealthyEndpoint(epSlices, <accept every node>) and - under the Local policy - hasHealthyEndpoint(epSlices, filterNode) with filterNode " +
			"rejecting exactly the entries whose node is nil or differs from c.myNode (GUARDS); in hasHealthyEndpoint an address becomes ready only when no " +
			"entry has expressed an opinion yet and the entry can serve, every entry that cannot serve forces the address to false on every path (false is sticky), " +
			"filtered entries are skipped, and the result is true only for an address still marked ready (STICKY-FALSE); EndpointCanServe is ready-or-serving " +
			"(CANSERVE); poolMatchesNodeBGP is true only for a BGP advertisement of the pool whose Nodes contains the node (POOL-NODE).",
		NotDecided: "The if direction (that no additional refusal condition exists) is decided only structurally: every non-empty return sits behind one of the five " +
			"enumerated refusal conditions (NO-EXTRA-REFUSAL). Values of the per-address conjunction over slices beyond the sticky-false structure.",
		Run: runC10,
		Mutants: []Mutant{
			{Name: "node-update-dropped-by-resource-version-prefix", File: "internal/k8s/controllers/config_controller.go",
				Old: "\tif labels.Equals(labels.Set(oldNodeObj.Labels), labels.Set(newNodeObj.Labels)) {\n\t\treturn false\n\t}\n\treturn true\n}\n\nfunc filterNamespaceEvent", New: "\tif oldNodeObj.Generation == newNodeObj.Generation {\n\t\treturn false\n\t}\n\tif labels.Equals(labels.Set(oldNodeObj.Labels), labels.Set(newNodeObj.Labels)) {\n\t\treturn false\n\t}\n\treturn true\n}\n\nfunc filterNamespaceEvent", Expect: "CONFIG-NODE-EVENTS"},
			{Name: "bgp-advertisement-skipped-for-pools-that-have-one", File: "internal/config/config.go",
				Old: "\t\t\tif pool, ok := ipPoolMap[poolName]; ok {\n\t\t\t\terr := validateBGPAdvPerPool(adv, pool)", New: "\t\t\tif pool, ok := ipPoolMap[poolName]; ok {\n\t\t\t\tif len(pool.BGPAdvertisements) > 0 && len(adv.Peers) == 0 {\n\t\t\t\t\tcontinue\n\t\t\t\t}\n\t\t\t\terr := validateBGPAdvPerPool(adv, pool)", Expect: "every-existing-pool"},
			{Name: "last-node-selector-wins", File: "internal/config/config.go",
				Old: "\t\tfor _, s := range labelSelectors {\n\t\t\tnodeLabels := labels.Set(node.Labels)\n\t\t\tif s.Matches(nodeLabels) {\n\t\t\t\tres[node.Name] = true\n\t\t\t\tcontinue OUTER\n\t\t\t}\n\t\t}\n\t}\n\treturn res, nil",
				New: "\t\tselected := false\n\t\tfor _, s := range labelSelectors {\n\t\t\tnodeLabels := labels.Set(node.Labels)\n\t\t\tselected = s.Matches(nodeLabels)\n\t\t}\n\t\tif selected {\n\t\t\tres[node.Name] = true\n\t\t\tcontinue OUTER\n\t\t}\n\t}\n\treturn res, nil", Expect: "every-matching-node"},
			{Name: "node-update-filter-needs-condition-on-both-sides", File: "internal/k8s/controllers/node_controller.go",
				Old: "\t\t\tif k8snodes.IsNetworkUnavailable(oldNode) != k8snodes.IsNetworkUnavailable(newNode) {\n\t\t\t\treturn true\n\t\t\t}\n",
				New: "\t\t\tif len(oldNode.Status.Conditions) > 0 && k8snodes.IsNetworkUnavailable(oldNode) != k8snodes.IsNetworkUnavailable(newNode) {\n\t\t\t\treturn true\n\t\t\t}\n", Expect: "NODE-EVENTS"},
			{Name: "endpoint-scan-stops-at-foreign-node", File: "speaker/bgp_controller.go",
				Old: "\t\t\tif filterNode(node) {\n\t\t\t\tcontinue", New: "\t\t\tif filterNode(node) {\n\t\t\t\tbreak", Expect: "STICKY-FALSE"},
			{Name: "unknown-network-status-counts-as-unavailable", File: "internal/k8s/nodes/nodes.go",
				Old: "== corev1.ConditionTrue", New: "!= corev1.ConditionFalse", Expect: "NODE-NETWORK"},
			{Name: "exclusion-label-needs-value-true", File: "internal/k8s/nodes/nodes.go",
				Old: "\tif _, ok := n.Labels[corev1.LabelNodeExcludeBalancers]; ok {", New: "\tif v, ok := n.Labels[corev1.LabelNodeExcludeBalancers]; ok && v == \"true\" {", Expect: "NODE-EXCLUDED"},
			{Name: "unavailable-guard-dropped", File: "speaker/bgp_controller.go",
				Old: "\tif k8snodes.IsNetworkUnavailable(nodes[c.myNode]) {\n\t\tlevel.Warn(l).Log(\"event\", \"skipping should announce bgp\"", New: "\tif k8snodes.IsNetworkUnavailable(nodes[c.myNode]) && !c.ignoreExcludeLB {\n\t\tlevel.Warn(l).Log(\"event\", \"skipping should announce bgp\"", Expect: "GUARDS"},
			{Name: "true-overwrites-false", File: "speaker/bgp_controller.go",
				Old: "if _, ok := ready[addr]; !ok && epslices.EndpointCanServe(ep.Conditions) {", New: "if epslices.EndpointCanServe(ep.Conditions) {", Expect: "STICKY-FALSE"},
			{Name: "node-predicates-on-wrong-key", File: "speaker/bgp_controller.go",
				Old: "\tif !c.ignoreExcludeLB && k8snodes.IsNodeExcludedFromBalancers(nodes[c.myNode]) {", New: "\tif !c.ignoreExcludeLB && k8snodes.IsNodeExcludedFromBalancers(nodes[name]) {", Expect: "GUARDS"},
			{Name: "false-only-when-first-opinion", File: "speaker/bgp_controller.go",
				Old: "\t\t\t\tif !epslices.EndpointCanServe(ep.Conditions) {\n\t\t\t\t\tready[addr] = false\n\t\t\t\t}", New: "\t\t\t\tif _, ok := ready[addr]; !ok && !epslices.EndpointCanServe(ep.Conditions) {\n\t\t\t\t\tready[addr] = false\n\t\t\t\t}", Expect: "STICKY-FALSE"},
			{Name: "local-policy-accepts-any-node", File: "speaker/bgp_controller.go",
				Old: "\t\tif toFilter == nil || *toFilter != c.myNode {\n\t\t\treturn true\n\t\t}", New: "\t\tif toFilter == nil {\n\t\t\treturn true\n\t\t}", Expect: "GUARDS"},
			{Name: "cluster-policy-skips-endpoint-check", File: "speaker/bgp_controller.go",
				Old: "\t} else if !hasHealthyEndpoint(epSlices, func(toFilter *string) bool { return false }) {", New: "\t} else if svc.Spec.ExternalTrafficPolicy != v1.ServiceExternalTrafficPolicyTypeLocal && !hasHealthyEndpoint(epSlices, func(toFilter *string) bool { return false }) {", Expect: "GUARDS"},
			{Name: "extra-refusal-condition", File: "speaker/bgp_controller.go",
				Old: "\t// Should we advertise?\n", New: "\tif len(epSlices) > 3 {\n\t\treturn \"tooManySlices\"\n\t}\n\t// Should we advertise?\n", Expect: "NO-EXTRA-REFUSAL"},
			{Name: "pool-node-any-advertisement", File: "speaker/bgp_controller.go",
				Old: "\tfor _, adv := range pool.BGPAdvertisements {\n\t\tif adv.Nodes[node] {\n\t\t\treturn true\n\t\t}\n\t}\n\treturn false\n}\n\nfunc (c *bgpController) PeersForService", New: "\tfor _, adv := range pool.BGPAdvertisements {\n\t\tif adv.Nodes[node] || len(adv.Peers) == 0 {\n\t\t\treturn true\n\t\t}\n\t}\n\treturn false\n}\n\nfunc (c *bgpController) PeersForService", Expect: "POOL-NODE"},
			{Name: "filter-not-applied", File: "speaker/bgp_controller.go",
				Old: "\t\t\tif filterNode(node) {\n\t\t\t\tcontinue\n\t\t\t}\n", New: "\t\t\tif filterNode(node) && node == nil {\n\t\t\t\tcontinue\n\t\t\t}\n", Expect: "STICKY-FALSE"},
		},
	})
}

func runC10(p *chk.Prog, r *chk.Report) {
	// a withdrawn Service leaves nothing behind for a later session to publish (PROTO-DELETE, shared with C09); a
	// configuration the speaker refused is offered again (COMPARE-BEFORE-APPLY, shared with C18)
	// the advertisements consulted are those of the pool that owns the addresses now (POOL-CURRENT, shared with C09)
	c09PoolCurrent(p, r)
	c09Rebuild(p, r)
	c18Compare(p, r)
	// the advertisements in force for a pool are all those that name or select it (ATTACH, shared with C08, C05)
	c08Attach(p, r)
	configNodeEventsRule(p, r)
	// a failed session update is reported, so that it is retried (PUBLISH, shared with C05)
	c05Publish(p, r)
	nodeExclusionRule(p, r)
	nodeNetworkRule(p, r)
	c10Guards(p, r)
	c10Sticky(p, r)
	canServeRule(p, r)
	// the node predicates are re-evaluated when they change: a node event that flips network availability or the
	// exclusion label re-syncs every service (RESYNC, shared with C09)
	c09Resync(p, r)
	// "an advertisement of the pool selects this node" is computed by config.selectedNodes (SELECT, shared with C08)
	c08Select(p, r)
	nodeEventsRule(p, r)
}

func c10Guards(p *chk.Prog, r *chk.Report) {
	x := r.Rule("GUARDS", "B path", "(*bgpController).ShouldAnnounce returns \"\" only behind the five required predicates applied to nodes[c.myNode] / c.myNode", 6)
	f := need(x, p, "speaker", "bgpController", "ShouldAnnounce")
	if f == nil {
		return
	}
	g := f.Graph()
	pool, nodes, eps, svc := isParam(f, "pool"), isParam(f, "nodes"), isParam(f, "epSlices"), isParam(f, "svc")
	me := func(e ast.Expr) bool { return f.MatchWith("RECV.myNode", e, chk.H("RECV", isRecv(f))) != nil }
	// the node predicate handed to hasHealthyEndpoint is read with the polarity hasHealthyEndpoint gives it
	skipWhen, _ := c10SkipPolarity(p)
	// the predicate as a function to look into: a literal (directly or through a local), a function of this module, or a
	// method of the controller taken as a value on the receiver
	predFn := func(e ast.Expr) (*chk.Fn, types.Object) {
		e = unconv(f, e) // a literal converted to a named function type is still that literal
		if lit := funcLitOf(f, g, e); lit != nil {
			if len(lit.Type.Params.List) != 1 || len(lit.Type.Params.List[0].Names) != 1 {
				return f.LitFn(lit), nil
			}
			return f.LitFn(lit), f.Info().Defs[lit.Type.Params.List[0].Names[0]]
		}
		var obj types.Object
		switch y := ast.Unparen(e).(type) {
		case *ast.Ident:
			obj = f.Info().Uses[y]
		case *ast.SelectorExpr:
			if sn := f.Info().Selections[y]; sn != nil && sn.Kind() == types.MethodVal && isRecv(f)(y.X) {
				obj = sn.Obj()
			}
		}
		fo, isFn := obj.(*types.Func)
		if !isFn {
			return nil, nil
		}
		df := p.FnOf(fo)
		if df == nil || df.Body == nil {
			return nil, nil
		}
		var par types.Object
		if pv := df.Param(0); pv != nil {
			par = pv
		}
		return df, par
	}
	acceptAll := func(e ast.Expr) bool {
		lf, _ := predFn(e)
		if lf == nil {
			return false
		}
		rets := lf.Graph().Returns()
		for _, rt := range rets {
			if len(retResults(rt)) != 1 || !lf.IsConstBool(retResults(rt)[0], !skipWhen) {
				return false
			}
		}
		return len(rets) > 0
	}
	onlyMe := func(e ast.Expr) bool {
		lf, par := predFn(e)
		if lf == nil || par == nil {
			return false
		}
		lg := lf.Graph()
		isPar := func(y ast.Expr) bool { return lf.ObjOf(y) == par }
		// left out exactly when the node is unknown or another node
		other := chk.GOr(lg.GPat(true, "P == nil", chk.H("P", isPar)), lg.GPat(false, "*P == RECV.myNode", chk.H("P", isPar)),
			lg.GPat(false, "RECV.myNode == *P", chk.H("P", isPar)))
		if !skipWhen {
			other = chk.GNot(other)
		}
		return lg.BoolResultIs(other) == ""
	}
	// the pool test written in place (the helper is a loop over the pool's BGP advertisements looking for one whose
	// Nodes contains the node): the comparison for an element of that list, carried by the found-flag of the loop
	advLoops := f.RangeLoops(func(e ast.Expr) bool { return f.MatchWith("P.BGPAdvertisements", e, chk.H("P", pool)) != nil })
	selectsInPlace := func(pos bool) chk.Guard {
		return g.GPat(pos, "A.Nodes[ME]", chk.H("A", elementOf(f, func(e ast.Expr) bool { return f.MatchWith("P.BGPAdvertisements", e, chk.H("P", pool)) != nil })), chk.H("ME", me))
	}
	guards := []struct {
		name string
		g    chk.Guard
		msg  string
	}{
		{"pool-selects-me", chk.GOr(g.GPat(true, "poolMatchesNodeBGP(P, ME)", chk.H("P", pool), chk.H("ME", me)), selectsInPlace(true)), "a node that no BGP advertisement of the pool selects can announce"},
		{"network-available", g.GPat(false, "k8snodes.IsNetworkUnavailable(N[ME])", chk.H("N", nodes), chk.H("ME", me)), "a network-unavailable node can announce"},
		{"not-excluded", g.GPat(false, "!RECV.ignoreExcludeLB && k8snodes.IsNodeExcludedFromBalancers(N[ME])", chk.H("N", nodes), chk.H("ME", me)), "a node labelled as excluded can announce although exclusion is not ignored"},
		{"some-ready-endpoint", g.GPat(true, "hasHealthyEndpoint(E, F)", chk.H("E", eps), chk.H("F", acceptAll)), "a Service without any ready endpoint can be announced"},
		{"local-policy-needs-local-endpoint", g.GPat(false, "S.Spec.ExternalTrafficPolicy == L && !hasHealthyEndpoint(E, F)", chk.H("S", svc), chk.H("L", constStr(f, "Local")), chk.H("E", eps), chk.H("F", onlyMe)), "under the Local policy a node without a ready local endpoint can announce"},
	}
	n := 0
	for _, rt := range g.Returns() {
		res := retResults(rt)
		if len(res) != 1 || !f.IsConstString(res[0], "") {
			continue
		}
		n++
		for _, gd := range guards {
			x.Check("ShouldAnnounce:announce:"+gd.name, rt.Pos(), g.Dominated(rt, gd.g), "", gd.msg)
		}
	}
	x.Check("ShouldAnnounce:announce-return", f.Pos(), n == 1, "", "expected exactly one `return \"\"`")

	y := r.Rule("NO-EXTRA-REFUSAL", "B path", "every non-empty return of (*bgpController).ShouldAnnounce sits behind the negation of one of the five required predicates (no additional refusal condition: the `if` direction, structurally)", 5)
	refusals := chk.GAnyOf(
		g.GPat(false, "poolMatchesNodeBGP(P, ME)", chk.H("P", pool), chk.H("ME", me)),
		g.GPat(true, "k8snodes.IsNetworkUnavailable(N[ME])", chk.H("N", nodes), chk.H("ME", me)),
		g.GPat(true, "!RECV.ignoreExcludeLB && k8snodes.IsNodeExcludedFromBalancers(N[ME])", chk.H("N", nodes), chk.H("ME", me)),
		g.GPat(true, "S.Spec.ExternalTrafficPolicy == L && !hasHealthyEndpoint(E, F)", chk.H("S", svc), chk.H("L", constStr(f, "Local")), chk.H("E", eps), chk.H("F", onlyMe)),
		g.GPat(false, "hasHealthyEndpoint(E, F)", chk.H("E", eps), chk.H("F", acceptAll)),
	)
	for i, rt := range g.Returns() {
		res := retResults(rt)
		if len(res) != 1 || f.IsConstString(res[0], "") {
			continue
		}
		tag := types.ExprString(res[0])
		_ = i
		okRef := g.Dominated(rt, refusals)
		if !okRef {
			// in place: the refusal is reached only when no advertisement of the pool selects the node
			for _, rs := range advLoops {
				if forallBefore(f, g, rs, selectsInPlace(false), rt) == "" {
					okRef = true
				}
			}
		}
		y.Check("ShouldAnnounce:refusal["+tag+"]", rt.Pos(), okRef, "", "a refusal is reachable although none of the five required predicates failed")
	}

	z := r.Rule("POOL-NODE", "B path", "speaker.poolMatchesNodeBGP returns true only from inside the loop over pool.BGPAdvertisements behind adv.Nodes[node]", 1)
	pm := p.LookupFunc("speaker", "", "poolMatchesNodeBGP")
	if pm == nil && len(advLoops) > 0 {
		z.OK("poolMatchesNodeBGP:true-needs-selecting-advertisement", f.Pos(), "the pool test is made in place in ShouldAnnounce (decided there)")
	} else if pm == nil {
		pm = need(z, p, "speaker", "", "poolMatchesNodeBGP")
	}
	if pm != nil {
		pg := pm.Graph()
		for _, rt := range pg.Returns() {
			res := retResults(rt)
			if len(res) == 1 && pm.IsConstBool(res[0], true) {
				rs, _ := pm.LoopOf(rt.Node).(*ast.RangeStmt)
				ok := rs != nil && pm.MatchWith("P.BGPAdvertisements", rs.X, chk.H("P", isParamIdx(pm, 0))) != nil &&
					pg.Dominated(rt, pg.GPat(true, "A.Nodes[N]", chk.H("A", rangeVal(pm, rs)), chk.H("N", isParamIdx(pm, 1))))
				z.Check("poolMatchesNodeBGP:true-needs-selecting-advertisement", rt.Pos(), ok, "", "poolMatchesNodeBGP can be true without a BGP advertisement of the pool selecting the node")
			} else if len(res) == 1 && !pm.IsConstBool(res[0], false) {
				// `len(L) > 0` / `len(L) != 0` for the list of the pool's advertisements that select the node
				okLen := false
				for _, pat := range []string{"len(L) > 0", "len(L) != 0", "len(L) >= 1"} {
					if b := pm.MatchNew(pat, res[0]); b != nil {
						okLen = filteredList(pm, pg, b["L"], func(e ast.Expr) bool {
							return pm.MatchWith("P.BGPAdvertisements", e, chk.H("P", isParamIdx(pm, 0))) != nil
						},
							func(a func(ast.Expr) bool, pos bool) chk.Guard {
								return pg.GPat(pos, "A.Nodes[N]", chk.H("A", a), chk.H("N", isParamIdx(pm, 1)))
							})
					}
				}
				if okLen {
					z.OK("poolMatchesNodeBGP:true-needs-selecting-advertisement", rt.Pos(), "non-emptiness of the list of selecting advertisements")
				} else {
					z.Fail("poolMatchesNodeBGP:return-shape", rt.Pos(), "a return that is not a boolean constant")
				}
			}
		}
	}
}

// funcLitOf resolves e to a function literal (directly, or a local variable
// assigned once from a literal).
func funcLitOf(f *chk.Fn, g *chk.Graph, e ast.Expr) *ast.FuncLit {
	e = ast.Unparen(e)
	if lit, ok := e.(*ast.FuncLit); ok {
		return lit
	}
	if id, ok := e.(*ast.Ident); ok {
		rhs, _ := g.DefOf(id, g.FactSite(id))
		if lit, ok := ast.Unparen(rhs).(*ast.FuncLit); ok && rhs != nil {
			return lit
		}
	}
	return nil
}

func c10Sticky(p *chk.Prog, r *chk.Report) {
	x := r.Rule("STICKY-FALSE", "B path", "in speaker.hasHealthyEndpoint: entries for which filterNode(ep.NodeName) holds are skipped; ready[addr] = true is dominated by `no entry recorded yet` and EndpointCanServe(ep.Conditions); on every path through the address loop on which the entry cannot serve, ready[addr] = false is executed; true is returned only for a value still true in the map", 6)
	f := need(x, p, "speaker", "", "hasHealthyEndpoint")
	if f == nil {
		return
	}
	g := f.Graph()
	filter := isParamIdx(f, 1)
	var readyMap types.Object
	trues := g.Find(f.IsAssignPat("R[A]", "true"))
	falses := g.Find(f.IsAssignPat("R[A]", "false"))
	if len(trues) == 0 && len(falses) == 0 {
		// the two conditional writes merged into one assignment of a boolean expression
		if c10StickyValueForm(x, f, g, filter) {
			return
		}
	}
	x.Check("hasHealthyEndpoint:true-site", f.Pos(), len(trues) == 1, "", "expected one `ready[addr] = true`")
	x.Check("hasHealthyEndpoint:false-site", f.Pos(), len(falses) >= 1, "", "no `ready[addr] = false`: an unready entry cannot veto the address")
	if len(trues) != 1 || len(falses) < 1 {
		return
	}
	t := trues[0]
	ix := t.Node.(*ast.AssignStmt).Lhs[0].(*ast.IndexExpr)
	readyMap = f.ObjOf(ix.X)
	addrLoop, _ := f.LoopOf(t.Node).(*ast.RangeStmt)
	if addrLoop == nil {
		x.Fail("hasHealthyEndpoint:address-loop", t.Pos(), "the true assignment is not inside a loop over the entry's addresses")
		return
	}
	epLoop, _ := f.LoopOf(addrLoop).(*ast.RangeStmt)
	if epLoop == nil || f.MatchNew("EP.Addresses", addrLoop.X) == nil || !rangeVal(f, epLoop)(f.MatchNew("EP.Addresses", addrLoop.X)["EP"]) {
		x.Fail("hasHealthyEndpoint:address-loop", t.Pos(), "the address loop does not range over the addresses of the endpoint being examined")
		return
	}
	ep := rangeVal(f, epLoop)
	addr := rangeVal(f, addrLoop)
	x.Check("hasHealthyEndpoint:true:keyed-by-address", t.Pos(), addr(ix.Index), "", "ready is not keyed by the entry's address")
	can := g.GPat(true, "epslices.EndpointCanServe(EP.Conditions)", chk.H("EP", ep))
	cannot := g.GPat(false, "epslices.EndpointCanServe(EP.Conditions)", chk.H("EP", ep))
	noOpinion := chk.GBool(false, definedBy(g, "R[A]", chk.H("R", f.IsObj(readyMap)), chk.H("A", addr)))
	x.Check("hasHealthyEndpoint:true:no-earlier-opinion", t.Pos(), g.Dominated(t, noOpinion), "", "a ready entry can overwrite an earlier `false` for the same address")
	x.Check("hasHealthyEndpoint:true:can-serve", t.Pos(), g.Dominated(t, can), "", "an address can be marked ready by an entry that cannot serve")
	// sticky false: every path through the address-loop body on which the entry
	// cannot serve passes the false assignment
	isFalse := f.IsAssignPat("R[A]", "false", chk.H("R", f.IsObj(readyMap)), chk.H("A", addr))
	loopB, bodyB, _ := g.RangeBlocks(addrLoop)
	skip := false
	if bodyB != nil {
		seen := map[*cfgBlock]bool{}
		var dfs func(b *cfgBlock) bool
		dfs = func(b *cfgBlock) bool {
			for _, n := range b.Nodes {
				if isFalse(n) {
					return false
				}
			}
			for k, s := range b.Succs {
				if g.EdgeImplies(b, k, can) {
					continue
				}
				if s == loopB {
					return true
				}
				if !seen[s] {
					seen[s] = true
					if dfs(s) {
						return true
					}
				}
			}
			return false
		}
		skip = dfs(bodyB)
	}
	x.Check("hasHealthyEndpoint:false-is-sticky", addrLoop.Pos(), !skip, "", "an entry that cannot serve does not always force its address to false (a later or earlier ready entry wins)")
	c10EveryEntry(x, f, addrLoop)
	for _, fs := range falses {
		x.Check("hasHealthyEndpoint:false:cannot-serve", fs.Pos(), g.Dominated(fs, cannot), "", "an address is vetoed by an entry that can serve")
	}
	// filter applied to the endpoint's node (with either polarity: entries with F(node) == skip never reach the addresses)
	okF := c10FilterSkips(f, g, filter, ep, epLoop, addrLoop, true) || c10FilterSkips(f, g, filter, ep, epLoop, addrLoop, false)
	x.Check("hasHealthyEndpoint:filter-applied", epLoop.Pos(), okF, "", "entries rejected by the node filter still contribute addresses")
	// result
	nt := 0
	for _, rt := range g.Returns() {
		res := retResults(rt)
		if len(res) != 1 {
			continue
		}
		if f.IsConstBool(res[0], true) {
			nt++
			rs, _ := f.LoopOf(rt.Node).(*ast.RangeStmt)
			ok := rs != nil && f.Denotes(rs.X, readyMap) && g.Dominated(rt, chk.GBool(true, rangeVal(f, rs)))
			x.Check("hasHealthyEndpoint:true-result-needs-ready-address", rt.Pos(), ok, "", "true is returned without an address that is still marked ready")
		} else if !f.IsConstBool(res[0], false) {
			x.Fail("hasHealthyEndpoint:return-shape", rt.Pos(), "a return that is not a boolean constant")
		}
	}
	x.Check("hasHealthyEndpoint:has-true-result", f.Pos(), nt == 1, "", "unexpected shape")
}

// c10FilterSkips: in hasHealthyEndpoint the entries for which F(ep.NodeName) == skip never reach the address loop, and the
// address loop is only reached with F(ep.NodeName) == !skip.
func c10FilterSkips(f *chk.Fn, g *chk.Graph, filter, ep func(ast.Expr) bool, epLoop, addrLoop *ast.RangeStmt, skip bool) bool {
	es := g.EdgesImplying(chk.GAnyOf(
		g.GPat(skip, "F(EP.NodeName)", chk.H("F", filter), chk.H("EP", ep)),
		g.GPat(skip, "F(N)", chk.H("F", filter), chk.H("N", definedBy(g, "EP.NodeName", chk.H("EP", ep))))))
	if len(es) != 1 {
		return false
	}
	// the filtered edge never reaches the address loop of this entry
	start := chk.Site{G: g, B: es[0].B.Succs[es[0].K], I: 0}
	w := (&chk.Walk{G: g, From: start, Inclusive: true, Hit: func(n ast.Node) bool { return n == ast.Node(addrLoop.X) },
		Cut: func(b *cfgBlock, k int) bool { lb, _, _ := g.RangeBlocks(epLoop); return b == lb }}).Run()
	if w.Found {
		return false
	}
	// and the address loop is dominated by the other edge of the filter
	xs := g.Find(func(n ast.Node) bool { return n == ast.Node(addrLoop.X) })
	if len(xs) != 1 {
		return false
	}
	return g.Dominated(xs[0], chk.GAnyOf(
		g.GPat(!skip, "F(EP.NodeName)", chk.H("F", filter), chk.H("EP", ep)),
		g.GPat(!skip, "F(N)", chk.H("F", filter), chk.H("N", definedBy(g, "EP.NodeName", chk.H("EP", ep))))))
}

// c10SkipPolarity: the value of the node predicate for which hasHealthyEndpoint leaves an entry out (true on the pinned
// tree: the parameter is a filter; false when it is written as a selector). known is false when neither holds.
func c10SkipPolarity(p *chk.Prog) (skip bool, known bool) {
	f := p.LookupFunc("speaker", "", "hasHealthyEndpoint")
	if f == nil {
		return true, false
	}
	g := f.Graph()
	trues := g.Find(f.IsAssignPat("R[A]", "true"))
	if len(trues) != 1 {
		return true, false
	}
	addrLoop, _ := f.LoopOf(trues[0].Node).(*ast.RangeStmt)
	if addrLoop == nil {
		return true, false
	}
	epLoop, _ := f.LoopOf(addrLoop).(*ast.RangeStmt)
	if epLoop == nil {
		return true, false
	}
	for _, s := range []bool{true, false} {
		if c10FilterSkips(f, g, isParamIdx(f, 1), rangeVal(f, epLoop), epLoop, addrLoop, s) {
			return s, true
		}
	}
	return true, false
}

// c10StickyValueForm decides STICKY-FALSE when the per-address update is one assignment `ready[addr] = E`: E must be
// exactly `canServe && (no earlier opinion || the earlier opinion was true)` with the earlier opinion read from
// ready[addr] (comma-ok form) in the same iteration. It reports false when the function does not have that shape.
func c10StickyValueForm(x *chk.R, f *chk.Fn, g *chk.Graph, filter func(ast.Expr) bool) bool {
	var stores []chk.Site
	for _, s := range g.Find(f.IsAssignPat("R[A]", "E")) {
		if _, isMap := f.Info().TypeOf(s.Node.(*ast.AssignStmt).Lhs[0].(*ast.IndexExpr).X).Underlying().(*types.Map); isMap {
			stores = append(stores, s)
		}
	}
	if len(stores) != 1 {
		return false
	}
	t := stores[0]
	as := t.Node.(*ast.AssignStmt)
	ix := as.Lhs[0].(*ast.IndexExpr)
	readyMap := f.ObjOf(ix.X)
	addrLoop, _ := f.LoopOf(t.Node).(*ast.RangeStmt)
	if addrLoop == nil || readyMap == nil {
		return false
	}
	epLoop, _ := f.LoopOf(addrLoop).(*ast.RangeStmt)
	if epLoop == nil || f.MatchNew("EP.Addresses", addrLoop.X) == nil || !rangeVal(f, epLoop)(f.MatchNew("EP.Addresses", addrLoop.X)["EP"]) {
		return false
	}
	x.OK("hasHealthyEndpoint:true-site", t.Pos(), "one assignment of the combined opinion")
	x.OK("hasHealthyEndpoint:false-site", t.Pos(), "one assignment of the combined opinion")
	ep := rangeVal(f, epLoop)
	addr := rangeVal(f, addrLoop)
	x.Check("hasHealthyEndpoint:true:keyed-by-address", t.Pos(), addr(ix.Index), "", "ready is not keyed by the entry's address")
	can := g.GPat(true, "epslices.EndpointCanServe(EP.Conditions)", chk.H("EP", ep))
	lookup := func(idx int) func(ast.Expr) bool {
		return definedByIdx(g, f, "R[A]", idx, chk.H("R", f.IsObj(readyMap)), chk.H("A", addr))
	}
	noOpinion := chk.GBool(false, lookup(1))
	wasTrue := chk.GBool(true, lookup(0))
	spec := chk.GAnd(can, chk.GOr(noOpinion, wasTrue))
	okT := g.DominatedAssuming(t, as.Rhs[0], true, spec)
	okF := g.DominatedAssuming(t, as.Rhs[0], false, chk.GNot(spec))
	// the map kept with the other polarity (`unready[addr] = unready[addr] || !canServe`: an absent entry reads as "not
	// unready"): the stored value must be exactly `cannot serve || the earlier opinion was unready`, and the result is true
	// only for an address whose value is still false
	inverted, directRead := false, false
	if !okT || !okF {
		ast.Inspect(as.Rhs[0], func(n ast.Node) bool {
			if e, isE := n.(ast.Expr); isE && f.MatchWith("R[A]", e, chk.H("R", f.IsObj(readyMap)), chk.H("A", addr)) != nil {
				directRead = true
			}
			return true
		})
		wasSet := chk.GBool(true, lookup(0))
		if directRead {
			wasSet = g.GPat(true, "R[A]", chk.H("R", f.IsObj(readyMap)), chk.H("A", addr))
		}
		nspec := chk.GOr(chk.GNot(can), wasSet)
		if g.DominatedAssuming(t, as.Rhs[0], true, nspec) && g.DominatedAssuming(t, as.Rhs[0], false, chk.GNot(nspec)) {
			inverted, okT, okF = true, true, true
		} else {
			directRead = false
		}
	}
	x.Check("hasHealthyEndpoint:true:no-earlier-opinion", t.Pos(), okT, "", "a ready entry can overwrite an earlier `false` for the same address")
	x.Check("hasHealthyEndpoint:true:can-serve", t.Pos(), okT, "", "an address can be marked ready by an entry that cannot serve")
	x.Check("hasHealthyEndpoint:false-is-sticky", addrLoop.Pos(), okF && !loopSkipsWithout(g, addrLoop, func(n ast.Node) bool { return n == t.Top }, chk.NoGuard) && !loopHasBreak(g, addrLoop), "", "an entry that cannot serve does not always force its address to false (a later or earlier ready entry wins)")
	x.Check("hasHealthyEndpoint:false:cannot-serve", t.Pos(), okF, "", "an address is vetoed by an entry that can serve")
	c10EveryEntry(x, f, addrLoop)
	// the earlier opinion is read in the same iteration, before the store
	okRead := false
	for _, s := range g.Find(func(n ast.Node) bool {
		a2, ok := n.(*ast.AssignStmt)
		return ok && len(a2.Lhs) == 2 && len(a2.Rhs) == 1 && f.MatchWith("R[A]", a2.Rhs[0], chk.H("R", f.IsObj(readyMap)), chk.H("A", addr)) != nil
	}) {
		okRead = chk.InBody(addrLoop, s.Node) && s.Pos() < t.Pos()
	}
	okRead = okRead || directRead
	x.Check("hasHealthyEndpoint:opinion-read-this-iteration", t.Pos(), okRead, "", "the earlier opinion combined with the entry's is not the one recorded for this address")
	okFl := c10FilterSkips(f, g, filter, ep, epLoop, addrLoop, true) || c10FilterSkips(f, g, filter, ep, epLoop, addrLoop, false)
	x.Check("hasHealthyEndpoint:filter-applied", epLoop.Pos(), okFl, "", "entries rejected by the node filter still contribute addresses")
	nt := 0
	for _, rt := range g.Returns() {
		res := retResults(rt)
		if len(res) != 1 {
			continue
		}
		if f.IsConstBool(res[0], true) {
			nt++
			rs, _ := f.LoopOf(rt.Node).(*ast.RangeStmt)
			ok := rs != nil && f.Denotes(rs.X, readyMap) && g.Dominated(rt, chk.GBool(!inverted, rangeVal(f, rs)))
			x.Check("hasHealthyEndpoint:true-result-needs-ready-address", rt.Pos(), ok, "", "true is returned without an address that is still marked ready")
		} else if !f.IsConstBool(res[0], false) {
			x.Fail("hasHealthyEndpoint:return-shape", rt.Pos(), "a return that is not a boolean constant")
		}
	}
	x.Check("hasHealthyEndpoint:has-true-result", f.Pos(), nt == 1, "", "unexpected shape")
	return true
}

// c10EveryEntry: the scan that collects the opinions looks at every slice, every entry and every address: none of the
// loops around the per-address update is left early (an entry that is never looked at can neither veto nor vouch).
func c10EveryEntry(x *chk.R, f *chk.Fn, addrLoop *ast.RangeStmt) {
	bad := scanLeftEarly(f, addrLoop)
	pos := addrLoop.Pos()
	if bad != nil {
		pos = bad.Pos()
	}
	x.Check("hasHealthyEndpoint:every-entry-examined", pos, bad == nil, "", "the scan over slices, entries and addresses can end before the last one (break / return / jump out of the loops): later entries are never examined")
}

// configNodeEventsRule (shared with C08, C05): the per-advertisement node sets are rendered from the nodes' labels by the
// configuration reconciler, which hears of a label change only through its update filter. The filter may drop a Node
// update only when the labels of the old and the new object are equal - whatever else is the same about them.
func configNodeEventsRule(p *chk.Prog, r *chk.Report) {
	x := r.Rule("CONFIG-NODE-EVENTS", "B path", "controllers.filterNodeEvent returns false (drops the update) only behind labels.Equals(labels.Set(old.Labels), labels.Set(new.Labels)) for the two Node objects of the event", 1)
	f := need(x, p, ctrlPkg, "", "filterNodeEvent")
	if f == nil {
		return
	}
	// the decision handed on to a helper (a generic one shared with the other kinds): judged there
	for hop := 0; hop < 2; hop++ {
		rets := f.Graph().Returns()
		if len(rets) != 1 {
			break
		}
		res := retResults(rets[0])
		if len(res) != 1 {
			break
		}
		call, isCall := ast.Unparen(res[0]).(*ast.CallExpr)
		if !isCall || len(call.Args) != 1 || !isParamIdx(f, 0)(call.Args[0]) {
			break
		}
		fo, _ := f.Callee(call).(*types.Func)
		if fo == nil {
			break
		}
		cf := p.FnOf(fo.Origin())
		if cf == nil || cf.Body == nil {
			break
		}
		f = cf
		r.Saw(f)
	}
	g := f.Graph()
	ev := isParamIdx(f, 0)
	asserted := func(fld string) func(ast.Expr) bool {
		return func(e ast.Expr) bool {
			id, isId := ast.Unparen(e).(*ast.Ident)
			if !isId {
				return false
			}
			rhs, _ := g.DefOf(id, g.FactSite(id))
			ta, isTA := ast.Unparen(rhs).(*ast.TypeAssertExpr)
			return rhs != nil && isTA && f.MatchWith("E."+fld, ta.X, chk.H("E", ev)) != nil
		}
	}
	oldN, newN := asserted("ObjectOld"), asserted("ObjectNew")
	var eqs []chk.Guard
	for _, lo := range []string{"O.Labels", "O.GetLabels()"} {
		ln := strings.Replace(lo, "O", "N", 1)
		eqs = append(eqs, g.GPat(true, "labels.Equals(labels.Set("+lo+"), labels.Set("+ln+"))", chk.H("O", oldN), chk.H("N", newN)),
			g.GPat(true, "labels.Equals(labels.Set("+ln+"), labels.Set("+lo+"))", chk.H("O", oldN), chk.H("N", newN)),
			g.GPat(true, "reflect.DeepEqual("+lo+", "+ln+")", chk.H("O", oldN), chk.H("N", newN)),
			g.GPat(true, "maps.Equal("+lo+", "+ln+")", chk.H("O", oldN), chk.H("N", newN)))
	}
	equal := chk.GSame(eqs...)
	n := 0
	for _, rt := range g.Returns() {
		res := retResults(rt)
		if len(res) != 1 {
			continue
		}
		if f.IsConstBool(res[0], true) {
			continue
		}
		n++
		ok := f.IsConstBool(res[0], false) && g.Dominated(rt, equal)
		if !ok && !f.IsConstBool(res[0], false) {
			// the comparison returned directly: !labels.Equals(...)
			if u, isU := ast.Unparen(res[0]).(*ast.UnaryExpr); isU && u.Op == token.NOT {
				ok = f.MatchWith("labels.Equals(labels.Set(O.Labels), labels.Set(N.Labels))", u.X, chk.H("O", oldN), chk.H("N", newN)) != nil ||
					f.MatchWith("labels.Equals(labels.Set(N.Labels), labels.Set(O.Labels))", u.X, chk.H("O", oldN), chk.H("N", newN)) != nil
			}
		}
		x.Check("filterNodeEvent:drop-only-for-equal-labels#"+itoa(n), rt.Pos(), ok, "", "a Node update can be dropped although its labels changed (an extra shortcut before the label comparison): the advertisements' node sets are not re-rendered, and a node that a selector newly matches / no longer matches keeps its old announcing role")
	}
	x.Check("filterNodeEvent:drop-site", f.Pos(), n >= 1, "", "no dropping return found")
}
