#!/bin/bash
# benign_sweep.sh <dir-with-*/v*/patch.diff>...: applies each behaviour-preserving patch to /repo (undone afterwards)
# and runs every property's quick rules on it; any alarm is a false alarm of the machinery.
set -u
cd /repo
if [ -n "$(git status --porcelain --untracked-files=no)" ]; then echo "/repo is dirty; refusing"; exit 2; fi
export GOFLAGS=-mod=mod GOPROXY=off
for p in "$@"; do
  if ! git apply --check $p 2>/dev/null; then echo "== $p: does not apply"; continue; fi
  git apply $p
  RES=$(/verif/bin/mlbcheck sweep 2>&1)
  git checkout -- . ; git clean -fdq -- . 2>/dev/null
  BAD=$(echo "$RES" | grep -vE "^(OK|KNOWN-FINDING|NORMALISED)")
  if [ -z "$BAD" ]; then echo "== $p: silent"; else echo "== $p: ALARM"; echo "$BAD"; fi
done
