#!/bin/bash
# confirm_seed.sh <seed-src-dir> <name>: confirms a seeded change in a scratch worktree of /repo:
#  (1) patch + demo: demo FAILS, (2) patch only: touched packages' existing tests pass (+ go build ./...),
#  (3) no patch + demo: demo PASSES. Writes <seed-src-dir>/confirm.json. Removes the worktree afterwards.
set -u
export GOFLAGS=-mod=mod GOPROXY=off
SRC=$1; NAME=$2
WT=/tmp/confirm/$NAME
rm -rf "$WT"; mkdir -p /tmp/confirm
git -C /repo worktree add -q --detach "$WT" HEAD || exit 2
cleanup() { git -C /repo worktree remove --force "$WT" 2>/dev/null; rm -rf "$WT"; }
trap cleanup EXIT
cd "$WT"
DEMO_CMD=$(python3 -c "import json,sys;print(json.load(open('$SRC/meta.json'))['demo_cmd'])")
PKGS=$(git apply --numstat "$SRC/patch.diff" | awk '{print $3}' | xargs -n1 dirname | sort -u | sed 's#^#./#' | tr '\n' ' ')
git apply "$SRC/patch.diff" || { echo '{"applies": false}' > "$SRC/confirm.json"; exit 1; }
go build ./... > /tmp/confirm/$NAME.build.log 2>&1; BUILD=$?
go vet $PKGS > /tmp/confirm/$NAME.vet.log 2>&1; VET=$?
# existing tests with the patch (no demo)
go test -count=1 $PKGS ./controller/ ./speaker/ 2>&1 | grep -E "^(ok|FAIL|---)" > /tmp/confirm/$NAME.suite.log
SUITE_FAILS=$(grep -E "^--- FAIL" /tmp/confirm/$NAME.suite.log | grep -v "TestManager" | wc -l)
PKG_FAILS=$(grep -E "^FAIL" /tmp/confirm/$NAME.suite.log | grep -v -E "internal/bgp/frr\s|internal/k8s/controllers\s|^FAIL$" | wc -l)
# demo with the patch
cp -r "$SRC/demo/." .
bash -c "$DEMO_CMD" > /tmp/confirm/$NAME.demo_patched.log 2>&1; DEMO_PATCHED=$?
# demo without the patch
git apply -R "$SRC/patch.diff"
bash -c "$DEMO_CMD" > /tmp/confirm/$NAME.demo_clean.log 2>&1; DEMO_CLEAN=$?
python3 - <<PY
import json
json.dump({"applies": True, "build_rc": $BUILD, "vet_rc": $VET, "existing_test_failures": $SUITE_FAILS, "existing_pkg_failures": $PKG_FAILS,
 "demo_rc_with_patch": $DEMO_PATCHED, "demo_rc_without_patch": $DEMO_CLEAN,
 "confirmed": ($BUILD==0 and $SUITE_FAILS==0 and $PKG_FAILS==0 and $DEMO_PATCHED!=0 and $DEMO_CLEAN==0),
 "packages_tested": "$PKGS ./controller/ ./speaker/", "demo_cmd": """$DEMO_CMD"""}, open("$SRC/confirm.json","w"), indent=1)
PY
cat "$SRC/confirm.json"
