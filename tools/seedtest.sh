#!/bin/bash
# seedtest.sh <patch.diff> <prop> [prop...]: applies a seeded change to /repo, runs the quick checks, undoes it.
# Prints one line per property: CAUGHT / MISSED plus the reported obligation keys.
set -u
PATCH=$1; shift
cd /repo
if [ -n "$(git status --porcelain --untracked-files=no)" ]; then echo "/repo is dirty; refusing"; exit 2; fi
git apply "$PATCH" || { echo "patch does not apply"; exit 2; }
trap 'git -C /repo checkout -- . ' EXIT
for P in "$@"; do
  OUT=$(MLB_OUT=/verif/out/seedtest /verif/bin/mlbcheck check $P --tier quick 2>&1); RC=$?
  if [ $RC -eq 1 ]; then
    echo "CAUGHT $P: $(echo "$OUT" | grep -E '^\s+(violated|UNDECIDED)' | awk '{print $2}' | tr '\n' ' ')"
  elif [ $RC -eq 0 ]; then echo "MISSED $P"
  else echo "ERROR $P rc=$RC: $OUT" | head -5; fi
done
