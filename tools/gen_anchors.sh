#!/bin/bash
# gen_anchors.sh: records, on the confirmed tree, which functions carry an identifier the rules name
# (rules/anchors_gen.go): a function of another package that merely shares such a name is then not kept from expansion.
set -e
export GOFLAGS=-mod=mod GOPROXY=off
T=$(mktemp)
cd /repo; [ -z "$(git status --porcelain --untracked-files=no)" ] || { echo "/repo dirty"; exit 2; }
MLB_NO_NORMALISE= MLB_RECORD_ANCHORS=$T /verif/bin/mlbcheck sweep >/dev/null 2>&1 || true
{
  echo "package rules"; echo
  echo 'import "verif/mlbcheck/chk"'; echo
  echo "// pinnedAnchors: \"pkgpath.name\" of the functions of the confirmed tree whose name the rules mention, recorded by"
  echo "// tools/gen_anchors.sh. See chk.Anchors: the same bare name in another package is not an anchor."
  echo "var pinnedAnchors = []string{"
  sort -u $T | grep . | awk '{printf "\t\"%s\",\n", $0}'
  echo "}"; echo
  echo "func init() { chk.Anchors.SetPinned(pinnedAnchors) }"
} > /verif/checker/rules/anchors_gen.go
rm -f $T
gofmt -l /verif/checker/rules/anchors_gen.go; wc -l /verif/checker/rules/anchors_gen.go
