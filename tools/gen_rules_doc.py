#!/usr/bin/env python3
"""Generates /verif/RULES.md from the evidence files (the rules as the checker states them on the current tree)."""
import json, glob, os
ROOT = os.path.dirname(os.path.dirname(os.path.abspath(__file__)))
out = ["# Rules as implemented (generated from /verif/evidence/*.json by tools/gen_rules_doc.py)\n",
       "One section per property: what the check decides, what it does not, and every rule with its engine, statement, and the number of\n"
       "instances (obligations) matched on the current tree together with the frozen floor.\n"]
for f in sorted(glob.glob(os.path.join(ROOT, "evidence", "C*.json"))):
    e = json.load(open(f))
    c = e["coverage"]
    out.append(f"\n## {e['property_id']}\n")
    out.append(f"**Decides.** {c.get('explanation','')}\n")
    out.append(f"**Does not decide.** {c.get('not_decided','')}\n")
    out.append(f"Obligations: {c.get('obligations')} (discharged {c.get('discharged')}, known findings {c.get('known_findings')}); functions analysed: {c.get('n_functions')}.\n")
    out.append("| rule | engine | instances / floor | statement |\n|---|---|---|---|")
    for r in c.get("rules", []):
        text = r['text'].replace('|', '/')
        out.append(f"| {r['id']} | {r['engine']} | {r['instances']} / {r['floor']} | {text} |")
    if c.get("information"):
        out.append("\nInformation (never violations):")
        for i in c["information"]:
            out.append(f"* {i}")
open(os.path.join(ROOT, "RULES.md"), "w").write("\n".join(out) + "\n")
print("written RULES.md")
