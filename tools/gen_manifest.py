#!/usr/bin/env python3
"""Regenerates /verif/MANIFEST.json from the table below (kept valid at all times)."""
import json, os, subprocess, sys

ROOT = os.path.dirname(os.path.dirname(os.path.abspath(__file__)))
BIN = "/verif/bin/mlbcheck"

# property -> (technique, level text, level note, design ref)
CLAIMED = {}
def claim(pid, technique, text, note, ref):
    CLAIMED[pid] = dict(technique=technique, text=text, note=note, ref=ref)

exec(open(os.path.join(ROOT, "tools", "claims.py")).read())

props = [json.loads(l) for l in open(os.path.join(ROOT, "properties.jsonl"))]
checks, na = [], []
for p in props:
    pid = p["id"]
    if pid in CLAIMED:
        c = CLAIMED[pid]
        checks.append({
            "property_id": pid,
            "quick_cmd": f"{BIN} check {pid} --tier quick",
            "thorough_cmd": f"{BIN} check {pid} --tier thorough",
            "evidence_file": f"/verif/evidence/{pid}.json",
            "replay_cmd_template": f"{BIN} explain {{path}}",
            "engine": "mlbcheck",
            "level_claimed": {"category": "other", "text": c["text"], "design_ref": c["ref"]},
            "level_note": c["note"],
            "technique": c["technique"],
        })
    else:
        na.append({"property_id": pid, "reason": NOT_APPLICABLE.get(pid, "check not built yet in this session; no claim is made")})

baseline = json.load(open("/root/.vp/BASELINE.json"))["cmd"]
manifest = {
    "version": 1,
    "setup_cmd": "cd /verif/checker && GOFLAGS=-mod=mod GOPROXY=off GOWORK=off GOTOOLCHAIN=auto GOSUMDB=sum.golang.org go build -o /verif/bin/mlbcheck ./cmd/mlbcheck",
    "hooks": {
        "guard": "verif",
        "enable": "none: static analysis reads the sources as they are; no hook or instrumentation commit exists in /repo",
        "baseline_off_cmd": baseline,
        "source_commits": [],
        "add_only": True,
    },
    "engines": [{
        "name": "mlbcheck",
        "path": "/verif/checker",
        "serves_properties": sorted(CLAIMED),
        "kind_free_text": "repo-specific static analyser (go/packages + go/types + go/cfg + text/template/parse): path rules on control-flow graphs, ownership / who-may-call, sibling agreement, lock discipline, map-order taint, numeric typestates, wire-layout agreement, template type checking; mutants applied through in-memory overlays test every rule both ways",
    }],
    "checks": checks,
    "not_applicable": na,
    "notes": "Technique family: static analysis only. Every verdict is computed from /repo's current working tree on every run; nothing executes MetalLB code. Level 'other' everywhere: structural necessary conditions decided on all paths, not a proof of the behavioural statement (see DESIGN.md section 5 for what each check does not decide). Genuine defects found are recorded in /verif/known_findings.txt (fixed: / known: lines).",
}
json.dump(manifest, open(os.path.join(ROOT, "MANIFEST.json"), "w"), indent=1)
print("claimed:", sorted(CLAIMED), "not_applicable:", [n["property_id"] for n in na])
