#!/bin/bash
# gen_sigs.sh: records, on the confirmed tree, the signature of every function of the module (rules/sigs_gen.go); the
# normalisation uses it to recognise an anchored function that was renamed or turned into a method (chk/restore.go).
set -e
export GOFLAGS=-mod=mod GOPROXY=off
T=$(mktemp)
cd /repo; [ -z "$(git status --porcelain --untracked-files=no)" ] || { echo "/repo dirty"; exit 2; }
MLB_NO_NORMALISE=1 MLB_RECORD_SIGS=$T /verif/bin/mlbcheck sweep >/dev/null 2>&1 || true
python3 - "$T" <<'PY'
import sys,json
out=["package rules","",'import "verif/mlbcheck/chk"',"",
"// pinnedSigs: the signatures of the functions of the confirmed tree (package path, receiver, name, parameter names,",
"// parameter types, result types), recorded by tools/gen_sigs.sh. See chk/restore.go.",
"var pinnedSigs = []chk.PinnedSig{"]
def lst(s,sep):
    items=[x for x in s.split(sep)] if s!="" else []
    return "[]string{"+", ".join(json.dumps(x) for x in items)+"}"
for l in open(sys.argv[1]):
    l=l.rstrip("\n")
    if not l: continue
    pkg,recv,name,pn,pt,rt,sels=(l.split("\t")+[""])[:7]
    if "/e2etest" in pkg or "/api/" in pkg and name.startswith("DeepCopy"): continue
    out.append("\t{Pkg: %s, Recv: %s, Name: %s, PNames: %s, PTypes: %s, RTypes: %s, Sels: %s}," % (json.dumps(pkg),json.dumps(recv),json.dumps(name),lst(pn,","),lst(pt,";"),lst(rt,";"),lst(sels,",")))
out+=["}","","// pinnedFields: the fields of the named struct types of the confirmed tree (package, type, field, field type).",
"var pinnedFields = []chk.PinnedField{"]
for l in open(sys.argv[1]+".fields"):
    l=l.rstrip("\n")
    if not l: continue
    pkg,typ,name,ft=l.split("\t")
    if "/e2etest" in pkg or "/api/" in pkg: continue
    out.append("\t{Pkg: %s, Type: %s, Name: %s, FType: %s}," % (json.dumps(pkg),json.dumps(typ),json.dumps(name),json.dumps(ft)))
out+=["}","","func init() { chk.SetPinnedSigs(pinnedSigs); chk.SetPinnedFields(pinnedFields) }",""]
open("/verif/checker/rules/sigs_gen.go","w").write("\n".join(out))
PY
rm -f $T $T.fields
gofmt -w /verif/checker/rules/sigs_gen.go; wc -l /verif/checker/rules/sigs_gen.go
