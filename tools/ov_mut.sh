#!/bin/bash
# ov_mut.sh <patch.diff> <file> <python-regex> <replacement> <Cxx>: a change on top of a recorded (benign) change, as an
# in-memory overlay: applies the patch to scratch copies, substitutes once in <file>, runs the property's quick check.
set -u
P=$1; F=$2; RE=$3; REPL=$4; PROP=$5
T=$(mktemp -d); trap 'rm -rf $T' EXIT
for f in $(grep -E '^\+\+\+ b/' "$P" | sed 's#^+++ b/##' | cut -f1); do mkdir -p $T/$(dirname $f); cp /repo/$f $T/$f 2>/dev/null; done
[ -f $T/$F ] || { mkdir -p $T/$(dirname $F); cp /repo/$F $T/$F; }
patch -p1 -s -f -d $T -i "$(realpath $P)" || exit 2
python3 - "$T" "$F" "$RE" "$REPL" <<'PY'
import sys,re,json,os
T,F,RE,REPL=sys.argv[1:5]
s=open(os.path.join(T,F)).read()
n=len(re.findall(RE,s,flags=re.S))
if n!=1: print("pattern occurs",n,"times"); sys.exit(3)
s=re.sub(RE,REPL,s,count=1,flags=re.S)
open(os.path.join(T,F),'w').write(s)
ov={}
for root,_,files in os.walk(T):
    for fn in files:
        if fn=='ov.json': continue
        p=os.path.join(root,fn); ov['/repo/'+os.path.relpath(p,T)]=open(p).read()
json.dump(ov,open(os.path.join(T,'ov.json'),'w'))
PY
[ $? -eq 0 ] || exit 3
MLB_OUT=$T/out /verif/bin/mlbcheck check $PROP --overlay $T/ov.json 2>&1 | grep -E "violated|UNDECIDED|^OK|^VIOLATION" | cut -c1-220
