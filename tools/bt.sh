#!/bin/bash
# bt.sh <patch> [dumpdir]: apply a patch to /repo, sweep all properties, undo; optional dump of the normalised sources.
cd /repo || exit 2
if [ -n "$(git status --porcelain --untracked-files=no)" ]; then echo "/repo is dirty"; exit 2; fi
export GOFLAGS=-mod=mod GOPROXY=off
git apply "$1" || exit 2
if [ -n "${2:-}" ]; then rm -rf "$2"; mkdir -p "$2"; export MLB_DUMP_NORM="$2"; fi
/verif/bin/mlbcheck sweep 2>&1 | grep -vE '^(OK|KNOWN-FINDING|NORMALISED)'
git checkout -- . ; git clean -fdq -- . 2>/dev/null
