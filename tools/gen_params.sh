#!/bin/bash
# gen_params.sh: records, on the confirmed tree, the position of every parameter the rules name
# (rules/params_gen.go), so that a renamed parameter is still found by position.
set -e
export GOFLAGS=-mod=mod GOPROXY=off
T=$(mktemp); rm -f $T
cd /repo; [ -z "$(git status --porcelain --untracked-files=no)" ] || { echo "/repo dirty"; exit 2; }
MLB_RECORD_PARAMS=$T /verif/bin/mlbcheck sweep >/dev/null 2>&1 || true
{
  echo "package rules"; echo
  echo "// paramIndex: position (receiver excluded) of the parameters the rules refer to by name, recorded on the"
  echo "// confirmed tree by tools/gen_params.sh; used only when a parameter of that name no longer exists."
  echo "var paramIndex = map[string]int{"
  sort -u $T | awk -F'\t' '{printf "\t\"%s#%s\": %s,\n", $1, $2, $3}'
  echo "}"
} > /verif/checker/rules/params_gen.go
rm -f $T
gofmt -l /verif/checker/rules/params_gen.go
wc -l /verif/checker/rules/params_gen.go
