#!/bin/bash
# install_seed.sh <prop> <variant>: copies a confirmed seeded change into /verif/seeded/<prop>-<variant>/
set -e
P=$1; V=$2; SRC=/tmp/seed-out/$P/$V; DST=/verif/seeded/$P-$V
[ "$(jq -r .confirmed $SRC/confirm.json)" = "true" ] || { echo "$P $V not confirmed"; exit 1; }
rm -rf $DST; mkdir -p $DST
cp $SRC/patch.diff $DST/patch.diff
cp -r $SRC/demo $DST/demo
python3 - <<PY
import json
m=json.load(open("$SRC/meta.json")); c=json.load(open("$SRC/confirm.json"))
out={"id":"$P-$V","property":"$P","breaks":m.get("summary",""),"mechanism":m.get("mechanism",""),"needs_to_manifest":m.get("needs",""),
 "files_touched":m.get("files_touched",[]),"demo_cmd":m.get("demo_cmd",""),
 "origin":"written by an independent sub-agent that saw only the property text and a scratch worktree (nothing from /verif)",
 "confirmed_by_me":{"how":"tools/confirm_seed.sh in a scratch worktree of /repo (removed afterwards): go build ./..., go vet and go test of the touched packages plus ./controller/ ./speaker/ with the patch (no demo): green; demo with patch: FAILS; demo without patch: PASSES",
   "result":c},
 "base_commit":"$(git -C /repo rev-parse --short HEAD)"}
json.dump(out,open("$DST/meta.json","w"),indent=1)
PY
echo installed $DST
