# Table of claimed properties, read by gen_manifest.py.
NOT_APPLICABLE = {}
NOTE = ("Trusted base: go/packages, go/types and go/cfg of golang.org/x/tools v0.29.0; the rule tables in checker/rules (each instance confirmed by reading the code); "
        "no pointer analysis (guarded structures are assumed to be reached through their owning receiver); facts about a local variable are discarded where it is defined again; facts about fields / elements are read as 'at the time of the test' and survive a later store unless store and test share a loop. "
        "Decides the structural clauses listed in the evidence file's coverage.explanation; does not decide coverage.not_decided. "
        "The complete current list of rules with their statements and instance counts is in /verif/RULES.md and in coverage.rules of the evidence file.")

claim("C01", "CFG path rules (dominance, for-all loops), ownership/who-may-call, call-site argument agreement",
      "Structural necessary conditions of address exclusivity decided on all paths of the current source: who may write the sharing bookkeeping, checkSharing before assign for every stored address, the shape of checkSharing/sharingOK/BackendKey, argument agreement at the five controller call sites, re-sync after a key change. Not a proof of the behavioural statement over histories.",
      NOTE, "DESIGN.md section 5, C01")

claim("C02", "CFG dominance of filters over every address producer, comparator direction analysis, branch reachability",
      "Every producer of an address (getIPFromCIDR, poolFor, pinned/fallback pool lists, family selection) is dominated by its membership / policy filters, and the explicit-request branches cannot reach automatic allocation; decided on all paths of the current source. Not a proof of the value-level policy.",
      NOTE, "DESIGN.md section 5, C02")
claim("C03", "frozen table of admissible reasons + reachability, path-sensitive typestate (emptiness), ownership of Unassign, dominance",
      "On all paths of convergeBalancer/SetBalancer/SetPools/Allocate: outside twelve enumerated reasons no clear/reset/allocation is reachable, recorded addresses are re-adopted before allocation, existing allocations are returned unchanged, re-grouped pools re-home, no status write without a difference; restart gate/order shared with C06; READOPT-FIRST (the first full pass re-adopts before it allocates) is a recorded known finding (D15). Not a proof of the frame condition over histories. Round 8: what a reconciler reads from the API is used only when the read succeeded (FETCH-CHECKED), and the full pass that opens the restart gate is started by reload requests only (RELOAD-ONLY).",
      NOTE, "DESIGN.md section 5, C03")
claim("C06", "CFG dominance (gate), field ownership, comparator analysis, sibling agreement of SyncState switches, path-sensitive typestate",
      "Restart gate, gate write, assigned-first order, Error->retry / ReprocessAll->reload in all five switches, failed status write -> SyncStateError without touching the allocator, clear-before-allocate, refused requests give their addresses back, the client's UpdateStatus reports every API refusal and the full pass lists the Services in one unrestricted call (WRITE-ERR); decided on all paths. READOPT-FIRST (a re-adoption pass before the allocating pass) is a recorded known finding (D15). Not a proof of restart equivalence over crash points. Round 8: FETCH-CHECKED and RELOAD-ONLY (the gate cannot be opened by a per-Service event before the pools were delivered).",
      NOTE, "DESIGN.md section 5, C06")
claim("C07", "must-pass-through / branch-always path rules, loop-exit analysis, parameter-threading agreement across call sites",
      "Every release path requests and propagates a full re-sync; the free-address search has no early exit and uses the same keys as the final Assign; decided on all paths. Not a completeness proof against an admissibility oracle.",
      NOTE, "DESIGN.md section 5, C07")

claim("C04", "comparator analysis (SORT-IDX, SORT-KEY), map-order must-pass-through, CFG dominance of eligibility filters, known-finding gate",
      "The layer-2 election is a deterministic key-based argmin over candidates that all passed the eligibility filters; decided on all paths. ELECTION-SCOPE is a recorded known finding (D9). Not a proof that speakers share a view. Round 8: MEMBERSHIP (UsableSpeakers reports `disabled` only without memberlist and otherwise every member; every membership event forces a resync) and the address list handed to the election (IP-CHANGE, shared with C09).",
      NOTE, "DESIGN.md section 5, C04")
claim("C05", "CFG path rules, loop-skip analysis, field-coverage (sibling) tables, ownership of activeAds",
      "Per-(address, advertisement) route construction, per-peer filtering, republish-after-change, session selection, Peer->SessionParameters coverage, wholesale replacement of activeAds; decided on all paths. Not a proof of route-set equality as values.",
      NOTE, "DESIGN.md section 5, C05")
claim("C09", "must-pass-through on every exit, branch-always, ownership, for-all loops, shape analysis of the set-comparison helper",
      "Every exit withdraws or evaluates, refusal and errors withdraw/retry in the right order, per-protocol state is rebuilt not accumulated, configuration and node changes request a re-sync; decided on all paths. Not a proof of fresh-speaker equivalence over histories. Round 8: a configuration refused because of what is announced is reported as SyncStateError so that it is retried (REFUSAL-RETRIED); MEMBERSHIP; the withdraw message names every prefix (WHOLE-WITHDRAW).",
      NOTE, "DESIGN.md section 5, C09")
claim("C10", "CFG dominance of required guards, refusal-reason enumeration, sticky-false path rule inside the address loop",
      "The empty (announce) answer is dominated by all five required predicates on the local node, no other refusal exists, an unready entry always vetoes its address; decided on all paths.",
      NOTE, "DESIGN.md section 5, C10")
claim("C12", "comparator analysis (key-based argmin premise of rendezvous hashing)",
      "Structural premise of rendezvous hashing decided (same key expression at i and j, key inputs = node name and first address only, winner = element 0 of the sorted list); minimal failover follows mathematically. ELECTION-SCOPE is a recorded known finding (D9). Round 8: MEMBERSHIP and IP-CHANGE are decided for this property as well.",
      NOTE, "DESIGN.md section 5, C12")

claim("C08", "for-all-loop guard analysis, CFG dominance, field ownership, emptiness guard on parser results",
      "The accept path of the configuration always runs the exactness / disjointness / node-IP / containment / local-preference checks for every element, and the parser cannot accept an entry yielding nothing; decided on all paths. Not a proof of the arithmetic inside ipaddr.Summarize or of selector semantics.",
      NOTE, "DESIGN.md section 5, C08")
claim("C18", "map-iteration-order taint analysis over the call-graph closure, comparator analysis (SORT-IDX, total order), field coverage, CFG dominance",
      "Neither API listing order nor Go map order can reach the compared configuration value: all listed kinds are sorted copies, no map-ordered slice escapes unsorted from the closure of config.For/toConfig, comparators index what they sort, reconcilers compare before applying, the remembered configuration is not written by the handlers (SHARED-CONFIG; D16 repaired in a88bb7b) and acceptance of an advertisement judges every address group by its own family (ADV-VALID). Decided for every input at once. Not decided: last-writer-wins value questions beyond the structural MAP-LWW rule, order of error messages. Round 8: the remembered configuration changes only with the handler's outcome; FETCH-CHECKED; the per-Service advertisement copies the peer list (AD-BUILD).",
      NOTE, "DESIGN.md section 5, C18")

claim("C11", "sibling set agreement (assign vs Unassign), loop must-pass rules, numeric typestates (saturating accumulator, guarded decrement), field-map agreement",
      "Bookkeeping symmetry per address on all paths (including a pool that no longer exists), zero-delete, refresh-after-mutation, saturation and non-negativity of the capacity counters, name-for-name status copy with write errors returned. Not decided: the /24 arithmetic arm of poolCount, equality with a rebuilt allocator as values.",
      NOTE, "DESIGN.md section 5, C11")
claim("C20", "must-hold lockset dataflow with caller-holds fixed point and LIFO defer modelling, who-may-call / method-value escape analysis, alias-of-guarded-storage check",
      "Mutual exclusion premises decided on all paths: handlers only run under the Listener mutex, every guarded field is accessed under its lock, callbacks and channel sends run outside the fine-grained locks, no mutable guarded storage is handed out, nothing waits for another goroutine under the announcer lock, the status reconcilers never write through what a fetcher handed out (FETCHED-READONLY), and nothing outside internal/config stores into the parsed configuration that the reconcilers compare lock-free - directly, or through a pointer / map / slice field of a copy or of the session parameters built from it (SHARED-CONFIG; D16 repaired in a88bb7b). Serial equivalence of results is a consequence, not checked on values; lock instances are not distinguished (no pointer analysis); what a local copy of a configuration struct still shares is tracked one field deep (a store through a pointer, map or slice field of the copy), not further. Round 8: a guarded map / slice / pointer taken into a local under the lock is not used after the lock was released (alias check of LOCK-GUARDED).",
      NOTE, "DESIGN.md section 5, C20")

claim("C13", "CFG dominance of reply guards, loop-exhaustion analysis of the verdict, append-iff-increment pairing, lockset dataflow restricted to layer2",
      "The responders reply only behind the request-type, destination and announcer-verdict guards; the verdict is positive only for a matching advertisement and negative only after a full scan; advertisements and reference counts move together; unsolicited announcements need a positive count; all announcer state is lock-guarded. Decided on all paths; packet-level library behaviour is not. Round 8: the service's whole entry is dropped only with its last advertisement.",
      NOTE, "DESIGN.md section 5, C13")
claim("C17", "lockset dataflow, condition-variable wake-up rule, typestate of closed/conn, must-pass / branch-always path rules, field coverage of Equal",
      "Lock discipline of the session, wake-ups after predicate changes, no dial/store after close, ASN refusal, abort on every failed send, the pending set is never dropped, full re-send before the first wait, exact diff/withdraw construction, commit after both phases; decided on all paths. Convergence over all interleavings is not decided. Round 8: WHOLE-WITHDRAW (sendWithdraw encodes every prefix it is given) and VALIDATED (what Set accepts the encoders can encode).",
      NOTE, "DESIGN.md section 5, C17")

claim("C16", "writer/reader layout agreement from packed struct layouts, constant folding of the OPEN literal + RFC 4271 walk, attribute TLV size agreement, narrowing-conversion audit, bounded-decoder rule",
      "Offsets patched into messages equal the layout of the struct written; OPEN option/capability lengths cover exactly their bytes; constant attribute headers match the size of the payload writes; every narrowing is checked; the OPEN decoder reads only through LimitedReaders bound to the announced lengths and cannot panic or spin; the connection's reader is consumed by exact reads only, never through a buffering wrapper (NO-READAHEAD). Decided for every input at once; the value-level round trip is not. Round 8: a result overwritten as a whole starts from everything collected so far (CAPS-UNION whole-result-store); a header read as raw bytes is held to the same length rules.",
      NOTE, "DESIGN.md section 5, C16")

claim("C14", "static type checker for text/template sources against go/types, template line-structure rules, map-order taint, field coverage, CFG dominance",
      "The embedded FRR templates type-check against the Go data structs (the package's own tests need Docker and never run in the baseline), every data field is rendered, neighbour scoping / prefix-list naming / default-deny / on-match-next structure holds, the data handed to the templates is deterministic and complete, family-indexed sets follow the prefix family, every per-neighbour name includes address-or-interface and VRF (NAME-SCOPE), a neighbour entry reads nothing left over from the session visited before it, Set validates and rolls back, merges are guarded. FRR's interpretation of the text is not decided. Round 8: the session table key reads every identifying parameter (SESSION-KEY) and routers are keyed by router id, ASN and VRF (ROUTER-KEY); a template piece moved into a template of its own is read where it is called.",
      NOTE, "DESIGN.md section 5, C14")
claim("C15", "field-sensitive map-order taint with comparator total-order obligations, loop must-pass rules, field coverage, sibling agreement between back ends, lockset dataflow",
      "The FRRConfiguration is a deterministic function of the session set (no map order escapes), allowed prefixes are the sorted de-duplicated prefixes of the neighbour's own session, associations are per session and sorted, password XOR secret, node targeting, parameter coverage, identical validation in all back ends, reconciler state under its lock. Equivalence with FRR mode as values is not decided. Round 8: SESSION-KEY and ROUTER-KEY for the frr-k8s back end.",
      NOTE, "DESIGN.md section 5, C15")

claim("C19", "finite typestate / path rules over the debouncer goroutine's CFG, must-pass submit rules, call-graph reachability for lock freedom, error-return rules",
      "The pending configuration is overwritten only by newer submissions, every non-ignored event arms the timer, failures re-arm and keep the flag, the applied value is the pending variable; every state change of the session manager is followed by generate-and-submit; the reload always writes the whole file (truncating) and signals, and stores nothing through the configuration object it is handed (ACTION-READONLY: the debouncer retries with that object); nothing reachable from the debouncer takes the submitters' mutex; frr-k8s delivery stores before signalling and returns API errors. Liveness/timing is not decided. Round 8: the reload action completes inside the timeout case (no attempt in flight while the loop keeps receiving).",
      NOTE, "DESIGN.md section 5, C19")
