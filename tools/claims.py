# Table of claimed properties, read by gen_manifest.py.
NOT_APPLICABLE = {}
NOTE = ("Trusted base: go/packages, go/types and go/cfg of golang.org/x/tools v0.29.0; the rule tables in checker/rules (each instance confirmed by reading the code); "
        "no pointer analysis (guarded structures are assumed to be reached through their owning receiver); facts established by a branch are assumed not to be invalidated by a later re-assignment of the tested variable. "
        "Decides the structural clauses listed in the evidence file's coverage.explanation; does not decide coverage.not_decided.")

claim("C01", "CFG path rules (dominance, for-all loops), ownership/who-may-call, call-site argument agreement",
      "Structural necessary conditions of address exclusivity decided on all paths of the current source: who may write the sharing bookkeeping, checkSharing before assign for every stored address, the shape of checkSharing/sharingOK/BackendKey, argument agreement at the five controller call sites, re-sync after a key change. Not a proof of the behavioural statement over histories.",
      NOTE, "DESIGN.md section 5, C01")

claim("C02", "CFG dominance of filters over every address producer, comparator direction analysis, branch reachability",
      "Every producer of an address (getIPFromCIDR, poolFor, pinned/fallback pool lists, family selection) is dominated by its membership / policy filters, and the explicit-request branches cannot reach automatic allocation; decided on all paths of the current source. Not a proof of the value-level policy.",
      NOTE, "DESIGN.md section 5, C02")
claim("C03", "frozen table of admissible reasons + reachability, path-sensitive typestate (emptiness), ownership of Unassign, dominance",
      "On all paths of convergeBalancer/SetBalancer/SetPools/Allocate: outside twelve enumerated reasons no clear/reset/allocation is reachable, recorded addresses are re-adopted before allocation, existing allocations are returned unchanged, re-grouped pools re-home, no status write without a difference; restart gate/order shared with C06. Not a proof of the frame condition over histories.",
      NOTE, "DESIGN.md section 5, C03")
claim("C06", "CFG dominance (gate), field ownership, comparator analysis, sibling agreement of SyncState switches, path-sensitive typestate",
      "Restart gate, gate write, assigned-first order, Error->retry / ReprocessAll->reload in all five switches, failed status write -> SyncStateError without touching the allocator, clear-before-allocate; decided on all paths. Not a proof of restart equivalence over crash points.",
      NOTE, "DESIGN.md section 5, C06")
claim("C07", "must-pass-through / branch-always path rules, loop-exit analysis, parameter-threading agreement across call sites",
      "Every release path requests and propagates a full re-sync; the free-address search has no early exit and uses the same keys as the final Assign; decided on all paths. Not a completeness proof against an admissibility oracle.",
      NOTE, "DESIGN.md section 5, C07")
