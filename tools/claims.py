# Table of claimed properties, read by gen_manifest.py.
NOT_APPLICABLE = {}
NOTE = ("Trusted base: go/packages, go/types and go/cfg of golang.org/x/tools v0.29.0; the rule tables in checker/rules (each instance confirmed by reading the code); "
        "no pointer analysis (guarded structures are assumed to be reached through their owning receiver); facts established by a branch are assumed not to be invalidated by a later re-assignment of the tested variable. "
        "Decides the structural clauses listed in the evidence file's coverage.explanation; does not decide coverage.not_decided.")

claim("C01", "CFG path rules (dominance, for-all loops), ownership/who-may-call, call-site argument agreement",
      "Structural necessary conditions of address exclusivity decided on all paths of the current source: who may write the sharing bookkeeping, checkSharing before assign for every stored address, the shape of checkSharing/sharingOK/BackendKey, argument agreement at the five controller call sites, re-sync after a key change. Not a proof of the behavioural statement over histories.",
      NOTE, "DESIGN.md section 5, C01")
