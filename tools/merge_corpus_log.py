#!/usr/bin/env python3
"""merge_corpus_log.py <new-log>...: builds a complete `mlbcheck corpus` log from the rows of the existing RESULTS.md files
(entries not replayed this time keep their recorded outcome) overridden by the entries of the given partial replay logs;
writes it to stdout for tools/corpus_results.py. Used when only the corpora of the properties whose rules changed were replayed."""
import sys, os, re
ROOT = os.path.dirname(os.path.dirname(os.path.abspath(__file__)))
rows = {}
for sub, kind in (("seeded", "breaking"), ("benign", "benign")):
    for ln in open(os.path.join(ROOT, sub, "RESULTS.md")):
        f = [x.strip() for x in ln.split("|")]
        if len(f) < 6 or not re.match(r"C\d\d-[vb]\d+$", f[1]):
            continue
        name, outcome, fired = f[1], f[3], f[4]
        keys = f[5] if kind == "breaking" else ""
        rows[name] = f"{name} {name[:3]} {kind} {outcome} fired={fired} {keys}"
for log in sys.argv[1:]:
    for ln in open(log):
        f = ln.split()
        if len(f) >= 4 and f[2] in ("breaking", "benign"):
            rows[f[0]] = ln.rstrip("\n")
for k in sorted(rows):
    print(rows[k])
