#!/bin/bash
# confirm_benign.sh <ID> [suffix=b] [offset=0] (e.g. C01, or C01 c 4 for the second round): for each /tmp/seed-out/<ID><suffix>/v<k>/patch.diff
# build+test in a scratch worktree and install to /verif/benign/<ID>-b<k+offset>/
set -u
export GOFLAGS=-mod=mod GOPROXY=off
ID=$1; SFX=${2:-b}; OFF=${3:-0}; RND=${4:-}; WT=/tmp/bw-$ID
git -C /repo worktree add -q --detach $WT HEAD 2>/dev/null || { rm -rf $WT; git -C /repo worktree prune; git -C /repo worktree add -q --detach $WT HEAD; }
for d in /tmp/seed-out/${ID}${SFX}/v*/; do
  k=$(basename $d); [ -f $d/patch.diff ] || continue
  cd $WT; git checkout -q -- .; git clean -fdq
  if ! git apply $d/patch.diff; then echo "$ID $k: does not apply"; continue; fi
  # package directories of the touched files (a data file such as a template belongs to the nearest directory with Go files)
  PK=$(for f in $(git diff --name-only); do d=$(dirname $f); while [ "$d" != "." ] && ! ls $d/*.go >/dev/null 2>&1; do d=$(dirname $d); done; echo ./$d; done | sort -u | tr '\n' ' ')
  # the frr package's TestMain needs Docker: its docker_test.go is replaced by a stub through a test overlay
  echo "{\"Replace\": {\"$WT/internal/bgp/frr/docker_test.go\": \"/verif/tools/overlay/frr_docker_stub_test.go.txt\"}}" > /tmp/bw-ov-$ID.json
  OK=true; LOG=$(go build ./... 2>&1 && go vet $PK 2>&1 && go test -count=1 -vet=off -overlay /tmp/bw-ov-$ID.json -skip '^TestManager$' $PK ./controller/ ./speaker/ ./internal/allocator/ ./internal/config/ 2>&1) || OK=false
  n=${k#v}; DST=/verif/benign/$ID-b$((n+OFF)); 
  if $OK; then
    mkdir -p $DST; cp $d/patch.diff $DST/; 
    jq --arg pk "$PK" --arg off "$OFF" --arg rnd "$RND" '. + {confirmed_by_me:{how:("scratch worktree: go build ./..., go vet + go test -count=1 of touched packages ("+$pk+") plus ./controller ./speaker ./internal/allocator ./internal/config: green"), result:true}, origin:"independent sub-agent that saw only the property text", round:(if $rnd != "" then ($rnd|tonumber) elif $off == "0" then 1 else 2 end)}' $d/meta.json > $DST/meta.json
    echo "$ID $k: confirmed"
  else echo "$ID $k: FAILED"; echo "$LOG" | tail -15; fi
done
cd /; git -C /repo worktree remove --force $WT; rm -rf $WT
